#!/venv/bin/python
"""Entry point of every registered check:  check.py <Cxx> [--tier quick|thorough] [--replay f]

Runs under /venv/bin/python with PYTHONPATH forced to /repo/src so that the implementation
that is exercised is /repo's current working tree."""
import argparse
import importlib
import json
import os
import sys

VERIF = os.path.dirname(os.path.abspath(__file__))
REPO = os.environ.get("BB_REPO", "/repo")
WANT_PY = "/venv/bin/python"


def reexec():
    env = dict(os.environ)
    env["PYTHONPATH"] = os.path.join(REPO, "src")
    env["PYTHONHASHSEED"] = "0"
    env["PYTHONDONTWRITEBYTECODE"] = "1"
    env["MPLBACKEND"] = "Agg"
    env["BLUEBONNET_VERIF"] = "1"
    env["BB_REEXEC"] = "1"
    env["OMP_NUM_THREADS"] = "1"
    env["OPENBLAS_NUM_THREADS"] = "1"
    os.execve(WANT_PY, [WANT_PY, os.path.abspath(__file__)] + sys.argv[1:], env)


def main():
    if os.environ.get("BB_REEXEC") != "1":
        reexec()
    sys.path.insert(0, VERIF)
    sys.path.insert(0, os.path.join(VERIF, "tools"))
    ap = argparse.ArgumentParser()
    ap.add_argument("pid", nargs="?")
    ap.add_argument("--tier", default=os.environ.get("VERIF_TIER", "quick"), choices=["quick", "thorough"])
    ap.add_argument("--replay")
    ap.add_argument("--setup", action="store_true")
    a = ap.parse_args()
    from vlib import core
    if a.setup:
        ok, out = core.build_lib(force=True, quiet=False)
        print("library build", "ok" if ok else "FAILED")
        sys.exit(0 if ok else 1)
    seed = int(os.environ.get("VERIF_SEED", "20260930"))
    mod = importlib.import_module(f"checks.{a.pid}")
    if a.replay:
        payload = json.load(open(a.replay))
        if str(payload.get("key", "")).startswith("env-"):
            from vlib import envprobe
            res, diffs, errs = envprobe.run(a.pid, os.path.join(REPO, "src"))
            hit = [d for d in diffs if d[0] == payload["input"]["mode"] and d[1] == payload["input"]["battery_entry"]]
            for d in hit:
                print(json.dumps(dict(mode=d[0], battery_entry=d[1], default=envprobe.summarize(d[2]), in_this_mode=envprobe.summarize(d[3]))))
            sys.exit(1 if hit or errs else 0)
        sys.exit(mod.replay(payload))
    ctx = core.Ctx(a.pid, a.tier, seed)
    import warnings
    warnings.filterwarnings("ignore", category=RuntimeWarning)   # numpy floating-point warnings of probed edge inputs: checked by value, not by message
    try:
        mod.run(ctx)
        # none of the properties is conditional on the interpreter mode or on numpy's error state: a fixed battery of calls per
        # property is repeated in child interpreters (python -O, np.seterr(...)) and compared with the default one
        from vlib import envprobe
        if a.pid in envprobe.BATTERIES:
            envprobe.check(ctx, a.pid, os.path.join(REPO, "src"))
    except Exception as e:  # a crash of the harness is a broken check, never a pass
        import traceback
        traceback.print_exc()
        ctx.broken.append(f"harness error: {type(e).__name__}: {e}")
    sys.exit(core.finish(ctx))


if __name__ == "__main__":
    main()
