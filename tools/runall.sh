#!/bin/bash
# run every check of one tier on the current /repo tree, 4 at a time; summary on stdout
tier=${1:-quick}
cd "$(dirname "$0")/.."
mkdir -p build/logs
ls checks/C*.py | sed 's/.*\///; s/\.py//' | xargs -P 4 -I{} sh -c "/venv/bin/python check.py {} --tier $tier > build/logs/{}.$tier.log 2>&1; echo {} exit=\$? \$(tail -1 build/logs/{}.$tier.log | cut -c1-120)"
