#!/bin/bash
# Re-check compiled property files with Coq's independent checker (coqchk -o) and list the axioms they rely on.
# usage: tools/coqchk_all.sh [timeout_seconds_per_file]   -- works in build/chkall, summary in coqchk_summary.txt
# The property files are compiled against models regenerated from $BB_REPO (default /repo).
set -u
cd "$(dirname "$0")/.."
T=${1:-1800}
D=build/chkall
rm -rf $D; mkdir -p $D build/logs/coqchk
/venv/bin/python - <<PY
import sys, os
sys.path.insert(0, 'tools')
import gen_specs
for g in ("water", "gas", "oil", "reservoir", "fluid", "flowprops", "forecast", "plotting", "fitpressure"):
    p, err = gen_specs.generate(g, "$D")
    print(g, err or "ok")
PY
cp coq/Props/*.v $D/
cd $D
order="Gen_water Gen_gas Gen_oil Gen_reservoir Gen_fluid Gen_flowprops Gen_forecast Gen_plotting Gen_fitpressure C01_matrix C12_blackoil C06_root C07_gas C12_spivey C12_viscosity C04_step_system C04_time_loop C04_end_to_end C01_maxprinciple C01_relaxation C17_shift"
for f in $order; do [ -f $f.v ] && coqc -q -Q ../../coq/Lib BBLib -Q . BBRun $f.v >/dev/null 2>&1 || echo "compile failed: $f"; done
for f in C*.v; do b=${f%.v}; [ -f $b.vo ] || coqc -q -Q ../../coq/Lib BBLib -Q . BBRun $f >/dev/null 2>&1 || echo "compile failed: $b"; done
# ONLY="C02_mesh C05_interpolator ..." re-checks just those files and replaces their lines in the summary
if [ -z "${ONLY:-}" ]; then : > ../../coqchk_summary.txt; fi
for f in C*.vo; do
  b=${f%.vo}
  if [ -n "${ONLY:-}" ]; then case " $ONLY " in *" $b "*) sed -i "/^$b rc=/d" ../../coqchk_summary.txt;; *) continue;; esac; fi
  s=$(date +%s)
  timeout $T coqchk -silent -o -Q ../../coq/Lib BBLib -Q . BBRun BBRun.$b > ../logs/coqchk/$b.log 2>&1
  rc=$?
  e=$(( $(date +%s) - s ))
  ax=$(sed -n '/^\* Axioms:/,/^\* Constants/p' ../logs/coqchk/$b.log | grep -v "PrimInt63\|PrimFloat\|^\*\|^ *$" | sed 's/^ *//' | tr '\n' ' ')
  echo "$b rc=$rc ${e}s axioms: $ax" | tee -a ../../coqchk_summary.txt
done
