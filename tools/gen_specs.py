"""What py2coq translates from /repo, and how (parameter kinds, variants).

generate(name, outdir) regenerates build/<..>/Gen_<name>.v from /repo's *working tree*.
A translation failure is returned (never raised past generate): the caller reports the
obligations that depend on the file as broken.
"""
from __future__ import annotations

import os
import sys

sys.path.insert(0, os.path.dirname(__file__))
import py2coq as P  # noqa: E402

REPO = os.environ.get("BB_REPO", "/repo")
SRC = os.path.join(REPO, "src", "bluebonnet")

_cache = {}


def _fn(mod, name, **kw):
    node = mod.funcs[name]
    tr = P.Tr(mod, node, **kw)
    tr.translate()
    return tr


def gen_water():
    m = P.Module(os.path.join(SRC, "fluids", "water.py"), "Gen_water")
    for f in ("b_water_McCain", "b_water_McCain_dp", "compressibility_water_McCain",
              "density_water_McCain", "viscosity_water_McCain"):
        _fn(m, f)
    for f in ("b_water_McCain", "b_water_McCain_dp", "compressibility_water_McCain",
              "density_water_McCain", "viscosity_water_McCain"):
        _fn(m, f, kinds={"pressure": "arr"})
    return m


def gen_gas():
    m = P.Module(os.path.join(SRC, "fluids", "gas.py"), "Gen_gas")
    for f in ("z_factor_DAK", "b_factor_DAK", "density_DAK", "compressibility_DAK",
              "viscosity_Sutton"):
        _fn(m, f)
    # pseudocritical_point_Sutton: the structured array built by make_nonhydrocarbon_properties
    # is evaluated symbolically; the three fractions become the parameters
    mk = m.funcs["make_nonhydrocarbon_properties"]
    for variant, fluid in (("dry", "dry gas"), ("wet", "wet gas"), ("other", "condensate")):
        node = m.funcs["pseudocritical_point_Sutton"]
        tr0 = P.Tr(m, mk)
        rec = tr0.inline(mk, {"nitrogen": P.Sc("nitrogen"), "hydrogen_sulfide": P.Sc("hydrogen_sulfide"),
                              "co2": P.Sc("co2")})
        tr = P.Tr(m, node, emit_name=f"pseudocritical_point_Sutton_{variant}",
                  fixed={"fluid": fluid}, option=True, ret_annot="option (R * R)",
                  preset={"non_hydrocarbon_properties": (rec, [("nitrogen", "R"), ("hydrogen_sulfide", "R"), ("co2", "R")])})
        tr.translate()
    # the same with one extra (user-supplied) non-hydrocarbon component
    tr0 = P.Tr(m, mk)
    extra = P.Tu([P.St("extra"), P.Sc("x_fraction"), P.Sc("x_mw"), P.Sc("x_tc"), P.Sc("x_pc")])
    rec4 = tr0.inline(mk, {"nitrogen": P.Sc("nitrogen"), "hydrogen_sulfide": P.Sc("hydrogen_sulfide"),
                           "co2": P.Sc("co2"), "others": P.SV([extra])})
    pars4 = [(n, "R") for n in ("nitrogen", "hydrogen_sulfide", "co2", "x_fraction", "x_mw", "x_tc", "x_pc")]
    P.Tr(m, m.funcs["pseudocritical_point_Sutton"], emit_name="pseudocritical_point_Sutton_wet_extra",
         fixed={"fluid": "wet gas"}, option=True, ret_annot="option (R * R)",
         preset={"non_hydrocarbon_properties": (rec4, pars4)}).translate()
    m.variants["pseudocritical_point_Sutton"] = [
        ("pseudocritical_point_Sutton_dry", {"fluid": "dry gas"}),
        ("pseudocritical_point_Sutton_wet", {"fluid": "wet gas"})]
    m.inline_funcs["make_nonhydrocarbon_properties"] = (m, mk)
    _fn(m, "pseudopressure_Hussainy")
    # ---- z_factor_hallyarbrough: a Newton `while` loop.  Its pieces are translated, the loop itself is not:
    #   hy_newton_step pressure t y = (fdum, y')    one pass through the loop body
    #   hy_zfact pressure t y                       the expression returned after the loop
    # fail closed unless the function still has the shape  t = 1/T; y = 0.001; fdum = 1; while abs(fdum) > 0.001: ...; zfact = ..; return zfact
    import ast
    import copy
    hy = m.funcs["z_factor_hallyarbrough"]
    body = [n for n in hy.body if not (isinstance(n, ast.Expr) and isinstance(getattr(n, "value", None), ast.Constant))]
    shape = [type(n).__name__ for n in body]
    if shape != ["Assign", "Assign", "Assign", "While", "Assign", "Return"]:
        raise P.Untranslatable(f"z_factor_hallyarbrough: unexpected statement shape {shape}")
    init = [ast.unparse(n).replace(" ", "") for n in body[:3]]
    if init != ["t=1/temperature", "y=0.001", "fdum=1"]:
        raise P.Untranslatable(f"z_factor_hallyarbrough: unexpected initialisation {init}")
    loop = body[3]
    if ast.unparse(loop.test).replace(" ", "") != "np.abs(fdum)>0.001" or loop.orelse:
        raise P.Untranslatable(f"z_factor_hallyarbrough: unexpected loop condition {ast.unparse(loop.test)}")
    if ast.unparse(body[5].value) != "zfact" or ast.unparse(body[4].targets[0]) != "zfact":
        raise P.Untranslatable("z_factor_hallyarbrough: unexpected return")

    def fdef(name, args, stmts):
        fn = ast.FunctionDef(name=name, args=ast.arguments(posonlyargs=[], args=[ast.arg(arg=a) for a in args], kwonlyargs=[], kw_defaults=[], defaults=[]),
                             body=stmts, decorator_list=[], lineno=hy.lineno, col_offset=0)
        ast.fix_missing_locations(fn)
        return fn
    ret = ast.Return(value=ast.Tuple(elts=[ast.Name(id="fdum", ctx=ast.Load()), ast.Name(id="y", ctx=ast.Load())], ctx=ast.Load()))
    P.Tr(m, fdef("hy_newton_step", ["pressure", "t", "y"], copy.deepcopy(loop.body) + [ret]), emit_name="hy_newton_step").translate()
    # the two components separately (no pairs: used by the certified point evaluations)
    first = copy.deepcopy(loop.body[0])
    if ast.unparse(first.targets[0]) != "fdum":
        raise P.Untranslatable("z_factor_hallyarbrough: the loop body does not start with the residual fdum")
    P.Tr(m, fdef("hy_residual", ["pressure", "t", "y"], [first, ast.Return(value=ast.Name(id="fdum", ctx=ast.Load()))]), emit_name="hy_residual").translate()
    P.Tr(m, fdef("hy_update", ["pressure", "t", "y"], copy.deepcopy(loop.body) + [ast.Return(value=ast.Name(id="y", ctx=ast.Load()))]), emit_name="hy_update").translate()
    P.Tr(m, fdef("hy_zfact", ["pressure", "t", "y"], [ast.Return(value=copy.deepcopy(body[4].value))]), emit_name="hy_zfact").translate()
    return m


def gen_oil():
    gas, _ = module("gas")
    m = P.Module(os.path.join(SRC, "fluids", "oil.py"), "Gen_oil", imports=[gas])
    for f in ("pressure_bubblepoint_Standing", "b_o_bubblepoint_Standing", "db_o_dgor_Standing",
              "solution_gor_Standing", "dgor_dpressure_Standing",
              "oil_compressibility_undersat_Standing", "oil_compressibility_undersat_Spivey",
              "b_o_Standing", "oil_compressibility_Standing", "density_Standing",
              "_mu_dead_to_live_br", "viscosity_beggs_robinson"):
        _fn(m, f)
    # array branches (elementwise form, see py2coq.El): Spivey first, then GOR, then Bo
    for f in ("oil_compressibility_undersat_Spivey", "solution_gor_Standing", "b_o_Standing"):
        _fn(m, f, kinds={"pressure": "arr"})
    return m


def gen_reservoir():
    m = P.Module(os.path.join(SRC, "flow", "reservoir.py"), "Gen_reservoir")
    # positional constructor signatures of the public reservoir classes (dataclass fields, base classes first) and the parameters
    # of their public methods
    for cls in ("IdealReservoir", "SinglePhaseReservoir", "TwoPhaseReservoir", "MultiPhaseReservoir"):
        m.emit_names(f"{cls}_fields", m.dataclass_fields(cls), f"{cls}(...): dataclass fields in constructor order")
    for cls, meth in (("IdealReservoir", "simulate"), ("SinglePhaseReservoir", "simulate"), ("TwoPhaseReservoir", "simulate"), ("IdealReservoir", "recovery_factor")):
        fn_ = m.method(cls, meth)
        m.emit_names(f"{cls}_{meth}_params", [a.arg for a in fn_.args.args], f"{cls}.{meth}: parameters in order")
    # what simulate writes on the object, and WHEN: nothing before or inside the time loop, and after it exactly the statements listed
    # (the object model of C10 - Lib/ObjectSM.v - has a run stored only once it is complete, the recovery cache dropped with it, and a
    # call that raises leaving the object as it was)
    import ast as _ast

    def writes_self(node):
        for x in _ast.walk(node):
            if isinstance(x, (_ast.Assign, _ast.AugAssign, _ast.AnnAssign, _ast.Delete)):
                tg = x.targets if isinstance(x, (_ast.Assign, _ast.Delete)) else [x.target]
                if any(_ast.unparse(t_).startswith("self") for t_ in tg):
                    return True
            if isinstance(x, _ast.Call) and _ast.unparse(x.func).startswith(("self.__dict__", "setattr", "object.__setattr__", "vars(self)", "delattr")):
                return True
        return False
    for cls in ("IdealReservoir", "SinglePhaseReservoir"):
        simf_ = m.method(cls, "simulate")
        sb = [n for n in simf_.body if not (isinstance(n, _ast.Expr) and isinstance(n.value, _ast.Constant))]
        at_ = [i for i, n in enumerate(sb) if isinstance(n, _ast.For)]
        if len(at_) != 1:
            raise P.Untranslatable(f"{cls}.simulate: expected exactly one time loop")
        early = [n for n in sb[:at_[0] + 1] if writes_self(n)]
        if early:
            raise P.Untranslatable(f"{cls}.simulate writes on the object before its run is complete: `{_ast.unparse(early[0]).splitlines()[0]}` (line {early[0].lineno})")
        m.emit_names(f"{cls}_simulate_stores", [_ast.unparse(n) for n in sb[at_[0] + 1:]], f"{cls}.simulate: the statements after the time loop")
    two = m.method("TwoPhaseReservoir", "simulate")
    body2 = [n for n in two.body if not (isinstance(n, __import__("ast").Expr) and isinstance(n.value, __import__("ast").Constant))]
    if [__import__("ast").unparse(n) for n in body2] != ["super().simulate(time)"]:
        raise P.Untranslatable("TwoPhaseReservoir.simulate is no longer the plain delegation `super().simulate(time)`")
    _fn(m, "_build_matrix", emit_name="build_matrix", kinds={"kt_h2": "list"})
    m.aliases = {"_build_matrix": "build_matrix"}
    # fvf_scale of both classes and the flux stencil of recovery_factor
    tr = P.Tr(m, m.method("IdealReservoir", "fvf_scale"), emit_name="fvf_scale_ideal",
              self_fields=["pressure_fracface", "pressure_initial"])
    tr.translate()
    tr = P.Tr(m, m.method("SinglePhaseReservoir", "fvf_scale"), emit_name="fvf_scale_single", self_fields=[])
    tr.translate()
    # ---- the body of the time-stepping loops, up to (excluding) the linear solve: the step's matrix and right-hand side
    import ast
    import copy

    class Rewrite(ast.NodeTransformer):
        """time[i+1] -> t_next, time[i] -> t_cur, pseudopressure[i] -> prev, m_f[i] -> mf_i,
        self.alpha_scaled -> alpha_scaled_fn, self.nx -> nx (the loop body becomes a function of these)"""

        def visit_Subscript(self, node):
            self.generic_visit(node)
            if isinstance(node.value, ast.Name) and node.value.id in ("time", "pseudopressure", "m_f"):
                idx = ast.unparse(node.slice).replace(" ", "")
                name = {("time", "i+1"): "t_next", ("time", "i"): "t_cur", ("pseudopressure", "i"): "prev", ("pseudopressure", "i+1"): "nxt", ("m_f", "i"): "mf_i"}.get((node.value.id, idx))
                if name is None:
                    raise P.Untranslatable(f"line {node.lineno}: unexpected index {node.value.id}[{idx}] in the time loop")
                return ast.copy_location(ast.Name(id=name, ctx=node.ctx), node)
            return node

        def visit_Attribute(self, node):
            self.generic_visit(node)
            if isinstance(node.value, ast.Name) and node.value.id == "self" and node.attr in ("alpha_scaled", "nx"):
                return ast.copy_location(ast.Name(id={"alpha_scaled": "alpha_scaled_fn", "nx": "nx"}[node.attr], ctx=ast.Load()), node)
            return node

    def loop_body(cls):
        f = m.method(cls, "simulate")
        loops = [n for n in f.body if isinstance(n, ast.For)]
        if len(loops) != 1:
            raise P.Untranslatable(f"{cls}.simulate: expected exactly one time loop")
        pre = [n for n in f.body if isinstance(n, ast.Assign) and isinstance(n.targets[0], ast.Name) and n.targets[0].id == "dx_squared"]
        if cls == "SinglePhaseReservoir" and len(pre) != 1:
            raise P.Untranslatable("SinglePhaseReservoir.simulate: dx_squared assignment not found")
        body = [Rewrite().visit(copy.deepcopy(n)) for n in ((pre if cls == "SinglePhaseReservoir" else []) + loops[0].body)]
        return body

    def is_solve(st):
        return isinstance(st, ast.Assign) and "bicgstab" in ast.unparse(st.value)

    def solve_names(cls):
        """the local names the loop gives to the step's matrix and right-hand side: the two positional arguments of the solver call"""
        sv = [st for st in loop_body(cls) if is_solve(st)]
        if len(sv) != 1 or not isinstance(sv[0].value, ast.Call) or len(sv[0].value.args) != 2 or not all(isinstance(a_, ast.Name) for a_ in sv[0].value.args):
            raise P.Untranslatable(f"{cls}.simulate: the iterative solve is not a call `bicgstab(<matrix name>, <right-hand side name>, ...)`")
        return [a_.id for a_ in sv[0].value.args]
    for cls, name, args, kinds in (
            ("SinglePhaseReservoir", "single_step_system", ["alpha_scaled_fn", "nx", "m_i", "mf_i", "t_cur", "t_next", "prev"],
             {"alpha_scaled_fn": "fun", "prev": "list"}),
            ("IdealReservoir", "ideal_step_system", ["dx_squared", "t_cur", "t_next", "prev"], {"prev": "list"})):
        fn = ast.FunctionDef(name=name, args=ast.arguments(posonlyargs=[], args=[ast.arg(arg=a) for a in args], kwonlyargs=[], kw_defaults=[], defaults=[]),
                             body=loop_body(cls), decorator_list=[], lineno=1, col_offset=0)
        ast.fix_missing_locations(fn)
        if cls == "IdealReservoir":
            # IdealReservoir.alpha_scaled is np.ones_like: translate the method and call it
            P.Tr(m, m.method("IdealReservoir", "alpha_scaled"), emit_name="ideal_alpha_scaled", self_fields=[], kinds={"pseudopressure": "list"}).translate()
            class R2(ast.NodeTransformer):
                def visit_Name(self, node):
                    return ast.copy_location(ast.Name(id="ideal_alpha_scaled", ctx=node.ctx), node) if node.id == "alpha_scaled_fn" else node
            fn = R2().visit(fn)
            m.defined["ideal_alpha_scaled"]["ret"] = "list"
        m.defined["build_matrix"]["ret"] = 3
        P.Tr(m, fn, emit_name=name, kinds=kinds, cut_before=is_solve, ret_names=solve_names(cls)).translate()
    # ---- the loop AROUND the step: header `for i in range(len(time) - 1)` (or `time.shape[0] - 1`), no else branch, no break / continue /
    # return inside, level i+1 stored from level i (the store target is checked with the tail below)
    for cls, nm in (("SinglePhaseReservoir", "single"), ("IdealReservoir", "ideal")):
        lp = [n for n in m.method(cls, "simulate").body if isinstance(n, ast.For)][0]
        hdr = f"for {ast.unparse(lp.target)} in {ast.unparse(lp.iter)}"
        if ast.unparse(lp.target) != "i" or ast.unparse(lp.iter) not in ("range(len(time) - 1)", "range(time.shape[0] - 1)"):
            raise P.Untranslatable(f"{cls}.simulate: time loop header is `{hdr}`, expected `for i in range(len(time) - 1)`")
        if lp.orelse or any(isinstance(x, (ast.Break, ast.Continue, ast.Return)) for x in ast.walk(lp)):
            raise P.Untranslatable(f"{cls}.simulate: the time loop has an else branch or leaves an iteration early (break / continue / return)")
        if any(isinstance(x, (ast.For, ast.While)) for b_ in lp.body for x in ast.walk(b_)):
            raise P.Untranslatable(f"{cls}.simulate: a nested loop inside the time loop")
        m.out.append(f"(* {cls}.simulate: `{hdr}:` - the indices the time loop visits, in order, for a grid of nt points *)\n"
                     f"Definition {nm}_loop_indices (nt : nat) : list nat := seq 0 (nt - 1).\n")
    # ... and the ideal class's loop body once more with `self.alpha_scaled` left as a parameter: what a user subclass that overrides
    # the documented hook and inherits `simulate` runs (tie to Lib/ReservoirUser.v in Props/C17_user_law.v)
    fn_u = ast.FunctionDef(name="ideal_step_system_u", args=ast.arguments(posonlyargs=[], args=[ast.arg(arg=a) for a in ("alpha_scaled_fn", "dx_squared", "t_cur", "t_next", "prev")],
                                                                          kwonlyargs=[], kw_defaults=[], defaults=[]),
                           body=loop_body("IdealReservoir"), decorator_list=[], lineno=1, col_offset=0)
    ast.fix_missing_locations(fn_u)
    P.Tr(m, fn_u, emit_name="ideal_step_system_u", kinds={"alpha_scaled_fn": "fun", "prev": "list"}, cut_before=is_solve, ret_names=solve_names("IdealReservoir")).translate()
    # ---- the rest of the loop body: the iterative solve and what is stored.  Expected shape (anything else fails closed):
    #     nxt, info = sparse.linalg.bicgstab(a_matrix, b, atol=<const>, rtol=<const>)
    #     if <test over info and _is_solved(a_matrix, nxt, b)>:
    #         nxt = sparse.linalg.spsolve(a_matrix.tocsc(), b)
    # emitted: the tolerances handed to the solver, and <test> as a boolean function of the flag and of the residual test's outcome
    def const_term(node, what):
        if isinstance(node, ast.Name) and node.id in m.consts:
            node = m.consts[node.id]
        if isinstance(node, ast.Constant) and isinstance(node.value, (int, float)) and not isinstance(node.value, bool):
            return P.lit(node.value)
        raise P.Untranslatable(f"{what}: {ast.unparse(node)} is not a numeric module constant")

    def bexp(node, cls, An="a_matrix", Bn="b"):
        if isinstance(node, ast.BoolOp):
            f = "orb" if isinstance(node.op, ast.Or) else "andb"
            t = bexp(node.values[0], cls, An, Bn)
            for v in node.values[1:]:
                t = f"({f} {t} {bexp(v, cls, An, Bn)})"
            return t
        if isinstance(node, ast.UnaryOp) and isinstance(node.op, ast.Not):
            return f"(negb {bexp(node.operand, cls, An, Bn)})"
        if isinstance(node, ast.Compare) and len(node.ops) == 1 and isinstance(node.left, ast.Name) and node.left.id == "info":
            c = node.comparators[0]
            if isinstance(c, ast.UnaryOp) and isinstance(c.op, ast.USub) and isinstance(c.operand, ast.Constant):
                c = ast.Constant(value=-c.operand.value)
            if not (isinstance(c, ast.Constant) and isinstance(c.value, int) and not isinstance(c.value, bool)):
                raise P.Untranslatable(f"{cls}.simulate: the flag is compared with {ast.unparse(node.comparators[0])}")
            k = f"({c.value})%Z"
            op = type(node.ops[0])
            tbl = {ast.NotEq: f"(negb (Z.eqb info {k}))", ast.Eq: f"(Z.eqb info {k})", ast.Gt: f"(Z.ltb {k} info)", ast.Lt: f"(Z.ltb info {k})",
                   ast.GtE: f"(Z.leb {k} info)", ast.LtE: f"(Z.leb info {k})"}
            if op not in tbl:
                raise P.Untranslatable(f"{cls}.simulate: comparison {ast.unparse(node)}")
            return tbl[op]
        if isinstance(node, ast.Call) and ast.unparse(node).replace(" ", "") == f"_is_solved({An},nxt,{Bn})":
            return "solved"
        raise P.Untranslatable(f"{cls}.simulate: the acceptance test contains {ast.unparse(node)}")

    accept_out = []
    for cls, tag in (("IdealReservoir", "ideal"), ("SinglePhaseReservoir", "single")):
        body = loop_body(cls)
        at = [i for i, st in enumerate(body) if is_solve(st)]
        if len(at) != 1:
            raise P.Untranslatable(f"{cls}.simulate: expected exactly one iterative solve in the time loop")
        tail = body[at[0]:]
        sv = tail[0]
        if not (len(sv.targets) == 1 and ast.unparse(sv.targets[0]).replace(" ", "") in ("(nxt,info)", "nxt,info")):
            raise P.Untranslatable(f"{cls}.simulate: the solve is not `pseudopressure[i + 1], info = ...` ({ast.unparse(sv.targets[0])}): the convergence flag is not kept")
        call = sv.value
        An, Bn = solve_names(cls)
        if not (isinstance(call, ast.Call) and ast.unparse(call.func) == "sparse.linalg.bicgstab" and [ast.unparse(a) for a in call.args] == [An, Bn]):
            raise P.Untranslatable(f"{cls}.simulate: unexpected solver call {ast.unparse(call)}")
        kw = {k.arg: k.value for k in call.keywords}
        if set(kw) - {"atol", "rtol"}:
            raise P.Untranslatable(f"{cls}.simulate: solver options {sorted(set(kw) - {'atol', 'rtol'})} are not modelled")
        atol = const_term(kw["atol"], "atol") if "atol" in kw else "0"
        rtol = const_term(kw["rtol"], "rtol") if "rtol" in kw else "(1 / 100000)"        # scipy's default
        if len(tail) != 2 or not isinstance(tail[1], ast.If) or tail[1].orelse or \
                [ast.unparse(n).replace(" ", "") for n in tail[1].body] != [f"nxt=sparse.linalg.spsolve({An}.tocsc(),{Bn})"]:
            raise P.Untranslatable(f"{cls}.simulate: after the iterative solve the loop is not `if <test>: pseudopressure[i + 1] = spsolve(a_matrix.tocsc(), b)`")
        accept_out.append(f"(* {cls}.simulate: tolerances handed to bicgstab, and the test under which the direct solve replaces its iterate *)\n"
                          f"Definition {tag}_solver_atol : R := {atol}.\nDefinition {tag}_solver_rtol : R := {rtol}.\n"
                          f"Definition {tag}_falls_back (info : Z) (solved : bool) : bool := {bexp(tail[1].test, cls, An, Bn)}.")
    # _is_solved(a_matrix, x, b): `return norm(a_matrix @ x - b) <= <arithmetic over constants and norm(b)>`
    isf = m.funcs.get("_is_solved")
    if isf is None or [a.arg for a in isf.args.args] != ["a_matrix", "x", "b"]:
        raise P.Untranslatable("_is_solved(a_matrix, x, b) not found")
    stm = [n for n in isf.body if not (isinstance(n, ast.Expr) and isinstance(n.value, ast.Constant))]
    # the same norm on both sides: Euclidean (np.linalg.norm(v)) or largest entry (np.abs(v).max())
    norms = {"np.linalg.norm(a_matrix@x-b)": "np.linalg.norm(b)", "np.abs(a_matrix@x-b).max()": "np.abs(b).max()"}
    if not (len(stm) == 1 and isinstance(stm[0], ast.Return) and isinstance(stm[0].value, ast.Compare) and len(stm[0].value.ops) == 1
            and isinstance(stm[0].value.ops[0], (ast.LtE, ast.Lt)) and ast.unparse(stm[0].value.left).replace(" ", "") in norms):
        raise P.Untranslatable("_is_solved: not `return <norm of a_matrix @ x - b> <= ...`")
    b_norm_txt = norms[ast.unparse(stm[0].value.left).replace(" ", "")]

    def rexp(node):
        if ast.unparse(node).replace(" ", "") == b_norm_txt:
            return "b_norm"
        if isinstance(node, ast.BinOp) and isinstance(node.op, (ast.Add, ast.Sub, ast.Mult)):
            return f"({rexp(node.left)} {'+' if isinstance(node.op, ast.Add) else '-' if isinstance(node.op, ast.Sub) else '*'} {rexp(node.right)})"
        return const_term(node, "_is_solved")
    cmp_ = "Rle_dec" if isinstance(stm[0].value.ops[0], ast.LtE) else "Rlt_dec"
    accept_out.append(f"(* _is_solved: res_norm stands for ||A x - b||, b_norm for ||b||, both taken as {b_norm_txt.replace('(b)', '(.)')} *)\n"
                      f"Definition is_solved (res_norm b_norm : R) : bool := if {cmp_} res_norm {rexp(stm[0].value.comparators[0])} then true else false.")
    m.out.append("\n".join(accept_out) + "\n")
    m.uses_z = True
    # ---- the part of SinglePhaseReservoir.simulate before the time loop: schedule handling (None -> constant; a length that
    # differs from len(time) raises) and the initial profile.  Two shapes: schedule None / a float array.
    sim = m.method("SinglePhaseReservoir", "simulate")
    loop_at = [i for i, n in enumerate(sim.body) if isinstance(n, ast.For)]
    if len(loop_at) != 1:
        raise P.Untranslatable("SinglePhaseReservoir.simulate: expected exactly one time loop")

    class Pre(ast.NodeTransformer):
        def visit_Attribute(self, node):
            self.generic_visit(node)
            d = ast.unparse(node)
            ren = {"self.nx": "nx", "self.pressure_fracface": "default_pressure_fracface", "self.fluid.m_i": "fluid_m_i",
                   "self.fluid.m_scaled_func": "fluid_m_scaled_func"}
            if d in ren:
                return ast.copy_location(ast.Name(id=ren[d], ctx=ast.Load()), node)
            return node
    keep = []
    for n in sim.body[:loop_at[0]]:
        txt = ast.unparse(n)
        if isinstance(n, ast.Expr) and isinstance(n.value, ast.Constant):
            continue
        if txt.startswith(("self.time =", "self.__dict__.pop(", "dx_squared =", "pseudopressure = np.empty(", "pseudopressure[0, :] =")):
            continue      # bookkeeping / storage handled by the object model (C10) and the loop-body translation
        keep.append(Pre().visit(copy.deepcopy(n)))
    retp = ast.parse("return (m_f, pseudopressure_initial)").body[0]
    for shape, fixed, kinds in (("scalar", {"pressure_fracface": None}, {}), ("schedule", {}, {"pressure_fracface": "list"})):
        fn = ast.FunctionDef(name="single_prelude_" + shape,
                             args=ast.arguments(posonlyargs=[], args=[ast.arg(arg=a) for a in ("time", "pressure_fracface", "nx", "default_pressure_fracface", "fluid_m_i", "fluid_m_scaled_func")],
                                                kwonlyargs=[], kw_defaults=[], defaults=[]),
                             body=copy.deepcopy(keep) + [retp], decorator_list=[], lineno=sim.lineno, col_offset=0)
        ast.fix_missing_locations(fn)
        P.Tr(m, fn, emit_name="single_prelude_" + shape, option=True, ret_annot="option (list R * list R)", fixed=fixed,
             kinds=dict({"time": "list", "nx": "nat", "fluid_m_scaled_func": "vfun"}, **kinds)).translate()
    # the mesh constants: what each simulate computes from the node count before its loop
    #   ideal:  x = np.linspace(0, 1, self.nx); dx_squared = (x[1] - x[0]) ** 2          single-phase:  dx_squared = (1 / self.nx) ** 2
    class Nx(ast.NodeTransformer):
        def visit_Attribute(self, node):
            if ast.unparse(node) == "self.nx":
                return ast.copy_location(ast.Name(id="nx", ctx=ast.Load()), node)
            if ast.unparse(node).startswith("self."):
                raise P.Untranslatable(f"mesh constant reads {ast.unparse(node)} (only the current node count may enter)")
            return self.generic_visit(node)
    for cls_name, emit in (("IdealReservoir", "ideal_dx_squared"), ("SinglePhaseReservoir", "single_dx_squared")):
        simf = m.method(cls_name, "simulate")
        loop_idx = [i for i, n in enumerate(simf.body) if isinstance(n, ast.For)]
        pre = simf.body[:loop_idx[0]] if loop_idx else simf.body
        # backward slice from dx_squared over the plain assignments before the loop
        need, keep_m = {"dx_squared"}, []
        for n in reversed(pre):
            if isinstance(n, ast.Assign) and len(n.targets) == 1 and isinstance(n.targets[0], ast.Name) and n.targets[0].id in need:
                need.discard(n.targets[0].id)
                need |= {x.id for x in ast.walk(n.value) if isinstance(x, ast.Name) and x.id not in ("np", "self")}
                keep_m.insert(0, n)
        if not keep_m or need - {"np"}:
            raise P.Untranslatable(f"{cls_name}.simulate: dx_squared is not computed from the node count by plain assignments before the loop (open names: {sorted(need)})")
        body_m = [Nx().visit(copy.deepcopy(n)) for n in keep_m] + [ast.parse("return dx_squared").body[0]]
        fn = ast.FunctionDef(name=emit, args=ast.arguments(posonlyargs=[], args=[ast.arg(arg="nx")], kwonlyargs=[], kw_defaults=[], defaults=[]),
                             body=body_m, decorator_list=[], lineno=simf.lineno, col_offset=0)
        ast.fix_missing_locations(fn)
        P.Tr(m, fn, emit_name=emit, kinds={"nx": "nat"}).translate()
    # recovery_factor: the flux stencil of one time level (pp[:, k] -> u_k)
    rf = m.method("IdealReservoir", "recovery_factor")
    rate = [n for n in ast.walk(rf) if isinstance(n, ast.Assign) and isinstance(n.targets[0], ast.Name) and n.targets[0].id == "rate"]
    if len(rate) != 1:
        raise P.Untranslatable("recovery_factor: rate assignment not found")

    class Cols(ast.NodeTransformer):
        def visit_Subscript(self, node):
            txt = ast.unparse(node).replace(" ", "")
            mm = __import__("re").fullmatch(r"pp\[:,(\d)\]", txt)
            if mm:
                return ast.copy_location(ast.Name(id=f"u{mm.group(1)}", ctx=ast.Load()), node)
            raise P.Untranslatable(f"recovery_factor: unexpected subscript {txt}")
    expr = Cols().visit(copy.deepcopy(rate[0].value))
    fn = ast.FunctionDef(name="flux_rate_row", args=ast.arguments(posonlyargs=[], args=[ast.arg(arg=a) for a in ("u0", "u1", "u2", "h_inv")], kwonlyargs=[], kw_defaults=[], defaults=[]),
                         body=[ast.Return(value=expr)], decorator_list=[], lineno=1, col_offset=0)
    ast.fix_missing_locations(fn)
    P.Tr(m, fn, emit_name="flux_rate_row").translate()
    # ... and the whole flux branch of recovery_factor, with the three leading columns of the stored field as parameters:
    #   h_inv = self.nx - 1.0 ; rate = stencil(pp[:, 0..2]) ; cumulative = cumulative_trapezoid(rate, self.time, initial=0) ;
    #   self.recovery = cumulative * self.fvf_scale()
    hinv = [n for n in rf.body if isinstance(n, ast.Assign) and ast.unparse(n.targets[0]) == "h_inv"]
    dens_if = [n for n in rf.body if isinstance(n, ast.If) and ast.unparse(n.test) == "density"]
    store = [n for n in rf.body if isinstance(n, ast.Assign) and ast.unparse(n.targets[0]) == "self.recovery"]
    if not (len(hinv) == 1 and len(dens_if) == 1 and len(store) == 1):
        raise P.Untranslatable("recovery_factor: unexpected structure (h_inv / if density / self.recovery)")

    class Flux(ast.NodeTransformer):
        def visit_Subscript(self, node):
            txt = ast.unparse(node).replace(" ", "")
            mm = __import__("re").fullmatch(r"pp\[:,(\d)\]", txt)
            if mm:
                return ast.copy_location(ast.Name(id=f"u{mm.group(1)}", ctx=ast.Load()), node)
            return self.generic_visit(node)

        def visit_Attribute(self, node):
            d = ast.unparse(node)
            ren = {"self.nx": "nx", "self.time": "time", "self.recovery": "recovery"}
            if d in ren:
                return ast.copy_location(ast.Name(id=ren[d], ctx=node.ctx), node)
            return self.generic_visit(node)

        def visit_Call(self, node):
            if ast.unparse(node) == "self.fvf_scale()":
                return ast.copy_location(ast.Name(id="fvf", ctx=ast.Load()), node)
            return self.generic_visit(node)
    stmts = [copy.deepcopy(hinv[0])] + [copy.deepcopy(n) for n in dens_if[0].orelse if not ast.unparse(n).startswith("pp =")] + [copy.deepcopy(store[0])]
    stmts = [Flux().visit(n) for n in stmts] + [ast.parse("return recovery").body[0]]
    fn = ast.FunctionDef(name="recovery_flux_cols", args=ast.arguments(posonlyargs=[], args=[ast.arg(arg=a) for a in ("u0", "u1", "u2", "time", "nx", "fvf")], kwonlyargs=[], kw_defaults=[], defaults=[]),
                         body=stmts, decorator_list=[], lineno=rf.lineno, col_offset=0)
    ast.fix_missing_locations(fn)
    P.Tr(m, fn, emit_name="recovery_flux_cols", kinds={"u0": "list", "u1": "list", "u2": "list", "time": "list"}).translate()
    # ... and the in-place (density=True) branch, cut at the row sum: the total of one stored level
    #   pseudopressure_to_mass = interp1d(m-scaled, density, fill_value="extrapolate") ; mass = ..(self.pseudopressure) ; np.sum(mass, 1)
    # and what is done with the totals: cumulative = 1.0 - mass_over_time / mass_over_time[0] ; self.recovery = cumulative * self.fvf_scale()
    body = dens_if[0].body
    txts = [ast.unparse(n).replace(" ", "") for n in body]
    if not (len(body) == 4 and txts[1] == "mass=pseudopressure_to_mass(self.pseudopressure)" and txts[2] == "mass_over_time=np.sum(mass,1)"
            and txts[0].startswith("pseudopressure_to_mass=interpolate.interp1d(") and txts[3].startswith("cumulative=")):
        raise P.Untranslatable("recovery_factor: unexpected structure of the density branch")

    class Dens(ast.NodeTransformer):
        def visit_Subscript(self, node):
            d = ast.unparse(node).replace("'", '"')
            ren = {'self.fluid.pvt_props["m-scaled"]': "m_scaled", 'self.fluid.pvt_props["density"]': "density"}
            if d in ren:
                return ast.copy_location(ast.Name(id=ren[d], ctx=ast.Load()), node)
            return self.generic_visit(node)

        def visit_Attribute(self, node):
            d = ast.unparse(node)
            if d == "self.pseudopressure":
                return ast.copy_location(ast.Name(id="level", ctx=ast.Load()), node)
            if d == "self.recovery":
                return ast.copy_location(ast.Name(id="recovery", ctx=node.ctx), node)
            return self.generic_visit(node)

        def visit_Call(self, node):
            if ast.unparse(node) == "self.fvf_scale()":
                return ast.copy_location(ast.Name(id="fvf", ctx=ast.Load()), node)
            return self.generic_visit(node)
    row_stmts = [Dens().visit(copy.deepcopy(n)) for n in body[:2]] + [ast.parse("return np.sum(mass)").body[0]]
    fn = ast.FunctionDef(name="recovery_inplace_total", args=ast.arguments(posonlyargs=[], args=[ast.arg(arg=a) for a in ("m_scaled", "density", "level")], kwonlyargs=[], kw_defaults=[], defaults=[]),
                         body=row_stmts, decorator_list=[], lineno=rf.lineno, col_offset=0)
    ast.fix_missing_locations(fn)
    P.Tr(m, fn, emit_name="recovery_inplace_total", option=True, ret_annot="option R", kinds={"m_scaled": "list", "density": "list", "level": "list"}).translate()
    cum_stmts = [Dens().visit(copy.deepcopy(n)) for n in (body[3], store[0])] + [ast.parse("return recovery").body[0]]
    fn = ast.FunctionDef(name="recovery_inplace_cum", args=ast.arguments(posonlyargs=[], args=[ast.arg(arg=a) for a in ("mass_over_time", "fvf")], kwonlyargs=[], kw_defaults=[], defaults=[]),
                         body=cum_stmts, decorator_list=[], lineno=rf.lineno, col_offset=0)
    ast.fix_missing_locations(fn)
    P.Tr(m, fn, emit_name="recovery_inplace_cum", kinds={"mass_over_time": "list"}).translate()
    # recovery_factor_interpolator: the lookup object built from the stored times and recovery
    #   interpolate.interp1d(time, recovery, bounds_error=False, fill_value=(0, recovery[-1]))
    ri = m.method("IdealReservoir", "recovery_factor_interpolator")
    asg = [n for n in ri.body if isinstance(n, ast.Assign) and ast.unparse(n.targets[0]) == "interpolator"]
    ret = [n for n in ri.body if isinstance(n, ast.Return)]
    if not (len(asg) == 1 and len(ret) == 1 and ast.unparse(ret[0].value) == "interpolator"):
        raise P.Untranslatable("recovery_factor_interpolator: unexpected structure")
    fn = ast.FunctionDef(name="recovery_lookup", args=ast.arguments(posonlyargs=[], args=[ast.arg(arg=a) for a in ("time", "recovery", "q")], kwonlyargs=[], kw_defaults=[], defaults=[]),
                         body=[copy.deepcopy(asg[0]), ast.parse("return interpolator(q)").body[0]], decorator_list=[], lineno=ri.lineno, col_offset=0)
    ast.fix_missing_locations(fn)
    P.Tr(m, fn, emit_name="recovery_lookup", option=True, ret_annot="option R", kinds={"time": "list", "recovery": "list"}).translate()
    return m


FLUID_FIELDS = ["temperature", "api_gravity", "gas_specific_gravity", "solution_gor_initial", "salinity",
                "water_saturation_initial"]
GAS_VALUES = ("rec", [("N2", "R"), ("H2S", "R"), ("CO2", "R"), ("Gas Specific Gravity", "R"),
                      ("Reservoir Temperature (deg F)", "R")])


def gen_fluid():
    gas, _ = module("gas")
    oil, _ = module("oil")
    water, _ = module("water")
    m = P.Module(os.path.join(SRC, "fluids", "fluid.py"), "Gen_fluid", imports=[gas, oil, water])
    m.emit_names("Fluid_fields", m.dataclass_fields("Fluid"), "Fluid(...): dataclass fields in constructor order")
    m.emit_names("build_pvt_gas_params", [a.arg for a in m.funcs["build_pvt_gas"].args.args], "build_pvt_gas: parameters in order")
    for meth in ("water_FVF", "water_viscosity", "gas_FVF", "gas_viscosity", "oil_FVF", "oil_viscosity"):
        P.Tr(m, m.method("Fluid", meth), emit_name="Fluid_" + meth, self_fields=FLUID_FIELDS,
             kinds={"pressure": "list"}).translate()
    P.Tr(m, m.method("Fluid", "pressure_bubblepoint"), emit_name="Fluid_pressure_bubblepoint",
         self_fields=FLUID_FIELDS).translate()
    for variant, dry in (("dry", "dry gas"), ("wet", "wet gas")):
        P.Tr(m, m.funcs["build_pvt_gas"], emit_name=f"build_pvt_gas_{variant}", option=True,
             kinds={"gas_values": GAS_VALUES}, fixed={"gas_dryness": dry}).translate()
    P.Tr(m, m.funcs["pseudopressure"], emit_name="pseudopressure",
         kinds={"pressure": "list", "viscosity": "list", "z_factor": "list"}).translate()
    return m


PVT_REC = ("rec", [("rho_o0", "R"), ("rho_g0", "R"), ("rho_w0", "R")] +
           [(k, "fun") for k in ("Rv", "Rs", "mu_o", "mu_g", "mu_w", "Bo", "Bg", "Bw")])
KR_REC = ("rec", [(k, "fun") for k in ("kro", "krg", "krw")])
RELPERM = ("rec", [(k, "R") for k in ("n_o", "n_w", "n_g", "S_or", "S_wc", "S_gc", "k_ro_max", "k_rw_max", "k_rg_max")])


def re_sub(c):
    import re
    return re.sub(r"\W+", "_", c)


def gen_flowprops():
    import ast
    m = P.Module(os.path.join(SRC, "flow", "flowproperties.py"), "Gen_flowprops")
    m.emit_names("RelPermParams_fields", m.namedtuple_fields("RelPermParams"), "RelPermParams: field order (= positional order)")
    ft = [n for n in m.classes["FlowPropertiesTwoPhase"].body if isinstance(n, ast.FunctionDef) and n.name == "from_table"][0]
    m.emit_names("from_table_params", [a.arg for a in ft.args.args], "FlowPropertiesTwoPhase.from_table: parameters in order")
    m.emit_names("relative_permeabilities_twophase_params", [a.arg for a in m.funcs["relative_permeabilities_twophase"].args.args], "relative_permeabilities_twophase: parameters")
    P.Tr(m, m.funcs["lambda_combined_func"], kinds={"pvt": PVT_REC, "kr": KR_REC}).translate()
    P.Tr(m, m.funcs["compressibility_combined_func"], kinds={"pvt": PVT_REC}).translate()
    P.Tr(m, m.funcs["alpha_multiphase"], kinds={"pvt": PVT_REC, "kr": KR_REC}).translate()
    P.Tr(m, m.funcs["pseudopressure_threephase"], kinds={"pressure": "list", "So": "list", "pvt": PVT_REC, "kr": KR_REC}).translate()
    # Brooks-Corey: one saturation record; translated up to the three kr expressions (the
    # structured-array packing and the final `< 0` clamp are modelled by hand in the property file)
    sat = P.Rows({"So": P.Sc("So"), "Sw": P.Sc("Sw"), "Sg": P.Sc("Sg")})

    def is_pack(st):
        return isinstance(st, ast.Assign) and isinstance(st.targets[0], ast.Name) and st.targets[0].id == "k_rel"
    # ---- FlowProperties.__init__: three table shapes (which columns the caller's table has is static), the body translated as
    # it stands; `self.x = v` becomes a local `self_x`, and the function returns what the object ends up holding:
    # (m_i, the m-scaled column, the alpha column, the alpha lookup as a function R -> option R)
    import copy as _copy

    class SelfAttrs(ast.NodeTransformer):
        def visit_Attribute(self, node):
            self.generic_visit(node)
            if isinstance(node.value, ast.Name) and node.value.id == "self":
                return ast.copy_location(ast.Name(id="self_" + node.attr, ctx=node.ctx), node)
            return node
    init = m.method("FlowProperties", "__init__")
    body = [SelfAttrs().visit(_copy.deepcopy(n)) for n in init.body]
    ret = ast.parse("return (self_m_i, pvt_props['m-scaled'], pvt_props['alpha'], self_alpha)").body[0]
    m.uses_interp = True
    shapes = {"long": ["pressure", "pseudopressure", "compressibility", "viscosity", "z-factor"],
              "short": ["pressure", "pseudopressure", "alpha"],
              "both": ["pressure", "pseudopressure", "compressibility", "viscosity", "z-factor", "alpha"],
              "missing": ["pressure", "pseudopressure", "viscosity"],
              # tables that went through the wrapper before and still carry its derived column (scaled for another initial pressure)
              "long_stale": ["pressure", "pseudopressure", "compressibility", "viscosity", "z-factor", "m-scaled"],
              "short_stale": ["pressure", "pseudopressure", "alpha", "m-scaled"]}
    for shape, cols in shapes.items():
        fn = ast.FunctionDef(name="flowproperties_init_" + shape, args=ast.arguments(posonlyargs=[], args=[ast.arg(arg="pvt_props"), ast.arg(arg="p_i")], kwonlyargs=[], kw_defaults=[], defaults=[]),
                             body=body + [ret], decorator_list=[], lineno=init.lineno, col_offset=0)
        ast.fix_missing_locations(fn)
        rec = P.Di({c: P.DL("col_" + re_sub(c)) for c in cols})
        P.Tr(m, fn, emit_name="flowproperties_init_" + shape, option=True,
             ret_annot="option (R * list R * list R * (R -> option R))",
             preset={"pvt_props": (rec, [("col_" + re_sub(c), "list R") for c in cols])}).translate()
    P.Tr(m, m.funcs["rescale_pseudopressure"], emit_name="rescale_pseudopressure_table", option=True, ret_annot="option (list R * list R)",
         kinds={"df_pvt": ("rec", [("pressure", "list"), ("pseudopressure", "list")])}).translate()
    init_s = m.method("FlowPropertiesSimple", "__init__")
    body_s = [SelfAttrs().visit(_copy.deepcopy(n)) for n in init_s.body]
    for shape, cols in (("ok", ["pressure", "compressibility", "viscosity"]), ("missing", ["pressure", "viscosity"])):
        fn = ast.FunctionDef(name="flowproperties_simple_init_" + shape, args=ast.arguments(posonlyargs=[], args=[ast.arg(arg="pvt_props"), ast.arg(arg="p_i")], kwonlyargs=[], kw_defaults=[], defaults=[]),
                             body=body_s + [ret], decorator_list=[], lineno=init_s.lineno, col_offset=0)
        ast.fix_missing_locations(fn)
        rec = P.Di({c: P.DL("col_" + re_sub(c)) for c in cols})
        P.Tr(m, fn, emit_name="flowproperties_simple_init_" + shape, option=True,
             ret_annot="option (R * list R * list R * (R -> option R))",
             preset={"pvt_props": (rec, [("col_" + re_sub(c), "list R") for c in cols])}).translate()
    P.Tr(m, m.funcs["relative_permeabilities"], emit_name="relative_permeabilities_row", option=True,
         kinds={"params": RELPERM}, preset={"saturations": (sat, [("So", "R"), ("Sw", "R"), ("Sg", "R")])},
         cut_before=is_pack, ret_names=["kro", "krw", "krg"], ret_annot="option (R * R * R)").translate()
    return m


def gen_forecast():
    m = P.Module(os.path.join(SRC, "forecast", "forecast.py"), "Gen_forecast")
    m.emit_names("ForecasterOnePhase_fields", m.dataclass_fields("ForecasterOnePhase"), "ForecasterOnePhase(...): dataclass fields in constructor order")
    m.emit_names("Bounds_fields", m.dataclass_fields("Bounds"), "Bounds(...): dataclass fields in constructor order")
    P.Tr(m, m.funcs["_forecast_cum_onephase"], emit_name="forecast_cum_onephase", kinds={"rf_curve": "fun"}).translate()

    # ForecasterOnePhase.forecast_cum: which of M / tau is given is static; the object's fitted values and curve are parameters
    import ast
    import copy as _copy

    class SelfToObj(ast.NodeTransformer):
        def visit_Name(self, node):
            return ast.copy_location(ast.Name(id="obj", ctx=node.ctx), node) if node.id == "self" else node
    m.aliases = {"_forecast_cum_onephase": "forecast_cum_onephase"}
    fc = m.method("ForecasterOnePhase", "forecast_cum")
    for suffix, fixed in (("given", {}), ("fitted", {"M": None, "tau": None}), ("fitted_tau", {"tau": None}), ("fitted_M", {"M": None})):
        fn = SelfToObj().visit(_copy.deepcopy(fc))
        fn.args.args[0].arg = "obj"
        fn.args.defaults = []
        ast.fix_missing_locations(fn)
        P.Tr(m, fn, emit_name="forecaster_forecast_cum_" + suffix, fixed=fixed,
             kinds={"obj": ("rec", [("M_", "R"), ("tau_", "R"), ("rf_curve", "fun")]), "time_on_production": "list"}).translate()

    def bounds_self(nM, ntau):
        M = P.Tu([P.Sc(f"M{i}") for i in range(nM)])
        tau = P.Tu([P.Sc(f"tau{i}") for i in range(ntau)])
        pars = [(f"M{i}", "R") for i in range(nM)] + [(f"tau{i}", "R") for i in range(ntau)]
        return P.Di({"M": M, "tau": tau}), pars
    for nM, ntau, suffix in ((2, 2, ""), (1, 2, "_M1"), (3, 2, "_M3"), (2, 1, "_tau1"), (2, 3, "_tau3")):
        P.Tr(m, m.method("Bounds", "__post_init__"), emit_name="Bounds_post_init" + suffix, option=True, ret_annot="option unit",
             preset={"self": bounds_self(nM, ntau)}).translate()
    P.Tr(m, m.method("Bounds", "fit_bounds"), emit_name="Bounds_fit_bounds", preset={"self": bounds_self(2, 2)}).translate()
    for k in (1, 2):
        guess = P.SV([P.Sc(f"g{i}") for i in range(k)])
        P.Tr(m, m.method("Bounds", "regularize_initial_guess"), emit_name=f"Bounds_regularize_{k}",
             preset={"self": bounds_self(2, 2), "guess": (guess, [(f"g{i}", "R") for i in range(k)])}).translate()
    # ---- ForecasterOnePhase.fit: the units in which the optimiser works (since ea995a1).  Statement-for-statement match of the scaling
    # arithmetic around the curve_fit call (anything else fails closed); each matched statement is emitted as the Gallina term it denotes.
    fit = m.method("ForecasterOnePhase", "fit")
    body = [n for n in fit.body if not (isinstance(n, ast.Expr) and isinstance(n.value, ast.Constant))]
    txt = [ast.unparse(n) for n in body]
    branch = [n for n in body if isinstance(n, ast.If) and ast.unparse(n.test) == "tau is None"]
    if len(branch) != 2:
        raise P.Untranslatable("fit: expected `if tau is None` twice (set-up of the problem, storing of the result)")

    def need(lines, where, *wanted):
        for w in wanted:
            if w not in lines:
                raise P.Untranslatable(f"fit ({where}): statement `{w}` not found")
    need(txt, "prologue", "m_unit = abs(float(cum_production[-1])) or 1.0", "t_unit = abs(float(time_on_production[-1])) or 1.0",
         "cum_scaled = np.asarray(cum_production, dtype=np.float64) / m_unit",
         "fit, covariance = curve_fit(forecast, time_on_production, cum_scaled, np.asarray(p0) / units, bounds=tuple((np.asarray(b) / units for b in bounds)))",
         "fit = fit * units", "self.time_on_production = time_on_production", "self.cum_production = cum_production")
    if not (txt.index("cum_scaled = np.asarray(cum_production, dtype=np.float64) / m_unit") < body.index(branch[0]) < [i for i, t_ in enumerate(txt) if t_.startswith("fit, covariance = curve_fit(")][0]
            < txt.index("fit = fit * units") < body.index(branch[1])):
        raise P.Untranslatable("fit: scaling, optimiser call and unscaling are not in the expected order")
    free = [ast.unparse(n) for n in branch[0].body]
    given = [ast.unparse(n) for n in branch[0].orelse]
    need(free, "tau free", "units = np.array([m_unit, t_unit])", "bounds = self.bounds.fit_bounds()", "p0 = self.bounds.regularize_initial_guess(p0)")
    need(given, "tau given", "units = np.array([m_unit])", "bounds = self.bounds.M", "p0 = self.bounds.regularize_initial_guess(p0)")
    # the starting point of the optimiser is a function of THIS call's arguments only (since the tenth round: a warm start from the previous
    # fit makes the second well's result depend on the first): each branch is exactly its expected assignments plus the nested model function,
    # and nothing up to the optimiser call reads the fitted state of an earlier call
    for where, br, want in (("tau free", branch[0].body, ["p0 = [float(cum_production[-1]) * 2, float(time_on_production[-1]) * 5]", "bounds = self.bounds.fit_bounds()",
                                                          "p0 = self.bounds.regularize_initial_guess(p0)", "units = np.array([m_unit, t_unit])"]),
                            ("tau given", branch[0].orelse, ["p0 = [float(cum_production[-1]) * 2]", "bounds = self.bounds.M",
                                                             "p0 = self.bounds.regularize_initial_guess(p0)", "units = np.array([m_unit])"])):
        got = [ast.unparse(n) for n in br if not isinstance(n, ast.FunctionDef)]
        if got != want:
            k = next((i for i, (a, b) in enumerate(zip(got, want)) if a != b), min(len(got), len(want)))
            raise P.Untranslatable(f"fit ({where}): statement {k + 1} of the branch is `{got[k] if k < len(got) else '<missing>'}`, expected `{want[k] if k < len(want) else '<nothing more>'}`")
    k_opt = [i for i, t_ in enumerate(txt) if t_.startswith("fit, covariance = curve_fit(")][0]
    for n in body[:k_opt + 1]:
        for sub in ast.walk(n):
            if isinstance(sub, ast.Attribute) and isinstance(sub.value, ast.Name) and sub.value.id == "self" and sub.attr not in ("bounds", "rf_curve"):
                raise P.Untranslatable(f"fit: `self.{sub.attr}` is read or written before the optimiser call (only self.bounds and self.rf_curve may enter the fit)")
            if isinstance(sub, ast.Call) and isinstance(sub.func, ast.Name) and sub.func.id in ("hasattr", "getattr", "vars", "setattr"):
                raise P.Untranslatable(f"fit: `{ast.unparse(sub)}` before the optimiser call (the fit may depend on self.bounds and self.rf_curve only)")

    def nested_return(stmts, where, args, ret):
        fd = [n for n in stmts if isinstance(n, ast.FunctionDef) and n.name == "forecast"]
        if len(fd) != 1 or [a.arg for a in fd[0].args.args] != args:
            raise P.Untranslatable(f"fit ({where}): nested model function `forecast({', '.join(args)})` not found")
        rs = [n for n in fd[0].body if not (isinstance(n, ast.Expr) and isinstance(n.value, ast.Constant))]
        if len(rs) != 1 or not isinstance(rs[0], ast.Return) or ast.unparse(rs[0].value) != ret:
            raise P.Untranslatable(f"fit ({where}): the model handed to the optimiser is not `{ret}`")
    nested_return(branch[0].body, "tau free", ["time_on_production", "M", "tau"], "_forecast_cum_onephase(self.rf_curve, time_on_production, M, tau * t_unit)")
    nested_return(branch[0].orelse, "tau given", ["time_on_production", "M"], "_forecast_cum_onephase(self.rf_curve, time_on_production, M, tau)")
    if [ast.unparse(n) for n in branch[1].body] != ["self.M_, self.tau_ = fit"] or [ast.unparse(n) for n in branch[1].orelse] != ["self.M_ = fit[0]", "self.tau_ = tau"]:
        raise P.Untranslatable("fit: the fitted values are not stored as `self.M_, self.tau_ = fit` / `self.M_ = fit[0]; self.tau_ = tau`")
    m.out.append("""(* ForecasterOnePhase.fit: the units the optimiser works in *)
(* abs(float(x)) or 1.0 *)
Definition fit_unit (last : R) : R := if Req_EM_T (Rabs last) 0 then 1 else Rabs last.
(* p0 = [float(cum_production[-1]) * 2, float(time_on_production[-1]) * 5]   /   [float(cum_production[-1]) * 2]  (before regularisation) *)
Definition fit_first_guess_free (last_cum last_time : R) : R * R := (last_cum * 2, last_time * 5).
Definition fit_first_guess_given (last_cum : R) : R := last_cum * 2.
(* cum_scaled = np.asarray(cum_production, dtype=np.float64) / m_unit *)
Definition fit_cum_scaled (cum : list R) (m_unit : R) : list R := map (fun y => y / m_unit) cum.
(* tau free: forecast(t, M, tau) = _forecast_cum_onephase(rf, t, M, tau * t_unit), per time point ; units = [m_unit, t_unit] *)
Definition fit_model_free (rf : R -> R) (t_unit : R) (t : R) (M tau : R) : R := forecast_cum_onephase rf t M (tau * t_unit).
(* np.asarray(p0) / units, np.asarray(b) / units for each bound ; fit * units *)
Definition fit_to_optimizer_free (m_unit t_unit : R) (v : R * R) : R * R := (fst v / m_unit, snd v / t_unit).
Definition fit_from_optimizer_free (m_unit t_unit : R) (v : R * R) : R * R := (fst v * m_unit, snd v * t_unit).
(* tau given: forecast(t, M) = _forecast_cum_onephase(rf, t, M, tau) ; units = [m_unit] *)
Definition fit_model_given (rf : R -> R) (tau : R) (t : R) (M : R) : R := forecast_cum_onephase rf t M tau.
Definition fit_to_optimizer_given (m_unit v : R) : R := v / m_unit.
Definition fit_from_optimizer_given (m_unit v : R) : R := v * m_unit.
""")
    return m


def gen_fitpressure():
    """forecast/forecast_pressure.py: statement-for-statement match of _obj_function and of the data preparation / parameter set-up of
    fit_production_pressure (anything else fails closed); each matched statement is emitted as the Gallina term it denotes."""
    import ast
    m = P.Module(os.path.join(SRC, "forecast", "forecast_pressure.py"), "Gen_fitpressure")

    def stmts(fn):
        return [n for n in fn.body if not (isinstance(n, ast.Expr) and isinstance(n.value, ast.Constant))]

    def expect(got, want, where):
        got = [ast.unparse(n) for n in got]
        if got != want:
            k = next((i for i, (a, b) in enumerate(zip(got, want)) if a != b), min(len(got), len(want)))
            raise P.Untranslatable(f"{where}: statement {k + 1} is `{got[k] if k < len(got) else '<missing>'}`, expected `{want[k] if k < len(want) else '<nothing more>'}`")
    obj = m.funcs["_obj_function"]
    if [a.arg for a in obj.args.args] != ["params", "days", "production", "pvt_table", "pressure_fracface"]:
        raise P.Untranslatable("_obj_function: unexpected parameters")
    expect(stmts(obj), ["tau = params['tau'].value", "resource_in_place = params['M'].value", "pressure_initial = params['p_initial'].value", "t = days / tau",
                        "flow_propertiesM = FlowProperties(pvt_table, pressure_initial)",
                        "res_realgasM = SinglePhaseReservoir(80, pressure_initial, pressure_initial, flow_propertiesM)",
                        "res_realgasM.simulate(t, pressure_fracface=pressure_fracface)", "recovery_factor = res_realgasM.recovery_factor()",
                        "return resource_in_place * recovery_factor - production"], "_obj_function")
    fit = m.funcs["fit_production_pressure"]
    pars = [a.arg for a in fit.args.args]
    if pars != ["prod_data", "pvt_table", "pressure_initial", "filter_window_size", "pressure_imax", "inplace_max", "filter_zero_prod_days", "n_iter", "params"]:
        raise P.Untranslatable("fit_production_pressure: unexpected parameters " + ", ".join(pars))
    m.emit_names("fit_production_pressure_params", pars, "fit_production_pressure: parameters in order")
    body = stmts(fit)
    if len(body) != 9:
        raise P.Untranslatable(f"fit_production_pressure: {len(body)} top-level statements, expected 9")
    if not (isinstance(body[0], ast.If) and ast.unparse(body[0].test) == "filter_zero_prod_days"):
        raise P.Untranslatable("fit_production_pressure: does not start with `if filter_zero_prod_days`")
    expect(body[0].body, ["prod_data = prod_data[(prod_data['Gas'] > 0) & pd.notna(prod_data['Pressure'])][['Days', 'Gas', 'Pressure']]"], "row filter")
    expect(body[0].orelse, ["prod_data = prod_data[['Days', 'Gas', 'Pressure']]"], "no row filter")
    expect(body[1:3], ["time = np.arange(0, len(prod_data['Days']))", "pressure_fracface = np.array(prod_data['Pressure'])"], "time / pressure")
    if not (isinstance(body[3], ast.If) and ast.unparse(body[3].test) == "filter_window_size is not None" and not body[3].orelse):
        raise P.Untranslatable("fit_production_pressure: smoothing is not `if filter_window_size is not None:`")
    expect(body[3].body, ["pressure_fracface = sp.ndimage.uniform_filter1d(pressure_fracface, size=filter_window_size)"], "smoothing")
    expect(body[4:5], ["cumulative_prod = np.cumsum(np.array(prod_data['Gas']))"], "cumulative production")
    if not (isinstance(body[5], ast.If) and ast.unparse(body[5].test) == "params is None" and not body[5].orelse):
        raise P.Untranslatable("fit_production_pressure: default parameters are not set up under `if params is None:`")
    expect(body[5].body, ["params = Parameters()", "params.add('tau', value=1000.0, min=30.0, max=time[len(time) - 1] * 2)",
                          "params.add('M', value=cumulative_prod[-1], min=cumulative_prod[len(cumulative_prod) - 2], max=inplace_max)",
                          "params.add('p_initial', value=pressure_initial, min=max(pressure_fracface), max=pressure_imax)"], "default parameters")
    expect(body[6:], ["mini = Minimizer(_obj_function, params, fcn_args=(time, cumulative_prod, pvt_table, pressure_fracface))",
                      "result = mini.minimize(method='Nelder', max_nfev=n_iter)", "return result"], "minimisation")
    m.out.append("""(* _obj_function: SinglePhaseReservoir(80, p_initial, p_initial, FlowProperties(pvt_table, p_initial)).simulate(days / tau, pressure_fracface=schedule);
   M * recovery_factor() - production *)
Definition obj_nodes : nat := 80.
Definition obj_constructor_pressures (p_initial : R) : R * R := (p_initial, p_initial).   (* pressure_fracface, pressure_initial *)
Definition obj_scaled_time (days : list R) (tau : R) : list R := map (fun d => d / tau) days.
Definition obj_mismatch (M : R) (rf production : list R) : list R := map (fun p => M * fst p - snd p) (combine rf production).
(* fit_production_pressure: rows kept when filter_zero_prod_days (a missing pressure is None) *)
Definition fpp_keep_row (r : R * option R) : bool := andb (if Rlt_dec 0 (fst r) then true else false) (match snd r with Some _ => true | None => false end).
(* time = np.arange(0, len(rows)) *)
Definition fpp_time (n : nat) : list R := map INR (seq 0 n).
(* cumulative_prod = np.cumsum(gas) *)
Fixpoint fpp_cumsum_from (acc : R) (l : list R) : list R := match l with [] => [] | x :: t => (acc + x) :: fpp_cumsum_from (acc + x) t end.
Definition fpp_cumulative (gas : list R) : list R := fpp_cumsum_from 0 gas.
(* default parameters: (value, min, max) *)
Definition fpp_tau (n : nat) : R * R * R := (1000, 30, nth (n - 1) (fpp_time n) 0 * 2).
Definition fpp_M (cum : list R) (inplace_max : R) : R * R * R := (last cum 0, nth (length cum - 2) cum 0, inplace_max).
Definition fpp_p_initial (pressure_initial : R) (pf : list R) (pressure_imax : R) : R * R * R :=
  (pressure_initial, fold_right Rmax (hd 0 pf) pf, pressure_imax).
""")
    # ---- plot_production_comparison: data path matched statement for statement (legend / axis styling is free)
    cmpf = m.funcs["plot_production_comparison"]
    if [a.arg for a in cmpf.args.args] != ["prod_data", "pvt_table", "params", "filter_window_size", "filter_zero_prod_days", "well_name"] \
            or [ast.unparse(d) for d in cmpf.args.defaults] != ["None", "True", "'Well Name'"]:
        raise P.Untranslatable("plot_production_comparison: unexpected parameters / defaults")

    def styling(n):
        src = ast.unparse(n)
        return isinstance(n, ast.Expr) and (src.startswith(("ax1.set(", "ax2.set(", "ax1.legend(", "ax2.legend(", "fig.set_size_inches(", "fig.tight_layout(", "fig.suptitle(")))
    cbody = stmts(cmpf)
    if not cbody or ast.unparse(cbody[-1]) != "return (fig, (ax1, ax2))":
        raise P.Untranslatable("plot_production_comparison: does not end with `return fig, (ax1, ax2)`")
    expect([n for n in cbody[:-1] if not styling(n)],
           ["if filter_zero_prod_days:\n    prod_data = prod_data[(prod_data['Gas'] > 0) & pd.notna(prod_data['Pressure'])][['Days', 'Gas', 'Pressure']]\n"
            "    time = np.arange(len(prod_data['Days']))\nelse:\n    prod_data = prod_data[['Days', 'Gas', 'Pressure']]\n    time = np.array(prod_data['Days'])",
            "pressure_fracface = np.array(prod_data['Pressure'])",
            "if filter_window_size is not None:\n    pressure_fracface = sp.ndimage.uniform_filter1d(pressure_fracface, size=filter_window_size)",
            "cumulative_prod = np.cumsum(np.array(prod_data['Gas']))", "resource_in_place = params['M'].value", "tau = params['tau'].value",
            "pressure_initial = params['p_initial'].value", "flow_propertiesM = FlowProperties(pvt_table, pressure_initial)",
            "res_realgasM = SinglePhaseReservoir(80, pressure_fracface, pressure_initial, flow_propertiesM)",
            "res_realgasM.simulate(time / tau, pressure_fracface=pressure_fracface)", "rf2M = res_realgasM.recovery_factor()",
            "fig, (ax1, ax2) = plt.subplots(2, 1)",
            "ax1.plot(time / tau, rf2M, '--', label=f'Production; tau={tau:7.5g}, M={resource_in_place:7.5g}')",
            "ax1.plot(time / tau, cumulative_prod / resource_in_place, label=well_name)",
            "ax2.plot(time / tau, pressure_fracface, label='Pressure (psi)')"], "plot_production_comparison (data path)")
    m.out.append("""(* plot_production_comparison: same row filter (fpp_keep_row) and cumulative sum (fpp_cumulative) as the fit *)
(* time = np.arange(len(rows)) when rows are filtered, the Days column (by position) otherwise *)
Definition cmp_time (filter_rows : bool) (days : list R) : list R := if filter_rows then fpp_time (length days) else days.
Definition cmp_nodes : nat := 80.
(* res.simulate(time / tau, pressure_fracface=pressure_fracface): scaled time and schedule handed to the simulator *)
Definition cmp_simulated_time (time : list R) (tau : R) : list R := map (fun d => d / tau) time.
(* ax1.plot(time / tau, rf2M, ..); ax1.plot(time / tau, cumulative_prod / M, ..); ax2.plot(time / tau, pressure_fracface, ..) *)
Definition cmp_lines (time gas pf rf : list R) (M tau : R) : list (list R * list R) :=
  [ (map (fun d => d / tau) time, rf);
    (map (fun d => d / tau) time, map (fun c => c / M) (fpp_cumulative gas));
    (map (fun d => d / tau) time, pf) ].
""")
    return m


def gen_plotting():
    import ast
    m = P.Module(os.path.join(SRC, "plotting.py"), "Gen_plotting")
    scale = m.classes["SquareRootScale"]

    def nested(cls, meth):
        for n in scale.body:
            if isinstance(n, ast.ClassDef) and n.name == cls:
                for f in n.body:
                    if isinstance(f, ast.FunctionDef) and f.name == meth:
                        return f
        raise KeyError((cls, meth))
    P.Tr(m, nested("SquareRootTransform", "transform_non_affine"), emit_name="sqrt_transform", self_fields=[], kinds={"a": "list"}).translate()
    P.Tr(m, nested("InvertedSquareRootTransform", "transform_non_affine"), emit_name="sqrt_inverse_transform", self_fields=[], kinds={"a": "list"}).translate()
    gen_plot_helpers(m)
    return m


def gen_plot_helpers(m):
    """The three reservoir helpers of plotting.py: the statements on the DATA path (what becomes a Line2D's x / y data) are matched
    one for one and emitted as the Gallina terms they denote; statements that only style the axes (`ax.set(...)`, tick placement
    under `if change_ticks:`) may change freely as long as they do not assign a name the data path reads.  Anything else on the
    data path fails closed."""
    import ast

    def stmts(fn):
        return [n for n in fn.body if not (isinstance(n, ast.Expr) and isinstance(n.value, ast.Constant))]

    def is_style(n, data_names):
        """`ax.set(...)`, `ax.set_xticks(..)`, `if change_ticks: <style>` - no assignment to a data name, no call of ax.plot"""
        src = ast.unparse(n)
        for sub in ast.walk(n):
            if isinstance(sub, ast.Call) and isinstance(sub.func, ast.Attribute) and sub.func.attr in ("plot", "scatter", "semilogx", "semilogy", "loglog", "step", "fill_between", "errorbar", "add_line"):
                return False
            if isinstance(sub, (ast.Assign, ast.AugAssign, ast.AnnAssign)):
                tg = sub.targets if isinstance(sub, ast.Assign) else [sub.target]
                for t_ in tg:
                    for nm in ast.walk(t_):
                        if isinstance(nm, ast.Name) and nm.id in data_names:
                            return False
                        if isinstance(nm, ast.Attribute):      # a store into reservoir.<field> is never styling
                            return False
        if isinstance(n, ast.If):
            return ast.unparse(n.test) == "change_ticks" and not n.orelse
        return isinstance(n, ast.Expr) and src.startswith(("ax.set(", "ax.set_xticks(", "ax.set_yticks("))

    def match(name, params, defaults, want, data_names):
        fn = m.funcs[name]
        got_p = [a.arg for a in fn.args.args]
        got_d = [ast.unparse(d) for d in fn.args.defaults]
        if got_p != params or got_d != defaults or fn.args.vararg or fn.args.kwarg or fn.args.kwonlyargs:
            raise P.Untranslatable(f"{name}: parameters {got_p} with defaults {got_d}, expected {params} / {defaults}")
        body = stmts(fn)
        if not body or ast.unparse(body[-1]) != "return ax":
            raise P.Untranslatable(f"{name}: does not end with `return ax`")
        data = [n for n in body[:-1] if not is_style(n, data_names)]
        got = [ast.unparse(n) for n in data]
        if got != want:
            k = next((i for i, (a, b) in enumerate(zip(got, want)) if a != b), min(len(got), len(want)))
            raise P.Untranslatable(f"{name}: data-path statement {k + 1} is `{got[k] if k < len(got) else '<missing>'}`, expected `{want[k] if k < len(want) else '<nothing more>'}`")
        # a style statement placed before the last plot call could still restyle nothing that matters; but one that rebinds `ax` is refused above
        return body

    axdef = "if ax is None:\n    _, ax = plt.subplots()"
    kwdef = "if plot_kwargs is None:\n    plot_kwargs = {}"
    match("plot_pseudopressure", ["reservoir", "every", "rescale", "ax", "x_max", "y_max", "plot_kwargs"], ["200", "False", "None", "1", "None", "None"],
          [axdef, "x = np.linspace(1 / reservoir.nx, 1, reservoir.nx)", "pinit = reservoir.pseudopressure[0, -1]", kwdef,
           "for i, p in enumerate(reservoir.pseudopressure):\n    if i % every == 0:\n        if rescale:\n            pscale = (p - p[0]) / (pinit - p[0])\n"
           "            ax.plot(x, pscale, color='steelblue', **plot_kwargs)\n        else:\n            ax.plot(x, p, color='steelblue', **plot_kwargs)"],
          {"x", "pinit", "p", "pscale", "i", "ax", "plot_kwargs", "reservoir", "every", "rescale"})
    match("plot_recovery_rate", ["reservoir", "ax", "change_ticks", "plot_kwargs"], ["None", "False", "None"],
          [axdef, kwdef, "cumulative = reservoir.recovery_factor()", "rate = np.gradient(cumulative, np.asarray(reservoir.time, dtype=np.float64))",
           "ax.plot(reservoir.time, rate, label='Recovery rate', **plot_kwargs)"],
          {"cumulative", "rate", "ax", "plot_kwargs", "reservoir"})
    match("plot_recovery_factor", ["reservoir", "ax", "change_ticks", "plot_kwargs"], ["None", "False", "None"],
          [axdef, kwdef, "rf = reservoir.recovery_factor()", "time = reservoir.time", "ax.plot(time, rf, label='Recovery factor', **plot_kwargs)"],
          {"rf", "time", "ax", "plot_kwargs", "reservoir"})
    m.out.append("""(* ---- the reservoir helpers: what each `ax.plot(xdata, ydata, ..)` receives, statement for statement ---- *)
(* plot_pseudopressure: x = np.linspace(1 / reservoir.nx, 1, reservoir.nx)   [start + j * (stop - start)/(n - 1), j = 0 .. n-1] *)
Definition pp_x (nx : nat) : list R :=
  map (fun j => 1 / INR nx + INR j * ((1 - 1 / INR nx) / (INR nx - 1))) (seq 0 nx).
(* pinit = reservoir.pseudopressure[0, -1] *)
Definition pp_pinit (field : list (list R)) : R := last (hd [] field) 0.
(* for i, p in enumerate(reservoir.pseudopressure): if i % every == 0: *)
Definition pp_selected (every : nat) (field : list (list R)) : list (list R) :=
  map snd (filter (fun ip => Nat.eqb (fst ip mod every) 0) (combine (seq 0 (length field)) field)).
(* pscale = (p - p[0]) / (pinit - p[0]) *)
Definition pp_pscale (pinit : R) (p : list R) : list R := map (fun v => (v - hd 0 p) / (pinit - hd 0 p)) p.
(* if rescale: ax.plot(x, pscale, ..) else: ax.plot(x, p, ..)      - one line per selected profile, in order *)
Definition pp_lines (nx every : nat) (rescale : bool) (field : list (list R)) : list (list R * list R) :=
  map (fun p => (pp_x nx, if rescale then pp_pscale (pp_pinit field) p else p)) (pp_selected every field).
(* plot_recovery_factor: rf = reservoir.recovery_factor(); time = reservoir.time; ax.plot(time, rf, ..) *)
Definition rf_line (time rf : list R) : list R * list R := (time, rf).
(* plot_recovery_rate: rate = np.gradient(cumulative, float64(reservoir.time)); ax.plot(reservoir.time, rate, ..)
   `np_gradient` is the library function (second-order interior, one-sided ends), a parameter here *)
Definition rate_line (np_gradient : list R -> list R -> list R) (time cumulative : list R) : list R * list R :=
  (time, np_gradient cumulative time).
""")


GENERATORS = {"fitpressure": gen_fitpressure, "plotting": gen_plotting, "forecast": gen_forecast, "flowprops": gen_flowprops, "fluid": gen_fluid, "water": gen_water, "gas": gen_gas, "oil": gen_oil, "reservoir": gen_reservoir}
DEPS = {"fitpressure": [], "water": [], "gas": [], "oil": ["gas"], "reservoir": [], "fluid": ["gas", "oil", "water"], "flowprops": [], "forecast": [], "plotting": []}


def module(name):
    """Translate (memoised per process). Returns (Module | None, error | None)."""
    if name in _cache:
        return _cache[name]
    try:
        for d in DEPS[name]:
            dm, err = module(d)
            if err:
                raise P.Untranslatable(f"dependency {d}: {err}")
        res = (GENERATORS[name](), None)
    except P.Untranslatable as e:
        res = (None, f"{name}: {e}")
    except (KeyError, AttributeError, AssertionError, SyntaxError, IndexError, TypeError) as e:
        res = (None, f"{name}: translator could not locate expected code ({type(e).__name__}: {e})")
    _cache[name] = res
    return res


def generate(name, outdir):
    m, err = module(name)
    if err:
        return None, err
    path = os.path.join(outdir, f"Gen_{name}.v")
    with open(path, "w") as f:
        f.write(m.text())
    return path, None


if __name__ == "__main__":
    for n in sys.argv[1:]:
        m, err = module(n)
        print(err if err else m.text())
