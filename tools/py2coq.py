#!/usr/bin/env python3
"""py2coq: fail-closed translator from a small numeric subset of Python to Gallina over R.

The translator is an abstract interpreter over the Python ``ast``: it evaluates a function
body symbolically, producing Coq terms (strings).  Any construct it does not know raises
``Untranslatable`` -- it never guesses.  DESIGN.md section 3.1 is its specification.

Value kinds manipulated by the interpreter
  Sc(term)   a real-valued Coq term
  SV([..])   a static (fixed length, known at translation time) vector of values
  DL(term)   a Coq term of type ``list R`` (a numpy 1-d float array of unknown length)
  Bo(x)      a condition: python bool (folded) or ('dec', term) sumbool or ('bool', term)
  St(s)      a python string constant
  Tu([..])   a tuple of values
  Di({..})   a static record / dict with constant keys
  Fn(..)     something callable
  Non        python None
"""
from __future__ import annotations

import ast
import hashlib
import re
from fractions import Fraction


class Untranslatable(Exception):
    pass


def fail(node, msg):
    line = getattr(node, "lineno", "?")
    raise Untranslatable(f"line {line}: {msg}")


# ---------------------------------------------------------------------------------------
# values
class V:
    pass


class Sc(V):
    def __init__(self, t):
        self.t = t


class SV(V):
    def __init__(self, items):
        self.items = list(items)


class DL(V):
    def __init__(self, t):
        self.t = t


class Bo(V):
    def __init__(self, kind, t=None):
        self.kind = kind  # True / False / 'dec' / 'bool'
        self.t = t


class St(V):
    def __init__(self, s):
        self.s = s


class Tu(V):
    def __init__(self, items):
        self.items = list(items)


class Di(V):
    def __init__(self, d):
        self.d = dict(d)


class El(V):
    """A numpy 1-d array in ELEMENTWISE form: [t] is the Coq term of one element, written in the
    element variable x_; [dt] the Coq term of its dtype; [mask] (a sumbool/bool term in x_) is set
    when the value is a boolean-mask selection a[m] of such an array.  The rule
    "dest[m] = f(a[m])  ==  elementwise conditional store" that this representation relies on is
    the theorem masked_partition of coq/Lib/NumpyDtype.v."""

    def __init__(self, t, dt, mask=None):
        self.t, self.dt, self.mask = t, dt, mask


class Em(V):
    """Elementwise boolean mask (Coq sumbool term in x_)."""

    def __init__(self, t):
        self.t = t


class Dt(V):
    """A numpy dtype (Coq term of type dtype)."""

    def __init__(self, t):
        self.t = t


def fdt(dt):
    """dtype of float arithmetic on an array of dtype dt (numpy result_type with a float)."""
    return dt if dt.startswith("(result_type ") or dt in ("F32", "F64") else f"(result_type {dt} F32)"


def same_mask(a, b, node):
    if a is None:
        return b
    if b is None or a == b:
        return a
    fail(node, "operands selected by different boolean masks")


class Rows(Di):
    """A structured array with ONE record (fields are scalars): subscripting by field name gives the
    scalar, iterating gives the single row."""


class Fn(V):
    def __init__(self, call, term=None):
        self.call = call  # python callable (tr, node, args, kwargs) -> V
        self.term = term  # Coq term if usable as a first-class value (R -> R)


class Non(V):
    pass


class Na(V):
    """A natural number known only symbolically (a length, a node count): Coq term of type nat."""

    def __init__(self, t):
        self.t = t


class Ss(V):
    """A static set of string constants (column-name bookkeeping)."""

    def __init__(self, items):
        self.items = frozenset(items)


class Ip(V):
    """A scipy.interpolate.interp1d object built from two float arrays: xs, ys are Coq terms of type list R, mode a Coq term
    of type Interp.mode (Strict = bounds_error, Fill lo hi, Extrap).  Calling it on a scalar gives the model's
    interp1d NumR mode xs ys q : option R (None = the ValueError scipy raises outside the range in Strict mode)."""

    def __init__(self, xs, ys, mode):
        self.xs, self.ys, self.mode = xs, ys, mode


RESERVED = {
    "R", "exp", "ln", "sqrt", "pow", "up", "map", "seq", "last", "hd", "tl", "fst", "snd",
    "pair", "length", "full", "id", "at", "in", "fun", "let", "if", "then", "else", "fix",
    "match", "with", "end", "as", "return", "forall", "exists", "Type", "Prop", "Set",
    "using", "where", "IZR", "INR", "cos", "sin", "PI", "e", "Rabs", "Rmin", "Rmax", "O",
    "S", "I", "nat", "Z", "N", "list", "option", "Some", "None", "true", "false", "bool",
    "pypow", "arange", "cumtrapz", "vadd", "vsub", "vmul", "vdiv", "combine", "repeat",
    "lambda", "object", "type", "mod", "div", "le", "lt", "ge", "gt", "eq", "sum", "prod",
}


def mangle(name):
    if name in RESERVED:
        return name + "_"
    return name


def lit(x):
    """Exact decimal value of a Python numeric literal as a Coq real term."""
    if isinstance(x, bool):
        raise Untranslatable("bool used as number")
    if isinstance(x, int):
        return str(x) if x >= 0 else f"(- {-x})"
    if isinstance(x, float):
        if x != x or x in (float("inf"), float("-inf")):
            raise Untranslatable("non-finite float literal")
        fr = Fraction(repr(x))
        neg = fr < 0
        fr = abs(fr)
        # denominators are 2^a 5^b; rescale to a power of ten
        num, den = fr.numerator, fr.denominator
        p = 1
        while p % den:
            p *= 10
        num *= p // den
        den = p
        s = str(num) if den == 1 else f"({num} / {den})"
        return f"(- {s})" if neg else s
    raise Untranslatable(f"literal {x!r}")


def as_int_const(node):
    """Return python int if node is an int literal (possibly negated) else None."""
    if isinstance(node, ast.Constant) and isinstance(node.value, int) and not isinstance(node.value, bool):
        return node.value
    if isinstance(node, ast.UnaryOp) and isinstance(node.op, ast.USub):
        v = as_int_const(node.operand)
        return None if v is None else -v
    return None


# ---------------------------------------------------------------------------------------
class Module:
    """One Python source file being translated."""

    def __init__(self, path, coq_name, imports=()):
        self.path = path
        self.src = open(path).read()
        self.sha = hashlib.sha256(self.src.encode()).hexdigest()
        self.tree = ast.parse(self.src)
        self.coq_name = coq_name
        self.funcs = {}
        self.classes = {}
        self.consts = {}
        for n in self.tree.body:
            if isinstance(n, ast.FunctionDef):
                self.funcs[n.name] = n
            elif isinstance(n, ast.ClassDef):
                self.classes[n.name] = n
            elif isinstance(n, ast.Assign) and len(n.targets) == 1 and isinstance(n.targets[0], ast.Name):
                self.consts[n.targets[0].id] = n.value
        self.out = []  # emitted definitions (text)
        self.defined = {}  # emitted name -> info dict(params, oracles, ret)
        self.imports = list(imports)  # other Module objects whose definitions may be called
        self.inline_funcs = {}  # name -> (Module, FunctionDef): simple functions evaluated symbolically at call sites
        self.variants = {}  # python name -> [(emitted name, {param: constant})]
        self.oracles = []  # section variables (name, type)

    def lookup_def(self, name):
        if name in self.defined:
            return self, self.defined[name]
        for m in self.imports:
            if name in m.defined:
                return m, m.defined[name]
        return None, None

    # ---- structural facts: the order of a class's dataclass fields (= its positional constructor signature, base classes first),
    # of a namedtuple's fields, and of a function's parameters; emitted as lists of strings (needs `From Coq Require Import String`)
    def dataclass_fields(self, cls):
        node = self.classes[cls]
        is_dc = any(ast.unparse(d).split("(")[0].endswith("dataclass") for d in node.decorator_list)
        if any(isinstance(n, ast.FunctionDef) and n.name == "__init__" for n in node.body):
            raise Untranslatable(f"{cls} defines its own __init__: its constructor signature is not its dataclass fields")
        fields = []
        for b in node.bases:
            bn = ast.unparse(b)
            if bn in self.classes:
                fields += self.dataclass_fields(bn)
            elif bn != "object":
                raise Untranslatable(f"{cls}: base class {bn} is not defined in this module")
        if not is_dc:
            if not fields:
                raise Untranslatable(f"{cls} is neither a dataclass nor derived from one")
            return fields           # a plain subclass inherits the generated __init__ of its dataclass base unchanged
        for n in node.body:
            if isinstance(n, ast.AnnAssign) and isinstance(n.target, ast.Name):
                if n.target.id in fields:
                    fields.remove(n.target.id)     # a re-declared field keeps... its ORIGINAL position in dataclasses; keep simple: fail
                    raise Untranslatable(f"{cls}: field {n.target.id} re-declared")
                fields.append(n.target.id)
        return fields

    def namedtuple_fields(self, name):
        v = self.consts.get(name)
        if not (isinstance(v, ast.Call) and ast.unparse(v.func).endswith("namedtuple") and len(v.args) == 2 and isinstance(v.args[1], ast.Constant) and isinstance(v.args[1].value, str)):
            raise Untranslatable(f"{name} is not `namedtuple(name, 'field field ...')` any more")
        return v.args[1].value.replace(",", " ").split()

    def emit_names(self, coq_name, names, comment):
        if not hasattr(self, "sig_out"):
            self.sig_out = []
        self.sig_out.append(f"(* {comment} *)\nDefinition {coq_name} : list string := [" + "; ".join('"%s"' % n for n in names) + "]%string.")

    def method(self, cls, name):
        for n in self.classes[cls].body:
            if isinstance(n, ast.FunctionDef) and n.name == name:
                return n
        raise KeyError(name)

    def text(self):
        hdr = [
            f"(* GENERATED by tools/py2coq.py from {self.path}",
            f"   sha256 {self.sha}",
            "   Do not edit: regenerated from /repo's working tree on every run. *)",
            "From Coq Require Import Reals List.",
            "From BBLib Require Import PyPrelude.",
        ]
        if getattr(self, "uses_numpy", False):
            hdr.append("From BBLib Require Import NumpyDtype.")
        if getattr(self, "uses_interp", False):
            hdr.append("From BBLib Require NumSig Interp.")
        if getattr(self, "uses_z", False):
            hdr.append("From Coq Require ZArith.")
        if getattr(self, "sig_out", None):
            hdr.insert(4, "From Coq Require String.")      # imported only inside the module below: String.length would shadow List.length
        for m in self.imports:
            hdr.append(f"From BBRun Require {m.coq_name}.")
        hdr += ["Import ListNotations.", "Open Scope R_scope.", ""]
        body = []
        if getattr(self, "sig_out", None):
            body += ["Module Signatures.", "Import String.", "Open Scope string_scope."] + self.sig_out + ["End Signatures.", "Export Signatures.", ""]
        if getattr(self, "uses_linspace", False):
            # numpy.linspace(a, b, n): a + k * ((b - a) / (n - 1)) for k = 0 .. n-1 (over the reals the overwritten last entry is b too)
            body += ["Definition linspace (a b : R) (n : nat) : list R := map (fun k => a + INR k * ((b - a) / (INR n - 1))) (seq 0 n).", ""]
        if self.oracles:
            body.append("Section Oracles.")
            for nm, ty in self.oracles:
                body.append(f"Variable {nm} : {ty}.")
            body.append("")
        body += self.out
        if self.oracles:
            body.append("End Oracles.")
        return "\n".join(hdr + body) + "\n"


ORACLE_TYPES = {
    "brentq": "(R -> R) -> R -> R -> R",
    "quad": "(R -> R) -> R -> R -> R",
}


class Tr:
    """Translation of one function (one emitted Definition)."""

    def __init__(self, mod: Module, fnode: ast.FunctionDef, emit_name=None, kinds=None, fixed=None,
                 option=False, self_fields=None, cut_before=None, ret_names=None, preset=None, ret_annot=None):
        self.mod = mod
        self.fnode = fnode
        self.emit_name = emit_name or fnode.name
        self.kinds = kinds or {}  # param -> 'R' | 'list' | 'fun' | ('rec', [fields])
        self.fixed = fixed or {}  # param -> python constant (folded)
        self.option = option
        self.self_fields = self_fields
        self.pending = []             # hoisted partial lookups (dobind lines) awaiting the statement that uses them
        self.cut_before = cut_before  # predicate(stmt) -> bool: stop and return ret_names
        self.ret_names = ret_names
        self.ret_annot = ret_annot
        self.preset = preset or {}  # param -> (V, [(coq param name, type)])
        self.used_oracles = []
        self.counter = 0

    # ----- helpers
    def fresh(self, base):
        self.counter += 1
        return f"{mangle(base)}_{self.counter}"

    def use_oracle(self, name):
        if name not in self.used_oracles:
            self.used_oracles.append(name)
        if name not in [o for o, _ in self.mod.oracles]:
            self.mod.oracles.append((name, ORACLE_TYPES[name]))

    # ----- top level
    def translate(self):
        f = self.fnode
        env = {}
        params = []
        a = f.args
        names = [x.arg for x in a.args]
        defaults = {}
        for nm, d in zip(names[len(names) - len(a.defaults):], a.defaults):
            defaults[nm] = d
        if a.vararg:
            pass  # *others: treated as empty
        for nm in names:
            if nm in self.preset:
                env[nm] = self.preset[nm][0]
                params += self.preset[nm][1]
                continue
            if nm in self.fixed:
                c = self.fixed[nm]
                env[nm] = St(c) if isinstance(c, str) else (Non() if c is None else Sc(lit(c)))
                continue
            k = self.kinds.get(nm, "R")
            if nm == "self":
                flds = self.self_fields or []
                env[nm] = Di({fl: Sc(mangle(fl)) for fl in flds})
                for fl in flds:
                    params.append((mangle(fl), "R"))
                continue
            if k == "R":
                env[nm] = Sc(mangle(nm))
                params.append((mangle(nm), "R"))
            elif k == "list":
                env[nm] = DL(mangle(nm))
                params.append((mangle(nm), "list R"))
            elif k == "nat":
                env[nm] = Na(mangle(nm))
                params.append((mangle(nm), "nat"))
            elif k == "arr":
                env[nm] = El("x_", "dt")
                self.arr_param = mangle(nm)
            elif k == "fun":
                t = mangle(nm)
                env[nm] = self.mk_fun_value(t)
                params.append((t, "R -> R"))
            elif k == "vfun":  # array -> array callable applied elementwise (interp1d)
                t = mangle(nm)
                env[nm] = self.mk_fun_value(t)
                params.append((t, "R -> R"))
            elif isinstance(k, tuple) and k[0] == "rec":
                d = {}
                for fl, fk in k[1]:
                    pn = mangle(re.sub(r"\W+", "_", f"{nm}_{fl}").strip("_"))
                    if fk == "R":
                        d[fl] = Sc(pn)
                        params.append((pn, "R"))
                    elif fk == "list":
                        d[fl] = DL(pn)
                        params.append((pn, "list R"))
                    elif fk == "fun":
                        d[fl] = self.mk_fun_value(pn)
                        params.append((pn, "R -> R"))
                    else:
                        raise Untranslatable(f"record field kind {fk}")
                env[nm] = Di(d)
            else:
                raise Untranslatable(f"param kind {k}")
        if a.vararg:
            env[a.vararg.arg] = SV([])
        self.defaults = defaults
        body = self.block(f.body, env, tail=None)
        ptxt = " ".join(f"({n} : {t})" for n, t in params)
        ann = f" : {self.ret_annot}" if self.ret_annot else ""
        if getattr(self, "arr_param", None):
            if getattr(self, "ret_kind", None) != "el":
                fail(f, "array-mode function must return an elementwise array")
            pn = " ".join(n for n, _ in params)
            text = (f"Definition {self.emit_name}_elem (dt : dtype) {ptxt} (x_ : R) : R :=\n{body}.\n\n"
                    f"Definition {self.emit_name}_dtype (dt : dtype) : dtype := {self.ret_dt}.\n\n"
                    f"Definition {self.emit_name}_array (dt : dtype) {ptxt} ({self.arr_param} : list R) : dtype * list R :=\n"
                    f"({self.emit_name}_dtype dt, map ({self.emit_name}_elem dt {pn}) {self.arr_param}).\n")
            self.mod.uses_numpy = True
        else:
            text = f"Definition {self.emit_name} {ptxt}{ann} :=\n{body}.\n"
        self.mod.out.append(text)
        self.mod.defined[self.emit_name + ("_array" if getattr(self, "arr_param", None) else "")] = dict(
            params=[n for n in names if n not in self.fixed and n != "self"],
            preset={k: v[1] for k, v in self.preset.items()},
            pkinds=self.kinds,
            all_params=names,
            defaults=defaults,
            fixed=self.fixed,
            oracles=list(self.used_oracles),
            self_fields=self.self_fields,
            ret=getattr(self, "ret_kind", "R"),
            option=self.option,
        )
        if getattr(self, "arr_param", None):
            # registered under the python name + "__arr" so that array calls find the array branch
            self.mod.defined[self.fnode.name + "__arr"] = dict(arr_param=[n for n in names if self.kinds.get(n) == "arr"][0])
        return text

    def mk_fun_value(self, t):
        def call(tr, node, args, kwargs):
            if len(args) != 1 or kwargs:
                fail(node, "function value called with unexpected arguments")
            x = args[0]
            if isinstance(x, Sc):
                return Sc(f"({t} {x.t})")
            if isinstance(x, DL):
                return DL(f"(map {t} {x.t})")
            if isinstance(x, SV):
                return SV([call(tr, node, [i], {}) for i in x.items])
            fail(node, "function value applied to unsupported kind")
        return Fn(call, term=t)

    def inline(self, fnode, argvals):
        """Symbolically evaluate a simple function (assignments that emit no text + return)."""
        env = dict(argvals)
        if fnode.args.vararg and fnode.args.vararg.arg not in env:
            env[fnode.args.vararg.arg] = SV([])
        for s_ in fnode.body:
            if isinstance(s_, ast.Expr) and isinstance(s_.value, ast.Constant):
                continue
            if isinstance(s_, ast.Assign) and len(s_.targets) == 1:
                pre = self.assign(s_.targets[0], self.ev(s_.value, env), env, s_)
                if pre:
                    fail(s_, "inline evaluation needs text-free bindings")
                continue
            if isinstance(s_, ast.Return):
                return self.ev(s_.value, env)
            fail(s_, "statement not allowed in inlined function")
        fail(fnode, "inlined function without return")

    # ----- statements
    def block(self, stmts, env, tail):
        """Translate stmts to a Coq term.  tail(env) gives the term when stmts run out."""
        env = dict(env)
        for idx, s in enumerate(stmts):
            rest = stmts[idx + 1:]
            if self.cut_before is not None and self.cut_before(s):
                return self.retval(Tu([self.lookup(n, env, s) for n in self.ret_names]), s) \
                    if len(self.ret_names) > 1 else self.retval(self.lookup(self.ret_names[0], env, s), s)
            if isinstance(s, ast.Expr):
                if isinstance(s.value, ast.Constant) and isinstance(s.value.value, str):
                    continue
                if isinstance(s.value, ast.Call) and self.dotted(s.value.func) in ("warnings.warn",):
                    continue
                fail(s, "expression statement")
            if isinstance(s, ast.Return):
                if s.value is None:
                    fail(s, "bare return")
                v_ = self.ev(s.value, env)
                return self.drain() + self.retval(v_, s)
            if isinstance(s, ast.Raise):
                if not self.option:
                    fail(s, "raise in a function not declared partial")
                return "None"
            if isinstance(s, ast.Assign):
                if len(s.targets) != 1:
                    fail(s, "multiple assignment targets")
                v_ = self.ev(s.value, env)
                pre = self.drain() + self.assign(s.targets[0], v_, env, s)
                return pre + self.block(rest, env, tail)
            if isinstance(s, ast.AnnAssign):
                pre = self.assign(s.target, self.ev(s.value, env), env, s)
                return pre + self.block(rest, env, tail)
            if isinstance(s, ast.AugAssign):
                cur = self.ev(s.target, env)
                val = self.binop(s.op, cur, self.ev(s.value, env), s, None)
                pre = self.assign(s.target, val, env, s)
                return pre + self.block(rest, env, tail)
            if isinstance(s, ast.FunctionDef):
                pre = self.nested_def(s, env)
                return pre + self.block(rest, env, tail)
            if isinstance(s, ast.If):
                r_ = self.if_stmt(s, rest, env, tail)
                if self.pending:
                    fail(s, "partial lookup inside a condition")
                return r_
            if isinstance(s, ast.Try):
                # try: <body> except ...: raise ...   -> body only (handlers only re-raise)
                for h in s.handlers:
                    if not (h.body and isinstance(h.body[-1], ast.Raise)):
                        fail(s, "try handler that does not raise")
                return self.block(list(s.body) + list(rest), env, tail)
            fail(s, f"statement {type(s).__name__}")
        if tail is None:
            if self.option:
                return "Some tt"
            fail(self.fnode, "function body ends without return")
        return tail(env)

    def drain(self):
        out = "".join(self.pending)
        self.pending.clear()
        return out

    def lookup(self, name, env, node):
        if name not in env:
            fail(node, f"name {name} not defined on this path")
        return env[name]

    def retval(self, v, node):
        if isinstance(v, El):
            if v.mask is not None:
                fail(node, "returning a masked selection")
            if getattr(self, "ret_kind", "el") != "el" or getattr(self, "ret_dt", v.dt) != v.dt:
                fail(node, "return statements of different kinds")
            self.ret_kind, self.ret_dt = "el", v.dt
            return v.t
        kind = "R" if isinstance(v, Sc) else "list" if isinstance(v, DL) else len(v.items) if isinstance(v, Tu) else "other"
        if getattr(self, "ret_kind", kind) != kind:
            fail(node, "return statements of different kinds")
        self.ret_kind = kind
        t = self.term_of(v, node)
        return f"Some ({t})" if self.option else t

    def term_of(self, v, node):
        if isinstance(v, Sc):
            return v.t
        if isinstance(v, DL):
            return v.t
        if isinstance(v, Tu):
            return "(" + ", ".join(self.term_of(i, node) for i in v.items) + ")"
        if isinstance(v, SV):
            return "[" + "; ".join(self.term_of(i, node) for i in v.items) + "]"
        if isinstance(v, Di):
            return "(" + ", ".join(self.term_of(i, node) for i in v.d.values()) + ")"
        if isinstance(v, Fn) and v.term:
            return v.term
        if isinstance(v, Ip):
            return f"(Interp.interp1d NumSig.NumR {v.mode} {v.xs} {v.ys})"
        fail(node, f"cannot return value of kind {type(v).__name__}")

    def assign(self, target, val, env, node):
        """Bind val to target in env; returns the 'let ... in ' prefix text."""
        if isinstance(target, ast.Name):
            nm = target.id
            return self.bind(nm, val, env, node)
        if isinstance(target, ast.Tuple):
            if isinstance(val, Tu) and len(val.items) == len(target.elts):
                pre = ""
                for t, v in zip(target.elts, val.items):
                    pre += self.assign(t, v, env, node)
                return pre
            if isinstance(val, Sc) and getattr(val, "pair_arity", 0) == len(target.elts):
                names = []
                for t in target.elts:
                    if not isinstance(t, ast.Name):
                        fail(node, "tuple target")
                    names.append(mangle(t.id))
                    env[t.id] = Sc(mangle(t.id))
                if getattr(val, "is_option", False):
                    if not self.option:
                        fail(node, "call of a partial function inside a function not declared partial")
                    return f"dobind ({', '.join(names)}) <- {val.t} ;;\n"
                return f"let '({', '.join(names)}) := {val.t} in\n"
            fail(node, "tuple assignment from non-tuple")
        if isinstance(target, ast.Subscript):
            base = target.value
            if not isinstance(base, ast.Name):
                fail(node, "subscript store on non-name")
            cur = self.lookup(base.id, env, node)
            idx = as_int_const(target.slice)
            if isinstance(cur, El):
                m = self.ev(target.slice, env)
                if not isinstance(m, Em) or cur.mask is not None:
                    fail(node, "array store must be a boolean-mask store")
                if isinstance(val, El):
                    if val.mask != m.t:
                        fail(node, "masked store of a value selected by a different mask")
                    vt = val.t
                elif isinstance(val, Sc):
                    vt = val.t
                else:
                    fail(node, "masked store of unsupported kind")
                return self.bind(base.id, El(f"(if {m.t} then (cast {cur.dt} {vt}) else {cur.t})", cur.dt), env, node)
            if isinstance(cur, SV):
                if idx is None:
                    fail(node, "non-constant index store")
                if not isinstance(val, Sc):
                    fail(node, "vector element store of non-scalar")
                n = len(cur.items)
                if not -n <= idx < n:
                    fail(node, "index out of range")
                idx %= n
                cn = f"{mangle(base.id)}_{idx}"
                items = list(cur.items)
                items[idx] = Sc(cn)
                env[base.id] = SV(items)
                return f"let {cn} := {val.t} in\n"
            if isinstance(cur, DL):
                if not isinstance(val, Sc):
                    fail(node, "list element store of non-scalar")
                if idx == -1:
                    return self.bind(base.id, DL(f"(set_last {cur.t} {val.t})"), env, node)
                if idx == 0:
                    return self.bind(base.id, DL(f"(set_first {cur.t} {val.t})"), env, node)
                fail(node, "list store index")
            if isinstance(cur, Di):
                key = target.slice
                if isinstance(key, ast.Constant) and isinstance(key.value, str):
                    d = dict(cur.d)
                    pre = ""
                    vn = mangle(re.sub(r"\W+", "_", f"{base.id}_{key.value}").strip("_"))
                    if isinstance(val, (Sc, DL)):
                        pre = f"let {vn} := {val.t} in\n"
                        val = type(val)(vn)
                    d[key.value] = val
                    env[base.id] = Di(d)
                    return pre
            fail(node, "unsupported subscript store")
        fail(node, "assignment target")

    def bind(self, nm, val, env, node):
        cn = mangle(nm)
        if isinstance(val, Sc) and getattr(val, "is_option", False) and not getattr(val, "pair_arity", 0):
            if not self.option:
                fail(node, "call of a partial function inside a function not declared partial")
            env[nm] = Sc(cn)
            return f"dobind {cn} <- {val.t} ;;\n"
        if isinstance(val, Sc):
            env[nm] = Sc(cn)
            if getattr(val, "pair_arity", 0):
                env[nm].pair_arity = val.pair_arity
            return f"let {cn} := {val.t} in\n"
        if isinstance(val, DL) and getattr(val, "is_option", False):
            if not self.option:
                fail(node, "call of a partial function inside a function not declared partial")
            env[nm] = DL(cn)
            return f"dobind {cn} <- {val.t} ;;\n"
        if isinstance(val, DL):
            env[nm] = DL(cn)
            return f"let {cn} := {val.t} in\n"
        if isinstance(val, SV):
            pre = ""
            items = []
            for i, it in enumerate(val.items):
                if isinstance(it, Sc):
                    en = f"{cn}_{i}"
                    pre += f"let {en} := {it.t} in\n"
                    items.append(Sc(en))
                else:
                    items.append(it)
            env[nm] = SV(items)
            return pre
        if isinstance(val, El):
            env[nm] = El(cn, val.dt, val.mask)
            return f"let {cn} := {val.t} in\n"
        if isinstance(val, (St, Non, Di, Tu, Fn, Bo, Em, Dt, Ss, Ip, Na)):
            env[nm] = val
            return ""
        fail(node, f"bind of kind {type(val).__name__}")

    def nested_def(self, s, env):
        args = [a.arg for a in s.args.args]
        inner = dict(env)
        for a in args:
            inner[a] = Sc(mangle(a))
        body = self_body = Tr.block(self._sub(option=False), s.body, inner, None)
        t = f"(fun {' '.join(mangle(a) for a in args)} =>\n{body})"
        nm = mangle(s.name)
        arity = len(args)

        def call(tr, node, cargs, kwargs, nm=nm, arity=arity):
            if kwargs or len(cargs) != arity:
                fail(node, "closure called with wrong arguments")
            if all(isinstance(c, Sc) for c in cargs):
                return Sc("(" + nm + " " + " ".join(c.t for c in cargs) + ")")
            if arity == 1 and isinstance(cargs[0], DL):
                return DL(f"(map {nm} {cargs[0].t})")
            if arity == 1 and isinstance(cargs[0], El):
                return El(f"({nm} {cargs[0].t})", fdt(cargs[0].dt), cargs[0].mask)
            fail(node, "closure applied to unsupported kinds")
        env[s.name] = Fn(call, term=nm)
        return f"let {nm} := {t} in\n"

    def _sub(self, option):
        # a view of self with option switched off (nested defs are total)
        sub = Tr(self.mod, self.fnode, self.emit_name, self.kinds, self.fixed, option=option,
                 self_fields=self.self_fields)
        sub.used_oracles = self.used_oracles
        sub.counter = self.counter + 1000
        sub.defaults = getattr(self, "defaults", {})
        return sub

    def ends_abruptly(self, stmts):
        if not stmts:
            return False
        last = stmts[-1]
        if isinstance(last, (ast.Return, ast.Raise)):
            return True
        if isinstance(last, ast.If) and last.orelse:
            return self.ends_abruptly(last.body) and self.ends_abruptly(last.orelse)
        return False

    def assigned_names(self, stmts):
        out = []
        for s in stmts:
            if isinstance(s, ast.Assign):
                for t in s.targets:
                    out += self.target_names(t)
            elif isinstance(s, (ast.AugAssign, ast.AnnAssign)):
                out += self.target_names(s.target)
            elif isinstance(s, ast.If):
                out += self.assigned_names(s.body) + self.assigned_names(s.orelse)
            elif isinstance(s, ast.Try):
                out += self.assigned_names(s.body)
            elif isinstance(s, ast.FunctionDef):
                out.append(s.name)
        return list(dict.fromkeys(out))

    def target_names(self, t):
        if isinstance(t, ast.Name):
            return [t.id]
        if isinstance(t, ast.Tuple):
            return [n for e in t.elts for n in self.target_names(e)]
        if isinstance(t, ast.Subscript) and isinstance(t.value, ast.Name):
            return [t.value.id]
        return []

    def if_stmt(self, s, rest, env, tail):
        c = self.cond(s.test, env)
        if c.kind is True:
            return self.block(list(s.body) + list(rest), env, tail)
        if c.kind is False:
            return self.block(list(s.orelse) + list(rest), env, tail)
        ct = c.t
        if self.ends_abruptly(s.body):
            a = self.block(s.body, env, None)
            b = self.block(list(s.orelse) + list(rest), env, tail)
            return f"if {ct} then\n{a}\nelse\n{b}"
        if self.ends_abruptly(s.orelse):
            a = self.block(list(s.body) + list(rest), env, tail)
            b = self.block(s.orelse, env, None)
            return f"if {ct} then\n{a}\nelse\n{b}"
        # join: names assigned in both branches, or assigned in one and defined before
        nb, no = self.assigned_names(s.body), self.assigned_names(s.orelse)
        joined = [n for n in dict.fromkeys(nb + no)
                  if (n in nb and n in no) or n in env]
        if not joined:
            fail(s, "if statement without effect")
        kinds = {}

        def mk_tail(kinds_out):
            def t(e):
                parts = []
                for n in joined:
                    v = self.lookup(n, e, s)
                    if isinstance(v, SV) and all(isinstance(i, Sc) for i in v.items):
                        kinds_out[n] = ("SV", len(v.items))
                        parts += [i.t for i in v.items]
                        continue
                    if not isinstance(v, (Sc, DL)):
                        fail(s, f"joined variable {n} of kind {type(v).__name__}")
                    kinds_out[n] = type(v)
                    parts.append(v.t)
                return parts[0] if len(parts) == 1 else "(" + ", ".join(parts) + ")"
            return t
        k1, k2 = {}, {}
        a = self.block(s.body, env, mk_tail(k1))
        b = self.block(s.orelse, env, mk_tail(k2))
        if k1 != k2:
            fail(s, "branches disagree on variable kinds")
        env2 = dict(env)
        names_flat = []
        for n in joined:
            if isinstance(k1[n], tuple):
                els = [f"{mangle(n)}_{i}" for i in range(k1[n][1])]
                env2[n] = SV([Sc(e_) for e_ in els])
                names_flat += els
            else:
                env2[n] = k1[n](mangle(n))
                names_flat.append(mangle(n))
        if len(names_flat) == 1:
            pat = names_flat[0]
        else:
            pat = "'(" + ", ".join(names_flat) + ")"
        pre = f"let {pat} := (if {ct} then\n{a}\nelse\n{b}) in\n"
        return pre + self.block(rest, env2, tail)

    # ----- conditions
    def cond(self, node, env) -> Bo:
        v = self.ev(node, env)
        if isinstance(v, Bo):
            return v
        fail(node, "condition is not boolean")

    def to_bool_term(self, b: Bo):
        if b.kind == "bool":
            return b.t
        if b.kind == "dec":
            return f"(if {b.t} then true else false)"
        return "true" if b.kind is True else "false"

    # ----- expressions
    def dotted(self, node):
        if isinstance(node, ast.Name):
            return node.id
        if isinstance(node, ast.Attribute):
            b = self.dotted(node.value)
            return None if b is None else b + "." + node.attr
        return None

    def ev(self, node, env) -> V:
        m = getattr(self, "ev_" + type(node).__name__, None)
        if m is None:
            fail(node, f"expression {type(node).__name__}")
        return m(node, env)

    def ev_Constant(self, node, env):
        v = node.value
        if isinstance(v, bool):
            return Bo(v)
        if isinstance(v, (int, float)):
            r = Sc(lit(v))
            if isinstance(v, int):
                r.pyconst = v
            return r
        if isinstance(v, str):
            return St(v)
        if v is None:
            return Non()
        fail(node, f"constant {v!r}")

    def ev_JoinedStr(self, node, env):
        return St("<fstring>")

    def ev_Set(self, node, env):
        items = [self.ev(e, env) for e in node.elts]
        if not all(isinstance(i, St) for i in items):
            fail(node, "set literal of non-strings")
        return Ss(i.s for i in items)

    def ev_Name(self, node, env):
        if node.id in env:
            return env[node.id]
        if node.id in self.mod.consts:
            return self.ev(self.mod.consts[node.id], {})
        return self.callable_named(node.id, node)

    def callable_named(self, name, node):
        name = getattr(self.mod, "aliases", {}).get(name, name)
        for mm in [self.mod] + self.mod.imports:
            if name in mm.variants:
                return Fn(lambda tr, nd, args, kwargs, mm=mm, name=name: tr.call_variant(nd, mm, name, args, kwargs))
        for mm in [self.mod] + self.mod.imports:
            if name in mm.inline_funcs:
                fm, fnode = mm.inline_funcs[name]
                return Fn(lambda tr, nd, args, kwargs, fm=fm, fnode=fnode: tr.call_inline(nd, fm, fnode, args, kwargs))
        m, info = self.mod.lookup_def(name)
        if info is not None:
            return Fn(lambda tr, nd, args, kwargs, m=m, name=name, info=info:
                      tr.call_defined(nd, m, name, info, args, kwargs))
        if name in BUILTINS:
            return Fn(BUILTINS[name])
        # a private module-level helper (an expression that a clean-up gave a name): evaluated symbolically at the call site, so the
        # caller's translation is the same term as before the extraction; anything but straight-line code fails closed in `inline`
        if name.startswith("_"):
            for mm in [self.mod] + self.mod.imports:
                if name in mm.funcs and not mm.funcs[name].args.kwonlyargs and not mm.funcs[name].args.defaults:
                    return Fn(lambda tr, nd, args, kwargs, mm=mm, fnode=mm.funcs[name]: tr.call_inline(nd, mm, fnode, args, kwargs))
        fail(node, f"unknown name {name}")

    def ev_Attribute(self, node, env):
        d = self.dotted(node)
        if d in ("np.float32", "np.float64"):
            return Dt("F32" if d.endswith("32") else "F64")
        if d in BUILTINS:
            return Fn(BUILTINS[d])
        base = self.ev(node.value, env) if not (isinstance(node.value, ast.Name) and node.value.id in ("np", "math", "sp", "sparse", "integrate", "interpolate")) else None
        if isinstance(base, Di) and node.attr in base.d:
            return base.d[node.attr]
        if base is not None and node.attr in METHODS:
            return Fn(lambda tr, nd, args, kwargs, b=base, a=node.attr: METHODS[a](tr, nd, [b] + args, kwargs))
        fail(node, f"attribute {d or node.attr}")

    def ev_UnaryOp(self, node, env):
        v = self.ev(node.operand, env)
        if isinstance(node.op, ast.USub):
            if isinstance(node.operand, ast.Constant) and isinstance(node.operand.value, (int, float)) and not isinstance(node.operand.value, bool):
                r = Sc(lit(-node.operand.value)) if node.operand.value != 0 else Sc("(- 0)")
                if isinstance(node.operand.value, int):
                    r.pyconst = -node.operand.value
                return r
            return self.map1(lambda t: f"(- {t})", v, node, dl="vneg")
        if isinstance(node.op, ast.UAdd):
            return v
        if isinstance(node.op, ast.Not):
            if isinstance(v, Bo):
                if v.kind in (True, False):
                    return Bo(not v.kind)
                return Bo("bool", f"(negb {self.to_bool_term(v)})")
        fail(node, "unary operator")

    def map1(self, f, v, node, dl=None):
        if isinstance(v, Sc):
            return Sc(f(v.t))
        if isinstance(v, El):
            return El(f(v.t), fdt(v.dt), v.mask)
        if isinstance(v, SV):
            return SV([self.map1(f, i, node, dl) for i in v.items])
        if isinstance(v, DL):
            if dl:
                return DL(f"({dl} {v.t})")
            return DL(f"(map (fun x_ => {f('x_')}) {v.t})")
        fail(node, f"elementwise op on {type(v).__name__}")

    def ev_BinOp(self, node, env):
        l = self.ev(node.left, env)
        r = self.ev(node.right, env)
        return self.binop(node.op, l, r, node, node.right)

    OPS = {ast.Add: ("+", "vadd", "sadd", "adds"), ast.Sub: ("-", "vsub", "ssub", "subs"),
           ast.Mult: ("*", "vmul", "smul", "muls"), ast.Div: ("/", "vdiv", "sdiv", "divs")}

    def binop(self, op, l, r, node, rnode):
        if isinstance(op, ast.Add) and isinstance(l, St) and isinstance(r, St):
            return St(l.s + r.s)      # message text only
        # a node count / length (Python int) entering float arithmetic: exact conversion
        if isinstance(l, Na) and isinstance(op, (ast.Add, ast.Sub, ast.Mult, ast.Div, ast.Pow)):
            l = Sc(f"(INR {l.t})")
        if isinstance(r, Na) and isinstance(op, (ast.Add, ast.Sub, ast.Mult, ast.Div)):
            r = Sc(f"(INR {r.t})")
        if isinstance(op, ast.Pow):
            n = as_int_const(rnode) if rnode is not None else None
            if n is not None:
                if n >= 0:
                    return self.map1(lambda t: f"({t} ^ {n})", l, node)
                return self.map1(lambda t: f"(/ ({t} ^ {-n}))", l, node)
            if isinstance(r, Sc):
                return self.map1(lambda t: f"(pypow {t} {r.t})", l, node)
            if isinstance(r, El) and isinstance(l, Sc):
                return El(f"(pypow {l.t} {r.t})", fdt(r.dt), r.mask)
            if isinstance(l, Sc) and isinstance(r, (SV, DL)):
                return self.map1(lambda t: f"(pypow {l.t} {t})", r, node)
            fail(node, "power with non-scalar exponent")
        if isinstance(op, ast.MatMult):
            if isinstance(l, SV) and isinstance(r, SV) and len(l.items) == len(r.items):
                parts = [self.binop(ast.Mult(), a, b, node, None) for a, b in zip(l.items, r.items)]
                if all(isinstance(p, Sc) for p in parts):
                    return Sc("(" + " + ".join(p.t for p in parts) + ")")
                if all(isinstance(p, (Sc, El)) for p in parts):
                    els = [p for p in parts if isinstance(p, El)]
                    mk = None
                    for e_ in els:
                        mk = same_mask(mk, e_.mask, node)
                    return El("(" + " + ".join(p.t for p in parts) + ")", fdt(els[0].dt), mk)
            fail(node, "matmul")
        if type(op) not in self.OPS:
            fail(node, f"binary operator {type(op).__name__}")
        sym, vv, sv, vs = self.OPS[type(op)]
        if isinstance(l, Sc) and isinstance(r, Sc):
            return Sc(f"({l.t} {sym} {r.t})")
        if isinstance(l, El) and isinstance(r, (El, Sc)) or isinstance(r, El) and isinstance(l, Sc):
            lm = l.mask if isinstance(l, El) else None
            rm = r.mask if isinstance(r, El) else None
            if isinstance(l, El) and isinstance(r, El) and (lm is None) != (rm is None):
                fail(node, "array combined with a masked selection of different shape")
            dt_ = fdt(l.dt if isinstance(l, El) else r.dt)
            return El(f"({l.t} {sym} {r.t})", dt_, same_mask(lm, rm, node))
        if isinstance(l, SV) and isinstance(r, SV):
            if len(l.items) != len(r.items):
                fail(node, "static vector length mismatch")
            return SV([self.binop(op, a, b, node, None) for a, b in zip(l.items, r.items)])
        if isinstance(l, SV) and isinstance(r, Sc):
            return SV([self.binop(op, a, r, node, None) for a in l.items])
        if isinstance(l, Sc) and isinstance(r, SV):
            return SV([self.binop(op, l, b, node, None) for b in r.items])
        if isinstance(l, DL) and isinstance(r, DL):
            return DL(f"({vv} {l.t} {r.t})")
        if isinstance(l, Sc) and isinstance(r, DL):
            return DL(f"({sv} {l.t} {r.t})")
        if isinstance(l, DL) and isinstance(r, Sc):
            return DL(f"({vs} {l.t} {r.t})")
        fail(node, f"binary op between {type(l).__name__} and {type(r).__name__}")

    def ev_Compare(self, node, env):
        if len(node.ops) != 1:
            fail(node, "chained comparison")
        op = node.ops[0]
        l = self.ev(node.left, env)
        r = self.ev(node.comparators[0], env)
        if isinstance(op, (ast.In, ast.NotIn)):
            if isinstance(l, St) and isinstance(r, (Tu, SV)) and all(isinstance(i, St) for i in r.items):
                res = l.s in [i.s for i in r.items]
                return Bo(res if isinstance(op, ast.In) else not res)
            if isinstance(l, St) and isinstance(r, Ss):
                res = l.s in r.items
                return Bo(res if isinstance(op, ast.In) else not res)
            if isinstance(l, St) and isinstance(r, Di):
                res = l.s in r.d
                return Bo(res if isinstance(op, ast.In) else not res)
            fail(node, "membership test")
        if isinstance(op, (ast.Is, ast.IsNot)):
            if isinstance(r, Non):
                res = isinstance(l, Non)
                return Bo(res if isinstance(op, ast.Is) else not res)
            fail(node, "is-comparison")
        if isinstance(l, El) and isinstance(r, Sc) and l.mask is None:
            a, b = l.t, r.t
            tbl = {ast.GtE: f"(Rle_dec {b} {a})", ast.LtE: f"(Rle_dec {a} {b})", ast.Gt: f"(Rlt_dec {b} {a})", ast.Lt: f"(Rlt_dec {a} {b})"}
            if type(op) in tbl:
                return Em(tbl[type(op)])
            fail(node, "array comparison operator")
        if isinstance(l, SV) and isinstance(r, Sc):
            out = []
            for it in l.items:
                fake = ast.Compare(left=ast.Name(id="__l"), ops=[op], comparators=[ast.Name(id="__r")])
                ast.copy_location(fake, node)
                out.append(self.ev_Compare(fake, {"__l": it, "__r": r}))
            return SV(out)
        if isinstance(l, Na) and isinstance(r, Na) and isinstance(op, (ast.Eq, ast.NotEq)):
            t_ = f"(Nat.eqb {l.t} {r.t})"
            return Bo("bool", t_ if isinstance(op, ast.Eq) else f"(negb {t_})")
        if isinstance(l, Ss) and isinstance(r, Ss) and isinstance(op, (ast.Eq, ast.NotEq)):
            return Bo((l.items == r.items) if isinstance(op, ast.Eq) else (l.items != r.items))
        if isinstance(l, St) and isinstance(r, St):
            if isinstance(op, ast.Eq):
                return Bo(l.s == r.s)
            if isinstance(op, ast.NotEq):
                return Bo(l.s != r.s)
        if isinstance(l, Sc) and isinstance(r, Sc):
            pl, pr_ = getattr(l, "pyconst", None), getattr(r, "pyconst", None)
            if pl is not None and pr_ is not None:
                import operator as o
                f = {ast.Eq: o.eq, ast.NotEq: o.ne, ast.Lt: o.lt, ast.LtE: o.le, ast.Gt: o.gt, ast.GtE: o.ge}[type(op)]
                return Bo(bool(f(pl, pr_)))
            a, b = l.t, r.t
            if isinstance(op, ast.GtE):
                return Bo("dec", f"(Rle_dec {b} {a})")
            if isinstance(op, ast.LtE):
                return Bo("dec", f"(Rle_dec {a} {b})")
            if isinstance(op, ast.Gt):
                return Bo("dec", f"(Rlt_dec {b} {a})")
            if isinstance(op, ast.Lt):
                return Bo("dec", f"(Rlt_dec {a} {b})")
            if isinstance(op, ast.Eq):
                return Bo("dec", f"(Req_EM_T {a} {b})")
            if isinstance(op, ast.NotEq):
                return Bo("bool", f"(if Req_EM_T {a} {b} then false else true)")
        fail(node, "comparison")

    def ev_BoolOp(self, node, env):
        vals = [self.cond(v, env) for v in node.values]
        isand = isinstance(node.op, ast.And)
        out = []
        for v in vals:
            if v.kind is True:
                if not isand:
                    return Bo(True)
                continue
            if v.kind is False:
                if isand:
                    return Bo(False)
                continue
            out.append(self.to_bool_term(v))
        if not out:
            return Bo(isand)
        sym = " && " if isand else " || "
        return Bo("bool", "(" + sym.join(out) + ")%bool")

    def ev_IfExp(self, node, env):
        c = self.cond(node.test, env)
        if c.kind is True:
            return self.ev(node.body, env)
        if c.kind is False:
            return self.ev(node.orelse, env)
        a, b = self.ev(node.body, env), self.ev(node.orelse, env)
        if isinstance(a, Sc) and isinstance(b, Sc):
            return Sc(f"(if {c.t} then {a.t} else {b.t})")
        if isinstance(a, DL) and isinstance(b, DL):
            return DL(f"(if {c.t} then {a.t} else {b.t})")
        fail(node, "conditional expression kinds")

    def ev_Tuple(self, node, env):
        return Tu([self.ev(e, env) for e in node.elts])

    def ev_List(self, node, env):
        items = []
        for e in node.elts:
            if isinstance(e, ast.Starred):
                v = self.ev(e.value, env)
                if isinstance(v, SV):
                    items += v.items
                    continue
                fail(node, "starred element")
            items.append(self.ev(e, env))
        return SV(items)

    def ev_Dict(self, node, env):
        d = {}
        for k, v in zip(node.keys, node.values):
            if not (isinstance(k, ast.Constant) and isinstance(k.value, str)):
                fail(node, "dict with non-constant key")
            d[k.value] = self.ev(v, env)
        return Di(d)

    def ev_ListComp(self, node, env):
        if len(node.generators) != 1 or node.generators[0].ifs:
            fail(node, "comprehension form")
        g = node.generators[0]
        it = self.ev(g.iter, env)
        if not isinstance(g.target, ast.Name):
            fail(node, "comprehension target")
        nm = g.target.id
        if isinstance(it, El):
            e2 = dict(env)
            e2[nm] = it
            body = self.ev(node.elt, e2)
            if isinstance(body, (SV, El)):
                return body  # one row (static vector) per element / one value per element
            fail(node, "comprehension over an array must give a row or a value per element")
        if isinstance(it, Rows):
            it = SV([Tu(list(it.d.values()))])
        if isinstance(it, SV):
            out = []
            for item in it.items:
                e2 = dict(env)
                e2[nm] = item
                out.append(self.ev(node.elt, e2))
            return SV(out)
        if isinstance(it, DL):
            e2 = dict(env)
            vn = self.fresh(nm)
            e2[nm] = Sc(vn)
            body = self.ev(node.elt, e2)
            if not isinstance(body, Sc):
                fail(node, "comprehension body is not scalar")
            return DL(f"(map (fun {vn} => {body.t}) {it.t})")
        fail(node, "comprehension over unsupported iterable")

    def ev_Subscript(self, node, env):
        base = self.ev(node.value, env)
        sl = node.slice
        if isinstance(base, El):
            m = self.ev(sl, env)
            if isinstance(m, Em) and base.mask is None:
                return El(base.t, base.dt, m.t)
            fail(node, "array subscript must be a boolean mask")
        if isinstance(base, Di):
            if isinstance(sl, ast.Constant) and isinstance(sl.value, str):
                if sl.value not in base.d:
                    fail(node, f"missing key {sl.value}")
                return base.d[sl.value]
            fail(node, "dict subscript")
        if isinstance(sl, ast.Slice):
            lo = None if sl.lower is None else as_int_const(sl.lower)
            hi = None if sl.upper is None else as_int_const(sl.upper)
            if sl.step is not None or (sl.lower is not None and lo is None) or (sl.upper is not None and hi is None):
                fail(node, "slice form")
            if isinstance(base, SV):
                return SV(base.items[lo:hi])
            if isinstance(base, DL):
                if lo == 1 and hi is None:
                    return DL(f"(tl {base.t})")
                if lo in (None, 0) and hi == -1:
                    return DL(f"(removelast {base.t})")
                if lo in (None, 0) and hi is not None and hi > 0:
                    return DL(f"(firstn {hi} {base.t})")
                fail(node, "list slice form")
            fail(node, "slice of unsupported kind")
        idx = as_int_const(sl)
        if idx is not None:
            if isinstance(base, (SV, Tu)):
                n = len(base.items)
                if not -n <= idx < n:
                    fail(node, "index out of range")
                return base.items[idx]
            if isinstance(base, DL):
                if idx == -1:
                    return Sc(f"(vlast {base.t})")
                if idx >= 0:
                    return Sc(f"(nth {idx} {base.t} 0)")
            fail(node, "index of unsupported kind")
        fail(node, "subscript form")

    def ev_Call(self, node, env):
        # method-style calls on values first
        f = self.ev(node.func, env)
        if isinstance(f, Ip):
            if len(node.args) != 1 or node.keywords:
                fail(node, "interp1d object call form")
            q = self.ev(node.args[0], env)
            if not self.option:
                fail(node, "interp1d lookup (which may raise) inside a function not declared partial")
            # the lookup may raise (Strict mode, query outside the range): it is sequenced, in evaluation order, before the
            # statement that uses it; None = the ValueError
            self.ip_counter = getattr(self, "ip_counter", 0) + 1
            nm = f"lookup_{self.ip_counter}"
            if isinstance(q, DL):
                self.pending.append(f"dobind {nm} <- (all_some (map (Interp.interp1d NumSig.NumR {f.mode} {f.xs} {f.ys}) {q.t})) ;;\n")
                return DL(nm)
            if not isinstance(q, Sc):
                fail(node, "interp1d object applied to a non-scalar")
            self.pending.append(f"dobind {nm} <- (Interp.interp1d NumSig.NumR {f.mode} {f.xs} {f.ys} {q.t}) ;;\n")
            return Sc(nm)
        if isinstance(f, Dt) and len(node.args) == 1 and not node.keywords:
            # np.float64(x) on a scalar: conversion to double precision, the identity over the reals
            v = self.ev(node.args[0], env)
            if isinstance(v, Sc) and ast.unparse(node.func) == "np.float64":
                return v
            fail(node, "dtype constructor call form")
        if not isinstance(f, Fn):
            fail(node, "call of non-function")
        args = []
        for a in node.args:
            if isinstance(a, ast.Starred):
                v = self.ev(a.value, env)
                if isinstance(v, (SV, Tu)):
                    args += v.items
                    continue
                fail(node, "starred argument")
            args.append(self.ev(a, env))
        kwargs = {}
        for k in node.keywords:
            if k.arg is None:
                fail(node, "**kwargs")
            kwargs[k.arg] = self.ev(k.value, env)
        return f.call(self, node, args, kwargs)

    def call_inline(self, node, fm, fnode, args, kwargs):
        names = [a.arg for a in fnode.args.args]
        if kwargs or len(args) < len(names):
            fail(node, "inlined call form")
        env = dict(zip(names, args))
        if fnode.args.vararg:
            env[fnode.args.vararg.arg] = SV(args[len(names):])
        elif len(args) != len(names):
            fail(node, "inlined call arity")
        return self.inline(fnode, env)

    def call_variant(self, node, mm, name, args, kwargs):
        for emitted, fixed in mm.variants[name]:
            info = mm.defined[emitted]
            allp = [p for p in info["all_params"] if p != "self"]
            bound = dict(zip(allp, args))
            bound.update(kwargs)
            ok = True
            for p, c in fixed.items():
                v = bound.get(p)
                if v is None and p in info["defaults"]:
                    v = self.ev(info["defaults"][p], {})
                if not (isinstance(v, St) and v.s == c):
                    ok = False
            if ok:
                return self.call_defined(node, mm, emitted, info, args, kwargs)
        fail(node, f"no translated variant of {name} matches the constant arguments")

    def call_defined(self, node, m, name, info, args, kwargs):
        """Application of an already-emitted definition."""
        names = info["params"]
        allp = [p for p in info["all_params"] if p != "self"]
        bound = {}
        pos = [p for p in allp]
        if len(args) > len(pos):
            fail(node, f"too many arguments to {name}")
        for p, a in zip(pos, args):
            bound[p] = a
        for k, v in kwargs.items():
            if k in bound or k not in allp:
                fail(node, f"bad keyword {k} for {name}")
            bound[k] = v
        for p in allp:
            if p not in bound:
                if p in info["defaults"]:
                    bound[p] = self.ev(info["defaults"][p], {})
                else:
                    fail(node, f"missing argument {p} for {name}")
        # fixed params must be given the same constant
        for p, c in info["fixed"].items():
            v = bound.pop(p)
            if isinstance(c, str):
                if not (isinstance(v, St) and v.s == c):
                    fail(node, f"variant {name} needs {p}={c!r}")
        terms = []
        mapped = None
        el_args = [p for p in names if isinstance(bound[p], El)]
        if el_args:
            if len(el_args) != 1:
                fail(node, "call with more than one array argument")
            ea = bound[el_args[0]]
            arr_name = name + "_elem"
            arr_info = m.defined.get(name + "__arr")
            ts = []
            for p in names:
                v = bound[p]
                if p == el_args[0]:
                    continue
                if not isinstance(v, Sc):
                    fail(node, f"argument {p} of {name} in an array call")
                ts.append(v.t)
            for o in info["oracles"]:
                self.use_oracle(o)
            q = name if m is self.mod else f"{m.coq_name}.{name}"
            if arr_info and arr_info["arr_param"] == el_args[0]:
                # the callee has its own array branch: use its translated elementwise form
                return El("(" + " ".join([f"{q}_elem", ea.dt.strip()] + ts + [ea.t]) + ")", f"({q}_dtype {ea.dt})", ea.mask)
            # scalar correlation applied by numpy broadcasting (elementwise arithmetic on one argument)
            ts2 = [bound[p].t for p in names]
            orc2 = " ".join(o for o, _ in m.oracles if o in info["oracles"]) if m is not self.mod else ""
            return El("(" + " ".join([q] + ([orc2] if orc2 else []) + ts2) + ")", fdt(ea.dt), ea.mask)
        for p in names:
            v = bound[p]
            k = info["pkinds"].get(p, "R")
            if p in info.get("preset", {}):
                want = info["preset"][p]
                flat = tr_flatten(v)
                if flat is None or len(flat) < len(want):
                    fail(node, f"argument {p} of {name}: cannot match preset parameters")
                terms += [x.t for x in flat[:len(want)]]
                continue
            if k == "R":
                if isinstance(v, Sc):
                    terms.append(v.t)
                elif isinstance(v, DL) and mapped is None:
                    mapped = (self.fresh("x"), v.t)
                    terms.append(mapped[0])
                else:
                    fail(node, f"argument {p} of {name} has kind {type(v).__name__}")
            elif k == "list":
                if not isinstance(v, DL):
                    fail(node, f"argument {p} of {name} must be a list")
                terms.append(v.t)
            elif k in ("fun", "vfun"):
                if not (isinstance(v, Fn) and v.term):
                    fail(node, f"argument {p} of {name} must be a function value")
                terms.append(v.term)
            elif isinstance(k, tuple) and k[0] == "rec":
                if not isinstance(v, Di):
                    fail(node, f"argument {p} of {name} must be a record")
                for fl, fk in k[1]:
                    if fl not in v.d:
                        fail(node, f"record argument {p} lacks {fl}")
                    fv = v.d[fl]
                    if fk in ("R", "list") and isinstance(fv, (Sc, DL)):
                        terms.append(fv.t)
                    elif fk == "fun" and isinstance(fv, Fn) and fv.term:
                        terms.append(fv.term)
                    else:
                        fail(node, f"record field {fl} kind")
            else:
                fail(node, "param kind")
        for o in info["oracles"]:
            self.use_oracle(o)
        q = name if m is self.mod else f"{m.coq_name}.{name}"
        orc = " ".join(o for o, _ in m.oracles if o in info["oracles"]) if m is not self.mod else ""
        app = "(" + " ".join([q] + ([orc] if orc else []) + terms) + ")"
        ret = info.get("ret", "R")
        if mapped is not None:
            if ret != "R":
                fail(node, "broadcast over non-scalar function")
            return DL(f"(map (fun {mapped[0]} => {app}) {mapped[1]})")
        if ret == "R":
            return Sc(app)
        if ret == "list":
            return DL(app)
        if isinstance(ret, int):
            v = Sc(app)
            v.pair_arity = ret
            v.is_option = bool(info.get("option"))
            return v
        fail(node, "return kind")


def tr_flatten(v):
    """Leading scalar leaves of a record of static vectors (used for preset record params)."""
    if isinstance(v, Sc):
        return [v]
    if isinstance(v, SV):
        out = []
        for i in v.items:
            f = tr_flatten(i)
            if f is None:
                return None
            out += f
        return out
    if isinstance(v, Di):
        for x in v.d.values():
            return tr_flatten(x)
    return None


# ---------------------------------------------------------------------------------------
# builtins
def _unary(coqf):
    def call(tr, node, args, kwargs):
        kwargs = {k: v for k, v in kwargs.items() if k != "dtype"}
        if len(args) != 1 or kwargs:
            fail(node, "unary builtin arity")
        return tr.map1(lambda t: f"({coqf} {t})", args[0], node)
    return call


def _sum(tr, node, args, kwargs):
    if len(args) != 1 or kwargs:
        fail(node, "sum arity")
    v = args[0]
    if isinstance(v, Tu):
        v = SV(v.items)
    if isinstance(v, SV):
        if not v.items:
            return Sc("0")
        if all(isinstance(i, Sc) for i in v.items):
            return Sc("(" + " + ".join(i.t for i in v.items) + ")")
    if isinstance(v, DL):
        return Sc(f"(vsum {v.t})")
    fail(node, "sum of unsupported kind")


def _minmax(which):
    def call(tr, node, args, kwargs):
        if kwargs:
            fail(node, "min/max kwargs")
        if len(args) == 1 and isinstance(args[0], DL):
            # Python's min / max over a float array: fold from the first element
            return Sc(f"(fold_right {which} (hd 0 {args[0].t}) {args[0].t})")
        if len(args) == 1 and isinstance(args[0], (SV, Tu)):
            args = args[0].items
        if not args or not all(isinstance(a, Sc) for a in args):
            fail(node, "min/max of non-scalars")
        t = args[-1].t
        for a in reversed(args[:-1]):
            t = f"({which} {a.t} {t})"
        return Sc(t)
    return call


def _array(tr, node, args, kwargs):
    dt = kwargs.get("dtype")
    if isinstance(dt, SV) and dt.items and all(isinstance(i, Tu) for i in dt.items):
        # structured array from a list of row tuples: becomes a record of static columns
        rows = args[0]
        if not (isinstance(rows, SV) and all(isinstance(r, Tu) and len(r.items) == len(dt.items) for r in rows.items)):
            fail(node, "structured np.array rows")
        d = {}
        for j, fld in enumerate(dt.items):
            fname, ftype = fld.items
            if not (isinstance(fname, St) and isinstance(ftype, St)):
                fail(node, "structured dtype")
            if ftype.s.startswith("U"):
                continue
            d[fname.s] = SV([r.items[j] for r in rows.items])
        return Di(d)
    kwargs = {k: v for k, v in kwargs.items() if k != "dtype"}
    if len(args) != 1 or kwargs:
        fail(node, "np.array arity")
    v = args[0]
    if isinstance(v, (SV, DL)):
        return v
    fail(node, "np.array of unsupported kind")


def _zeros(tr, node, args, kwargs):
    if len(args) != 1 or kwargs or not isinstance(args[0], Sc):
        fail(node, "np.zeros arity")
    try:
        n = int(args[0].t)
    except ValueError:
        fail(node, "np.zeros with non-constant length")
    return SV([Sc("0") for _ in range(n)])


def _ndim(tr, node, args, kwargs):
    if len(args) != 1:
        fail(node, "np.ndim arity")
    v = args[0]
    s = Sc("0") if isinstance(v, Sc) else Sc("1") if isinstance(v, (DL, SV, El)) else None
    if s is None:
        fail(node, "np.ndim of unsupported kind")
    s.pyconst = int(s.t)
    return s


def _size(tr, node, args, kwargs):
    if len(args) != 1:
        fail(node, "np.size arity")
    v = args[0]
    if isinstance(v, Sc):
        s = Sc("1")
        s.pyconst = 1
        return s
    if isinstance(v, SV):
        s = Sc(str(len(v.items)))
        s.pyconst = len(v.items)
        return s
    if isinstance(v, El):
        # the empty-array early return is not modelled (an empty array maps to an empty array anyway;
        # exercised by the correspondence check)
        s = Sc("1")
        s.pyconst = 1
        return s
    fail(node, "np.size of dynamic list")


def _len(tr, node, args, kwargs):
    if len(args) == 1 and isinstance(args[0], (SV, Tu)):
        r = Sc(str(len(args[0].items)))
        r.pyconst = len(args[0].items)
        return r
    if len(args) == 1 and isinstance(args[0], DL):
        return Na(f"(length {args[0].t})")
    fail(node, "len() of a value of unknown length")


def _float(tr, node, args, kwargs):
    if len(args) == 1 and isinstance(args[0], Sc):
        return args[0]
    fail(node, "float()")


def _clip(tr, node, args, kwargs):
    if len(args) != 3 or kwargs or not all(isinstance(a, Sc) for a in args[1:]):
        fail(node, "np.clip arity")
    return tr.map1(lambda t: f"(pyclip {t} {args[1].t} {args[2].t})", args[0], node)


def _minimum(tr, node, args, kwargs):
    if len(args) != 2 or kwargs:
        fail(node, "np.minimum arity")
    a, b = args
    if isinstance(b, Sc):
        return tr.map1(lambda t: f"(Rmin {t} {b.t})", a, node)
    fail(node, "np.minimum kinds")


def _arange(tr, node, args, kwargs):
    if len(args) != 3 or kwargs or not all(isinstance(a, Sc) for a in args):
        fail(node, "np.arange form")
    return DL(f"(arange {args[0].t} {args[1].t} {args[2].t})")


def _dtype_kw(tr, node, kwargs, a):
    dt = kwargs.pop("dtype", None)
    if kwargs:
        fail(node, "unexpected keyword")
    if dt is None:
        return a.dt
    if not isinstance(dt, Dt):
        fail(node, "dtype= must be a dtype expression")
    return dt.t


def _empty_like(tr, node, args, kwargs):
    if len(args) != 1 or not isinstance(args[0], El) or args[0].mask is not None:
        fail(node, "np.empty_like form")
    return El("uninit", _dtype_kw(tr, node, dict(kwargs), args[0]))


def _result_type(tr, node, args, kwargs):
    if len(args) != 2 or kwargs:
        fail(node, "np.result_type form")
    a, b = args
    ta = a.dt if isinstance(a, El) else a.t if isinstance(a, Dt) else None
    tb = b.dt if isinstance(b, El) else b.t if isinstance(b, Dt) else None
    if ta is None or tb is None:
        fail(node, "np.result_type arguments")
    return Dt(f"(result_type {ta} {tb})")


def _full_like(tr, node, args, kwargs):
    if len(args) == 2 and isinstance(args[0], El) and isinstance(args[1], Sc) and args[0].mask is None:
        dt = _dtype_kw(tr, node, dict(kwargs), args[0])
        return El(f"(cast {dt} {args[1].t})", dt)
    if len(args) != 2 or kwargs:
        fail(node, "np.full_like form")
    a, v = args
    if isinstance(a, DL) and isinstance(v, Sc):
        return DL(f"(map (fun _ => {v.t}) {a.t})")
    fail(node, "np.full_like kinds")


def _asarray(tr, node, args, kwargs):
    """np.asarray(x[, dtype=np.float64]) on a float array / scalar of the model: conversion to double precision, the identity over R"""
    dt = kwargs.pop("dtype", None)
    if len(args) != 1 or kwargs or not isinstance(args[0], (DL, Sc)) or not (dt is None or (isinstance(dt, Dt))):
        fail(node, "np.asarray form (one array, optional dtype=np.float64)")
    return args[0]


def _linspace(tr, node, args, kwargs):
    if len(args) != 3 or kwargs or not (isinstance(args[0], Sc) and isinstance(args[1], Sc) and isinstance(args[2], Na)):
        fail(node, "np.linspace form (start, stop, symbolic count)")
    tr.mod.uses_linspace = True
    return DL(f"(linspace {args[0].t} {args[1].t} {args[2].t})")


def _full(tr, node, args, kwargs):
    if len(args) == 2 and not kwargs and isinstance(args[0], Na) and isinstance(args[1], Sc):
        return DL(f"(repeat {args[1].t} {args[0].t})")
    fail(node, "np.full form (length, scalar)")


def _cumtrapz(tr, node, args, kwargs):
    init = kwargs.pop("initial", None)
    if len(args) != 2 or kwargs or not isinstance(init, Sc) or init.t not in ("0", "(- 0)"):
        fail(node, "cumulative_trapezoid must be called as (y, x, initial=0)")
    y, x = args
    if isinstance(y, DL) and isinstance(x, DL):
        return DL(f"(cumtrapz {y.t} {x.t})")
    fail(node, "cumulative_trapezoid kinds")


def _brentq(tr, node, args, kwargs):
    # brentq(f, a, b, xtol=..): modelled as an oracle; tolerances are not part of the model
    for k in kwargs:
        if k not in ("xtol", "rtol", "maxiter"):
            fail(node, f"brentq keyword {k}")
    if len(args) != 3:
        fail(node, "brentq arity")
    f, a, b = args
    if not (isinstance(f, Fn) and f.term and isinstance(a, Sc) and isinstance(b, Sc)):
        fail(node, "brentq argument kinds")
    tr.use_oracle("brentq")
    return Sc(f"(brentq {f.term} {a.t} {b.t})")


def _quad(tr, node, args, kwargs):
    for k in kwargs:
        if k not in ("limit", "epsabs", "epsrel"):
            fail(node, f"quad keyword {k}")
    if len(args) != 3:
        fail(node, "quad arity")
    f, a, b = args
    if not (isinstance(f, Fn) and f.term and isinstance(a, Sc) and isinstance(b, Sc)):
        fail(node, "quad argument kinds")
    tr.use_oracle("quad")
    return Tu([Sc(f"(quad {f.term} {a.t} {b.t})"), Sc("0")])


def _dataframe(tr, node, args, kwargs):
    d = kwargs.get("data") if "data" in kwargs else (args[0] if args else None)
    if isinstance(d, Di):
        return Di(d.d)
    fail(node, "DataFrame form")


def _vectorize(tr, node, args, kwargs):
    for k in kwargs:
        if k != "otypes":
            fail(node, f"np.vectorize keyword {k}")
    if len(args) != 1 or not isinstance(args[0], Fn):
        fail(node, "np.vectorize form")
    return args[0]  # call_defined already broadcasts over one list argument


def _diags(tr, node, args, kwargs):
    # sparse.diags([low, main, up], [-1, 0, 1], format=...): the three diagonals of a tridiagonal matrix
    for k in kwargs:
        if k != "format":
            fail(node, f"sparse.diags keyword {k}")
    if len(args) != 2 or not isinstance(args[0], SV) or not isinstance(args[1], SV):
        fail(node, "sparse.diags form")
    offs = [getattr(o, "pyconst", None) for o in args[1].items]
    if offs != [-1, 0, 1] or len(args[0].items) != 3 or not all(isinstance(d, DL) for d in args[0].items):
        fail(node, "sparse.diags must be given (low, main, up) with offsets [-1, 0, 1]")
    return Tu(list(args[0].items))


def _any(tr, node, args, kwargs):
    if len(args) != 1 or kwargs or not isinstance(args[0], SV) or not all(isinstance(b, Bo) for b in args[0].items):
        fail(node, "np.any form")
    terms = []
    for b in args[0].items:
        if b.kind is True:
            return Bo(True)
        if b.kind is False:
            continue
        terms.append(tr.to_bool_term(b))
    if not terms:
        return Bo(False)
    return Bo("bool", "(" + " || ".join(terms) + ")%bool")


def _zip(tr, node, args, kwargs):
    fail(node, "zip")


def _hasattr(tr, node, args, kwargs):
    if len(args) != 2 or kwargs or not isinstance(args[1], St):
        fail(node, "hasattr form")
    if isinstance(args[0], Di) and args[1].s == "copy":
        return Bo(True)       # DataFrames and dicts both have .copy
    fail(node, "hasattr on this value")


def _copy(tr, node, args, kwargs):
    if len(args) != 1 or kwargs:
        fail(node, "copy.copy form")
    return args[0]     # values are immutable in the model; what the copy protects (the caller's object) is checked behaviourally


def _interp1d(tr, node, args, kwargs):
    if len(args) != 2 or not all(isinstance(a, DL) for a in args) or set(kwargs) - {"fill_value", "bounds_error"}:
        fail(node, "interp1d form (two float arrays, optional fill_value / bounds_error)")
    fv, be = kwargs.get("fill_value"), kwargs.get("bounds_error")
    if fv is None and be is None:
        mode = "Interp.Strict"
    elif isinstance(fv, St) and fv.s == "extrapolate" and be is None:
        mode = "Interp.Extrap"
    elif isinstance(fv, Tu) and len(fv.items) == 2 and all(isinstance(i, Sc) for i in fv.items) and isinstance(be, Bo) and be.kind is False:
        mode = f"(Interp.Fill {fv.items[0].t} {fv.items[1].t})"
    else:
        fail(node, "interp1d fill_value / bounds_error combination")
    tr.mod.uses_interp = True
    return Ip(args[0].t, args[1].t, mode)


BUILTINS = {
    "math.exp": _unary("exp"), "np.exp": _unary("exp"),
    "math.log": _unary("ln"), "np.log": _unary("ln"),
    "math.sqrt": _unary("sqrt"), "np.sqrt": _unary("sqrt"),
    "math.fabs": _unary("Rabs"), "np.abs": _unary("Rabs"), "abs": _unary("Rabs"),
    "np.sum": _sum, "sum": _sum,
    "max": _minmax("Rmax"), "min": _minmax("Rmin"),
    "np.array": _array, "np.zeros": _zeros, "np.ndim": _ndim, "np.size": _size,
    "float": _float, "np.float64": _float, "len": _len, "np.clip": _clip, "np.minimum": _minimum, "np.arange": _arange,
    "np.ones_like": lambda tr, node, args, kwargs: (DL(f"(map (fun _ => 1) {args[0].t})") if len(args) == 1 and not kwargs and isinstance(args[0], DL)
                                                     else Sc("1") if len(args) == 1 and not kwargs and isinstance(args[0], Sc) else fail(node, "np.ones_like form")),
    "np.full": _full, "np.linspace": _linspace, "np.asarray": _asarray, "np.full_like": _full_like, "np.empty_like": _empty_like, "np.result_type": _result_type,
    "cumulative_trapezoid": _cumtrapz, "sp.integrate.cumulative_trapezoid": _cumtrapz,
    "integrate.cumulative_trapezoid": _cumtrapz,
    "brentq": _brentq, "quad": _quad,
    "copy.copy": _copy, "copy.deepcopy": _copy, "hasattr": _hasattr, "interp1d": _interp1d, "interpolate.interp1d": _interp1d,
    "np.any": _any, "pd.DataFrame": _dataframe, "np.vectorize": _vectorize, "sparse.diags": _diags,
}


def _m_sum(tr, node, args, kwargs):
    return _sum(tr, node, args, kwargs)


def _m_copy(tr, node, args, kwargs):
    return args[0]


def _keys_of(node, v):
    if isinstance(v, Ss):
        return v.items
    if isinstance(v, Di):
        return frozenset(v.d)
    fail(node, "set operation on a non-static collection")


def _m_intersection(tr, node, args, kwargs):
    if len(args) != 2 or kwargs or not isinstance(args[0], Ss):
        fail(node, "set.intersection form")
    return Ss(args[0].items & _keys_of(node, args[1]))


def _m_issubset(tr, node, args, kwargs):
    if len(args) != 2 or kwargs or not isinstance(args[0], Ss):
        fail(node, "set.issubset form")
    return Bo(args[0].items <= _keys_of(node, args[1]))


def _m_join(tr, node, args, kwargs):
    if len(args) != 2 or kwargs or not isinstance(args[0], St) or not isinstance(args[1], (Ss, SV, Tu)):
        fail(node, "str.join form")
    return St("<joined>")     # message text only


METHODS = {"sum": _m_sum, "copy": _m_copy, "intersection": _m_intersection, "issubset": _m_issubset, "join": _m_join}
