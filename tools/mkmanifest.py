#!/usr/bin/env python3
"""Regenerates MANIFEST.json from the table below (kept in one place so it stays valid)."""
import json
import os

VERIF = os.path.dirname(os.path.dirname(os.path.abspath(__file__)))

NOTE = ("Trusted: Coq 8.16.1 kernel + vm_compute; stdlib axioms reported by Print Assumptions (classical reals, "
        "classic, functional extensionality, primitive int/float specs used by `interval`); Coquelicot/Interval; "
        "the py2coq translator (validated each run by kernel-certified point evaluation against the running "
        "implementation); exact-real model (IEEE rounding outside the theorems); numpy/scipy modelled by contracts. "
        "See DESIGN.md section 8 and the evidence file's trusted_base.")

CHECKS = {
    "C13": dict(
        text="Kernel-checked is_derive theorems (Coquelicot) about the Gallina model regenerated from oil.py/water.py "
             "on every run: dBw/dp, dRs/dp below/at/above the bubble point, dBob/dRs, and the two assembly identities "
             "of oil_compressibility_Standing, for all inputs. The model is tied to the code by regeneration plus "
             "kernel-certified point evaluation; the implementation is additionally checked against forward-mode AD "
             "of its own parents on sampled inputs (used to produce concrete replays).",
        technique="Coq proof (Coquelicot is_derive) over py2coq-translated model + certified point evaluation",
        design_ref="6/C13"),
}

CHECKS.update({
    "C01": dict(
        text="Kernel-checked discrete maximum principle for the tridiagonal step (bounds between the running minimum of the "
             "frac-face pseudopressure and m_i, monotone profile, unique fixed point, Thomas solve correctness), lifted by induction "
             "over the time list to the whole simulation for every non-negative diffusivity, node count, non-decreasing time grid and "
             "schedule. Tied to the code by (a) the translated _build_matrix proved equal to the model matrix on every run and "
             "(b) the float instance of the same Gallina model run by vm_compute against the implementation on generated cases; "
             "the proved conclusions are also evaluated on the implementation's own output to give concrete replays. "
             "Time-monotonicity of the single-phase scheme is refuted on the real code (known finding K3). Second half (C01_relaxation.v): the ideal reservoir never rises in time at any node (superharmonicity invariant), and both reservoirs relax to the frac-face value with an explicit contraction factor n(n+1)/(n(n+1)+2 dt/dx^2 alpha_min) in a barrier norm, for any step size; the loop bodies of simulate are regenerated from the source and proved equal to the model's step system (C04_step_system.v); C01_source_loop.v restates the bounds and the ideal time-monotonicity about the array the regenerated loop (header + body + elimination) leaves.",
        technique="Coq proof (min principle + induction over steps) over hand model + float-instance correspondence + translated matrix",
        design_ref="6/C01"),
    "C04": dict(
        text="Theorem: with the iterative solver as an arbitrary oracle (no contract assumed), every stored level passed the code's own "
             "true-residual test for its step system or is the direct solution, a flagged or drifted iterate is never stored (any run length); "
             "the decision and the residual test are regenerated from the loop tails (C04_acceptance.v: kept iff info = 0 and test passed; accepted "
             "residual at most 1e-9 of the right-hand side, no absolute term); the header of both time loops is regenerated too and the array-store loop "
             "over the regenerated indices is proved to leave exactly the model's field in the array (C04_time_loop.v; C04_end_to_end.v: regenerated header + "
             "regenerated body + a solver that agrees with elimination = simulate_ideal / simulate_single of the model). The step system is the model's "
             "(proved equal to the translated _build_matrix); per-step residuals of the implementation's stored levels are computed "
             "by the float instance of that model inside Coq for every step of generated runs (nx to 400, p_f/p_i=0.9998); the "
             "tolerance and the info check are read behaviourally by intercepting bicgstab, with fault injection.",
        technique="Coq proof over solver-oracle model + per-step residual evaluation by the float model (vm_compute) + solver interception",
        design_ref="6/C04"),
    "C10": dict(
        text="Theorem for all call histories of any length over uninterpreted numerics: a simulate() forgets all earlier state, so "
             "state and later outputs equal a fresh object's; repeated calls agree. The state machine's symbolic instance is run by "
             "vm_compute on all histories up to length 3 (quick) / 4-5 (thorough) plus random longer ones, and each predicted value is "
             "recomputed on fresh implementation objects and compared for exact equality.",
        technique="Coq proof (refinement of object state machine to memory-less spec) + exhaustive bounded-history correspondence",
        design_ref="6/C10"),
    "C17": dict(
        text="Theorems on the model: simulate and flux recovery depend on times only through increments (shift invariance, any c, "
             "any grid, any user-supplied diffusivity law - C17_user_law.v; restated in C17_source_loop.v about the array the regenerated time loop leaves), mismatched schedule length is rejected, interpolator is exact at nodes / 0 before / last after. The "
             "implementation is exercised with shifts to 1e6, constant schedules, wrong lengths, and compared with the float model.",
        technique="Coq proof (structural induction on the time fold) + float-instance correspondence",
        design_ref="6/C17"),
})

CHECKS.update({
    "C06": dict(
        text="Theorems over the whole rectangle 1.05<=T_r<=3, 0<p_r<=30 about z_factor_DAK as regenerated from gas.py, with the bracketing "
             "solver as an oracle under its documented contract: the bracket always has a strict sign change (interval bisection over "
             "the box), the returned Z satisfies the equation of state at its own density and lies strictly inside (0.05, 5), the root "
             "is unique (rho*Z strictly increasing by MVT + interval positivity of the derivative), |Z-1| <= 6.48 p_r/T_r. The same "
             "file is checked for the published and for the coded first coefficient; only the coded one checks (known finding K1, "
             "exactly characterised in Findings/K1). Residuals of the implementation's densities are kernel-certified at sampled "
             "points; Hall-Yarbrough termination/agreement is validated on a grid only. Z is Lipschitz in pressure with an explicit constant over the whole rectangle; the Hall-Yarbrough loop body is translated and the loop modelled with fuel (unit-interval invariant, exit theorem), its real iterates traced and certified.",
        technique="Coq proof (interval bisection over the validity box, IVT-contract oracle, MVT uniqueness) over py2coq-translated model + certified residuals",
        design_ref="6/C06"),
    "C07": dict(
        text="Theorems on the translated gas/oil/water correlations: density*FVF identities for all inputs (field), B_w>0 on its range "
             "(interval), the coded dZ/drho is the derivative of the published EOS (auto_derive), a general implicit-differentiation "
             "theorem giving c = d ln(rho)/dp for any EOS that Z solves, viscosity positive and increasing in density on the Sutton "
             "range. The compressibility clause fails on the real code exactly as known finding K1 predicts (characterisation theorem + "
             "numerical witness on every run). Translated functions are tied to the implementation by kernel-certified point evaluation. Density positive and strictly increasing in pressure, hence viscosity increasing in pressure, on the whole rectangle (C07_monotone.v).",
        technique="Coq proof (field/auto_derive/interval) over py2coq-translated model + certified point evaluation",
        design_ref="6/C07"),
})

CHECKS.update({
    "C08": dict(
        text="Theorems on the translated fluid.py/gas.py: the builder column and the stand-alone transform are the same list "
             "(linearity of the cumulative trapezoid), zero first entry, strictly increasing for positive columns on increasing "
             "pressures, additive over adjacent rows; the quadrature route is the quadrature oracle applied to 2p/(mu Z), and under "
             "the oracle's contract (Riemann integral) is zero at the reference, Chasles-additive and strictly increasing for a "
             "positive continuous integrand. Agreement of the adaptive-quadrature route with the table routes is validated "
             "numerically (tolerance from the table's own h^2/12 f'' estimate). Trapezoid error bound (C08_trapz_error.v): every table entry within the running sum of M h^3/12 of the exact integral.",
        technique="Coq proof (list induction on the trapezoid rule, Coquelicot RInt) over py2coq-translated model; numeric three-way comparison",
        design_ref="6/C08"),
    "C12": dict(
        text="Theorems for all inputs on the translated oil.py: GOR inverts the bubble-point correlation in both directions, is "
             "continuous at p_b, equals the initial GOR at and above it, is non-decreasing; Bo is continuous at p_b and increasing "
             "below it; viscosity is continuous at p_b. Remaining ordering/positivity clauses (Bo falling above p_b, c_o>0, mu>0, mu "
             "falling below p_b) are checked on the sampled box only. Kernel-certified point evaluation ties the model to the code. Literal continuity_pt theorems at the bubble point for GOR, Bo, density and viscosity over the box (C12_continuity.v) and every clause for array arguments of any dtype (C12_arrays.v).",
        technique="Coq proof (Rpower algebra, monotonicity) over py2coq-translated model + certified point evaluation",
        design_ref="6/C12"),
    "C19": dict(
        text="Each translated Fluid method is proved equal to the map of the intended stand-alone correlation with the intended "
             "attributes (the statement carries the wiring); build_pvt_gas is proved equal, row by row, to the correlations at the "
             "Sutton pseudocritical point over arange(10, max, 10), whose elements are proved to be 10 + 10k < max; Sutton's "
             "correlation reduces to the hydrocarbon-only one without contaminants, is unchanged by a zero-fraction extra component, "
             "and an unknown fluid type returns the error value. The implementation is compared with direct calls on random inputs.",
        technique="Coq proof (reflexivity/field on py2coq-translated facade and builder) + differential comparison",
        design_ref="6/C19"),
})

CHECKS.update({
    "C09": dict(
        text="Theorems about the R instance of the hand-written FlowProperties model (any table with increasing pressure/pseudopressure and "
             "positive columns): the constructor's result, scaled pseudopressure strictly increasing with value m_i at p_i, diffusivity 1/(c mu) "
             "at nodes, every real lookup within the table's positive [min,max], user-alpha branch m_i = 1 at nodes and in [1, (a+b)^2/4ab] "
             "between (AM-HM on the common segment), p_i outside rejected, rescaling maps p_frac->0, p_i->1. numpy.interp's segment/NaN rules "
             "are modelled and proved equal to searchsorted-left over the reals. The float instance is run against FlowProperties / "
             "FlowPropertiesSimple / rescale_pseudopressure; non-mutation and all 64 column subsets x 2 classes are checked on the implementation.",
        technique="Coq proof (interpolation lemmas by list induction) over hand model + float-instance correspondence + exhaustive column-subset enumeration",
        design_ref="6/C09"),
    "C14": dict(
        text="Theorems on relative_permeabilities as regenerated from flowproperties.py (validation chain + Corey expressions, one record): every "
             "admissible call is accepted, each kr is in [0,k_max] (so never NaN: the base is proved >= 0), exactly 0 at/below residual, the final "
             "clamp is the identity, monotone in the phase's own saturation; each of the seven guards rejects. The proved closed form is "
             "kernel-certified against the implementation at sampled points; ranges/monotonicity/rejections/two-phase helper are exercised on it.",
        technique="Coq proof (lra/monotonicity of Rpower) over py2coq-translated model + certified point evaluation",
        design_ref="6/C14"),
    "C15": dict(
        text="Theorems on pseudopressure_threephase as regenerated from flowproperties.py: the integration variable is the pressure column and the "
             "integrand is, row by row, the total mass mobility transcribed independently from docs/background.md; hence zero first, strictly "
             "increasing where mobility is positive, scaling with a constant. (The original transposed call fails the first lemma.) Downstream "
             "scaled-pseudopressure claims follow from C09's theorems and are exercised through FlowPropertiesTwoPhase.",
        technique="Coq proof (list induction, trapezoid lemmas) over py2coq-translated model vs independent documented spec",
        design_ref="6/C15"),
    "C16": dict(
        text="Theorems on compressibility_combined_func / lambda_combined_func / alpha_multiphase as regenerated from flowproperties.py, for "
             "arbitrary table functions: c is exactly the central one-psi difference of the documented storage function, vanishes for "
             "pressure-independent tables, is linear in porosity, equals the derivative where storage is affine across the step; mobility is the "
             "documented sum; diffusivity is their quotient. Checked numerically against an independent transcription on shipped and synthetic tables.",
        technique="Coq proof (ring/field) over py2coq-translated model vs independent documented spec",
        design_ref="6/C16"),
})

CHECKS.update({
    "C11": dict(
        text="The array branches of b_o_Standing, solution_gor_Standing, the Spivey compressibility and the water correlations are regenerated "
             "from the source in elementwise form with every allocation dtype and store-time cast explicit; theorems: for every dtype "
             "(int32/int64/float32/float64) and every length (0 included) the array result is (floating dtype, map of the scalar function), on "
             "both sides of p_b and at it, uninitialised memory is never observed. The elementwise reading of masked stores is the theorem "
             "masked_partition. The implementation is run on the dtype x layout matrix and compared element-wise with scalar calls.",
        technique="Coq proof over py2coq-translated array branches with an explicit numpy dtype/cast model + dtype-matrix differential test",
        design_ref="6/C11"),
})

CHECKS.update({
    "C02": dict(
        text="Theorems: the implicit step is a max-norm contraction in its data for every non-negative coefficient vector (unconditional "
             "stability), hence the distance to ANY reference field grows by at most its truncation residual per step; flux stencil exact "
             "for quadratics; translated matrix and recovery scale factors equal the model's. The convergence claim itself (first-order "
             "small, shrinking under refinement) is validated numerically against the closed-form Fourier series and an independent BDF "
             "method-of-lines reference along (nx, nt) ladders -- reported as validated_only. Consistency (C02_consistency.v): interior-row truncation defect M_tt dt^2/2 + a dt M_xxxx h^2/12 for smooth solutions and the accumulated-defect error bound.",
        technique="Coq proof (stability / error propagation via the discrete maximum principle) + numerical refinement ladders against independent references",
        design_ref="6/C02"),
    "C03": dict(
        text="Theorems: both recovery modes start at zero; exact discrete mass balance of a constant-coefficient step (telescoping), hence a "
             "non-increasing stored total; in-place recovery never exceeds 1 - rho(lowest value)/rho(m_i) for a non-decreasing density "
             "(combined with C01's bounds). Gap between the two modes (first-order, shrinking), monotone recovery and the ideal-gas plateau are "
             "validated numerically on ladders for consistent synthetic tables exactly and shipped tables widened by their measured inconsistency. C03_recovery_monotone.v: the ideal reservoir's recovery never decreases in time (theorem). Known finding K4: the single-phase in-place recovery dips below zero over the first step.",
        technique="Coq proof (telescoping sum, monotone bounds) + numerical refinement ladders",
        design_ref="6/C03"),
    "C05": dict(
        text="Theorems on forecast.py as regenerated: forecast = M * rf(t/tau), linear in M, invariant under joint rescaling of t and tau; Bounds "
             "rejected iff lower >= upper (and for lengths != 2); fit_bounds shape; regularised guesses lie in the box, unchanged when inside, "
             "idempotent; for fixed tau the bounded least-squares optimum is the clipped ratio sum(r y)/sum(r r); the rescaled problem fit() hands to "
             "the optimiser has the caller's minimisers and its starting point depends on this call's last observation only - (2, 5) in the optimiser's units "
             "(C05_fit_scaling.v; the fit matcher refuses reads of earlier fitted state). curve_fit's behaviour "
             "(bounds honoured, round-trip recovery of M and tau) is validated numerically over many decades.",
        technique="Coq proof (field/lra on py2coq-translated model) + numerical round trips",
        design_ref="6/C05"),
    "C18": dict(
        text="The fitting objective is defined in Coq from the same FlowProperties/simulate/recovery model as C01-C04 (80 nodes, days/tau, "
             "p_initial for both pressures) and proved to vanish at generating parameters; row filter and cumulative production are list "
             "functions with their characterisation theorems; forecast_pressure.py is matched statement for statement and its objective, filter, "
             "cumulative sum and declared parameter limits are tied to that model (C18_setup.v). The float instance of the objective is run against _obj_function; the fit is "
             "exercised for limits, filtering, window=1 and iteration budgets. lmfit's bounded parameters are a trusted, validated contract.",
        technique="Coq proof over hand model + statement-matching translation + float-instance correspondence with _obj_function",
        design_ref="6/C18"),
    "C20": dict(
        text="The two axis transforms are regenerated from plotting.py and proved to be sqrt / square and exact mutual inverses on non-negative "
             "lists; profile selection is proved to pick exactly indices 0,k,2k,.. in order, rescaling to map the fracture value to 0 and the "
             "initial value to 1, the rate stencil to be exact for quadratics. The data-path statements of the three reservoir helpers are matched one for one "
             "on every run and emitted as Gallina (pp_lines, rf_line, rate_line); C20_helpers.v proves them equal to the hand model (selection, rescaling, "
             "node positions 1/nx .. exactly 1, equally spaced; unrescaled y-data is a stored profile). The helpers' Line2D data are read back under Agg and compared "
             "with the simulated data and with the float instance of the Coq model.",
        technique="Coq proof over translated transforms, statement-matched helper data paths and hand model + Line2D data correspondence",
        design_ref="6/C20"),
})

NOT_APPLICABLE = {}


def main():
    props = [json.loads(l) for l in open(os.path.join(VERIF, "properties.jsonl"))]
    checks = []
    for p in props:
        pid = p["id"]
        if pid not in CHECKS:
            continue
        c = CHECKS[pid]
        checks.append(dict(
            property_id=pid,
            quick_cmd=f"/venv/bin/python /verif/check.py {pid} --tier quick",
            thorough_cmd=f"/venv/bin/python /verif/check.py {pid} --tier thorough",
            evidence_file=f"/verif/evidence/{pid}.json",
            replay_cmd_template=f"/venv/bin/python /verif/check.py {pid} --replay {{path}}",
            engine="coq-proof",
            level_claimed=dict(category=c.get("category", "proof"), text=c["text"], design_ref=c["design_ref"]),
            level_note=c.get("note", NOTE),
            technique=c["technique"],
        ))
    na = []
    for p in props:
        if p["id"] not in CHECKS:
            na.append(dict(property_id=p["id"],
                           reason=NOT_APPLICABLE.get(p["id"], "check not built yet (work in progress); the technique applies, see DESIGN.md section 6")))
    man = dict(
        version=1,
        setup_cmd="/venv/bin/python /verif/check.py --setup",
        hooks=dict(
            guard="BLUEBONNET_VERIF",
            enable="no source hooks: behaviour is observed from the harness side (monkey-patched scipy solver, captured warnings, deep comparison of caller objects); checks set BLUEBONNET_VERIF=1 for uniformity only",
            baseline_off_cmd="cd /repo && /venv/bin/python -m pytest -ra -q -p no:cacheprovider --timeout=900 --continue-on-collection-errors",
            source_commits=[],
            add_only=True,
        ),
        engines=[dict(name="coq-proof", path="/verif/check.py",
                      serves_properties=[c["property_id"] for c in checks],
                      kind_free_text="Coq 8.16 proofs over a model regenerated from /repo (py2coq) or hand-written with a correspondence check; see DESIGN.md")],
        checks=checks,
        notes="fix: commits in /repo and known findings are listed in /verif/known_findings.json; DESIGN.md sections 6-8.",
        not_applicable=na,
    )
    with open(os.path.join(VERIF, "MANIFEST.json"), "w") as f:
        json.dump(man, f, indent=1)
    print("MANIFEST.json:", len(checks), "checks,", len(na), "not claimed")


if __name__ == "__main__":
    main()
