#!/usr/bin/env python3
"""Harvest a sub-agent's change from its scratch worktree into /verif/seeded/<name>/ after
confirming it: the baseline suite still passes with it, the demo fails with it and passes without.
usage: harvest.py <worktree> <property> <name>"""
import json
import os
import shutil
import subprocess
import sys

wt, prop, name = sys.argv[1], sys.argv[2], sys.argv[3]
out = f"/verif/seeded/{name}"
env = dict(os.environ, PYTHONDONTWRITEBYTECODE="1", PYTHONPATH=f"{wt}/src", MPLBACKEND="Agg")


def sh(cmd, **kw):
    return subprocess.run(cmd, cwd=wt, capture_output=True, text=True, env=env, **kw)


diff = sh(["git", "diff", "HEAD", "--", "src"]).stdout
assert diff.strip(), "no source change in worktree"
demo = f"demo_{prop}.py"
assert os.path.exists(os.path.join(wt, demo)), "demo missing"
# 1. demo with the change
r_mod = sh(["/venv/bin/python", demo], timeout=1800)
# 2. test suite with the change
t = sh(["/venv/bin/python", "-m", "pytest", "-q", "-p", "no:cacheprovider", "--timeout=900"], timeout=3600)
summary = [l for l in t.stdout.splitlines() if " passed" in l or " failed" in l][-1:]
# 3. demo without the change
pf = os.path.join(wt, ".harvest.patch")
open(pf, "w").write(diff)
assert sh(["git", "apply", "-R", pf]).returncode == 0
try:
    r_orig = sh(["/venv/bin/python", demo], timeout=1800)
finally:
    assert sh(["git", "apply", pf]).returncode == 0
    os.remove(pf)
ok = r_mod.returncode != 0 and r_orig.returncode == 0 and summary and "69 passed" in summary[0]
print(name, "demo_mod_exit", r_mod.returncode, "demo_orig_exit", r_orig.returncode, "tests:", summary, "CONFIRMED" if ok else "NOT CONFIRMED")
if ok:
    os.makedirs(out, exist_ok=True)
    open(os.path.join(out, "patch.diff"), "w").write(diff)
    shutil.copy(os.path.join(wt, demo), os.path.join(out, demo))
    if os.path.exists(os.path.join(wt, "MUTATION.md")):
        shutil.copy(os.path.join(wt, "MUTATION.md"), os.path.join(out, "MUTATION.md"))
    json.dump(dict(property=prop, origin="independent sub-agent given only the property text and a scratch worktree",
                   confirmed=dict(tests=summary[0], demo_with_change_exit=r_mod.returncode, demo_without_change_exit=r_orig.returncode,
                                  demo_output_tail=r_mod.stdout.strip().splitlines()[-3:]),
                   ran=f"tools/harvest.py {wt} {prop} {name}; tools/seedtest.py seeded/{name}"),
              open(os.path.join(out, "meta.json"), "w"), indent=1)
