#!/usr/bin/env python3
"""Full regression over seeded changes, several at a time: each seed gets its own scratch worktree of /repo's HEAD outside /repo and
/verif (removed as soon as its check is done), the patch is applied there and the targeted quick check runs against it with private
build / evidence / replay directories (BB_REPO, BB_TAG).  /repo itself is not touched.
usage: seedpar.py [-j N] seeded/<name> ...     one line per seed: <name> <Cxx> exit=<n> <first VIOLATION line>"""
import json
import os
import shutil
import subprocess
import sys
from concurrent.futures import ThreadPoolExecutor

args = sys.argv[1:]
jobs = 6
if args and args[0] == "-j":
    jobs = int(args[1])
    args = args[2:]
ROOT = "/tmp/seedpar"
os.makedirs(ROOT, exist_ok=True)


def one(d):
    d = os.path.abspath(d)
    name = os.path.basename(d)
    meta = json.load(open(os.path.join(d, "meta.json")))
    prop = meta["property"]
    wt = os.path.join(ROOT, name)
    tag = "sp-" + name[:40]
    try:
        subprocess.run(["git", "-C", "/repo", "worktree", "add", "--detach", wt, "HEAD"], capture_output=True, check=True)
        r = subprocess.run(["git", "-C", wt, "apply", os.path.join(d, "patch.diff")], capture_output=True, text=True)
        if r.returncode:
            return f"{name} {prop} PATCH-DOES-NOT-APPLY {r.stderr.strip()[:120]}"
        env = dict(os.environ, BB_REPO=wt, BB_TAG=tag)
        p = subprocess.run(["/venv/bin/python", "/verif/check.py", prop, "--tier", "quick"], capture_output=True, text=True, env=env)
        vio = [l for l in p.stdout.splitlines() if l.startswith("VIOLATION")]
        return f"{name} {prop} exit={p.returncode} violations_lines={len(vio)} {(vio[0] if vio else '')[:150]}"
    finally:
        subprocess.run(["git", "-C", "/repo", "worktree", "remove", "--force", wt], capture_output=True)
        for sub in (f"build/{prop}-{tag}", f"build/evidence-{tag}", f"build/replays-{tag}"):
            shutil.rmtree(os.path.join("/verif", sub), ignore_errors=True)


with ThreadPoolExecutor(max_workers=jobs) as ex:
    for line in ex.map(one, args):
        print(line, flush=True)
subprocess.run(["git", "-C", "/repo", "worktree", "prune"], capture_output=True)
shutil.rmtree(ROOT, ignore_errors=True)
