#!/bin/bash
# usage: coqshow.sh file.v LINE  -- compile up to LINE (exclusive) then Show the goal
f=$1; n=$2
head -n $((n-1)) "$f" > /tmp/_show.v
echo "Show. " >> /tmp/_show.v
cd ${3:-.}
coqtop -q -Q /verif/coq/Lib BBLib -Q . BBRun < /tmp/_show.v 2>&1 | grep -v "^Coq <\|coercion\|ambiguous" | tail -${4:-40}
