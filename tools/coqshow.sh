#!/bin/bash
# usage: coqshow.sh file.v LINE [dir] [taillines] -- run up to LINE (exclusive) then Show
f=$1; n=$2
head -n $((n-1)) "$f" > /tmp/_show.v
echo "Show. " >> /tmp/_show.v
cd ${3:-.}
Q2="-Q . BBRun"; [ "$(pwd)" = /verif/coq/Lib ] && Q2=""; coqtop -q -Q /verif/coq/Lib BBLib $Q2 < /tmp/_show.v 2>&1 | grep -v "^Coq <\|coercion\|ambiguous" > /tmp/_show.out
grep -n "Error" /tmp/_show.out | head -3
tail -${4:-40} /tmp/_show.out
