#!/usr/bin/env python3
"""Apply a seeded change to /repo, run the named checks (quick tier), undo the change.
usage: seedtest.py <seeded-dir> [Cxx ...]     (default: the property named in meta.json)
Prints one line per check: <dir> <Cxx> exit=<n> <last log line>."""
import json
import os
import subprocess
import sys

d = os.path.abspath(sys.argv[1])
checks = sys.argv[2:]
meta = json.load(open(os.path.join(d, "meta.json"))) if os.path.exists(os.path.join(d, "meta.json")) else {}
if not checks:
    checks = [meta.get("property")] if meta.get("property") else []
patch = os.path.join(d, "patch.diff")
assert subprocess.run(["git", "-C", "/repo", "status", "--porcelain"], capture_output=True, text=True).stdout.strip() == "", "/repo not clean"
subprocess.check_call(["git", "-C", "/repo", "apply", patch])
# evidence files describe runs on the unchanged tree: keep them out of mutant runs
saved = {}
for c in checks:
    ef = f"/verif/evidence/{c}.json"
    if os.path.exists(ef):
        saved[ef] = open(ef).read()
try:
    for c in checks:
        tier = os.environ.get("SEED_TIER", "quick")
        p = subprocess.run(["/venv/bin/python", "/verif/check.py", c, "--tier", tier], capture_output=True, text=True)
        lines = [l for l in p.stdout.splitlines() if l.strip()]
        vio = [l for l in lines if l.startswith("VIOLATION")]
        print(os.path.basename(d), c, f"exit={p.returncode}", f"violations_lines={len(vio)}", (vio[0] if vio else lines[-1] if lines else "")[:160], flush=True)
finally:
    subprocess.check_call(["git", "-C", "/repo", "checkout", "--", "."])
    for ef, txt in saved.items():
        open(ef, "w").write(txt)
