#!/bin/bash
# run every quick check against another tree (a worktree holding a behaviour-preserving clean-up) and classify what is reported:
#   silent | reported without a failing input (allowed: the property is no longer SHOWN to hold) | concrete claim (a false alarm if the change is harmless)
# usage: tools/benign.sh <tree> <tag>
tree=$1; tag=$2
cd "$(dirname "$0")/.."
mkdir -p build/logs/benign-$tag
ls checks/C*.py | sed 's/.*\///; s/\.py//' | BB_TAG=$tag BB_REPO=$tree xargs -P 5 -I{} sh -c "/venv/bin/python check.py {} --tier quick > build/logs/benign-$tag/{}.log 2>&1"
for c in $(ls checks/C*.py | sed 's/.*\///; s/\.py//'); do
  f=build/logs/benign-$tag/$c.log
  nv=$(grep -c "^VIOLATION" $f); nw=$(grep "^VIOLATION" $f | grep -c "no-failing-input-found")
  if [ "$nv" = "0" ]; then echo "$c silent"; elif [ "$nv" = "$nw" ]; then echo "$c reported-without-input ($nw)"; else echo "$c CONCRETE-CLAIM ($((nv-nw)) of $nv)"; fi
done
