"""Shared machinery of the checks: Coq builds, certified evaluation, evidence, violations."""
from __future__ import annotations

import concurrent.futures as cf
import fcntl
import hashlib
import json
import os
import re
import shutil
import subprocess
import sys
import time

VERIF = os.path.dirname(os.path.dirname(os.path.abspath(__file__)))
REPO = os.environ.get("BB_REPO", "/repo")
COQ = os.path.join(VERIF, "coq")
LIB = os.path.join(COQ, "Lib")
PROPS = os.path.join(COQ, "Props")
FINDINGS = os.path.join(COQ, "Findings")
sys.path.insert(0, os.path.join(VERIF, "tools"))

STD_AXIOMS_NOTE = (
    "axioms listed by Print Assumptions are all declared by Coq's standard library "
    "(classical reals, classic, functional extensionality, primitive int/float specs used by "
    "the interval tactic); none is declared in /verif"
)

FIXED_TRUSTED = [
    "Coq 8.16.1 kernel (coqc, full .vo builds; vm_compute used by the interval tactic and by "
    "the float correspondence; no native_compute)",
    "Coquelicot and Interval libraries (their theorems are kernel-checked; their axioms appear "
    "in the Print Assumptions list)",
    "tools/py2coq.py: the Python-ast -> Gallina translator (fail-closed; validated on every run by "
    "kernel-certified point evaluation against the running implementation)",
    "real-number model: theorems are about exact real arithmetic; IEEE rounding and the <= 1/2 ulp "
    "distance between decimal literals and binary64 values are outside the theorems and covered "
    "by tolerance comparison on the explored inputs",
    "numpy/scipy/pandas/lmfit/matplotlib are modelled by explicit contracts, not verified",
    "no extraction is used (the executable model runs inside Coq); coqchk -o is a separate tool (tools/coqchk_all.sh, "
    "coqchk_summary.txt), not part of this run",
]


def sh(cmd, timeout, cwd=None):
    t0 = time.time()
    try:
        p = subprocess.run(cmd, cwd=cwd, capture_output=True, text=True, timeout=timeout)
        return p.returncode, p.stdout + p.stderr, time.time() - t0
    except subprocess.TimeoutExpired as e:
        out = (e.stdout or b"").decode() if isinstance(e.stdout, bytes) else (e.stdout or "")
        return 124, out + f"\nTIMEOUT after {timeout}s", time.time() - t0


# ---------------------------------------------------------------------------------------
# library build (independent of /repo): done by setup, re-done on demand under a lock
def lib_files():
    proj = os.path.join(LIB, "_CoqProject")
    return [l.strip() for l in open(proj) if l.strip().endswith(".v")]


def build_lib(force=False, quiet=True):
    os.makedirs(os.path.join(VERIF, "build"), exist_ok=True)
    lock = open(os.path.join(VERIF, "build", ".lib.lock"), "w")
    fcntl.flock(lock, fcntl.LOCK_EX)
    try:
        if force:
            sh(["make", "-f", "Makefile.coq", "clean"], 120, cwd=LIB)
        mk, proj = os.path.join(LIB, "Makefile.coq"), os.path.join(LIB, "_CoqProject")
        if force or not os.path.exists(mk) or os.path.getmtime(mk) < os.path.getmtime(proj):
            rc, out, _ = sh(["coq_makefile", "-f", "_CoqProject", "-o", "Makefile.coq"], 60, cwd=LIB)
            if rc:
                return False, out
        rc, out, dt = sh(["make", "-f", "Makefile.coq", "-j16"], 3000, cwd=LIB)
        if not quiet:
            print(out[-3000:])
        return rc == 0, out
    finally:
        fcntl.flock(lock, fcntl.LOCK_UN)
        lock.close()


# ---------------------------------------------------------------------------------------
THM_RE = re.compile(r"^\s*(Theorem|Lemma|Corollary|Example|Fact|Goal)\s+([A-Za-z_][\w']*)", re.M)


def theorems_in(path):
    """[(line, kind, name)] of statements in a .v file."""
    out = []
    for i, line in enumerate(open(path), 1):
        m = THM_RE.match(line)
        if m:
            out.append((i, m.group(1), m.group(2)))
    return out


FORBIDDEN = re.compile(
    r"\b(Admitted|admit|Axiom|Axioms|Parameter|Parameters|Conjecture|Abort All|"
    r"Unset\s+Guard|bypass_check|Admit\s+Obligations|type-in-type|impredicative-set)\b")


def forbidden_scan(paths):
    bad = []
    for p in paths:
        txt = open(p).read()
        # drop comments (non-nested is enough for our sources; nested handled conservatively)
        depth, out, i = 0, [], 0
        while i < len(txt):
            if txt.startswith("(*", i):
                depth += 1
                i += 2
            elif txt.startswith("*)", i) and depth:
                depth -= 1
                i += 2
            else:
                if depth == 0:
                    out.append(txt[i])
                i += 1
        code = "".join(out)
        for m in FORBIDDEN.finditer(code):
            bad.append(f"{os.path.basename(p)}: {m.group(0)}")
        # Variable/Hypothesis outside a section
        depth = 0
        for line in code.splitlines():
            s = line.strip()
            if re.match(r"Section\s+\w+", s):
                depth += 1
            elif re.match(r"End\s+\w+\s*\.", s) and depth:
                depth -= 1
            elif depth == 0 and re.match(r"(Variable|Variables|Hypothesis|Hypotheses|Context)\b", s):
                bad.append(f"{os.path.basename(p)}: {s.split()[0]} outside a section")
    return bad


def parse_assumptions(out):
    """Axiom names printed by Print Assumptions in a coqc log."""
    names = []
    for line in out.splitlines():
        m = re.match(r"^([A-Za-z_][\w.']*)\s*(:|$)", line)
        if m and not line.startswith(("Axioms", "Closed", "File", "Error", "Warning", "Fetching")):
            n = m.group(1)
            if "." in n or n[0].islower() or n.startswith(("Prim", "SF2", "Float", "Uint")):
                names.append(n)
    return sorted(set(names))


class Ctx:
    def __init__(self, pid, tier, seed):
        self.pid = pid
        self.tier = tier
        self.seed = seed
        self.t0 = time.time()
        # BB_TAG (development only): a private build directory and private evidence / replay directories, so that a run against
        # a scratch tree can go on beside a registered run of the same check
        self.tag = os.environ.get("BB_TAG", "")
        self.bdir = os.path.join(VERIF, "build", pid + ("-" + self.tag if self.tag else ""))
        self.obligations = []  # dicts: name, file, status ('ok'|'broken'|'unchecked'), detail
        self.axioms = set()
        self.broken = []  # human-readable list of what no longer checks
        self.violations = []  # concrete violations (dicts with 'what', 'input', ...)
        self.cov = {}
        self.samples = []
        self.notes = []
        self.validated_only = []
        self.checker_cmds = []
        self.known_printed = []

    def log(self, *a):
        print(f"[{self.pid} {time.time() - self.t0:6.1f}s]", *a, flush=True)

    @property
    def quick(self):
        return self.tier == "quick"


def coqc_cmd(bdir, extra_q=()):
    cmd = ["coqc", "-q", "-Q", LIB, "BBLib", "-Q", bdir, "BBRun"]
    for d, n in extra_q:
        cmd += ["-Q", d, n]
    return cmd


def coq_phase(ctx: Ctx, gen_modules, prop_files, findings=(), timeout=900):
    """Regenerate Gen_*.v from /repo, compile them and the property files.

    prop_files: names under coq/Props (copied into the build dir so that concurrent checks
    never share .vo files that depend on /repo)."""
    import gen_specs

    ok, out = build_lib()
    if not ok:
        ctx.broken.append("library build failed: " + out[-800:])
        return
    shutil.rmtree(ctx.bdir, ignore_errors=True)
    os.makedirs(ctx.bdir)
    gen_ok = {}
    order = []
    for g in gen_modules:
        for d in gen_specs.DEPS.get(g, []) + [g]:
            if d not in order:
                order.append(d)
    for g in order:
        path, err = gen_specs.generate(g, ctx.bdir)
        if err:
            gen_ok[g] = False
            ctx.broken.append(f"translation of {g} failed (fail-closed): {err}")
            ctx.log("TRANSLATION FAILED", err)
            continue
        rc, o, dt = sh(coqc_cmd(ctx.bdir) + [path], timeout)
        gen_ok[g] = rc == 0
        if rc:
            ctx.broken.append(f"generated model Gen_{g}.v does not compile: {o[-600:]}")
            ctx.log("Gen compile failed", g, o[-600:])
    ctx.gen_ok = gen_ok
    # copy property files
    srcs = []
    for pf in list(prop_files) + [("F", f) for f in findings]:
        if isinstance(pf, tuple):
            src = os.path.join(FINDINGS, pf[1])
        else:
            src = os.path.join(PROPS, pf)
        dst = os.path.join(ctx.bdir, os.path.basename(src))
        shutil.copy(src, dst)
        srcs.append(dst)
    bad = forbidden_scan(srcs + [os.path.join(LIB, f) for f in lib_files()])
    if bad:
        ctx.broken.append("forbidden constructs in the development: " + "; ".join(bad))

    def comp(path):
        rc, o, dt = sh(coqc_cmd(ctx.bdir) + [path], timeout)
        return path, rc, o, dt

    # property files that other property files import are compiled first
    names = {os.path.splitext(os.path.basename(p_))[0]: p_ for p_ in srcs}
    first = [p_ for n_, p_ in names.items()
             if any(re.search(r"Require[^.]*\b" + re.escape(n_) + r"\b", open(q_).read()) for q_ in srcs if q_ != p_)]
    results = [comp(p_) for p_ in first]
    with cf.ThreadPoolExecutor(max_workers=14) as ex:
        results += list(ex.map(comp, [p_ for p_ in srcs if p_ not in first]))
    ctx.checker_cmds.append("coqc -q -Q coq/Lib BBLib -Q build/%s BBRun <Gen_*.v, %s>" % (
        ctx.pid, " ".join(os.path.basename(s) for s in srcs)))
    for path, rc, o, dt in results:
        base = os.path.basename(path)
        thms = [(l, k, n) for (l, k, n) in theorems_in(path) if k in ("Theorem", "Corollary", "Example")]
        if rc == 0:
            ctx.axioms.update(parse_assumptions(o))
            for l, k, n in thms:
                ctx.obligations.append(dict(name=n, file=base, kind=k, status="ok", wall_s=round(dt, 1)))
            continue
        m = re.search(r'File "[^"]*", line (\d+), characters', o)
        eline = int(m.group(1)) if m else 0
        allst = theorems_in(path)
        culprit = None
        for l, k, n in allst:
            if l <= eline:
                culprit = n
        detail = o.strip()[-700:]
        for l, k, n in thms:
            st = "unchecked"
            ctx.obligations.append(dict(name=n, file=base, kind=k, status=st))
        ctx.broken.append(f"{base}: proof of `{culprit}` no longer checks (line {eline}): {detail}")
        ctx.log("COQ FAILED", base, "at", culprit, "\n", detail[-400:])


def gen_names(mods):
    """Qualified names of every definition emitted for the given generated modules."""
    import gen_specs
    out = []
    for g in mods:
        m, err = gen_specs.module(g)
        if m:
            for n in m.defined:
                if n.endswith("__arr"):
                    continue
                out.append(f"{m.coq_name}.{n}")
                if n.endswith("_array"):
                    out += [f"{m.coq_name}.{n[:-6]}_elem", f"{m.coq_name}.{n[:-6]}_dtype"]
    return out


def compile_variant(ctx, src_name, dst_name, subst=(), timeout=900, src_dir=None):
    """Compile coq/Props/<src_name> (after textual substitutions) as build/<pid>/<dst_name>.
    Returns (ok, output, [theorem names]); nothing is registered in ctx."""
    txt = open(os.path.join(src_dir or PROPS, src_name)).read()
    for a, b in subst:
        txt = txt.replace(a, b)
    path = os.path.join(ctx.bdir, dst_name)
    open(path, "w").write(txt)
    bad = forbidden_scan([path])
    rc, o, dt = sh(coqc_cmd(ctx.bdir) + [path], timeout)
    thms = [n for (l, k, n) in theorems_in(path) if k in ("Theorem", "Corollary", "Example")]
    return (rc == 0 and not bad), o + ("\nFORBIDDEN: " + "; ".join(bad) if bad else ""), thms


def register(ctx, fname, thms, ok, out):
    """Record the theorems of an extra file as obligations."""
    if ok:
        ctx.axioms.update(parse_assumptions(out))
    for n in thms:
        ctx.obligations.append(dict(name=n, file=fname, kind="Theorem", status="ok" if ok else "unchecked"))
    if not ok:
        m = re.search(r'line (\d+), characters', out)
        ctx.broken.append(f"{fname}: no longer checks (line {m.group(1) if m else '?'}): {out.strip()[-500:]}")
    ctx.checker_cmds.append(f"coqc ... {fname}")


# ---------------------------------------------------------------------------------------
# tie 3: certified point evaluation
def frac(x: float):
    from fractions import Fraction
    fr = Fraction(x)
    s = f"({abs(fr.numerator)} / {fr.denominator})" if fr.denominator != 1 else f"{abs(fr.numerator)}"
    return f"(- {s})" if fr < 0 else s


def cert_phase(ctx: Ctx, goals, imports, shard=6, timeout=600, prelude=""):
    """goals: list of dict(expr=<Coq term>, value=<python float>, rtol, unfold=[names], label).
    Emits Goal Rabs (expr - value) <= tol and asks Coq to prove each by interval."""
    if not goals:
        return 0, 0
    files = []
    for s in range(0, len(goals), shard):
        part = goals[s:s + shard]
        lines = ["From Coq Require Import Reals Lra List.", "From Interval Require Import Tactic.",
                 "From BBLib Require Import PyPrelude CertTac."]
        for im in imports:
            lines.append(f"From BBRun Require Import {im}.")
        lines += ["Import ListNotations.", "Open Scope R_scope.", prelude]
        for k, g in enumerate(part):
            tol = abs(g["value"]) * g.get("rtol", 1e-9) + g.get("atol", 0.0)
            unf = " ".join(g["unfold"])
            lines.append(f"(* {g.get('label', '')} *)")
            lines.append(f"Goal Rabs ({g['expr']} - {frac(g['value'])}) <= {frac(tol)}.")
            lines.append(f"Proof. cbv beta zeta delta [{unf}]. {g.get('pre', '')} pypow_norm; dec_norm; pypow_norm; cert_close. Qed.")
        ctx.cert_files = getattr(ctx, "cert_files", 0) + 1   # unique across several cert_phase calls of one check
        path = os.path.join(ctx.bdir, f"Cert_{ctx.pid}_{ctx.cert_files - 1}.v")
        open(path, "w").write("\n".join(lines) + "\n")
        files.append((path, part))

    def comp(item):
        path, part = item
        rc, o, dt = sh(coqc_cmd(ctx.bdir) + [path], timeout)
        return path, part, rc, o

    okc = 0
    with cf.ThreadPoolExecutor(max_workers=14) as ex:
        for path, part, rc, o in ex.map(comp, files):
            if rc == 0:
                okc += len(part)
                continue
            m = re.search(r'line (\d+), characters', o)
            eline = int(m.group(1)) if m else 0
            src = open(path).read().splitlines()
            lab = ""
            for i in range(min(eline, len(src)) - 1, -1, -1):
                if src[i].startswith("(* "):
                    lab = src[i]
                    break
            ctx.broken.append(
                f"certified point evaluation failed ({os.path.basename(path)} line {eline} {lab}): "
                f"the translated model and the implementation disagree, or the point is not certifiable: {o.strip()[-400:]}")
            ctx.cert_fail = getattr(ctx, "cert_fail", []) + [lab]
            ctx.log("CERT FAILED", lab, o.strip()[-300:])
    ctx.cov["certified_points"] = ctx.cov.get("certified_points", 0) + okc
    ctx.cov["certified_points_requested"] = ctx.cov.get("certified_points_requested", 0) + len(goals)
    return okc, len(goals)


# ---------------------------------------------------------------------------------------
def known_findings(pid):
    path = os.path.join(VERIF, "known_findings.json")
    if not os.path.exists(path):
        return []
    return [e for e in json.load(open(path))["findings"] if e["property"] == pid]


def write_replay(ctx, payload):
    rdir = os.path.join(VERIF, "replays") if not ctx.tag else os.path.join(VERIF, "build", "replays-" + ctx.tag)
    os.makedirs(rdir, exist_ok=True)
    blob = json.dumps(payload, sort_keys=True, default=str)
    h = hashlib.sha1(blob.encode()).hexdigest()[:10]
    path = os.path.join(rdir, f"{ctx.pid}-{h}.json")
    with open(path, "w") as f:
        json.dump(payload, f, indent=1, default=str)
    return path


def finish(ctx: Ctx, level="proof"):
    """Decide, write evidence, print VIOLATION lines, return exit code."""
    n_ob = len(ctx.obligations)
    n_ok = sum(1 for o in ctx.obligations if o["status"] == "ok")
    exit_code = 0
    vio_lines = []
    # concrete violations first
    seen = set()
    for v in ctx.violations:
        key = v.get("key") or v.get("what")
        if key in seen:
            continue
        seen.add(key)
        payload = dict(property=ctx.pid, kind="concrete", tier=ctx.tier, seed=ctx.seed, **v,
                       broken_obligations=ctx.broken,
                       replay_cmd=f"/venv/bin/python /verif/check.py {ctx.pid} --replay <this file>")
        path = write_replay(ctx, payload)
        vio_lines.append(f"VIOLATION property={ctx.pid} replay={path}")
    if ctx.broken and not ctx.violations:
        payload = dict(property=ctx.pid, kind="obligation-broken", tier=ctx.tier, seed=ctx.seed,
                       what="proof obligations / correspondence that no longer check; the search "
                            "found no concrete failing input",
                       broken_obligations=ctx.broken,
                       searched=ctx.cov.get("evaluations", 0))
        path = write_replay(ctx, payload)
        vio_lines.append(f"VIOLATION property={ctx.pid} replay={path} no-failing-input-found")
    if vio_lines:
        exit_code = 1
    ev = dict(
        property_id=ctx.pid, tier=ctx.tier, seed=ctx.seed, level=level,
        coverage=dict(
            **(dict(obligations=n_ob, discharged=n_ok) if n_ok >= 1 else dict(obligations_total=n_ob, discharged_count=0)),
            obligation_list=[dict(name=o["name"], file=o["file"], status=o["status"]) for o in ctx.obligations],
            checker_cmd="; ".join(ctx.checker_cmds) or "none",
            trusted_base=sorted(ctx.axioms) + FIXED_TRUSTED,
            broken=ctx.broken,
            validated_only=ctx.validated_only,
            samples=ctx.samples[:12] or [dict(note="no case was explored before the run ended")],
            **{**dict(evaluations=1, distinct_nontrivial=2), **{k: v for k, v in ctx.cov.items()}},
        ),
        assumptions=[STD_AXIOMS_NOTE] + ctx.notes,
        wall_s=round(time.time() - ctx.t0, 2),
        violations=len(vio_lines),
    )
    edir = os.path.join(VERIF, "evidence") if not ctx.tag else os.path.join(VERIF, "build", "evidence-" + ctx.tag)
    os.makedirs(edir, exist_ok=True)
    with open(os.path.join(edir, f"{ctx.pid}.json"), "w") as f:
        json.dump(ev, f, indent=1, default=str)
    for l in ctx.known_printed:
        print(l)
    for l in vio_lines:
        print(l)
    ctx.log(f"obligations {n_ok}/{n_ob} discharged; broken={len(ctx.broken)} violations={len(ctx.violations)} exit={exit_code}")
    return exit_code
