"""Forward-mode automatic differentiation of the library's own code (dual numbers), with a
Richardson-extrapolated central difference as fallback when a parent uses an operation the
dual class does not know."""
import math

import numpy as np


class Dual:
    __array_priority__ = 1000

    def __init__(self, v, d=0.0):
        self.v = float(v)
        self.d = float(d)

    @staticmethod
    def lift(x):
        return x if isinstance(x, Dual) else Dual(float(x), 0.0)

    def __add__(self, o):
        o = Dual.lift(o)
        return Dual(self.v + o.v, self.d + o.d)
    __radd__ = __add__

    def __sub__(self, o):
        o = Dual.lift(o)
        return Dual(self.v - o.v, self.d - o.d)

    def __rsub__(self, o):
        return Dual.lift(o) - self

    def __mul__(self, o):
        o = Dual.lift(o)
        return Dual(self.v * o.v, self.d * o.v + self.v * o.d)
    __rmul__ = __mul__

    def __truediv__(self, o):
        o = Dual.lift(o)
        return Dual(self.v / o.v, (self.d * o.v - self.v * o.d) / (o.v * o.v))

    def __rtruediv__(self, o):
        return Dual.lift(o) / self

    def __neg__(self):
        return Dual(-self.v, -self.d)

    def __pos__(self):
        return self

    def __pow__(self, o):
        if isinstance(o, Dual):
            if o.d == 0.0:
                o = o.v
            else:
                val = self.v ** o.v
                return Dual(val, val * (o.d * math.log(self.v) + o.v * self.d / self.v))
        if o == 0:
            return Dual(1.0, 0.0)
        return Dual(self.v ** o, o * self.v ** (o - 1) * self.d)

    def __rpow__(self, o):
        val = float(o) ** self.v
        return Dual(val, val * math.log(o) * self.d)

    def __abs__(self):
        return self if self.v >= 0 else -self

    def __float__(self):
        return self.v

    def _cmp(self, o):
        return o.v if isinstance(o, Dual) else float(o)

    def __lt__(self, o): return self.v < self._cmp(o)
    def __le__(self, o): return self.v <= self._cmp(o)
    def __gt__(self, o): return self.v > self._cmp(o)
    def __ge__(self, o): return self.v >= self._cmp(o)
    def __eq__(self, o): return self.v == self._cmp(o)
    def __ne__(self, o): return self.v != self._cmp(o)
    __hash__ = None

    # numpy ufuncs applied to an object array fall back to these methods
    def exp(self):
        e = math.exp(self.v)
        return Dual(e, e * self.d)

    def log(self):
        return Dual(math.log(self.v), self.d / self.v)

    def sqrt(self):
        s = math.sqrt(self.v)
        return Dual(s, self.d / (2 * s))

    def __array_ufunc__(self, ufunc, method, *inputs, **kw):
        if method != "__call__":
            return NotImplemented
        name = ufunc.__name__
        a = inputs[0]
        if name == "exp":
            return Dual.lift(a).exp()
        if name == "log":
            return Dual.lift(a).log()
        if name == "sqrt":
            return Dual.lift(a).sqrt()
        if name in ("absolute", "fabs"):
            return abs(Dual.lift(a))
        if name == "negative":
            return -Dual.lift(a)
        if len(inputs) == 2:
            x, y = inputs
            if isinstance(x, np.ndarray) or isinstance(y, np.ndarray):
                return NotImplemented
            if name == "add": return Dual.lift(x) + y
            if name == "subtract": return Dual.lift(x) - y
            if name == "multiply": return Dual.lift(x) * y
            if name in ("true_divide", "divide"): return Dual.lift(x) / y
            if name == "power": return Dual.lift(x) ** y
            if name == "greater_equal": return Dual.lift(x) >= y
            if name == "greater": return Dual.lift(x) > y
            if name == "less": return Dual.lift(x) < y
            if name == "less_equal": return Dual.lift(x) <= y
            if name == "minimum": return x if Dual.lift(x) <= y else y
            if name == "maximum": return x if Dual.lift(x) >= y else y
        return NotImplemented


_orig = {}


def _patch_math():
    """math.exp / math.log / math.sqrt / math.fabs on duals."""
    if _orig:
        return
    for nm in ("exp", "log", "sqrt", "fabs"):
        _orig[nm] = getattr(math, nm)

    def mk(nm):
        def f(x, *a):
            if isinstance(x, Dual):
                return {"exp": x.exp, "log": x.log, "sqrt": x.sqrt, "fabs": lambda: abs(x)}[nm]()
            return _orig[nm](x, *a)
        return f
    for nm in _orig:
        setattr(math, nm, mk(nm))


def derivative(f, x, *, scale=None):
    """d f / d x at x.  Returns (value, how) with how in {'ad', 'richardson'}."""
    _patch_math()
    try:
        r = f(Dual(x, 1.0))
        if isinstance(r, Dual):
            return r.d, "ad"
        if isinstance(r, np.ndarray) and r.dtype == object and r.ndim == 0 and isinstance(r.item(), Dual):
            return r.item().d, "ad"
        if isinstance(r, (float, int, np.floating)):
            # the parent returned a plain number although fed a dual: locally constant
            return 0.0, "ad"
    except Exception:
        pass
    h0 = (abs(x) if scale is None else scale) * 1e-3 + 1e-6
    tab = []
    for k in range(5):
        h = h0 / 2 ** k
        row = [(float(f(x + h)) - float(f(x - h))) / (2 * h)]
        for j in range(1, k + 1):
            row.append(row[j - 1] + (row[j - 1] - tab[k - 1][j - 1]) / (4 ** j - 1))
        tab.append(row)
    return tab[-1][-1], "richardson"
