"""Multiphase test tables (C15, C16): shipped oil+water table and synthetic families."""
import os

import numpy as np

from vlib import core

COLS = ["pseudopressure", "pressure", "Bo", "Bg", "Bw", "Rs", "Rv", "mu_o", "mu_g", "mu_w", "So"]


def shipped(stride=1):
    import pandas as pd
    df = pd.read_csv(os.path.join(core.REPO, "tests", "data", "pvt_multiphase_oil.csv"))
    df = df[df["pressure"] > 0].iloc[::stride].reset_index(drop=True)
    return {c: np.asarray(df[c], float) for c in COLS}


def synthetic(kind, n, rng, uniform=True):
    p = np.linspace(100.0, 6000.0, n) if uniform else np.cumsum(rng.uniform(20, 400, n)) + 50.0
    one = np.ones(n)
    if kind == "constant":
        t = dict(Bo=1.3 * one, Bg=0.005 * one, Bw=1.02 * one, Rs=500 * one, Rv=1e-5 * one, mu_o=0.8 * one, mu_g=0.02 * one, mu_w=0.4 * one)
    elif kind == "linear":  # 1/B linear in pressure with known slope
        t = dict(Bo=1 / (0.7 + 2e-5 * p), Bg=1 / (5.0 + 0.03 * p), Bw=1 / (0.95 + 1e-6 * p), Rs=100 + 0.1 * p, Rv=1e-6 * p / 100,
                 mu_o=0.5 + 1e-4 * p, mu_g=0.015 + 2e-6 * p, mu_w=0.4 * one)
    else:  # kinked at a bubble point
        pb = p[n // 2]
        t = dict(Bo=np.where(p < pb, 1.1 + 3e-4 * p / 1e3 * 1e3 / 1e3 * 100 * 0 + 1.1 + 2e-5 * p, 1.1 + 2e-5 * pb - 1e-5 * (p - pb)),
                 Bg=1 / (3.0 + 0.04 * p), Bw=1.03 - 2e-6 * p, Rs=np.where(p < pb, 0.2 * p, 0.2 * pb), Rv=0 * one,
                 mu_o=np.where(p < pb, 1.5 - 1e-4 * p, 1.5 - 1e-4 * pb + 2e-5 * (p - pb)), mu_g=0.015 + 2e-6 * p, mu_w=0.5 * one)
    t["pressure"] = p
    t["So"] = np.clip(0.3 + 0.5 * (p - p[0]) / (p[-1] - p[0]), 0, 0.85)
    t["pseudopressure"] = np.zeros(n)
    return t
