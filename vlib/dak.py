"""Independent evaluation of the Dranchuk-Abou-Kassem equation of state (both forms of the
first coefficient), used by the searches and by the known-finding witness of K1."""
import math

from scipy.optimize import brentq

A = [0.3265, -1.07, -0.5339, 0.01569, -0.05165, 0.5475, -0.7361, 0.1844, 0.1056, 0.6134, 0.721]


def coeffs(tr, published):
    c0 = (A[0] + A[1] / tr if published else A[0] * A[1] / tr) + A[2] / tr ** 3 + A[3] / tr ** 4 + A[4] / tr ** 5
    c1 = A[5] + A[6] / tr + A[7] / tr ** 2
    c2 = -A[8] * (A[6] / tr + A[7] / tr ** 2)
    c3 = A[9] / tr ** 3
    return c0, c1, c2, c3


def zeos(tr, r, published):
    c0, c1, c2, c3 = coeffs(tr, published)
    return 1 + c0 * r + c1 * r * r + c2 * r ** 5 + c3 * r * r * (1 + A[10] * r * r) * math.exp(-A[10] * r * r)


def dzeos(tr, r, published):
    c0, c1, c2, c3 = coeffs(tr, published)
    e = math.exp(-A[10] * r * r)
    return c0 + 2 * c1 * r + 5 * c2 * r ** 4 + (2 * c3 * r + 2 * c3 * A[10] * r ** 3 - 2 * c3 * A[10] ** 2 * r ** 5) * e


def residual(tr, pr, r, published):
    return 0.27 * pr / (tr * r) - zeos(tr, r, published)


def z_solve(tr, pr, published):
    g = 0.27 * pr / tr
    r = brentq(lambda x: residual(tr, pr, x, published), g / 5, g * 20, xtol=1e-15 * g)
    return 0.27 * pr / (r * tr)
