"""Correspondence between the hand-written Coq model (float instance, run by vm_compute) and
bluebonnet's FlowProperties / IdealReservoir / SinglePhaseReservoir on the same inputs."""
from __future__ import annotations

import concurrent.futures as cf
import math
import os
import re
import warnings

import numpy as np

from vlib import core

REPO = core.REPO


# ------------------------------------------------------------------------------ tables
def shipped_gas(stride=1):
    import pandas as pd
    df = pd.read_csv(os.path.join(REPO, "tests", "data", "pvt_gas.csv")).rename(columns={
        "P": "pressure", "Z-Factor": "z-factor", "Cg": "compressibility",
        "Viscosity": "viscosity", "Density": "density"})
    df = df[df["pressure"] > 0]
    df = df.iloc[::stride].reset_index(drop=True)
    return {c: np.asarray(df[c], float) for c in
            ("pressure", "pseudopressure", "compressibility", "viscosity", "z-factor", "density")}


def shipped_oil(stride=1):
    """The shipped black-oil table read as a single-phase liquid (oil columns): its scaled initial pseudopressure
    m_i = m c mu z / (2 p) at p_i exceeds 1 above ~5500 psi, unlike every gas table."""
    import pandas as pd
    df = pd.read_csv(os.path.join(REPO, "tests", "data", "pvt_oil.csv")).rename(columns={
        "P": "pressure", "Z-Factor": "z-factor", "Co": "compressibility",
        "Oil_Viscosity": "viscosity", "Oil_Density": "density"})
    df = df[df["pressure"] > 0]
    df = df.iloc[::stride].reset_index(drop=True)
    return {c: np.asarray(df[c], float) for c in
            ("pressure", "pseudopressure", "compressibility", "viscosity", "z-factor", "density")}


def shipped_haynesville(stride=1, consistent_only=False):
    """The shipped Haynesville table.  131 of its 1400 rows (12300..13560 and 13880..13910 psi) carry Z = 5.0, the
    search bound the original z_factor_DAK returned when its optimiser failed (defect F3, repaired in gas.py but baked
    into this data file): density drops by a factor 3 there, and the pseudopressure column above 12300 psi was integrated
    through those rows.  consistent_only keeps the rows below 12300 psi (C03 quantifies over thermodynamically consistent
    tables); the other checks keep the whole table - any positive table is admissible for them."""
    import pandas as pd
    df = pd.read_csv(os.path.join(REPO, "tests", "data", "pvt_gas_HAYNESVILLE SHALE_20.csv"))
    df = df.rename(columns={"Density": "density"})
    if consistent_only:
        # only the rows below the first Z = 5 row: the pseudopressure column above it was integrated THROUGH the bad rows
        first_bad = int(np.argmax(np.asarray(df["z-factor"]) >= 4.99))
        df = df.iloc[:first_bad]
    df = df.iloc[1:].iloc[::stride].reset_index(drop=True)
    return {c: np.asarray(df[c], float) for c in
            ("pressure", "pseudopressure", "compressibility", "viscosity", "z-factor", "density")}


def synth_table(kind, n=60, pmax=10000.0, rng=None):
    """Synthetic tables.  'ideal' and 'liquid' are thermodynamically consistent in closed form
    (density ~ p/z, c = dln(rho)/dp, m = int 2p/(mu z)); the others are merely positive."""
    if kind == "ideal":  # z = 1, mu const: alpha rises with p
        p = np.linspace(50.0, pmax, n)
        mu = 0.02
        return dict(pressure=p, pseudopressure=(p ** 2 - p[0] ** 2) / mu, compressibility=1 / p,
                    viscosity=np.full(n, mu), **{"z-factor": np.ones(n)}, density=0.003 * p)
    if kind == "shifted":
        # the liquid table with its pseudopressure measured from a reference pressure INSIDE the table (pseudopressure is
        # defined up to its reference): negative below the reference, so the scaled frac-face value can be negative
        tb = synth_table("liquid", n, pmax, rng)
        tb["pseudopressure"] = tb["pseudopressure"] - tb["pseudopressure"][n // 3]
        return tb
    if kind in ("liquid", "stiff"):  # constant compressibility and viscosity: constant diffusivity
        p = np.linspace(50.0, pmax, n)
        c, mu, p0 = 2e-4, 0.5, 50.0
        rho = 40.0 * np.exp(c * (p - p0))
        z = p / (rho / 40.0 * p0)
        m = 2 * p0 * (np.exp(c * (p - p0)) - 1.0) / (c * mu)
        m = m + 1.0  # positive reference level (scaling divides by pseudopressure)
        if kind == "stiff":
            # pseudopressure column in other units (x4): not thermodynamically consistent, but a positive increasing table
            # whose scaled initial / frac-face pseudopressures exceed 1 (as the shipped oil table's do)
            m = 4.0 * m
        return dict(pressure=p, pseudopressure=m, compressibility=np.full(n, c), viscosity=np.full(n, mu),
                    **{"z-factor": z}, density=rho)
    rng = rng or np.random.default_rng(0)
    p = np.cumsum(rng.uniform(20.0, 300.0, n)) + 14.7
    if kind == "falling":  # diffusivity falls with pressure
        c = 1e-5 * (1 + p / p[-1] * 8)
        mu = 0.3 * (1 + p / p[-1])
    elif kind == "kinked":  # kink at a "bubble point"
        pb = p[n // 2]
        c = np.where(p < pb, 3e-4 * (1 - 0.8 * p / pb) + 1e-5, 1e-5 + 0 * p)
        mu = np.where(p < pb, 1.5 - p / pb, 0.5 + 0.2 * (p - pb) / pb)
    else:  # random positive
        c = np.exp(rng.uniform(math.log(1e-6), math.log(1e-3), n))
        mu = np.exp(rng.uniform(math.log(0.01), math.log(2.0), n))
    z = 0.8 + 0.4 * np.sin(p / p[-1] * 3) ** 2
    integrand = 2 * p / (mu * z)
    m = np.concatenate([[0.0], np.cumsum(np.diff(p) * (integrand[1:] + integrand[:-1]) / 2)]) + 1.0
    rho = 0.05 * p / z
    return dict(pressure=p, pseudopressure=m, compressibility=c, viscosity=mu, **{"z-factor": z}, density=rho)


def time_grid(kind, nt, tmax, rng):
    if kind == "uniform":
        return np.linspace(0, tmax, nt)
    if kind == "quadratic":
        return np.linspace(0, math.sqrt(tmax), nt) ** 2
    if kind == "geometric":
        return np.concatenate([[0.0], np.geomspace(1e-6 * tmax, tmax, nt - 1)])
    if kind == "random":
        return np.concatenate([[0.0], np.sort(rng.uniform(0, tmax, nt - 1))])
    if kind == "huge":
        return np.concatenate([[0.0], np.cumsum(rng.choice([1e-3, 1.0, 50.0, 1e3], nt - 1))])
    if kind == "jitter":
        # nearly, but not exactly, equal steps that drift: each step differs from its predecessor by ~2e-6 relative (less than
        # any default isclose/allclose tolerance) while the last is ~1 + 2e-6 nt times the first
        return np.concatenate([[0.0], np.cumsum((tmax / (nt - 1)) * (1 + 2e-6) ** np.arange(nt - 1) * (1 + 1e-7 * rng.standard_normal(nt - 1)))])
    if kind == "tiny":
        # increments far below 1e-8 at first (absolute tolerances of isclose/allclose), growing geometrically to tmax
        return np.concatenate([[0.0], np.cumsum(np.geomspace(1e-11, max(tmax, 1e-3), nt - 1))])
    raise KeyError(kind)


# ------------------------------------------------------------------------------ implementation
def run_impl(case):
    """Run bluebonnet on a case; returns dict with arrays or an 'error' enum."""
    from bluebonnet.flow import FlowProperties, IdealReservoir, SinglePhaseReservoir
    from bluebonnet.flow.flowproperties import FlowPropertiesSimple
    out = {}
    t = np.array(case["times"], float)     # the caller's own array (a copy of the case's: checks compare it with the case afterwards)
    if case.get("time_dtype"):
        t = t.astype(case["time_dtype"])       # day counts held as integers, float32 from a file
    if case.get("time_form") == "masked":
        t = np.ma.masked_array(t)               # an ndarray subclass with nothing masked (netCDF / genfromtxt(usemask=True) hand these out)
    elif case.get("time_form") == "series":
        import pandas as pd
        t = pd.Series(t)                        # a column of a production table divided by tau: default labels 0 .. n-1
    elif case.get("time_form") == "list":
        t = [float(x) for x in t]
    out["time_arg"] = t
    # the node count as the caller holds it: a Python int, or a (narrow) NumPy integer scalar taken from an array / a table column
    nx_arg = np.dtype(case["nx_type"]).type(case["nx"]) if case.get("nx_type") else case["nx"]
    try:
        with warnings.catch_warnings():
            warnings.simplefilter("ignore")
            if case["kind"] == "ideal":
                if case.get("reassign"):
                    # one object used for a second configuration: built and run with other settings first, then its public
                    # (dataclass) fields are re-assigned - what a refinement loop in a notebook does
                    res = IdealReservoir(case["nx"] + 7, 0.5 * (case["pf"] + case["pi"]), case["pi"] * 1.25, None)
                    res.simulate(np.linspace(0.0, 0.3, 5))
                    res.recovery_factor()
                    res.nx, res.pressure_fracface, res.pressure_initial = nx_arg, case["pf"], case["pi"]
                elif case.get("law"):
                    # a user subclass that overrides the documented hook `alpha_scaled` with a pressure-dependent law and inherits
                    # `simulate`: every step must consult the override at the previous level (model: ReservoirUser.idu_simulate)
                    a0_, a1_ = case["law"]

                    class UserLawReservoir(IdealReservoir):
                        def alpha_scaled(self, pseudopressure):
                            return a0_ + a1_ * pseudopressure
                    res = UserLawReservoir(nx_arg, case["pf"], case["pi"], None)
                else:
                    res = IdealReservoir(nx_arg, case["pf"], case["pi"], None)
                res.simulate(t)
            else:
                tb = {k: np.array(v, float) for k, v in case["table"].items()}
                if case.get("reverse_rows"):
                    # rows listed by decreasing pressure (as lab reports are): scipy's interp1d sorts, so the library gives
                    # the same result as for the ascending table - which is what the model (ascending tables) is given
                    tb = {k: v[::-1].copy() for k, v in tb.items()}
                cls = FlowPropertiesSimple if case.get("simple") else FlowProperties
                if case.get("table_obj") is not None:
                    tb = case["table_obj"]     # the caller's own container (e.g. one DataFrame reused for several constructions)
                fp = cls(tb, case["pi"])
                out["m_i"] = float(fp.m_i)
                sched = case.get("sched")
                pf0 = case["pf"]
                if case.get("reassign"):
                    p_col = np.asarray(tb["pressure"], float)
                    pi_other = float(0.5 * (case["pi"] + p_col.max()))
                    res = SinglePhaseReservoir(case["nx"] + 7, 0.5 * (pf0 + case["pi"]), pi_other, cls({k: np.array(v, float) for k, v in case["table"].items()}, pi_other))
                    res.simulate(np.linspace(0.0, 0.3, 5))
                    res.recovery_factor()
                    res.nx, res.pressure_fracface, res.pressure_initial, res.fluid = nx_arg, pf0, case["pi"], fp
                elif case.get("two_phase_sw") is not None and sched is None:
                    # the oil-gas class shares the single-phase time stepping; built with its documented positional signature
                    # (nx, pressure_fracface, pressure_initial, fluid, Sw_init) it must solve the same problem
                    from bluebonnet.flow import TwoPhaseReservoir
                    res = TwoPhaseReservoir(nx_arg, pf0, case["pi"], fp, case["two_phase_sw"])
                elif case.get("override"):
                    # a user subclass of SinglePhaseReservoir whose `alpha_scaled` is the scaled diffusivity of THIS case's table,
                    # while the fluid object it is built with carries another diffusivity column (same pressures and
                    # pseudopressures, hence the same scaling): matrix AND frac-face row must follow the override
                    tb1 = dict(tb)
                    pp_ = np.asarray(tb["pressure"], float)
                    tb1["alpha"] = np.asarray(tb["alpha"], float) * (0.4 + 1.5 * (pp_ - pp_.min()) / (pp_.max() - pp_.min()))
                    fp1 = cls(tb1, case["pi"])
                    fp_law = fp

                    class UserAlphaReservoir(SinglePhaseReservoir):
                        def alpha_scaled(self, pseudopressure):
                            return fp_law.alpha(pseudopressure) / fp_law.alpha(fp_law.m_i)
                    res = UserAlphaReservoir(nx_arg, pf0, case["pi"], fp1)
                else:
                    res = SinglePhaseReservoir(nx_arg, pf0, case["pi"], fp)
                if case.get("sweep") and not case.get("reassign") and case.get("two_phase_sw") is None:
                    # a drawdown sweep on ONE object: an earlier run with another frac-face pressure on the same grid, whose stored
                    # field and returned recoveries the caller KEEPS (no copy) while it goes on to the run of this case
                    pf_e = 0.5 * (pf0 + case["pi"])
                    res.pressure_fracface = pf_e
                    res.simulate(t.copy())
                    out["earlier"] = dict(pf=pf_e, field_ref=res.pseudopressure, field_copy=np.array(res.pseudopressure, float), m_f=float(fp.m_scaled_func(pf_e)))
                    rf_e = res.recovery_factor()
                    out["earlier"].update(rf_ref=rf_e, rf_copy=np.array(rf_e, float))
                    res.pressure_fracface = pf0
                if sched is None:
                    res.simulate(t)
                else:
                    res.simulate(t, np.asarray(sched, float))
                out["fp"] = fp
            out["field"] = np.array(res.pseudopressure, float)
            out["rf"] = np.array(res.recovery_factor(), float)
            if case["kind"] != "ideal":
                out["rfd"] = np.array(res.recovery_factor(density=True), float)
            out["res"] = res
    except ValueError as e:
        out["error"] = "ValueError"
        out["msg"] = str(e)[:200]
    except RuntimeError as e:
        out["error"] = "RuntimeError"
        out["msg"] = str(e)[:200]
    except (TypeError, AttributeError, IndexError, KeyError, FloatingPointError) as e:
        out["error"] = type(e).__name__
        out["msg"] = str(e)[:200]
    return out


def time_container_forms(cases, report, forms=("masked", "series", "list")):
    """The single-phase class accepts its time grid as a masked array with nothing masked, as a pandas Series with default labels and as a
    plain list, and simulates the same numbers as for the plain array (the ideal class documents and requires an ndarray).  Returns #runs."""
    n = 0
    for c in cases:
        plain = run_impl(c)
        if "field" not in plain:
            continue
        for form in forms:
            if c["kind"] == "ideal" and form == "list":
                continue
            other = run_impl(dict(c, time_form=form))
            n += 1
            if "field" not in other or np.asarray(other["field"]).shape != np.asarray(plain["field"]).shape or not np.array_equal(np.asarray(other["field"]), np.asarray(plain["field"]), equal_nan=False):
                what_form = {"masked": "numpy.ma.MaskedArray, no entry masked", "series": "pandas Series with default labels", "list": "plain Python list"}[form]
                report(c, what_form, other.get("error") or other.get("msg") or (float(np.nanmax(np.abs(np.asarray(other["field"]) - np.asarray(plain["field"])))) if np.asarray(other["field"]).shape == np.asarray(plain["field"]).shape and not np.isnan(np.asarray(other["field"])).all() else "all NaN / other shape"))
    return n


def run_threaded(cases, workers=4):
    """Run the cases concurrently, one thread per case (each with its own objects and arrays; the callers share nothing), with a very
    short interpreter switch interval so that the threads interleave inside the solves.  Returns the list of run_impl results."""
    import sys
    from concurrent.futures import ThreadPoolExecutor
    old_si = sys.getswitchinterval()
    sys.setswitchinterval(1e-6)
    try:
        with ThreadPoolExecutor(max_workers=workers) as ex:
            return list(ex.map(run_impl, cases))
    finally:
        sys.setswitchinterval(old_si)


def threaded_equals_serial(cases, serial, report, rounds=2, workers=4):
    """Simulations that run at the same time in different threads (same node count, different grids / fluids / pressures) must give
    exactly what they give one after the other.  report(case, observed) is called for a difference.  Returns #evaluations."""
    n = 0
    for _ in range(rounds):
        conc = run_threaded(cases, workers)
        for c, a, b in zip(cases, serial, conc):
            n += 1
            if ("field" in a) != ("field" in b):
                report(c, dict(serial_error=a.get("error"), concurrent_error=b.get("error")))
            elif "field" in a and not (np.array_equal(a["field"], b["field"]) and np.array_equal(a["rf"], b["rf"])):
                report(c, dict(max_field_diff=float(np.abs(a["field"] - b["field"]).max()), max_recovery_diff=float(np.abs(a["rf"] - b["rf"]).max()),
                               serial_final_recovery=float(a["rf"][-1]), concurrent_final_recovery=float(b["rf"][-1])))
    return n


# the per-step residual is relative to max|b| of the step, but never to less than this fraction of the run's initial pseudopressure
# (1e-250: only the subnormal range is excluded; until a5d74ea / 3794250 the solver had an absolute floor and the fraction was 0.01)
RESID_FLOOR = 1e-250


def resid_tol(case, impl, base=1e-9):
    """Tolerance for the per-step residual max|A x - b| / max(floor, max|b|) reported by the float model.
    base = rounding level for well-scaled steps; a backward-stable solve leaves a residual of a few eps * |A| |x|, which
    relative to |b| is eps * (1 + 4 k_max) * m_i / max|b|: negligible for ordinary steps, dominant for the 'huge' grids
    (mesh ratios up to 1e12).  A solver run with a loose tolerance (rtol 1e-5) still exceeds this by orders of magnitude
    wherever k_max <= 1e6."""
    eps = 2.220446049250313e-16
    t = np.asarray(case["times"], float)
    if len(t) < 2:
        return base
    nx = case["nx"]
    if case["kind"] == "ideal":
        kmax = float(np.diff(t).max()) * float(max(nx - 1, 1)) ** 2
        amp = 1.0
    else:
        fp = impl.get("fp")
        if fp is None:
            return base
        a = np.asarray(fp.pvt_props["alpha"], float)
        kmax = float(np.diff(t).max()) * float(nx) ** 2 * float(a.max() / fp.alpha(fp.m_i))
        amp = 1.0
    return base + 50 * eps * (1 + 4 * kmax) * amp


# ------------------------------------------------------------------------------ Coq emission
def fl(x):
    x = float(x)
    if x != x:
        return "nan"
    if x == math.inf:
        return "infinity"
    if x == -math.inf:
        return "neg_infinity"
    h = x.hex()
    return f"({h})" if x < 0 else h


def flist(xs):
    return "[" + "; ".join(fl(x) for x in xs) + "]"


def table_term(tb):
    alpha = "None" if "alpha" not in tb else f"(Some {flist(tb['alpha'])})"
    return ("{| t_pressure := %s; t_pseudopressure := %s; t_compressibility := %s; t_viscosity := %s; "
            "t_zfactor := %s; t_alpha := %s; t_density := %s |}" % (
                flist(tb["pressure"]), flist(tb["pseudopressure"]), flist(tb.get("compressibility", [])),
                flist(tb.get("viscosity", [])), flist(tb.get("z-factor", [])), alpha, flist(tb.get("density", []))))


HEADER = """From Coq Require Import List PrimFloat.
From BBLib Require Import NumSig Tridiag Interp Reservoir ReservoirUser FloatCmp.
Import ListNotations.
Open Scope float_scope.
Set Printing Width 100000.
Set Printing Depth 100000.
"""


def emit_case(k, case, impl, with_resid=True, n_samples=48, rng=None):
    """Coq text computing, for one case, the list
       [d_field; d_rf; d_rfd; d_mi; max_rel_resid; errflag]  (errflag 1 = model says error)."""
    rng = rng or np.random.default_rng(k)
    t = flist(case["times"])
    nx = case["nx"]
    lines = []
    if "error" in impl:
        # the implementation raised: the model must return None as well
        if case["kind"] == "ideal":
            return None
        sched = case.get("sched")
        pf = flist(sched if sched is not None else [case["pf"]] * len(case["times"]))
        init = "fp_init_simple" if case.get("simple") else "fp_init"
        lines.append(f"Definition case_{k} := match {init} NumF {table_term(case['table'])} {fl(case['pi'])} with "
                     f"| None => [0; 0; 0; 0; 0; 1] | Some fp => match sp_simulate NumF fp {nx}%nat {fl(nx)} {t} {pf} with "
                     f"None => [0; 0; 0; 0; 0; 1] | Some _ => [0; 0; 0; 0; 0; 0] end end.")
        lines.append(f"Eval vm_compute in case_{k}.")
        return "\n".join(lines)
    field = impl["field"]
    nt = field.shape[0]
    ij = {(nt - 1, j) for j in range(min(nx, 12))} | {(nt - 1, nx - 1), (min(1, nt - 1), 0), (min(1, nt - 1), min(1, nx - 1))}
    while len(ij) < min(n_samples, nt * nx):
        ij.add((int(rng.integers(0, nt)), int(rng.integers(0, nx))))
    ij = sorted(ij)
    ijt = "[" + "; ".join(f"({i}, {j})%nat" for i, j in ij) + "]"
    vals = flist(field[i, j] for i, j in ij)
    fieldlit = "[" + "; ".join(flist(row) for row in field) + "]" if with_resid else "[]"
    if case["kind"] == "ideal" and case.get("law"):
        law = f"(fun m => {fl(case['law'][0])} + {fl(case['law'][1])} * m)"
        lines.append(f"Definition case_{k} := let times := {t} in "
                     f"let field := idu_simulate NumF {law} {nx}%nat {fl(nx)} times in "
                     f"let rf := id_recovery NumF {fl(nx)} {fl(case['pf'])} {fl(case['pi'])} times field in "
                     f"let impl_field := {fieldlit} in "
                     f"[maxdiff (sample_field field {ijt}) {vals}; maxdiff rf {flist(impl['rf'])}; 0; 0; "
                     f"lmax NumF 0 (idu_residuals NumF {fl(RESID_FLOOR)} {law} {fl(nx)} times impl_field); 0].")
    elif case["kind"] == "ideal":
        lines.append(f"Definition case_{k} := let times := {t} in "
                     f"let field := id_simulate NumF {nx}%nat {fl(nx)} times in "
                     f"let rf := id_recovery NumF {fl(nx)} {fl(case['pf'])} {fl(case['pi'])} times field in "
                     f"let impl_field := {fieldlit} in "
                     f"[maxdiff (sample_field field {ijt}) {vals}; maxdiff rf {flist(impl['rf'])}; 0; 0; "
                     f"lmax NumF 0 (id_residuals NumF {fl(RESID_FLOOR)} {fl(nx)} times impl_field); 0].")
    else:
        sched = case.get("sched")
        pf = flist(sched if sched is not None else [case["pf"]] * len(case["times"]))
        init = "fp_init_simple" if case.get("simple") else "fp_init"
        lines.append(
            f"Definition case_{k} := let times := {t} in let pf := {pf} in "
            f"match {init} NumF {table_term(case['table'])} {fl(case['pi'])} with | None => [0; 0; 0; 0; 0; 1] | Some fp => "
            f"match sp_simulate NumF fp {nx}%nat {fl(nx)} times pf with None => [0; 0; 0; 0; 0; 1] | Some field => "
            f"let impl_field := {fieldlit} in "
            f"[maxdiff (sample_field field {ijt}) {vals}; "
            f"maxdiff (sp_recovery NumF fp {fl(nx)} false times field) {flist(impl['rf'])}; "
            f"maxdiff (sp_recovery NumF fp {fl(nx)} true times field) {flist(impl['rfd'])}; "
            f"fabsdiff (fp_m_i fp) {fl(impl['m_i'])}; "
            f"lmax NumF 0 (sp_residuals NumF {fl(RESID_FLOOR)} fp {fl(nx)} times pf impl_field); 0] end end.")
    lines.append(f"Eval vm_compute in case_{k}.")
    return "\n".join(lines)


NUM = r"(?:nan|infinity|neg_infinity|-?[0-9.]+(?:e[-+]?[0-9]+)?)"


def parse_results(out):
    res = []
    for m in re.finditer(r"=\s*\[([^\]]*)\]\s*:\s*list float", out.replace("\n", " ")):
        vals = []
        for tok in m.group(1).split(";"):
            tok = tok.strip().replace("%float", "")
            vals.append(float(tok.replace("neg_infinity", "-inf").replace("infinity", "inf")))
        res.append(vals)
    return res


def run_cases(ctx, cases, impls, tag, shard=4, with_resid=True, timeout=900):
    """Compile the cases in shards; returns list of result vectors (or None where failed)."""
    os.makedirs(ctx.bdir, exist_ok=True)
    files = []
    idx = [k for k in range(len(cases))]
    for s in range(0, len(idx), shard):
        part = idx[s:s + shard]
        body = [HEADER]
        keep = []
        for k in part:
            txt = emit_case(k, cases[k], impls[k], with_resid=with_resid)
            if txt:
                body.append(txt)
                keep.append(k)
        path = os.path.join(ctx.bdir, f"Corr_{tag}_{s // shard}.v")
        open(path, "w").write("\n".join(body) + "\n")
        files.append((path, keep))

    def comp(item):
        path, keep = item
        rc, o, dt = core.sh(["coqc", "-q", "-Q", core.LIB, "BBLib", path], timeout)
        return path, keep, rc, o

    results = [None] * len(cases)
    with cf.ThreadPoolExecutor(max_workers=14) as ex:
        for path, keep, rc, o in ex.map(comp, files):
            if rc != 0:
                ctx.broken.append(f"correspondence file {os.path.basename(path)} failed to evaluate: {o[-400:]}")
                continue
            vals = parse_results(o)
            if len(vals) != len(keep):
                ctx.broken.append(f"correspondence file {os.path.basename(path)}: expected {len(keep)} results, parsed {len(vals)}")
                continue
            for k, v in zip(keep, vals):
                results[k] = v
    return results


# ------------------------------------------------------------------------------ case generation
TABLE_KINDS = ["shipped", "haynesville", "ideal", "liquid", "falling", "kinked", "random", "oil", "stiff", "shifted"]


def make_table(kind, rng, quick=True):
    if kind == "shipped":
        return shipped_gas(stride=20 if quick else 4)
    if kind == "haynesville":
        return shipped_haynesville(stride=25 if quick else 5)
    if kind == "oil":
        return shipped_oil(stride=20 if quick else 4)
    return synth_table(kind, n=int(rng.integers(8, 40 if quick else 120)), rng=rng)


def gen_cases(rng, n, quick=True, kinds=("single", "ideal"), nx_choices=None, nt_max=None, sched_prob=0.4):
    """Structured, mostly-valid cases; every random choice comes from rng."""
    cases = []
    nx_choices = nx_choices or ([3, 5, 10, 30, 60] if quick else [3, 4, 10, 30, 80, 150, 400])
    nt_max = nt_max or (30 if quick else 120)
    grids = ["uniform", "quadratic", "geometric", "random", "huge", "jitter", "tiny"]
    for k in range(n):
        kind = kinds[k % len(kinds)]
        nx = int(nx_choices[int(rng.integers(0, len(nx_choices)))])
        nt = int(rng.integers(3, nt_max))
        grid = grids[k // len(kinds) % len(grids)]
        tmax = float(10 ** rng.uniform(-2, 1))
        times = time_grid(grid, nt, tmax, rng)
        # every fifth case (both kinds in turn) passes the node count as the narrowest NumPy integer type that holds it, signed and
        # unsigned alternating (uint8 for 30, int8 for 60 ..., int16 / uint16 for the large counts of the thorough tier)
        nx_type = None
        if k % 5 in (3, 4) and k % 10 in (3, 4, 8):
            nx = int(sorted(nx_choices)[-1 - (k // 5) % 2]) if len(nx_choices) > 1 else nx    # the larger node counts, in turn
            fits = [tname for tname in (("int8", "uint8", "int16", "uint16") if k % 10 != 8 else ("uint8", "uint16", "int16"))
                    if np.iinfo(tname).max >= max(nx, 3)]
            nx_type = fits[0] if fits else "int32"
        if kind == "ideal":
            pi = float(rng.uniform(1000, 12000))
            ratio = float(rng.choice([0.0125, 0.3, 0.875, 0.99875, rng.uniform(0.01, 0.99)]))
            cases.append(dict(kind="ideal", pi=pi, pf=pi * ratio, nx=max(nx, 3), times=times, grid=grid))
            if nx_type:
                cases[-1]["nx_type"] = nx_type
            if k % 7 in (2, 6):
                cases[-1]["reassign"] = True
            elif k % 6 in (1, 3) and k % 12 != 1:
                # a user subclass with its own diffusivity law alpha(m) = a0 + a1 m (falling or rising with depletion)
                cases[-1]["law"] = [0.25, 0.75] if k % 12 == 3 else [1.6, -0.9]
            continue
        tk = TABLE_KINDS[k // 2 % len(TABLE_KINDS)]
        tb = make_table(tk, rng, quick)
        p = tb["pressure"]
        on_node = rng.random() < 0.3
        pi = float(p[int(rng.integers(len(p) // 2, len(p)))]) if on_node else float(rng.uniform(p[len(p) // 2], p[-1]))
        ratio = float(rng.choice([0.0125, 0.3, 0.875, 0.99875, rng.uniform(0.01, 0.99)]))
        pf = max(float(p[0]), pi * ratio)
        case = dict(kind="single", table=tb, table_kind=tk, pi=pi, pf=pf, nx=nx, times=times, grid=grid)
        if nx_type:
            case["nx_type"] = nx_type
        if k % 7 == 5:
            case["reassign"] = True
        if k % 9 == 4:
            case["two_phase_sw"] = [0.25, 0.1, 1e-3][(k // 9) % 3]
        if k % 6 == 2 and not case.get("reassign") and case.get("two_phase_sw") is None:
            case["sweep"] = True
        if k % 8 in (2, 6) and k % 16 != 2:
            case["reverse_rows"] = True
        if k % 10 == 6 and not (case.get("reassign") or case.get("two_phase_sw") is not None or case.get("sweep") or case.get("reverse_rows")):
            # user subclass overriding alpha_scaled (see run_impl): the case's table carries the law as a user-supplied diffusivity
            # column, the fluid object handed to the constructor another one
            case["table"] = dict(tb, alpha=1.0 / (np.asarray(tb["compressibility"], float) * np.asarray(tb["viscosity"], float)))
            case["override"] = True
        if rng.random() < sched_prob:
            style = rng.choice(["stepdown", "random", "constant", "shut-in"])
            if style == "shut-in":
                # drawdown, then the well is shut in: the frac-face pressure is back AT the initial pressure for a while (the depleted
                # region recharges from the interior), then drawdown again
                sched = rng.uniform(pf, pi, nt)
                a_, b_ = sorted(rng.choice(np.arange(1, nt), 2, replace=False)) if nt > 3 else (1, 2)
                sched[a_:b_ + 1] = pi
            elif style == "stepdown":
                sched = np.sort(rng.uniform(pf, pi, nt))[::-1].copy()
            elif style == "random":
                sched = rng.uniform(pf, pi, nt)
            else:
                sched = np.full(nt, pf)
            case["sched"] = [float(x) for x in sched]
            case["sched_style"] = str(style)
        cases.append(case)
    return cases


def describe(case):
    d = {k: v for k, v in case.items() if k not in ("table", "times", "sched")}
    d["nt"] = len(case["times"])
    d["t_end"] = float(case["times"][-1])
    if "table" in case:
        d["table_rows"] = len(case["table"]["pressure"])
    if "sched" in case:
        d["sched_head"] = case["sched"][:3]
    return d


def replay_payload(case):
    c = dict(case)
    c["times"] = [float(x) for x in case["times"]]
    if "table" in c:
        c["table"] = {k: [float(x) for x in v] for k, v in c["table"].items()}
    return c


# ------------------------------------------------------------------------------ FlowProperties correspondence
def emit_fp_case(k, tb, p_i, queries, impl, simple=False):
    """[d_mi; maxdiff m-scaled column; maxdiff alpha(queries); maxdiff m_scaled_func(pressures); errflag]"""
    init = "fp_init_simple" if simple else "fp_init"
    if "error" in impl:
        return (f"Definition fpcase_{k} := match {init} NumF {table_term(tb)} {fl(p_i)} with None => [0; 0; 0; 0; 1] | Some _ => [0; 0; 0; 0; 0] end.\n"
                f"Eval vm_compute in fpcase_{k}.")
    pq = impl["pq"]
    return (f"Definition fpcase_{k} := match {init} NumF {table_term(tb)} {fl(p_i)} with None => [0; 0; 0; 0; 1] | Some fp => "
            f"[fabsdiff (fp_m_i fp) {fl(impl['m_i'])}; maxdiff (fp_mscaled fp) {flist(impl['ms'])}; "
            f"maxdiff (map (alpha_func NumF fp) {flist(queries)}) {flist(impl['alpha_q'])}; "
            f"maxdiff (map (fun q => match m_scaled_func NumF fp q with Some v => v | None => nan end) {flist(pq)}) {flist(impl['ms_q'])}; 0] end.\n"
            f"Eval vm_compute in fpcase_{k}.")


def run_fp_cases(ctx, items, tag, shard=6, timeout=600):
    """items: list of (tb, p_i, queries, impl, simple)."""
    files = []
    for s in range(0, len(items), shard):
        body = [HEADER] + [emit_fp_case(s + j, *it) for j, it in enumerate(items[s:s + shard])]
        path = os.path.join(ctx.bdir, f"FP_{tag}_{s // shard}.v")
        open(path, "w").write("\n".join(body) + "\n")
        files.append((path, list(range(s, min(s + shard, len(items))))))

    def comp(item):
        path, keep = item
        rc, o, dt = core.sh(["coqc", "-q", "-Q", core.LIB, "BBLib", path], timeout)
        return path, keep, rc, o
    results = [None] * len(items)
    with cf.ThreadPoolExecutor(max_workers=14) as ex:
        for path, keep, rc, o in ex.map(comp, files):
            vals = parse_results(o) if rc == 0 else []
            if rc != 0 or len(vals) != len(keep):
                ctx.broken.append(f"correspondence file {os.path.basename(path)} failed: {o[-300:]}")
                continue
            for k, v in zip(keep, vals):
                results[k] = v
    return results
