"""Independent reference solutions of the documented scaled diffusion problem
   u_t = a(u) u_xx,  u(0,t) = u_f,  u_x(1,t) = 0,  u(x,0) = u_i   (docs/background.md)."""
import numpy as np


def fourier_field(x, t, ui, uf, N=4000):
    n = np.arange(N)
    w = (2 * n + 1) * np.pi / 2
    return uf + (ui - uf) * np.sum(4 / ((2 * n + 1) * np.pi) * np.sin(np.outer(x, w)) * np.exp(-w ** 2 * t), axis=1)


def fourier_cumflux(t, N=200000):
    """int_0^t u_x(0,s) ds / (u_i - u_f)"""
    n = np.arange(N)
    lam = ((2 * n + 1) * np.pi / 2) ** 2
    return np.sum(2 * (1 - np.exp(-np.outer(np.atleast_1d(t), lam))) / lam, axis=1)


def mol_reference(alpha_s, ui, uf, t_end, nref=240):
    """Method of lines on a fine uniform grid (nodes x_j = j/nref, j = 1..nref, mirror at x = 1),
    integrated by an implicit variable-order BDF with tight tolerances.  Returns (x, u(x, t_end))."""
    from scipy.integrate import solve_ivp
    h = 1.0 / nref
    x = np.arange(1, nref + 1) * h

    def rhs(_, u):
        up = np.concatenate([u[1:], u[-2:-1]])   # mirror: u_{n+1} = u_{n-1}
        um = np.concatenate([[uf], u[:-1]])
        return alpha_s(u) * (up - 2 * u + um) / h ** 2
    sol = solve_ivp(rhs, (0.0, t_end), np.full(nref, ui), method="BDF", rtol=1e-9, atol=1e-12 * max(abs(ui), 1e-300))
    return x, sol.y[:, -1]
