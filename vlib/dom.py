"""Input domains of the properties (the quantifiers of properties.jsonl) and samplers.
All randomness derives from one numpy Generator seeded by VERIF_SEED."""
import math

import numpy as np


def rng_for(ctx, salt=0):
    return np.random.default_rng([ctx.seed, salt])


def loguniform(rng, lo, hi):
    return float(math.exp(rng.uniform(math.log(lo), math.log(hi))))


def oil_params(rng, edge=False):
    """(T, api, gg, Rsi) in the C12 box with bubble point > 50 psia."""
    from bluebonnet.fluids import oil
    while True:
        if edge and rng.random() < 0.3:
            T = float(rng.choice([80.0, 350.0]))
            api = float(rng.choice([12.0, 55.0]))
            gg = float(rng.choice([0.56, 1.3]))
            rsi = float(rng.choice([20.0, 2500.0]))
        else:
            T = float(rng.uniform(80, 350))
            api = float(rng.uniform(12, 55))
            gg = float(rng.uniform(0.56, 1.3))
            rsi = loguniform(rng, 20, 2500)
        pb = oil.pressure_bubblepoint_Standing(T, api, gg, rsi)
        if pb > 50:
            return T, api, gg, rsi, float(pb)


def gas_params(rng):
    """(T, Tpc, Ppc, sg, n2, h2s, co2, dryness) with 1.05 <= T_r <= 3 reachable."""
    from bluebonnet.fluids import gas
    while True:
        sg = float(rng.uniform(0.55, 1.2))
        n2, h2s, co2 = (float(rng.uniform(0, 0.08)) * (rng.random() < 0.7) for _ in range(3))
        dry = "dry gas" if rng.random() < 0.5 else "wet gas"
        T = float(rng.uniform(80, 400))
        nhc = gas.make_nonhydrocarbon_properties(n2, h2s, co2)
        tpc, ppc = gas.pseudocritical_point_Sutton(sg, nhc, dry)
        tr = (T + 459.67) / (tpc + 459.67)
        if 1.05 <= tr <= 3.0:
            return dict(T=T, Tpc=float(tpc), Ppc=float(ppc), sg=sg, n2=n2, h2s=h2s, co2=co2, dry=dry, Tr=tr)


def relclose(a, b, rtol, atol=0.0):
    return abs(a - b) <= rtol * max(abs(a), abs(b)) + atol


# ---------------------------------------------------------------------------------------------------------------------------
# the container / dtype forms in which a scalar pressure may legitimately be handed to a correlation (measured on the unchanged
# tree: every scalar-accepting correlation returns the same number for all of them; the gas functions, whose root finder needs a
# true scalar, do not take one-element arrays)
SCALAR_FORMS = [("numpy float64 scalar", lambda v: np.float64(v)), ("0-d array", lambda v: np.array(float(v))),
                ("Python int", lambda v: int(v)), ("numpy int64 scalar", lambda v: np.int64(v)), ("numpy float32 scalar", lambda v: np.float32(v))]
ARRAY1_FORMS = [("one-element float array", lambda v: np.array([float(v)])), ("one-element int64 array", lambda v: np.array([int(v)])),
                ("one-element int32 array", lambda v: np.array([int(v)], dtype=np.int32))]


def check_forms(f, p_int, forms, report, label, inp):
    """f: pressure -> value.  p_int: an integer-valued pressure (so that every form denotes the same number).  Compares f on each
    form with f(float(p_int)); report(what, inp, observed, expected) is called for a disagreement or an exception.  Returns #evaluations."""
    want = float(np.ravel(np.asarray(f(float(p_int)), float))[0])
    n = 0
    for name, mk in forms:
        n += 1
        try:
            got = np.asarray(f(mk(p_int)), float).ravel()
        except Exception as e:  # noqa: BLE001
            report(f"{label} fails when the pressure is given as a {name}", dict(**inp, p=float(p_int), form=name), repr(e)[:160], want)
            continue
        tol = 2e-5 if "float32" in name else 1e-12
        if got.size != 1 or not relclose(float(got[0]), want, tol, 1e-300):
            report(f"{label} depends on the container / dtype in which the pressure is given", dict(**inp, p=float(p_int), form=name),
                   [float(x) for x in got[:3]], want)
    return n


def _series(index=None):
    def mk(a):
        import pandas as pd
        return pd.Series(a, index=index(len(a)) if index else None)
    return mk


def _readonly(a):
    b = np.array(a, float)
    b.setflags(write=False)
    return b


# ways in which a caller holds SEVERAL pressures (all accepted by the unchanged library): shape and labels must not matter
VECTOR_FORMS = [
    ("2-D float array (time x node field)", lambda a: np.array(a, float).reshape(2, -1)),
    ("pandas Series, default labels", _series()),
    ("pandas Series whose integer labels are a permutation of the positions (a sorted / shuffled table column)", _series(lambda n: list(range(n - 1, -1, -1))[1:] + [n - 1])),
    ("pandas Series with string labels", _series(lambda n: [f"r{i}" for i in range(n)])),
    ("uint32 array", lambda a: np.array(a).astype(np.uint32)),
    ("uint64 array", lambda a: np.array(a).astype(np.uint64)),
    ("read-only float array", _readonly),
    ("non-contiguous view", lambda a: np.repeat(np.array(a, float), 2)[::2]),
    # shape AND memory layout: the logical element order of these differs from their order in memory
    ("2-D Fortran-ordered array", lambda a: np.asfortranarray(np.array(a, float).reshape(2, -1))),
    ("transposed 2-D view", lambda a: np.array(a, float).reshape(-1, 2).T),
    ("2-D block of a two-column DataFrame (.to_numpy())", lambda a: __import__("pandas").DataFrame({"a": list(a)[: len(a) // 2], "b": list(a)[len(a) // 2:]}, dtype=float).to_numpy()),
    ("broadcast 2-D view (stride 0)", lambda a: np.broadcast_to(np.array(a, float), (2, len(a)))),
]


def check_vector_forms(f, ps_int, report, label, inp, forms=None, skip=()):
    """f: pressures -> values.  ps_int: an even number (>= 4) of integer-valued pressures.  Compares f on each container form with the
    element-by-element scalar calls f(float(p)); also requires the input's shape and an unmodified input.  Returns #evaluations."""
    ps_int = [float(int(q)) for q in ps_int]
    want0 = np.array([float(np.ravel(np.asarray(f(q), float))[0]) for q in ps_int])
    want = want0
    n = 0
    for name, mk in (forms or VECTOR_FORMS):
        if any(sk in name for sk in skip):
            continue
        n += 1
        arg = mk(ps_int)
        before = np.array(arg, float).copy()
        # expected values in the LOGICAL element order of this form (a transposed view lists the pressures in another order)
        lookup = dict(zip(ps_int, want0))
        want = np.array([lookup[float(v)] for v in before.ravel()])
        try:
            got = np.asarray(f(arg), float)
        except Exception as e:  # noqa: BLE001
            report(f"{label} fails when the pressures are given as a {name}", dict(**inp, pressures=ps_int, form=name), repr(e)[:160], [float(x) for x in want[:4]])
            continue
        if not np.array_equal(np.array(arg, float), before):
            report(f"{label} modifies the caller's pressures ({name})", dict(**inp, pressures=ps_int, form=name), "input changed", "input unchanged")
        if got.shape != np.shape(arg) or not np.allclose(got.ravel(), want, rtol=1e-6 if "uint" in name else 1e-12, atol=1e-300):
            bad_at = int(np.argmax(np.abs(got.ravel() - want))) if got.size == want.size else -1
            report(f"{label} does not return, element by element, what the scalar call returns when the pressures are given as a {name}",
                   dict(**inp, pressures=ps_int, form=name, worst_element=bad_at), dict(shape=list(got.shape), values=[float(x) for x in got.ravel()[:8]]), [float(x) for x in want[:8]])
    return n


def gas_values_form(vals, k):
    """The same gas description as the caller may hold it: keys inserted in the documented order, reversed, alphabetically, with extra
    entries in between, or as a pandas Series sorted by label.  Returns (mapping, description)."""
    keys = list(vals)
    kind = k % 5
    if kind == 0:
        return dict(vals), "dict, documented key order"
    if kind == 1:
        return {q: vals[q] for q in reversed(keys)}, "dict, keys inserted in reverse order"
    if kind == 2:
        import pandas as pd
        return pd.Series(vals).sort_index(), "pandas Series sorted by label"
    if kind == 3:
        d = {"Well": "A-1"}
        for q in sorted(keys, key=lambda x: x[::-1]):
            d[q] = vals[q]
            d["note " + q] = 0.5
        return d, "dict, shuffled key order with unrelated entries in between"
    return {q: vals[q] for q in sorted(keys)}, "dict, keys inserted alphabetically"


# other spellings of the two documented fluid types (capitalised, padded): the unchanged library rejects them with ValueError; a
# library that accepts one must then compute for the fluid type the spelling NAMES - silently treating "Dry Gas" as wet gas is wrong
DRYNESS_SPELLINGS = [("Dry Gas", "dry gas"), ("DRY GAS", "dry gas"), ("Dry gas", "dry gas"), ("dry gas ", "dry gas"), (" dry gas", "dry gas"), ("dry gas\n", "dry gas"),
                     ("Wet Gas", "wet gas"), ("wet gas ", "wet gas"), ("dry  gas", "dry gas")]


def check_dryness_spellings(f, report, close):
    """f(fluid_name) -> comparable value (raises ValueError for names it rejects).  For every other spelling of a documented name:
    either ValueError, or the value of the documented name it spells.  Returns #evaluations."""
    ref = {nm: f(nm) for nm in ("dry gas", "wet gas")}
    n = 0
    for spelled, means in DRYNESS_SPELLINGS:
        n += 1
        try:
            got = f(spelled)
        except ValueError:
            continue
        except Exception as e:  # noqa: BLE001
            report(f"fluid type {spelled!r} raises {type(e).__name__} (neither rejected with ValueError nor accepted)", spelled, repr(e)[:160])
            continue
        if not close(got, ref[means]):
            other = "wet gas" if means == "dry gas" else "dry gas"
            report(f"fluid type {spelled!r} is accepted but evaluated as another fluid type than the one it names" + (f" (the result is the {other} one)" if close(got, ref[other]) else ""), spelled,
                   dict(got=got, expected_for=means, expected=ref[means]))
    return n
