"""Input domains of the properties (the quantifiers of properties.jsonl) and samplers.
All randomness derives from one numpy Generator seeded by VERIF_SEED."""
import math

import numpy as np


def rng_for(ctx, salt=0):
    return np.random.default_rng([ctx.seed, salt])


def loguniform(rng, lo, hi):
    return float(math.exp(rng.uniform(math.log(lo), math.log(hi))))


def oil_params(rng, edge=False):
    """(T, api, gg, Rsi) in the C12 box with bubble point > 50 psia."""
    from bluebonnet.fluids import oil
    while True:
        if edge and rng.random() < 0.3:
            T = float(rng.choice([80.0, 350.0]))
            api = float(rng.choice([12.0, 55.0]))
            gg = float(rng.choice([0.56, 1.3]))
            rsi = float(rng.choice([20.0, 2500.0]))
        else:
            T = float(rng.uniform(80, 350))
            api = float(rng.uniform(12, 55))
            gg = float(rng.uniform(0.56, 1.3))
            rsi = loguniform(rng, 20, 2500)
        pb = oil.pressure_bubblepoint_Standing(T, api, gg, rsi)
        if pb > 50:
            return T, api, gg, rsi, float(pb)


def gas_params(rng):
    """(T, Tpc, Ppc, sg, n2, h2s, co2, dryness) with 1.05 <= T_r <= 3 reachable."""
    from bluebonnet.fluids import gas
    while True:
        sg = float(rng.uniform(0.55, 1.2))
        n2, h2s, co2 = (float(rng.uniform(0, 0.08)) * (rng.random() < 0.7) for _ in range(3))
        dry = "dry gas" if rng.random() < 0.5 else "wet gas"
        T = float(rng.uniform(80, 400))
        nhc = gas.make_nonhydrocarbon_properties(n2, h2s, co2)
        tpc, ppc = gas.pseudocritical_point_Sutton(sg, nhc, dry)
        tr = (T + 459.67) / (tpc + 459.67)
        if 1.05 <= tr <= 3.0:
            return dict(T=T, Tpc=float(tpc), Ppc=float(ppc), sg=sg, n2=n2, h2s=h2s, co2=co2, dry=dry, Tr=tr)


def relclose(a, b, rtol, atol=0.0):
    return abs(a - b) <= rtol * max(abs(a), abs(b)) + atol
