"""Input domains of the properties (the quantifiers of properties.jsonl) and samplers.
All randomness derives from one numpy Generator seeded by VERIF_SEED."""
import math

import numpy as np


def rng_for(ctx, salt=0):
    return np.random.default_rng([ctx.seed, salt])


def loguniform(rng, lo, hi):
    return float(math.exp(rng.uniform(math.log(lo), math.log(hi))))


def oil_params(rng, edge=False):
    """(T, api, gg, Rsi) in the C12 box with bubble point > 50 psia."""
    from bluebonnet.fluids import oil
    while True:
        if edge and rng.random() < 0.3:
            T = float(rng.choice([80.0, 350.0]))
            api = float(rng.choice([12.0, 55.0]))
            gg = float(rng.choice([0.56, 1.3]))
            rsi = float(rng.choice([20.0, 2500.0]))
        else:
            T = float(rng.uniform(80, 350))
            api = float(rng.uniform(12, 55))
            gg = float(rng.uniform(0.56, 1.3))
            rsi = loguniform(rng, 20, 2500)
        pb = oil.pressure_bubblepoint_Standing(T, api, gg, rsi)
        if pb > 50:
            return T, api, gg, rsi, float(pb)


def gas_params(rng):
    """(T, Tpc, Ppc, sg, n2, h2s, co2, dryness) with 1.05 <= T_r <= 3 reachable."""
    from bluebonnet.fluids import gas
    while True:
        sg = float(rng.uniform(0.55, 1.2))
        n2, h2s, co2 = (float(rng.uniform(0, 0.08)) * (rng.random() < 0.7) for _ in range(3))
        dry = "dry gas" if rng.random() < 0.5 else "wet gas"
        T = float(rng.uniform(80, 400))
        nhc = gas.make_nonhydrocarbon_properties(n2, h2s, co2)
        tpc, ppc = gas.pseudocritical_point_Sutton(sg, nhc, dry)
        tr = (T + 459.67) / (tpc + 459.67)
        if 1.05 <= tr <= 3.0:
            return dict(T=T, Tpc=float(tpc), Ppc=float(ppc), sg=sg, n2=n2, h2s=h2s, co2=co2, dry=dry, Tr=tr)


def relclose(a, b, rtol, atol=0.0):
    return abs(a - b) <= rtol * max(abs(a), abs(b)) + atol


# ---------------------------------------------------------------------------------------------------------------------------
# the container / dtype forms in which a scalar pressure may legitimately be handed to a correlation (measured on the unchanged
# tree: every scalar-accepting correlation returns the same number for all of them; the gas functions, whose root finder needs a
# true scalar, do not take one-element arrays)
SCALAR_FORMS = [("numpy float64 scalar", lambda v: np.float64(v)), ("0-d array", lambda v: np.array(float(v))),
                ("Python int", lambda v: int(v)), ("numpy int64 scalar", lambda v: np.int64(v)), ("numpy float32 scalar", lambda v: np.float32(v))]
ARRAY1_FORMS = [("one-element float array", lambda v: np.array([float(v)])), ("one-element int64 array", lambda v: np.array([int(v)])),
                ("one-element int32 array", lambda v: np.array([int(v)], dtype=np.int32))]


def check_forms(f, p_int, forms, report, label, inp):
    """f: pressure -> value.  p_int: an integer-valued pressure (so that every form denotes the same number).  Compares f on each
    form with f(float(p_int)); report(what, inp, observed, expected) is called for a disagreement or an exception.  Returns #evaluations."""
    want = float(np.ravel(np.asarray(f(float(p_int)), float))[0])
    n = 0
    for name, mk in forms:
        n += 1
        try:
            got = np.asarray(f(mk(p_int)), float).ravel()
        except Exception as e:  # noqa: BLE001
            report(f"{label} fails when the pressure is given as a {name}", dict(**inp, p=float(p_int), form=name), repr(e)[:160], want)
            continue
        tol = 2e-5 if "float32" in name else 1e-12
        if got.size != 1 or not relclose(float(got[0]), want, tol, 1e-300):
            report(f"{label} depends on the container / dtype in which the pressure is given", dict(**inp, p=float(p_int), form=name),
                   [float(x) for x in got[:3]], want)
    return n
