"""Environment invariance: a fixed battery of library calls per property, evaluated in child interpreters under
interpreter / process settings that a caller may legitimately have chosen, and compared with the default interpreter.

    default     plain interpreter
    optimized   python -O   (assert statements and `if __debug__` blocks are stripped)
    strict      np.seterr(invalid="raise", divide="raise", over="raise")   (not underflow)
    allraise    np.seterr(all="raise")

Rule (none of the twenty properties is conditional on these settings):
  * optimized and strict: every battery entry has the outcome it has in the default interpreter - the same value to the last
    bit, or an exception of the same type;
  * allraise: the same, except that a FloatingPointError may replace a VALUE (the unchanged library underflows inside
    scipy's BiCGSTAB on deeply depleted profiles and inside the DAK residual on a band of pressures: it then refuses to
    answer, which no property forbids) - what it may not do is answer differently.
Used as a child process:  python [-O] envprobe.py <property> <mode> <src dir>
"""
import json
import os
import subprocess
import sys


def _val(x):
    import numpy as np
    a = np.asarray(x, dtype=float).ravel()
    return [float(v).hex() if v == v else "nan" for v in a]


def _call(out, label, f):
    try:
        out[label] = _val(f())
    except Exception as e:  # noqa: BLE001
        out[label] = "EXC:" + type(e).__name__


# ----------------------------------------------------------------------------------------------------------------- batteries
def b_reservoir(out):
    import numpy as np
    import pandas as pd
    from bluebonnet.flow import FlowProperties, IdealReservoir, SinglePhaseReservoir
    here = os.path.dirname(os.path.abspath(__file__))
    tb = pd.read_csv(os.path.join(SRC, "..", "tests", "data", "pvt_gas.csv")) if os.path.exists(os.path.join(SRC, "..", "tests", "data", "pvt_gas.csv")) else None
    del here
    t = np.linspace(0, 1.5, 40) ** 2

    def ideal():
        r = IdealReservoir(25, 1000.0, 8000.0, None)
        r.simulate(t)
        return np.concatenate([r.pseudopressure[::7].ravel(), r.recovery_factor()])
    _call(out, "ideal 25 nodes", ideal)
    if tb is not None:
        tb = tb.rename(columns={"P": "pressure", "Z-Factor": "z-factor", "Cg": "compressibility", "Viscosity": "viscosity", "Density": "density"}) if "P" in tb.columns else tb

        def single(density):
            fl = FlowProperties(tb, 8000.0)
            r = SinglePhaseReservoir(25, 1000.0, 8000.0, fl)
            r.simulate(t)
            return np.concatenate([r.pseudopressure[::7].ravel(), r.recovery_factor(density=density)])
        _call(out, "single-phase 25 nodes flux", lambda: single(False))
        _call(out, "single-phase 25 nodes in-place", lambda: single(True))

        def sched():
            fl = FlowProperties(tb, 8000.0)
            r = SinglePhaseReservoir(12, 1000.0, 8000.0, fl)
            r.simulate(t, np.linspace(6000.0, 1000.0, len(t)))
            return r.pseudopressure[::5].ravel()
        _call(out, "single-phase schedule", sched)
        _call(out, "schedule of wrong length", lambda: SinglePhaseReservoir(12, 1000.0, 8000.0, FlowProperties(tb, 8000.0)).simulate(t, np.linspace(6000.0, 1000.0, 7)))
        _call(out, "frac-face pressure outside the table", lambda: SinglePhaseReservoir(12, 1e6, 8000.0, FlowProperties(tb, 8000.0)).simulate(t))


def b_forecast(out):
    import numpy as np
    from bluebonnet.forecast import Bounds, ForecasterOnePhase
    rf = lambda x: 0.6 * (1 - np.exp(-1.3 * np.sqrt(np.maximum(x, 0)) - 0.7 * np.maximum(x, 0)))  # noqa: E731
    t = np.linspace(0.03, 1.8, 60)
    y = 300.0 * rf(t / 3.0)
    for name, b in (("default bounds", None), ("guess above both limits", Bounds(M=(30.0, 250.0), tau=(0.6, 8.1))), ("guess below both limits", Bounds(M=(2000.0, 3000.0), tau=(20.0, 80.0))),
                    ("M above, tau inside", Bounds(M=(30.0, 450.0), tau=(0.6, 80.0)))):
        for tau in (None, 2.5):
            def go(b=b, tau=tau):
                f = ForecasterOnePhase(rf) if b is None else ForecasterOnePhase(rf, b)
                f.fit(t, y, tau)
                return [f.M_, f.tau_] + list(np.asarray(f.forecast_cum(t[::9])))
            _call(out, f"fit, {name}, tau {'free' if tau is None else 'given'}", go)
    _call(out, "bounds in the wrong order", lambda: Bounds(M=(5.0, 1.0), tau=(1.0, 2.0)))
    _call(out, "NaN bound", lambda: Bounds(M=(float("nan"), 1.0), tau=(1.0, 2.0)))
    _call(out, "regularised guess", lambda: Bounds(M=(30.0, 250.0), tau=(0.6, 8.1)).regularize_initial_guess([600.0, 9.0]))


def b_gas(out):
    import numpy as np
    from bluebonnet.fluids import gas
    for temp in (100.0, 200.0, 400.0):
        tpc, ppc = -102.2, 648.5
        ps = np.arange(300.0, 14000.0, 170.0)
        _call(out, f"z_factor_DAK sweep at {temp} F", lambda: [gas.z_factor_DAK(temp, float(p), tpc, ppc) for p in ps])
    # the band where exp(-0.721 rho^2) is subnormal at the far end of the root bracket
    _call(out, "z_factor_DAK band 200 F", lambda: [gas.z_factor_DAK(200.0, float(p), -102.2, 648.5) for p in np.linspace(6900.0, 7200.0, 25)])
    for p in (5950.0, 7060.0, 6480.0, 9250.0):
        _call(out, f"z_factor_DAK single {p}", lambda p=p: gas.z_factor_DAK(100.0 if p < 6000 else 200.0 if p < 9000 else 400.0, p, -102.2, 648.5))
    _call(out, "b_factor_DAK sweep", lambda: [gas.b_factor_DAK(200.0, float(p), -72.2, 653.0, 60.0, 14.7) for p in np.arange(500.0, 12000.0, 250.0)])
    _call(out, "compressibility_DAK sweep", lambda: [gas.compressibility_DAK(220.0, float(p), -72.2, 653.0) for p in np.arange(500.0, 12000.0, 500.0)])
    _call(out, "viscosity_Sutton sweep", lambda: [gas.viscosity_Sutton(220.0, float(p), -72.2, 653.0, 0.75) for p in np.arange(500.0, 12000.0, 500.0)])
    _call(out, "hall-yarbrough", lambda: [gas.z_factor_hallyarbrough(float(pr), float(tr)) for tr in (1.2, 1.7, 2.4) for pr in (0.5, 2.0, 6.0, 14.0)])


def b_oil(out):
    import numpy as np
    from bluebonnet.fluids import oil, water
    p = np.arange(200.0, 9000.0, 90.0)
    for gor in (650.0, 2500.0):
        a = (200.0, p, 35.0, 0.8, gor)
        _call(out, f"b_o_Standing gor {gor}", lambda a=a: oil.b_o_Standing(*a))
        _call(out, f"solution_gor_Standing gor {gor}", lambda a=a: oil.solution_gor_Standing(*a))
        _call(out, f"density_Standing gor {gor}", lambda a=a: oil.density_Standing(*a))
        _call(out, f"oil_compressibility_Standing gor {gor}",
              lambda gor=gor: [oil.oil_compressibility_Standing(200.0, float(q), 35.0, 0.8, gor, -72.2, 653.0) for q in np.linspace(3000.0, 8800.0, 140)])
        _call(out, f"viscosity_beggs_robinson gor {gor}", lambda gor=gor: [oil.viscosity_beggs_robinson(200.0, float(q), 35.0, 0.8, gor) for q in p[::6]])
    _call(out, "b_o_Standing integer grid and integer gor", lambda: oil.b_o_Standing(200, np.arange(100, 5000, 100), 35, 0.8, 650))
    _call(out, "b_water_McCain", lambda: water.b_water_McCain(200.0, p))
    _call(out, "compressibility_water_McCain", lambda: water.compressibility_water_McCain(200.0, p, 30000.0))
    _call(out, "viscosity_water_McCain", lambda: water.viscosity_water_McCain(200.0, p, 3.0))


def b_relperm(out):
    import numpy as np
    from bluebonnet.flow.flowproperties import RelPermParams, relative_permeabilities, relative_permeabilities_twophase
    rng = np.random.default_rng(5)
    s = rng.dirichlet([1, 1, 1], 60)
    sat = np.array([tuple(r) for r in s], dtype=[("So", float), ("Sg", float), ("Sw", float)])
    for name, prm in (("integer exponents", dict(n_o=2, n_g=2, n_w=3, S_or=0.2, S_wc=0.15, S_gc=0.05, k_ro_max=0.9, k_rw_max=0.4, k_rg_max=0.8)),
                      ("fractional exponents", dict(n_o=1.7, n_g=2.4, n_w=1.3, S_or=0.25, S_wc=0.1, S_gc=0.1, k_ro_max=1.0, k_rw_max=0.7, k_rg_max=0.95)),
                      ("fractional exponents, zero residuals", dict(n_o=1.5, n_g=3.5, n_w=2.5, S_or=0.0, S_wc=0.0, S_gc=0.0, k_ro_max=1.0, k_rw_max=1.0, k_rg_max=1.0))):
        def go(prm=prm):
            k = relative_permeabilities(sat, RelPermParams(**prm))
            return np.concatenate([np.asarray(k[n], float) for n in k.dtype.names])
        _call(out, f"relative_permeabilities, {name}", go)
        _call(out, f"relative_permeabilities_twophase, {name}", lambda prm=prm: relative_permeabilities_twophase(RelPermParams(**prm), 0.1).to_numpy(dtype=float))
    _call(out, "exponent above six", lambda: relative_permeabilities(sat, RelPermParams(n_o=7.0, n_g=2.0, n_w=2.0, S_or=0.1, S_wc=0.1, S_gc=0.1, k_ro_max=1.0, k_rw_max=1.0, k_rg_max=1.0)))
    bad = np.array([(0.5, 0.6, 0.1)], dtype=sat.dtype)
    _call(out, "saturations not summing to one", lambda: relative_permeabilities(bad, RelPermParams(n_o=2, n_g=2, n_w=2, S_or=0.1, S_wc=0.1, S_gc=0.1, k_ro_max=1, k_rw_max=1, k_rg_max=1)))


def b_flowprops(out):
    import numpy as np
    from bluebonnet.flow.flowproperties import FlowProperties, FlowPropertiesSimple, rescale_pseudopressure
    p = np.linspace(500.0, 9000.0, 30)
    full = dict(pressure=p, pseudopressure=(p ** 2 - p[0] ** 2) / 0.02 + 1.0, compressibility=1 / p, viscosity=np.full(30, 0.02), **{"z-factor": np.ones(30)})
    simple = dict(pressure=p, compressibility=3e-6 * (1 + 1e-5 * p), viscosity=0.4 + 1e-5 * p)
    for name, cls, tb in (("FlowProperties", FlowProperties, full), ("FlowPropertiesSimple", FlowPropertiesSimple, simple)):
        for p_i in (8000.0, 9000.0, 500.0):
            def go(cls=cls, tb=tb, p_i=p_i):
                f = cls(dict(tb), p_i)
                return [float(f.m_i)] + list(np.asarray(f.m_scaled_func(p[::4]), float)) + list(np.asarray(f.alpha(np.linspace(0, float(f.m_i), 7)), float))
            _call(out, f"{name} p_i = {p_i}", go)
        for p_i in (9000.5, 499.0, 1e6, float(np.nextafter(9000.0, 1e9)), -5.0):
            _call(out, f"{name} p_i = {p_i!r} outside the table", lambda cls=cls, tb=tb, p_i=p_i: cls(dict(tb), p_i).m_i)
    _call(out, "FlowProperties without a pseudopressure column", lambda: FlowProperties({k: v for k, v in full.items() if k != "pseudopressure"}, 8000.0).m_i)
    _call(out, "rescale_pseudopressure", lambda: rescale_pseudopressure(dict(pressure=p, pseudopressure=full["pseudopressure"]), 1000.0, 8000.0)["pseudopressure"])


def b_fluid(out):
    import numpy as np
    from bluebonnet.fluids.fluid import Fluid, build_pvt_gas, pseudopressure
    gv = {"N2": 0.02, "H2S": 0.01, "CO2": 0.03, "Gas Specific Gravity": 0.75, "Reservoir Temperature (deg F)": 220.0}
    for dry in ("dry gas", "wet gas"):
        def go(dry=dry):
            t = build_pvt_gas(dict(gv), dry, 9000.0)
            return t.iloc[::40].to_numpy(dtype=float)
        _call(out, f"build_pvt_gas {dry}", go)
    _call(out, "build_pvt_gas without H2S", lambda: build_pvt_gas({k: v for k, v in gv.items() if k != "H2S"}, "dry gas", 3000.0))
    _call(out, "build_pvt_gas other dryness", lambda: build_pvt_gas(dict(gv), "moist gas", 3000.0))
    p = np.linspace(100.0, 5000.0, 40)
    _call(out, "pseudopressure", lambda: pseudopressure(p, 0.015 + 2e-6 * p, 0.95 - 2e-5 * p))
    f = Fluid(200.0, 35.0, 0.8, 650.0)
    pa = np.arange(300.0, 7000.0, 400.0)
    for m in ("water_FVF", "water_viscosity", "gas_FVF", "gas_viscosity", "oil_FVF", "oil_viscosity"):
        def go(m=m):
            meth = getattr(f, m)
            return meth(pa, -72.2, 653.0) if m in ("gas_FVF", "gas_viscosity") else meth(pa)
        _call(out, f"Fluid.{m}", go)
    _call(out, "Fluid.pressure_bubblepoint", lambda: f.pressure_bubblepoint())


def b_twophase(out):
    import numpy as np
    import pandas as pd
    from bluebonnet.flow.flowproperties import FlowPropertiesTwoPhase, RelPermParams, relative_permeabilities_twophase
    p = np.linspace(100.0, 8000.0, 80)
    df = pd.DataFrame(dict(pressure=p, pseudopressure=p * 1.0, Bo=1.1 + 2e-5 * p, Bg=5.0 / p, Bw=1.02 - 1e-6 * p, Rs=0.1 * p, Rv=1e-6 * p, mu_o=1.5 - 1e-4 * p, mu_g=0.012 + 2e-6 * p, mu_w=np.full(80, 0.4),
                           So=np.clip(0.9 - 1e-5 * (8000 - p), 0, 1), Sg=np.clip(1e-5 * (8000 - p), 0, 1), Sw=np.full(80, 0.1)))
    kr = relative_permeabilities_twophase(RelPermParams(n_o=1.7, n_g=2.4, n_w=2.0, S_or=0.2, S_wc=0.1, S_gc=0.05, k_ro_max=1.0, k_rw_max=0.5, k_rg_max=0.9), 0.1)

    def go():
        f = FlowPropertiesTwoPhase.from_table(df, kr, dict(rho_o0=50.0, rho_g0=0.06, rho_w0=62.0), 0.1, 0.1, 7000.0)
        return np.concatenate([[float(f.m_i)], np.asarray(f.pvt_props["m-scaled"], float)[::6], np.asarray(f.pvt_props["alpha"], float)[::6]])
    _call(out, "FlowPropertiesTwoPhase.from_table", go)


BATTERIES = {"C01": [b_reservoir], "C02": [b_reservoir], "C03": [b_reservoir], "C04": [b_reservoir], "C17": [b_reservoir], "C10": [b_reservoir],
             "C05": [b_forecast], "C06": [b_gas], "C07": [b_gas], "C08": [b_fluid], "C19": [b_fluid], "C09": [b_flowprops],
             "C11": [b_oil], "C12": [b_oil], "C13": [b_oil], "C14": [b_relperm], "C15": [b_twophase], "C16": [b_twophase]}
MODES = ("default", "optimized", "strict", "allraise")
SRC = None


def child(prop, mode, src):
    global SRC
    SRC = src
    sys.path.insert(0, src)
    import warnings
    warnings.simplefilter("ignore")
    import numpy as np
    if mode == "strict":
        np.seterr(invalid="raise", divide="raise", over="raise")
    elif mode == "allraise":
        np.seterr(all="raise")
    if mode == "optimized" and __debug__:
        raise SystemExit("optimized mode needs python -O")
    out = {}
    for b in BATTERIES[prop]:
        b(out)
    print("ENVPROBE " + json.dumps(out))


def run(prop, src, timeout=900):
    """-> (results per mode, list of disagreements [(mode, label, default outcome, outcome)])"""
    from concurrent.futures import ThreadPoolExecutor
    env = dict(os.environ, PYTHONDONTWRITEBYTECODE="1", MPLBACKEND="Agg", PYTHONHASHSEED="0")
    env.pop("PYTHONOPTIMIZE", None)

    def one(mode):
        cmd = [sys.executable] + (["-O"] if mode == "optimized" else []) + [os.path.abspath(__file__), prop, mode, src]
        p = subprocess.run(cmd, capture_output=True, text=True, env=env, timeout=timeout)
        lines = [ln for ln in p.stdout.splitlines() if ln.startswith("ENVPROBE ")]
        if not lines:
            return mode, None, (p.stderr or p.stdout)[-400:]
        return mode, json.loads(lines[-1][9:]), None
    with ThreadPoolExecutor(max_workers=len(MODES)) as ex:
        got = list(ex.map(one, MODES))
    res = {m: r for m, r, _ in got}
    errs = {m: e for m, r, e in got if r is None}
    diffs = []
    if res.get("default") is None:
        return res, diffs, errs
    for m in MODES[1:]:
        if res.get(m) is None:
            continue
        for label, v0 in res["default"].items():
            v = res[m].get(label)
            if v == v0:
                continue
            if m == "allraise" and v == "EXC:FloatingPointError" and not (isinstance(v0, str) and v0.startswith("EXC:")):
                continue
            diffs.append((m, label, v0, v))
    return res, diffs, errs


def summarize(v):
    if isinstance(v, str):
        return v
    vals = [float.fromhex(x) if x != "nan" else float("nan") for x in v[:4]]
    return dict(n=len(v), head=vals)


def check(ctx, prop, src):
    """Append violations to ctx for every battery entry whose outcome depends on the interpreter mode / numpy error state."""
    res, diffs, errs = run(prop, src)
    for m, e in errs.items():
        ctx.broken.append(f"environment probe ({m}) did not run: {e}")
    seen = set()
    for m, label, v0, v in diffs:
        if (m, label.split(" ")[0]) in seen:
            continue
        seen.add((m, label.split(" ")[0]))
        what = {"optimized": "the library behaves differently under `python -O` (assert statements stripped)",
                "strict": "the library behaves differently when the caller has set np.seterr(invalid='raise', divide='raise', over='raise')",
                "allraise": "under np.seterr(all='raise') the library returns a DIFFERENT VALUE than in the default error state (it may refuse with FloatingPointError, not answer differently)"}[m]
        differing = None
        if not isinstance(v0, str) and not isinstance(v, str) and len(v0) == len(v):
            idx = [i for i, (a, b) in enumerate(zip(v0, v)) if a != b]
            differing = dict(entries=len(idx), first_index=idx[0], default=float.fromhex(v0[idx[0]]) if v0[idx[0]] != "nan" else None,
                             here=float.fromhex(v[idx[0]]) if v[idx[0]] != "nan" else None) if idx else None
        ctx.violations.append(dict(what=what, key=f"env-{m}", input=dict(battery_entry=label, mode=m, replay=f"python {'-O ' if m == 'optimized' else ''}vlib/envprobe.py {prop} {m} <src>"),
                                   observed=dict(default=summarize(v0), in_this_mode=summarize(v), differing=differing)))
    n = sum(len(r) for r in res.values() if r)
    ctx.cov["environment_probe"] = dict(modes=list(MODES), entries_per_mode=len(res.get("default") or {}), evaluations=n,
                                        refused_under_allraise=sum(1 for lbl, v0 in (res.get("default") or {}).items()
                                                                   if res.get("allraise") and res["allraise"].get(lbl) == "EXC:FloatingPointError" and v0 != "EXC:FloatingPointError"))
    return n


if __name__ == "__main__":
    child(sys.argv[1], sys.argv[2], sys.argv[3])
