"""C20 - plots carry the simulated data and the square-root axis is a true bijection."""
import json
import os
import re
import warnings

import numpy as np

from vlib import core, dom, rescorr

ID = "C20"
GEN = ["plotting", "fitpressure"]
PROPS = ["C20_plots.v", "C20_helpers.v", "C20_comparison.v"]


def coq_model(ctx, items):
    """Evaluate the float instance of Lib/Plot.v on the cases; returns list of lists of floats."""
    body = [rescorr.HEADER, "From BBLib Require Import Plot."]
    for k, (kind, args) in enumerate(items):
        if kind == "select_rescale":
            field, every, rescale, pinit = args
            fl = "[" + "; ".join(rescorr.flist(r) for r in field) + "]"
            sel = f"select_every {every}%nat {fl}"
            if rescale:
                sel = f"map (rescale_profile NumF {rescorr.fl(pinit)}) ({sel})"
            body.append(f"Eval vm_compute in concat ({sel}).")
        elif kind == "nodes":
            nx = args
            body.append(f"Eval vm_compute in node_positions NumF {rescorr.fl(nx)} {rescorr.flist(range(nx))}.")
        elif kind == "gradient":
            y, x = args
            body.append(f"Eval vm_compute in gradient NumF {rescorr.flist(y)} {rescorr.flist(x)}.")
    path = os.path.join(ctx.bdir, "Plot_cases.v")
    open(path, "w").write("\n".join(body) + "\n")
    rc, o, dt = core.sh(["coqc", "-q", "-Q", core.LIB, "BBLib", path], 600)
    if rc:
        ctx.broken.append("plot model evaluation failed: " + o[-300:])
        return None
    return rescorr.parse_results(o)


def run(ctx):
    import matplotlib
    matplotlib.use("Agg")
    import matplotlib.pyplot as plt
    from bluebonnet import plotting
    from bluebonnet.forecast.forecast_pressure import plot_production_comparison
    core.coq_phase(ctx, GEN, PROPS)
    rng = dom.rng_for(ctx, 20)
    n = 6 if ctx.quick else 40
    ev = 0
    items, expect = [], []

    def bad(what, inp, obs):
        ctx.violations.append(dict(what=what, key=what, input=inp, observed=obs))

    def line_data(ax):
        return [(np.asarray(l.get_xdata(), float), np.asarray(l.get_ydata(), float)) for l in ax.get_lines()]

    cases = rescorr.gen_cases(rng, n, True, nx_choices=[5, 8, 12], nt_max=25, sched_prob=0.0)
    for c in cases:
        im = rescorr.run_impl(c)
        if "res" not in im:
            continue
        res = im["res"]
        field = np.asarray(res.pseudopressure, float)
        nt, nx = field.shape
        for every in (1, 2, 3, 7, nt + 5):
            for rescale in (False, True):
                inp = dict(kind=c["kind"], nx=nx, nt=nt, every=every, rescale=rescale)
                with warnings.catch_warnings():
                    warnings.simplefilter("ignore")
                    fig, ax = plt.subplots()
                    with np.errstate(all="ignore"):
                        plotting.plot_pseudopressure(res, every=every, rescale=rescale, ax=ax)
                    lines = line_data(ax)
                    plt.close(fig)
                ev += 1
                idx = list(range(0, nt, every))
                if len(lines) != len(idx):
                    bad("plot_pseudopressure does not draw every k-th profile", inp, dict(drawn=len(lines), expected=len(idx)))
                    continue
                xs_want = np.linspace(1 / nx, 1, nx)
                pinit = field[0, -1]
                for (x, y), i in zip(lines, idx):
                    want = field[i] if not rescale else (field[i] - field[i, 0]) / (pinit - field[i, 0])
                    if not np.allclose(x, xs_want, rtol=1e-13) or not np.allclose(y, want, rtol=1e-13, equal_nan=True):
                        bad("a drawn pseudopressure profile is not the simulated profile against node position", dict(**inp, profile=i), "mismatch")
                        break
                if rescale:
                    for (x, y), i in zip(lines, idx):
                        if field[i, 0] != pinit and (y[0] != 0.0 or not np.allclose(y[field[i] == pinit], 1.0)):
                            bad("rescaled profile does not run from 0 at the fracture to 1 at the initial value", dict(**inp, profile=i), [float(v) for v in y[:3]])
                items.append(("select_rescale", (field, every, rescale and c["kind"] != "ideal" or (rescale and False), pinit)))
                expect.append(np.concatenate([(field[i] if not (rescale and c["kind"] != "ideal") else (field[i] - field[i, 0]) / (pinit - field[i, 0])) for i in idx]))
        items.append(("nodes", nx))
        expect.append(np.linspace(1 / nx, 1, nx))
        # recovery factor and rate
        t = np.asarray(res.time, float)
        rf = np.asarray(res.recovery_factor(), float)
        for ticks in (False, True):
            with warnings.catch_warnings():
                warnings.simplefilter("ignore")
                # history before the plot: the last recovery call on the object was the density-based one (the curves drawn
                # must still be the flux-based recovery factor the helpers document)
                if c["kind"] == "single":
                    res.recovery_factor(density=True)
                fig, ax = plt.subplots()
                plotting.plot_recovery_factor(res, ax=ax, change_ticks=ticks)
                (x, y), = line_data(ax)
                scale_name = ax.get_xscale()
                plt.close(fig)
                if c["kind"] == "single":
                    res.recovery_factor(density=True)
                fig, ax = plt.subplots()
                with np.errstate(all="ignore"):
                    plotting.plot_recovery_rate(res, ax=ax, change_ticks=ticks)
                (xr, yr), = line_data(ax)
                plt.close(fig)
            ev += 2
            if not (np.array_equal(x, t) and np.allclose(y, rf, rtol=1e-13)) or scale_name != "squareroot":
                bad("plot_recovery_factor does not draw recovery factor against scaled time on the square-root axis", dict(kind=c["kind"], ticks=ticks), scale_name)
            want_rate = np.gradient(rf, t)
            if not (np.array_equal(xr, t) and np.allclose(yr, want_rate, rtol=1e-12, equal_nan=True)):
                bad("plot_recovery_rate does not draw the time derivative of recovery", dict(kind=c["kind"], ticks=ticks), "mismatch")
        if len(t) >= 3 and np.all(np.diff(t) > 0):
            items.append(("gradient", (rf, t)))
            expect.append(np.gradient(rf, t))
    # ---------------- recovery rate of runs on a single-precision time grid (times read from a float32 file): the plotted rate is the
    # derivative of the plotted recovery, differenced in double precision (fixed 2026-10, 00d1e29: np.gradient used to get the float32
    # grid - its weights then do not cancel and the late-time rate drowned in rounding error, 237 of 2000 rates negative)
    from bluebonnet.flow import IdealReservoir
    for nt32 in ((2000,) if ctx.quick else (1000, 5000, 20000)):
        t32 = (np.linspace(0, np.sqrt(11.0), nt32) ** 2).astype(np.float32)
        res32 = IdealReservoir(30, 100.0, 2000.0, None)
        res32.simulate(t32.copy())
        rf32 = np.array(res32.recovery_factor(), float)
        fig, ax = plt.subplots()
        with np.errstate(all="ignore"):
            plotting.plot_recovery_rate(res32, ax=ax)
        (xr32, yr32), = line_data(ax)
        plt.close(fig)
        want32 = np.gradient(rf32, t32.astype(np.float64))
        ev += 1
        vis = want32 >= 1e-4           # the part of the curve the helper's axis limits show
        if not np.allclose(np.asarray(yr32, float)[vis], want32[vis], rtol=1e-6, atol=0) or np.any(np.asarray(yr32, float) < -1e-12):
            bad("plot_recovery_rate does not draw the time derivative of recovery (run on a float32 time grid)", dict(kind="ideal", nx=30, time_grid="float32, quadratic", nt=nt32),
                dict(worst_rel_error_in_plotted_window=float(np.abs(np.asarray(yr32, float)[vis] / want32[vis] - 1).max()), negative_rates=int((np.asarray(yr32, float) < 0).sum())))
    # ---------------- a user subclass whose recovery_factor has another default (mass-balance recovery unless told otherwise): the helpers
    # document that they draw reservoir.recovery_factor() - what THE OBJECT returns, not what the base class would
    from vlib import rescorr as _rc
    from bluebonnet.flow import FlowProperties, SinglePhaseReservoir

    class MassBalanceReservoir(SinglePhaseReservoir):
        def recovery_factor(self, time=None, density=True):
            return super().recovery_factor(time, density)

    class HalvedIdeal(IdealReservoir):
        def recovery_factor(self, time=None, density=False):       # a subclass reporting recovery of a two-wing completion per wing
            return 0.5 * super().recovery_factor(time, density)
    tb_u = _rc.shipped_gas(stride=10)
    tu = np.linspace(0, 1.6, 60) ** 2
    for res_u, who in ((MassBalanceReservoir(25, 1500.0, 8000.0, FlowProperties(tb_u, 8000.0)), "subclass of SinglePhaseReservoir whose recovery_factor defaults to density=True"),
                       (HalvedIdeal(25, 1500.0, 8000.0, None), "subclass of IdealReservoir whose recovery_factor returns half the base value")):
        res_u.simulate(tu.copy())
        rf_u = np.array(res_u.recovery_factor(), float)
        for ticks in (False, True):
            fig, ax = plt.subplots()
            plotting.plot_recovery_factor(res_u, ax=ax, change_ticks=ticks)
            (xu, yu), = line_data(ax)
            plt.close(fig)
            fig, ax = plt.subplots()
            with np.errstate(all="ignore"):
                plotting.plot_recovery_rate(res_u, ax=ax, change_ticks=ticks)
            (xru, yru), = line_data(ax)
            plt.close(fig)
            ev += 2
            if not (np.array_equal(xu, tu) and np.allclose(yu, rf_u, rtol=1e-12, atol=1e-15)):
                bad("plot_recovery_factor does not draw what reservoir.recovery_factor() returns", dict(reservoir=who, ticks=ticks),
                    dict(drawn_last=float(np.asarray(yu, float)[-1]), recovery_factor_last=float(rf_u[-1])))
            if not np.allclose(yru, np.gradient(rf_u, tu), rtol=1e-9, atol=1e-12, equal_nan=True):
                bad("plot_recovery_rate does not draw the time derivative of what reservoir.recovery_factor() returns", dict(reservoir=who, ticks=ticks),
                    dict(drawn_at_step_3=float(np.asarray(yru, float)[3]), derivative_at_step_3=float(np.gradient(rf_u, tu)[3])))
    # ---------------- production comparison figure
    import pandas as pd
    from lmfit import Parameters
    tbp = rescorr.shipped_gas(stride=10)
    pvt = pd.DataFrame(tbp)
    for k in range(2 if ctx.quick else 8):
        nd = int(rng.integers(8, 20))
        gas = rng.uniform(0, 50, nd) * (rng.random(nd) > 0.2)
        pres = rng.uniform(800, 3000, nd)
        pres[rng.integers(0, nd)] = np.nan
        prod = pd.DataFrame({"Days": np.arange(nd), "Gas": gas, "Pressure": pres})
        # row labels as the caller's table carries them: 0..n-1, or repeated (two exports joined without renumbering, so that an idle
        # day of one shares its label with a producing day of the other): the rows decide what is drawn, not their labels
        if k % 2 == 1:
            # the filtered figure does not read the Days column (its time axis is the count of retained rows): a producing day whose
            # date is missing from the record is still drawn
            good_ = np.nonzero((gas > 0) & ~np.isnan(pres))[0]
            prod["Days"] = prod["Days"].astype(float)
            prod.loc[good_[len(good_) // 2], "Days"] = np.nan
        labels = ["repeated (two exports joined)", "0..n-1", "reversed"][k % 3]
        if labels.startswith("repeated"):
            prod.index = np.arange(nd) % (nd // 2 + 1)
        elif labels == "reversed":
            prod.index = np.arange(nd)[::-1]
        par = Parameters()
        tau, M, p0 = float(rng.uniform(50, 400)), float(rng.uniform(500, 5000)), float(rng.uniform(4000, 9000))
        par.add("tau", value=tau)
        par.add("M", value=M)
        par.add("p_initial", value=p0)
        with warnings.catch_warnings():
            warnings.simplefilter("ignore")
            fig, (ax1, ax2) = plot_production_comparison(prod, pvt, par, filter_zero_prod_days=True)
            l1, l2 = line_data(ax1), line_data(ax2)
            plt.close(fig)
        keep = (gas > 0) & ~np.isnan(pres)
        tt = np.arange(keep.sum()) / tau
        case = dict(kind="single", table=tbp, pi=p0, pf=float(pres[keep][0]), nx=80, times=tt, sched=list(pres[keep]))
        ref = rescorr.run_impl(case)
        ev += 1
        cl = lambda a_, b_, **kw: np.shape(a_) == np.shape(b_) and np.allclose(a_, b_, **kw)     # a curve with other points is a mismatch
        ok = (len(l1) == 2 and len(l2) == 1 and cl(l1[0][0], tt) and cl(l1[0][1], ref["rf"], rtol=1e-9)
              and cl(l1[1][1], np.cumsum(gas[keep]) / M) and cl(l2[0][1], pres[keep]) and cl(l2[0][0], tt))
        if not ok:
            bad("production-comparison figure does not carry simulated recovery, cumulative production over M and frac-face pressure against time over tau",
                dict(days=nd, tau=tau, M=M, p_initial=p0, row_labels=labels, a_producing_day_has_no_date=bool(k % 2 == 1), gas=[float(x) for x in gas], pressure=[None if np.isnan(x) else float(x) for x in pres]),
                dict(points_drawn=[len(l_[0]) for l_ in l1 + l2], points_expected=int(keep.sum())))
    # ---------------- two wells plotted one after the other with the figures kept open (a report that collects the figures and saves them
    # at the end; both calls leave well_name at its default): each call hands out its OWN figure, and the first figure still carries the
    # first well's curves after the second call
    kept = []
    for j_ in range(2):
        nd = 12 + 9 * j_
        gas = rng.uniform(5, 50, nd)
        pres = np.sort(rng.uniform(800, 3000, nd))[::-1].copy()
        prod = pd.DataFrame({"Days": np.arange(nd), "Gas": gas, "Pressure": pres})
        par = Parameters()
        par.add("tau", value=150.0 + 100 * j_)
        par.add("M", value=2000.0 * (1 + j_))
        par.add("p_initial", value=6000.0)
        with warnings.catch_warnings():
            warnings.simplefilter("ignore")
            fig_k, (a1_k, a2_k) = plot_production_comparison(prod, pvt, par)
        kept.append((fig_k, a1_k, a2_k, [(np.array(x, float), np.array(y, float)) for x, y in line_data(a1_k) + line_data(a2_k)]))
    ev += 1
    fig0, a10, a20, snap0 = kept[0]
    now0 = [(np.array(x, float), np.array(y, float)) for x, y in line_data(a10) + line_data(a20)]
    same0 = len(now0) == len(snap0) == 3 and all(np.array_equal(x1, x2) and np.array_equal(y1, y2) for (x1, y1), (x2, y2) in zip(now0, snap0))
    if kept[0][0] is kept[1][0] or not same0 or a10 not in fig0.axes:
        bad("a production-comparison figure that is kept open no longer carries its well's data after the function is called again for another well (same default well name): "
            "the second call reuses / clears the first figure", dict(calls=2, well_name="default for both", first_well_days=12, second_well_days=21),
            dict(same_figure_object=bool(kept[0][0] is kept[1][0]), curves_on_first_axes_now=[len(x) for x, _ in now0], curves_on_first_axes_before=[len(x) for x, _ in snap0]))
    for fig_k, *_ in kept:
        plt.close(fig_k)
    # ---------------- the same figure WITHOUT filtering, on records whose Days column is not 0, 1, 2, ... (starting at day 1,
    # every other day, monthly): the time axis is Days / tau and the simulation runs on it
    for k in range(4 if ctx.quick else 12):
        nd = int(rng.integers(8, 16))
        days = [np.arange(1, nd + 1), np.arange(0, 2 * nd, 2), np.cumsum(rng.choice([28, 30, 31], nd))][k % 3].astype(float)
        gas = rng.uniform(1, 50, nd)
        pres = np.sort(rng.uniform(800, 3000, nd))[::-1].copy()
        prod = pd.DataFrame({"Days": days, "Gas": gas, "Pressure": pres})
        # the rows decide, not their labels: reversed, offset and string labels (fixed 2026-10: the Days column used to reach the
        # simulator as a labelled Series and was indexed by label)
        labels_u = ["0..n-1", "reversed", "offset by 10", "strings"][k % 4]
        if labels_u == "reversed":
            prod.index = np.arange(nd)[::-1]
        elif labels_u == "offset by 10":
            prod.index = np.arange(10, 10 + nd)
        elif labels_u == "strings":
            prod.index = [f"day-{i}" for i in range(nd)]
        par = Parameters()
        tau, M, p0 = float(rng.uniform(50, 400)), float(rng.uniform(500, 5000)), float(rng.uniform(4000, 9000))
        par.add("tau", value=tau)
        par.add("M", value=M)
        par.add("p_initial", value=p0)
        with warnings.catch_warnings():
            warnings.simplefilter("ignore")
            try:
                fig, (ax1, ax2) = plot_production_comparison(prod, pvt, par, filter_zero_prod_days=False)
            except Exception as e:  # noqa: BLE001
                bad("production-comparison figure (no filtering) fails on an admissible table", dict(days=[float(x) for x in days[:5]], row_labels=labels_u, filter_zero_prod_days=False), repr(e)[:160])
                continue
            l1, l2 = line_data(ax1), line_data(ax2)
            plt.close(fig)
        tt = days / tau
        ref = rescorr.run_impl(dict(kind="single", table=tbp, pi=p0, pf=float(pres[0]), nx=80, times=tt, sched=list(pres)))
        ev += 1
        cl = lambda a_, b_, **kw: np.shape(a_) == np.shape(b_) and np.allclose(a_, b_, **kw)
        ok = (len(l1) == 2 and len(l2) == 1 and cl(l1[0][0], tt) and cl(l1[0][1], ref["rf"], rtol=1e-9)
              and cl(l1[1][0], tt) and cl(l1[1][1], np.cumsum(gas) / M) and cl(l2[0][1], pres) and cl(l2[0][0], tt))
        if not ok:
            bad("production-comparison figure (no filtering) does not carry simulated recovery, cumulative production over M and frac-face pressure "
                "against Days over tau", dict(days=[float(x) for x in days[:5]], tau=tau, M=M, p_initial=p0, filter_zero_prod_days=False, row_labels=labels_u),
                dict(x_drawn=[float(x) for x in (l1[0][0][:4] if l1 else [])], x_expected=[float(x) for x in tt[:4]]))
    # ---------------- the registered scale's transforms on the implementation
    import matplotlib.scale as mscale
    fig, ax = plt.subplots()
    tr = mscale.scale_factory("squareroot", ax.xaxis).get_transform()
    inv = tr.inverted()
    plt.close(fig)
    # the inverse as matplotlib itself uses it: through the axes' composite data transform (pixel -> data is what the cursor
    # read-out and picking call); data -> pixels -> data must be the identity on a squareroot axis
    for k in range(3 if ctx.quick else 30):
        figp, axp = plt.subplots()
        xmax = float(np.exp(rng.uniform(-3, 8)))
        axp.set_xscale("squareroot")
        axp.set_xlim(0, xmax)
        axp.set_ylim(0, 3)
        pts = np.column_stack([rng.uniform(0, xmax, 12), rng.uniform(0, 3, 12)])
        back = np.asarray(axp.transData.inverted().transform(axp.transData.transform(pts)), float)
        plt.close(figp)
        ev += 1
        if not np.allclose(back, pts, rtol=1e-9, atol=1e-9 * xmax):
            j_ = int(np.argmax(np.abs(back[:, 0] - pts[:, 0])))
            bad("on a squareroot axis data -> pixels -> data is not the identity: the transform's inverse, as matplotlib's transform pipeline calls it, is not its inverse",
                dict(x_limits=[0.0, xmax], point=[float(x) for x in pts[j_]]), dict(came_back_as=[float(x) for x in back[j_]], sqrt_of_x=float(np.sqrt(pts[j_, 0]))))
    for k in range(20 if ctx.quick else 400):
        a = np.concatenate([[0.0], np.exp(rng.uniform(-30, 30, 30))])
        f = np.asarray(tr.transform_non_affine(a), float)
        b = np.asarray(inv.transform(f), float)
        c2 = np.asarray(tr.transform_non_affine(np.asarray(inv.transform(a), float)), float)
        ev += 1
        if not (np.allclose(f, np.sqrt(a), rtol=1e-15) and np.allclose(b, a, rtol=1e-14) and np.allclose(c2, a, rtol=1e-14)):
            bad("square-root axis transform is not the square root / not inverted by its inverse", [float(x) for x in a[:5]], [float(x) for x in f[:5]])
    # every numeric container the transform may be handed: narrow integer dtypes, float32, lists, tuples
    base = np.array([0, 1, 2, 3, 5, 10, 50, 100, 120])
    for conv in (np.int8, np.uint8, np.int16, np.uint16, np.int32, np.int64, np.float32, np.float64, list, tuple):
        a = conv(base.tolist()) if conv in (list, tuple) else base.astype(conv)
        f = np.asarray(tr.transform_non_affine(a), float)
        b = np.asarray(inv.transform(tr.transform_non_affine(a)), float)
        ev += 1
        rt = 1e-6 if conv is np.float32 else 1e-13
        if not (np.allclose(f, np.sqrt(base.astype(float)), rtol=rt, atol=0) and np.allclose(b, base.astype(float), rtol=rt, atol=0)):
            bad("square-root axis transform is not the (double-precision) square root / round trip fails for this input type",
                dict(input_type=getattr(conv, "__name__", str(conv)), values=base.tolist()), dict(transform=[float(x) for x in f], round_trip=[float(x) for x in b]))
    # ... and the other way round - inverse first, then the transform - on integer arrays whose squares do not fit their own type (times
    # in seconds held as int32; fixed 2026-10: the inverse squared in the caller's integer type, 50 000 came back as NaN)
    for conv, vals_ in ((np.int32, [0, 3, 46340, 46341, 50000, 2000000]), (np.uint32, [0, 65535, 65536, 100000]), (np.int64, [0, 50000, 3000000000]), (np.int16, [0, 181, 182, 30000])):
        a_i = np.array(vals_, dtype=conv)
        sq = np.asarray(inv.transform(a_i), float)
        back_i = np.asarray(tr.transform_non_affine(sq), float)
        ev += 1
        if not (np.allclose(sq, np.array(vals_, float) ** 2, rtol=1e-15, atol=0) and np.allclose(back_i, np.array(vals_, float), rtol=1e-14, atol=0)):
            bad("the inverse of the square-root axis transform does not square this non-negative array (inverse, then transform, is not the identity)",
                dict(input_type=np.dtype(conv).name, values=vals_), dict(inverse=[float(x) for x in sq], then_transform=[float(x) for x in back_i]))
    # ---------------- model <-> implementation
    res_m = coq_model(ctx, items)
    if res_m is not None:
        if len(res_m) != len(expect):
            ctx.broken.append(f"plot model: expected {len(expect)} results, parsed {len(res_m)}")
        else:
            for (kind, args), got, want in zip(items, res_m, expect):
                got = np.asarray(got, float)
                if got.shape != np.shape(want) or not np.allclose(got, want, rtol=1e-9, atol=1e-12, equal_nan=True):
                    bad("the plotting model (Lib/Plot.v, float instance) disagrees with what the helper drew", dict(kind=kind), "mismatch")
    ctx.cov.update(evaluations=ev, distinct_nontrivial=len(items), traces_validated_against_impl=len(items),
                   rule="simulated ideal and single-phase reservoirs (nx 5..12, up to 25 levels); strides 1, 2, 3, 7, > number of levels; both rescale and "
                        "both tick settings; Line2D x/y data read back under the Agg backend (no rendering, no pixels); production-comparison figure with "
                        "zero-rate days and a missing pressure; transform round trips on random non-negative arrays over 26 decades incl. 0")
    ctx.samples.append(dict(helpers=["plot_pseudopressure", "plot_recovery_factor", "plot_recovery_rate", "plot_production_comparison"]))


def replay(payload):
    print(json.dumps(payload.get("input"), default=str), json.dumps(payload.get("observed"), default=str))
    return 0
