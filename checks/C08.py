"""C08 - all pseudopressure routes agree and are strictly increasing in pressure."""
import json
import warnings

import numpy as np

from vlib import core, dom

ID = "C08"
GEN = ["water", "gas", "oil", "fluid"]
PROPS = ["C08_pseudopressure.v", "C08_trapz_error.v", "C19_signatures.v"]


def run(ctx):
    from bluebonnet.fluids import gas
    from bluebonnet.fluids.fluid import build_pvt_gas, pseudopressure
    core.coq_phase(ctx, GEN, PROPS)
    rng = dom.rng_for(ctx, 8)
    ev = 0

    def bad(what, inp, obs):
        ctx.violations.append(dict(what=what, key=what, input=inp, observed=obs))

    ntab = 2 if ctx.quick else 10
    for k in range(ntab):
        g = dom.gas_params(rng)
        while abs(g["n2"] - g["co2"]) < 0.01 or abs(g["n2"] - g["h2s"]) < 0.01:    # a composition whose components cannot be confused unnoticed
            g = dom.gas_params(rng)
        pmax = 1500.0 if ctx.quick else float(rng.choice([3000.0, 8000.0, 14000.0]))
        vals = {"N2": g["n2"], "H2S": g["h2s"], "CO2": g["co2"], "Gas Specific Gravity": g["sg"],
                "Reservoir Temperature (deg F)": g["T"]}
        with warnings.catch_warnings():
            warnings.simplefilter("ignore")
            vals_arg, vals_how = dom.gas_values_form(vals, k + 1)    # what the keys say decides, not the order they were inserted in
            try:
                tb = build_pvt_gas(vals_arg, g["dry"], pmax)
            except Exception as e:  # noqa: BLE001
                bad("build_pvt_gas fails for an admissible gas description", dict(gas_values=vals, gas_values_given_as=vals_how, dryness=g["dry"], maximum_pressure=pmax), repr(e)[:200])
                continue
        # mappings that answer gas_values[key] through their own lookup (a record that falls back to field-wide defaults for entries a
        # well does not list; a record that resolves aliased names): what gas_values[key] returns is the gas the table is built for
        if k < (1 if ctx.quick else 4):
            class FieldDefaults(dict):
                def __missing__(self, key):
                    return field_wide[key]

            class Aliased(dict):
                def __getitem__(self, key):
                    return dict.__getitem__(self, {"N2": "Nitrogen", "H2S": "Hydrogen sulfide", "CO2": "Carbon dioxide"}.get(key, key))
            field_wide = {"N2": vals["N2"], "H2S": vals["H2S"], "CO2": vals["CO2"]}
            special = [(FieldDefaults({q: v for q, v in vals.items() if q not in ("N2", "CO2")}), "dict subclass whose __missing__ supplies field-wide N2 and CO2"),
                       (Aliased({{"N2": "Nitrogen", "H2S": "Hydrogen sulfide", "CO2": "Carbon dioxide"}.get(q, q): v for q, v in vals.items()}), "dict subclass whose __getitem__ resolves N2 / H2S / CO2 to spelled-out names")]
            for m_arg, m_how in special:
                ev += 1
                try:
                    with warnings.catch_warnings():
                        warnings.simplefilter("ignore")
                        tb_m = build_pvt_gas(m_arg, g["dry"], pmax)
                except Exception as e:  # noqa: BLE001
                    bad("build_pvt_gas fails for a mapping that answers gas_values[key] through its own lookup", dict(gas_values=vals, gas_values_given_as=m_how, dryness=g["dry"]), repr(e)[:200])
                    continue
                nrow = len(tb_m["pressure"])
                for col in ("pseudopressure", "z-factor", "viscosity"):
                    a_, b_ = np.asarray(tb_m[col], float), np.asarray(tb[col], float)[:nrow]
                    if not np.allclose(a_, b_, rtol=1e-12, atol=0):
                        bad("the table is not built for the gas that gas_values[key] describes (a mapping that answers through its own lookup is read around it)",
                            dict(gas_values=vals, gas_values_given_as=m_how, dryness=g["dry"], column=col), dict(max_rel_diff=float(np.abs(a_ / np.where(b_ == 0, 1, b_) - 1).max()), row=int(np.argmax(np.abs(a_ - b_)))))
                        break
        P = np.asarray(tb["pressure"], float)
        mu = np.asarray(tb["viscosity"], float)
        z = np.asarray(tb["z-factor"], float)
        m_tab = np.asarray(tb["pseudopressure"], float)
        m_sa = np.asarray(pseudopressure(P, mu, z), float)
        # the same columns held as object arrays of Python floats (a DataFrame read with dtype=object, a column that once held a label):
        # the transform answers, with the same values
        ev += 1
        try:
            with warnings.catch_warnings():
                warnings.simplefilter("ignore")
                m_obj = np.asarray(pseudopressure(np.array(P.tolist(), dtype=object), np.array(mu.tolist(), dtype=object), np.array(z.tolist(), dtype=object)), float)
            if m_obj.shape != m_sa.shape or not np.allclose(m_obj, m_sa, rtol=1e-12, atol=0):
                bad("the stand-alone table transform gives other values for columns of object dtype holding the same numbers", dict(rows=len(P), columns="object dtype"), float(np.abs(m_obj - m_sa).max()))
        except Exception as e:  # noqa: BLE001
            bad("the stand-alone table transform fails on positive columns of object dtype (Python floats)", dict(rows=len(P), columns="object dtype", first_pressures=[float(x) for x in P[:3]]), repr(e)[:200])
        inp = dict(gas_values=vals, gas_values_given_as=vals_how, dryness=g["dry"], maximum_pressure=pmax)
        ev += 2
        if not np.allclose(m_tab, m_sa, rtol=1e-12, atol=1e-9):
            bad("builder column and stand-alone table transform disagree", inp, float(np.abs(m_tab - m_sa).max()))
        if m_tab[0] != 0.0 or np.any(np.diff(m_tab) <= 0):
            bad("table pseudopressure is not zero at its first pressure / not strictly increasing", inp, dict(first=float(m_tab[0]), min_step=float(np.diff(m_tab).min())))
        # quadrature route on pressure pairs inside the table
        tpc, ppc = gas.pseudocritical_point_Sutton(g["sg"], gas.make_nonhydrocarbon_properties(g["n2"], g["h2s"], g["co2"]), g["dry"])
        f = 2 * P / (mu * z)
        h = 10.0
        f2 = np.abs(np.gradient(np.gradient(f, P), P))
        npairs = 3 if ctx.quick else 10
        for _ in range(npairs):
            i, j = sorted(rng.choice(len(P), 2, replace=False))
            if i == j:
                continue
            mq = lambda p: gas.pseudopressure_Hussainy(g["T"], float(p), tpc, ppc, g["sg"])
            dq = mq(P[j]) - mq(P[i])
            dt_ = m_tab[j] - m_tab[i]
            tol = 4 * (P[j] - P[i]) * h * h / 12 * f2[i:j + 1].max() + 1e-7 * abs(dq)
            ev += 1
            if abs(dq - dt_) > tol:
                bad("adaptive quadrature and table routes disagree on a pseudopressure difference beyond quadrature accuracy",
                    dict(**inp, p1=float(P[i]), p2=float(P[j])), dict(quad=dq, table=dt_, tol=tol))
            # additivity of the quadrature route through an intermediate pressure
            kmid = (i + j) // 2
            a = mq(P[kmid]) - mq(P[i])
            b = mq(P[j]) - mq(P[kmid])
            ev += 1
            if not dom.relclose(a + b, dq, 1e-7) or not (a >= 0 and b >= 0 and dq > 0):
                bad("quadrature pseudopressure is not additive / increasing over adjacent intervals", dict(**inp, p=[float(P[i]), float(P[kmid]), float(P[j])]), dict(a=a, b=b, total=dq))
        # a DIFFERENT gas described with the same numbers under other component names (N2 and CO2 fractions exchanged), built right
        # after the first one in the same process with the same dryness and maximum pressure: its table is for ITS composition
        # (the same container kind, the same key positions and the same numbers as the mapping handed in first - only the names of the
        # two components are exchanged)
        first_items = list(vals_arg.items())
        vals_sw = type(vals_arg)({("CO2" if q == "N2" else "N2" if q == "CO2" else q): v for q, v in first_items}) if isinstance(vals_arg, dict) else \
            {("CO2" if q == "N2" else "N2" if q == "CO2" else q): v for q, v in first_items}
        with warnings.catch_warnings():
            warnings.simplefilter("ignore")
            tb_sw = build_pvt_gas(vals_sw, g["dry"], pmax)
        tpc_s, ppc_s = gas.pseudocritical_point_Sutton(g["sg"], gas.make_nonhydrocarbon_properties(g["co2"], g["h2s"], g["n2"]), g["dry"])
        P_s, m_s = np.asarray(tb_sw["pressure"], float), np.asarray(tb_sw["pseudopressure"], float)
        i_s, j_s = len(P_s) // 5, (4 * len(P_s)) // 5
        if (T_ := (g["T"] + 459.67) / (tpc_s + 459.67)) >= 1.05 and T_ <= 3:
            dq_s = gas.pseudopressure_Hussainy(g["T"], float(P_s[j_s]), tpc_s, ppc_s, g["sg"]) - gas.pseudopressure_Hussainy(g["T"], float(P_s[i_s]), tpc_s, ppc_s, g["sg"])
            ev += 1
            if not dom.relclose(m_s[j_s] - m_s[i_s], dq_s, 2e-4):
                bad("the table of a second gas (same numbers, N2 and CO2 fractions exchanged) built right after the first one disagrees with the quadrature for ITS composition",
                    dict(gas_values={q: (v if isinstance(v, str) else float(v)) for q, v in vals_sw.items()}, built_right_after=vals, dryness=g["dry"], maximum_pressure=pmax, p1=float(P_s[i_s]), p2=float(P_s[j_s])), dict(table=float(m_s[j_s] - m_s[i_s]), quad=float(dq_s)))
        # other spellings of the documented fluid types: rejected, or the table (and so its pseudopressure, which must agree with the
        # quadrature for the gas the caller named) is the one of the type they name
        if k == 0:
            def table_m(nm):
                with warnings.catch_warnings():
                    warnings.simplefilter("ignore")
                    return [float(x) for x in np.asarray(build_pvt_gas(dict(vals), nm, 400.0)["pseudopressure"], float)[::6]]
            ev += dom.check_dryness_spellings(table_m, lambda what, sp, obs: bad("build_pvt_gas pseudopressure column: " + what, dict(gas_values=vals, fluid=sp), obs),
                                              lambda u, v: len(u) == len(v) and np.allclose(u, v, rtol=1e-12))
        # pressures at, just around and below the reference pressure, default and custom reference
        for pstd in (14.7, float(rng.uniform(200, 1500))):
            pts = np.array([0.6 * pstd, 0.9 * pstd, pstd, 1.1 * pstd, 2.0 * pstd])
            pts = pts[pts / ppc <= 30]
            mv = np.array([gas.pseudopressure_Hussainy(g["T"], float(x), tpc, ppc, g["sg"], pstd) for x in pts])
            ev += 1
            iref = int(np.argmin(np.abs(pts - pstd)))
            if abs(mv[iref]) > 1e-9 * abs(mv[-1]) or np.any(np.diff(mv) <= 0):
                bad("quadrature pseudopressure is not zero at its reference pressure / not strictly increasing across it",
                    dict(**inp, pressure_standard=pstd, pressures=[float(x) for x in pts]), [float(x) for x in mv])
            # additivity through an intermediate pressure on the other side of the reference
            a = gas.pseudopressure_Hussainy(g["T"], float(pts[-1]), tpc, ppc, g["sg"], float(pts[0]))
            b1 = mv[-1] - mv[0]
            if not dom.relclose(a, b1, 1e-7):
                bad("pseudopressure differences are not additive across the reference pressure", dict(**inp, pressure_standard=pstd), dict(direct=a, via_reference=b1))
        ev += 1
        m0 = gas.pseudopressure_Hussainy(g["T"], 14.7, tpc, ppc, g["sg"])
        if abs(m0) > 1e-6:
            bad("quadrature pseudopressure is not zero at its reference pressure", inp, m0)
    # stand-alone transform on arbitrary positive tables
    for k in range(40 if ctx.quick else 1000):
        n = int(rng.integers(2, 40))
        P = np.cumsum(rng.uniform(0.5, 400, n))
        # structured pressure grids next to the random ones (a shortcut keyed on a few steps - equal first and last step, equal leading
        # steps, ... - is only wrong on grids that look regular where it looks): regular grids with extra interior knots, regular
        # grids with one odd step in the middle / at one end, two step sizes, geometric
        grid_kind = ["random", "regular + interior knots", "regular", "regular, one odd interior step", "two step sizes", "geometric", "regular + knot in first interval"][k % 7]
        if grid_kind != "random" and n >= 6:
            h_ = float(rng.choice([1.0, 10.0, 25.0, 0.5]))
            base = h_ * np.arange(1, n + 1)
            if grid_kind == "regular + interior knots":
                extra = rng.uniform(base[1], base[-2], int(rng.integers(1, 4)))
                P = np.union1d(base, extra)
            elif grid_kind == "regular":
                P = base
            elif grid_kind == "regular, one odd interior step":
                j_ = int(rng.integers(2, n - 2))
                P = np.concatenate([base[:j_], base[j_:] + float(rng.uniform(0.3, 7)) * h_])
            elif grid_kind == "two step sizes":
                j_ = int(rng.integers(2, n - 2))
                P = np.concatenate([base[:j_], base[j_ - 1] + 7.5 * h_ * np.arange(1, n - j_ + 1), [base[j_ - 1] + 7.5 * h_ * (n - j_) + h_]])
            elif grid_kind == "geometric":
                P = 14.7 * 1.17 ** np.arange(n)
            else:
                P = np.union1d(base, [base[0] + 0.37 * h_])
            n = len(P)
            mu, z = None, None
        mu = np.exp(rng.uniform(-5, 1, n))
        z = rng.uniform(0.2, 2.5, n)
        if k % 14 >= 7:          # half of the structured grids with an ideal gas: the transform is then p^2 - p0^2 exactly
            mu, z = np.ones(n), np.ones(n)
        m = np.asarray(pseudopressure(P, mu, z), float)
        f = 2 * P / (mu * z)
        want = np.concatenate([[0.0], np.cumsum(np.diff(P) * (f[1:] + f[:-1]) / 2)])
        ev += 1
        if m.shape != P.shape or m[0] != 0.0 or np.any(np.diff(m) <= 0) or not np.allclose(m, want, rtol=1e-12):
            bad("stand-alone table transform is not the (zero-based, strictly increasing) trapezoid integral of 2p/(mu z) over pressure",
                dict(grid=grid_kind, pressure=[float(x) for x in P], viscosity=[float(x) for x in mu], z=[float(x) for x in z]), [float(x) for x in m[:5]])
        # the same table in another row order (listed from high to low pressure, or shuffled) and in other containers: the
        # transform integrates along the rows as given, so every row keeps its value relative to the first row listed
        if n >= 3:
            import pandas as pd
            for how in ("descending", "shuffled", "descending, pandas columns"):
                perm = np.arange(n)[::-1] if how.startswith("desc") else rng.permutation(n) if how == "shuffled" else np.arange(n)
                Pp, mup, zp = P[perm].copy(), mu[perm].copy(), z[perm].copy()
                args = (pd.Series(Pp), pd.Series(mup), pd.Series(zp)) if "pandas" in how else (Pp, mup, zp)
                try:
                    mp = np.asarray(pseudopressure(*args), float)
                except Exception as e:  # noqa: BLE001
                    bad("stand-alone table transform fails on an admissible table", dict(rows=n, presentation=how), repr(e)[:160])
                    continue
                fp_ = 2 * Pp / (mup * zp)
                wantp = np.concatenate([[0.0], np.cumsum(np.diff(Pp) * (fp_[1:] + fp_[:-1]) / 2)])
                ev += 1
                if mp.shape != Pp.shape or not np.allclose(mp, wantp, rtol=1e-12, atol=1e-9 * abs(want[-1])):
                    bad("stand-alone table transform is not the trapezoid integral of 2p/(mu z) along the rows as listed "
                        "(a table listed by decreasing pressure must give the same pseudopressure differences, with the first row as reference)",
                        dict(presentation=how, pressure=[float(x) for x in Pp], viscosity=[float(x) for x in mup], z=[float(x) for x in zp]),
                        dict(got=[float(x) for x in mp[:5]], expected=[float(x) for x in wantp[:5]]))
                    break
        i = int(rng.integers(0, n - 1))
        m_sub = np.asarray(pseudopressure(P[i:], mu[i:], z[i:]), float)
        if not np.allclose(m[i:] - m[i], m_sub, rtol=1e-10, atol=1e-9 * abs(m[-1])):
            bad("table pseudopressure is not additive over adjacent pressure intervals", dict(rows=n, start=i), float(np.abs(m[i:] - m[i] - m_sub).max()))
    ctx.cov.update(evaluations=ev, distinct_nontrivial=ev,
                   rule="library-built gas tables (random composition/gravity/temperature/dryness), pressure pairs inside the table for the "
                        "three-way comparison with tolerance = 4*(b-a)*h^2/12*max|f''| (measured on the table) + 1e-7 relative; random positive "
                        "(pressure, viscosity, Z) tables for the stand-alone transform incl. sub-table additivity")
    ctx.validated_only += ["agreement of the adaptive-quadrature route with the table routes: the trapezoid bound sum M h^3/12 is a theorem (C08_trapz_error.v) but M = sup|(2p/(mu Z))''| is not derived for the Sutton/DAK functions and QUADPACK is a trusted contract; the tolerance used on the sampled pairs is computed from the table"]
    ctx.samples.append(dict(table_rows=int(len(P)), example="random positive table"))


def replay(payload):
    print(json.dumps(payload.get("input"), default=str)[:2000], json.dumps(payload.get("observed"), default=str))
    return 0
