"""C13 - hand-coded derivative functions equal the true derivatives of their parents."""
import math

import numpy as np

from vlib import core, dom
from vlib.ad import derivative

GEN = ["water", "gas", "oil"]
PROPS = ["C13_water.v", "C13_oil.v"]
ID = "C13"


def z_rho(T, p, tpc, ppc):
    from bluebonnet.fluids import gas
    z = gas.z_factor_DAK(T, p, tpc, ppc)
    tr = (T + 459.67) / (tpc + 459.67)
    return 0.27 * (p / ppc) / (z * tr)


def cert_goals(ctx):
    from bluebonnet.fluids import oil, water
    rng = dom.rng_for(ctx, 1)
    goals = []
    n = 6 if ctx.quick else 40
    allnames = "PyPrelude.pyclip"  # placeholder so the list is never empty
    for k in range(n):
        T, p, s = float(rng.uniform(60, 400)), float(rng.uniform(15, 15000)), float(rng.uniform(0, 25))
        for f, args in (("b_water_McCain", (T, p)), ("b_water_McCain_dp", (T, p))):
            v = float(getattr(water, f)(*args))
            goals.append(dict(expr=f"Gen_water.{f} " + " ".join(core.frac(a) for a in args), value=v,
                              label=f"water.{f}{args}"))
        T, api, gg, rsi, pb = dom.oil_params(rng)
        for p in (float(rng.uniform(15, 0.98 * pb)), float(rng.uniform(1.02 * pb, 2.5 * pb))):
            for f in ("solution_gor_Standing", "dgor_dpressure_Standing"):
                v = float(getattr(oil, f)(T, p, api, gg, rsi))
                goals.append(dict(expr=f"Gen_oil.{f} " + " ".join(core.frac(a) for a in (T, p, api, gg, rsi)),
                                  value=v, label=f"oil.{f}{(T, p, api, gg, rsi)}", atol=1e-300))
        for f in ("b_o_bubblepoint_Standing", "db_o_dgor_Standing"):
            v = float(getattr(oil, f)(T, api, gg, rsi))
            goals.append(dict(expr=f"Gen_oil.{f} " + " ".join(core.frac(a) for a in (T, api, gg, rsi)),
                              value=v, label=f"oil.{f}{(T, api, gg, rsi)}"))
        # all-pressure compressibility, both branches; the root solver is an oracle of the model:
        # it is instantiated with the density the implementation found (its residual is C06's business)
        tpc, ppc = float(rng.uniform(-110, -40)), float(rng.uniform(600, 700))
        for p in (float(rng.uniform(min(100, 0.5 * pb), 0.98 * pb)), float(rng.uniform(1.02 * pb, 2.5 * pb))):
            v = float(oil.oil_compressibility_Standing(T, p, api, gg, rsi, tpc, ppc))
            rho = z_rho(T, p, tpc, ppc)
            args = " ".join(core.frac(a) for a in (T, p, api, gg, rsi, tpc, ppc, 60.0, 14.7))
            goals.append(dict(expr=f"Gen_oil.oil_compressibility_Standing (fun _ _ _ => {core.frac(rho)}) {args}",
                              value=v, rtol=1e-8, label=f"oil.oil_compressibility_Standing{(T, p, api, gg, rsi, tpc, ppc)}"))
    for g in goals:
        g["unfold"] = core.gen_names(["water", "gas", "oil"])
    return goals


def impl_checks(ctx):
    """Conclusion of the theorems evaluated on the implementation: forward-mode AD of the
    parent's own code against the hand-coded derivative."""
    from bluebonnet.fluids import gas, oil, water
    rng = dom.rng_for(ctx, 2)
    n = 300 if ctx.quick else 6000
    ev = 0
    kinds = {}
    samples = []

    def bad(what, inp, got, want):
        ctx.violations.append(dict(what=what, key=what, input=inp, observed=got, expected=want))

    for k in range(n):
        # --- water
        T = float(rng.uniform(32, 400)) if k % 7 else float(rng.choice([32.0, 400.0, 60.0]))
        p = dom.loguniform(rng, 1, 20000) if k % 5 else float(rng.choice([0.0, 14.7, 20000.0, 30000.0]))
        d, how = derivative(lambda q: water.b_water_McCain(T, q), p)
        got = float(water.b_water_McCain_dp(T, p))
        ev += 1
        kinds["water:" + how] = kinds.get("water:" + how, 0) + 1
        if not dom.relclose(got, d, 1e-9, 1e-18):
            bad("b_water_McCain_dp differs from d(b_water_McCain)/dp", dict(T=T, p=p), got, d)
        # --- oil
        T, api, gg, rsi, pb = dom.oil_params(rng, edge=True)
        mode = k % 6
        if mode == 0:
            p = pb  # exactly at the bubble point
        elif mode == 1:
            p = float(np.nextafter(pb, 0))
        elif mode == 2:
            p = float(np.nextafter(pb, 1e9))
        elif mode == 3:
            p = float(rng.uniform(pb, 2.5 * pb))
        else:
            p = float(rng.uniform(15, pb))
        got = float(oil.dgor_dpressure_Standing(T, p, api, gg, rsi))
        ev += 1
        if p >= pb:
            if got != 0.0:
                bad("dgor_dpressure_Standing is not 0 at/above the bubble point",
                    dict(T=T, p=p, api=api, gg=gg, Rsi=rsi, pb=pb), got, 0.0)
            # GOR constant at and above pb (right derivative 0)
            g1 = float(oil.solution_gor_Standing(T, p, api, gg, rsi))
            g2 = float(oil.solution_gor_Standing(T, p * 1.01 + 1, api, gg, rsi))
            if g1 != g2 or g1 != rsi:
                bad("solution GOR is not constant (= initial GOR) at and above the bubble point",
                    dict(T=T, p=p, api=api, gg=gg, Rsi=rsi, pb=pb), [g1, g2], rsi)
        else:
            d, how = derivative(lambda q: oil.solution_gor_Standing(T, q, api, gg, rsi), p)
            kinds["dgor:" + how] = kinds.get("dgor:" + how, 0) + 1
            if not dom.relclose(got, d, 1e-9):
                bad("dgor_dpressure_Standing differs from d(solution_gor_Standing)/dp below the bubble point",
                    dict(T=T, p=p, api=api, gg=gg, Rsi=rsi, pb=pb), got, d)
        # the same pressure handed over in the other forms the function accepts (numpy scalar, 0-d array, one-element float / integer
        # array): the derivative must not depend on the container
        if k % 4 == 0:
            pint = float(int(p)) if 15 < int(p) and abs(int(p) - pb) > 1.5 else None
            forms = [("numpy float64 scalar", np.float64(p), p), ("0-d array", np.array(p), p), ("one-element float array", np.array([p]), p)]
            if pint is not None:
                forms += [("one-element int64 array", np.array([int(pint)]), pint), ("Python int", int(pint), pint), ("numpy int32 scalar", np.int32(pint), pint)]
            for fname, arg, pval in forms:
                want_f = float(oil.dgor_dpressure_Standing(T, float(pval), api, gg, rsi))
                ev += 1
                try:
                    got_f = np.asarray(oil.dgor_dpressure_Standing(T, arg, api, gg, rsi), float).ravel()
                except Exception as e:  # noqa: BLE001
                    bad("dgor_dpressure_Standing fails on a pressure given as " + fname, dict(T=T, p=float(pval), api=api, gg=gg, Rsi=rsi, pb=pb), repr(e)[:160], want_f)
                    continue
                if got_f.size != 1 or not dom.relclose(float(got_f[0]), want_f, 1e-12, 1e-300):
                    bad("dgor_dpressure_Standing depends on the container / dtype in which the pressure is given (" + fname + ")",
                        dict(T=T, p=float(pval), api=api, gg=gg, Rsi=rsi, pb=pb, form=fname), [float(x) for x in got_f], want_f)
        if k % 20 == 7:
            rep = lambda what, i_, got_, want_: bad(what, i_, got_, want_)
            Tw = float(rng.uniform(60, 350))
            ev += dom.check_forms(lambda q: water.b_water_McCain_dp(Tw, q), float(int(rng.uniform(100, 9000))), dom.SCALAR_FORMS + dom.ARRAY1_FORMS, rep,
                                  "water.b_water_McCain_dp", dict(T=Tw))
            ev += dom.check_forms(lambda q: oil.db_o_dgor_Standing(T, api, gg, q), float(int(rng.uniform(30, 2400))), dom.SCALAR_FORMS + dom.ARRAY1_FORMS, rep,
                                  "oil.db_o_dgor_Standing (as a function of the GOR)", dict(T=T, api=api, gg=gg))
        r = dom.loguniform(rng, 1, 3000)
        d, how = derivative(lambda q: oil.b_o_bubblepoint_Standing(T, api, gg, q), r)
        got = float(oil.db_o_dgor_Standing(T, api, gg, r))
        ev += 1
        # the GOR as an object-dtype array of Python floats (a column of an object-cast frame): parent and derivative both answer
        try:
            r_obj = np.array([float(r), float(r) * 0.5], dtype=object)
            par_obj = np.asarray(oil.b_o_bubblepoint_Standing(T, api, gg, r_obj), float)
            der_obj = np.asarray(oil.db_o_dgor_Standing(T, api, gg, r_obj), float)
            if not (dom.relclose(float(der_obj[0]), got, 1e-12) and dom.relclose(float(par_obj[0]), float(oil.b_o_bubblepoint_Standing(T, api, gg, r)), 1e-12)):
                bad("db_o_dgor_Standing / b_o_bubblepoint_Standing give other values for an object-dtype GOR array holding the same numbers", dict(T=T, api=api, gg=gg, Rs=r), [float(x) for x in der_obj], got)
        except Exception as e:  # noqa: BLE001
            bad("db_o_dgor_Standing fails for an object-dtype GOR array although its parent b_o_bubblepoint_Standing answers", dict(T=T, api=api, gg=gg, Rs=[float(r), float(r) * 0.5], dtype="object"), repr(e)[:200], got)
        kinds["dBo:" + how] = kinds.get("dBo:" + how, 0) + 1
        if not dom.relclose(got, d, 1e-9):
            bad("db_o_dgor_Standing differs from d(b_o_bubblepoint_Standing)/dRs",
                dict(T=T, api=api, gg=gg, Rs=r), got, d)
        # --- assembly (k % 3 == 0: at / above the bubble point; k % 3 == 1: just below it and anywhere below)
        if k % 3 in (0, 1):
            tpc, ppc = float(rng.uniform(-110, -40)), float(rng.uniform(600, 700))
            tr = (T + 459.67) / (tpc + 459.67)
            if 1.05 <= tr <= 3 and p / ppc <= 30 and p > 0:
                got = float(oil.oil_compressibility_Standing(T, p, api, gg, rsi, tpc, ppc))
                ev += 1
                if p >= pb:
                    want = float(oil.oil_compressibility_undersat_Spivey(T, p, api, gg, rsi))
                else:
                    bg = gas.b_factor_DAK(T, p, tpc, ppc, 60, 14.7)
                    rs = oil.solution_gor_Standing(T, p, api, gg, rsi)
                    want = float((bg - oil.db_o_dgor_Standing(T, api, gg, rs))
                                 * oil.dgor_dpressure_Standing(T, p, api, gg, rsi)
                                 / oil.b_o_bubblepoint_Standing(T, api, gg, rsi))
                if not dom.relclose(got, want, 1e-9):
                    bad("oil_compressibility_Standing is not its defining combination",
                        dict(T=T, p=p, api=api, gg=gg, Rsi=rsi, Tpc=tpc, Ppc=ppc, pb=pb), got, want)
                # a sensitivity sweep over ONE argument of the gas description at a time (pseudocritical temperature, then pressure,
                # everything else as in the call just made): each call is the defining combination for ITS arguments
                if p < pb:
                    for tpc2, ppc2 in ((tpc - 15.0, ppc), (tpc, ppc + 25.0), (tpc + 9.0, ppc)):
                        if not (1.05 <= (T + 459.67) / (tpc2 + 459.67) <= 3 and p / ppc2 <= 30):
                            continue
                        got2 = float(oil.oil_compressibility_Standing(T, p, api, gg, rsi, tpc2, ppc2))
                        bg2 = gas.b_factor_DAK(T, p, tpc2, ppc2, 60, 14.7)
                        want2 = float((bg2 - oil.db_o_dgor_Standing(T, api, gg, rs)) * oil.dgor_dpressure_Standing(T, p, api, gg, rsi) / oil.b_o_bubblepoint_Standing(T, api, gg, rsi))
                        ev += 1
                        if not dom.relclose(got2, want2, 1e-9):
                            bad("oil_compressibility_Standing is not its defining combination when only the pseudocritical point differs from the call made just before",
                                dict(T=T, p=p, api=api, gg=gg, Rsi=rsi, Tpc=tpc2, Ppc=ppc2, pb=pb, called_just_before_with=dict(Tpc=tpc, Ppc=ppc)), got2, want2)
                            break
        if k < 4:
            samples.append(dict(T=T, p=p, api=api, gg=gg, Rsi=rsi, pb=pb, dgor=got))
    # --- assembly, saturated branch, where its factor (B_g - dB_o/dR_s) is smallest (it changes sign for heavy oils with
    # high GOR a few percent below a high bubble point): the combination is checked as defined, sign included
    neg = 0
    for k in range(150 if ctx.quick else 3000):
        T, api, gg, rsi, pb = dom.oil_params(rng, edge=True)
        if k % 2:
            api, rsi = float(rng.uniform(12, 28)), float(rng.uniform(800, 2500))
            pb = float(oil.pressure_bubblepoint_Standing(T, api, gg, rsi))
        tpc, ppc = float(rng.uniform(-110, -40)), float(rng.uniform(600, 700))
        tr = (T + 459.67) / (tpc + 459.67)
        if not (1.05 <= tr <= 3) or pb <= 50:
            continue
        grid = [q for q in pb * (1 - np.geomspace(1e-3, 0.5, 10)) if 15 < q and q / ppc <= 30]
        if not grid:
            continue
        fac = [float(gas.b_factor_DAK(T, q, tpc, ppc, 60, 14.7)) - float(oil.db_o_dgor_Standing(T, api, gg, oil.solution_gor_Standing(T, q, api, gg, rsi))) for q in grid]
        for q in {grid[int(np.argmin(fac))], grid[int(rng.integers(0, len(grid)))]}:
            q = float(q)
            # standard conditions: the defaults, or another legitimate base (14.65 Texas, 14.696 = 1 atm, 14.73 AGA, 15.025 Louisiana)
            tsc, psc = [(60, 14.7), (60.0, 14.65), (59.0, 14.696), (68.0, 14.73), (60.0, 15.025)][k % 5]
            got = float(oil.oil_compressibility_Standing(T, q, api, gg, rsi, tpc, ppc, tsc, psc))
            rs = oil.solution_gor_Standing(T, q, api, gg, rsi)
            f_ = float(gas.b_factor_DAK(T, q, tpc, ppc, tsc, psc)) - float(oil.db_o_dgor_Standing(T, api, gg, rs))
            want = float(f_ * oil.dgor_dpressure_Standing(T, q, api, gg, rsi) / oil.b_o_bubblepoint_Standing(T, api, gg, rsi))
            ev += 1
            neg += f_ < 0
            if not dom.relclose(got, want, 1e-9, 1e-300):
                bad("oil_compressibility_Standing is not its defining combination",
                    dict(T=T, p=q, api=api, gg=gg, Rsi=rsi, Tpc=tpc, Ppc=ppc, pb=pb, temperature_standard=tsc, pressure_standard=psc,
                         factor_Bg_minus_dBo_dRs=f_), got, want)
    kinds["assembly points with negative (B_g - dB_o/dR_s)"] = int(neg)
    ctx.cov["evaluations"] = ctx.cov.get("evaluations", 0) + ev
    ctx.cov["distinct_nontrivial"] = ev
    ctx.cov["rule"] = ("random (T,p,salinity) and oils in the C12 box incl. box corners; pressures below, "
                       "exactly at (float pb, nextafter up/down) and above the bubble point; each case "
                       "compares the hand-coded derivative with forward-mode AD of the parent's own code")
    ctx.cov["derivative_method_counts"] = kinds
    ctx.samples += samples


def run(ctx):
    core.coq_phase(ctx, GEN, PROPS)
    core.cert_phase(ctx, cert_goals(ctx), ["Gen_water", "Gen_gas", "Gen_oil"])
    impl_checks(ctx)


def replay(payload):
    print(json_dump(payload))
    return 0


def json_dump(p):
    import json
    return json.dumps(p, indent=1, default=str)
