"""C09 - flow-property wrapper: monotone transform, bounded positive diffusivity."""
import copy
import itertools
import json
import math
import warnings

import numpy as np

from vlib import core, dom, rescorr

ID = "C09"
GEN = ["flowprops"]
PROPS = ["C09_flowprops.v", "C09_constructor.v"]
QUERIES = [-1e300, -1e6, -1.0, 0.0, 1e-300, 0.3, 0.999999, 1.0, 1.000001, 7.5, 1e6, 1e300, -math.inf, math.inf]


def snapshot(tb):
    import pandas as pd
    if isinstance(tb, pd.DataFrame):
        return ("df", list(tb.columns), {c: np.array(tb[c], copy=True) for c in tb.columns})
    return ("dict", list(tb.keys()), {k: np.array(v, copy=True) for k, v in tb.items()})


def unchanged(tb, snap):
    kind, cols, vals = snap
    now = list(tb.columns) if kind == "df" else list(tb.keys())
    return now == cols and all(np.array_equal(np.asarray(tb[c]).astype(float), np.asarray(vals[c]).astype(float), equal_nan=True) and np.asarray(tb[c]).dtype == np.asarray(vals[c]).dtype for c in cols)


def run(ctx):
    import pandas as pd
    from bluebonnet.flow import FlowProperties
    from bluebonnet.flow.flowproperties import FlowPropertiesSimple, rescale_pseudopressure
    core.coq_phase(ctx, GEN, PROPS)
    rng = dom.rng_for(ctx, 9)
    n = 24 if ctx.quick else 400
    ev = 0
    items = []
    item_info = []

    def bad(what, inp, obs):
        ctx.violations.append(dict(what=what, key=what, input=inp, observed=obs))

    for k in range(n):
        kinds9 = [t_ for t_ in rescorr.TABLE_KINDS if t_ != "shifted"]   # C09 is about tables with positive properties
        kind = kinds9[k % len(kinds9)]
        tb0 = rescorr.make_table(kind, rng, True)
        if k % 6 in (4, 5) and np.all(np.diff(np.round(tb0["pressure"])) > 0):
            tb0 = dict(tb0, pressure=np.round(tb0["pressure"]))     # whole-number pressures: an integer column holds them exactly
        p = tb0["pressure"]
        variant = k % 3          # 0 computed diffusivity, 1 user-supplied diffusivity, 2 simple-liquid class
        user_alpha = variant == 1
        simple = variant == 2
        tb = {c: v.copy() for c, v in tb0.items()}
        both = False
        if user_alpha:
            tb["alpha"] = 1 / (tb["compressibility"] * tb["viscosity"])
            both = (k // 3) % 2 == 1
            if both:
                # the user's own diffusivity ADDED to a full PVT table: the user's column is the one that must be honoured
                tb["alpha"] = tb["alpha"] * 3.7 * (1 + 0.3 * np.sin(np.arange(len(p))))
            else:
                for c in ("compressibility", "viscosity", "z-factor"):
                    del tb[c]
        stale = k % 4 == 1
        if stale:
            # a table that went through the wrapper before (saved from / passed on as another object's pvt_props) still carries that
            # object's derived column, scaled for ANOTHER initial pressure: derived columns are recomputed, never trusted
            tb["m-scaled"] = tb0["pseudopressure"] / tb0["pseudopressure"][max(1, len(p) // 3)]
        sparse = k % 5 in (2, 3)
        if sparse:
            # unrelated columns with blanks (a sparse lab measurement, a comment column of a CSV export): the rows of the table are
            # the rows of the columns the wrapper reads
            extra = np.full(len(p), np.nan)
            extra[1::3] = 1.0
            tb["lab check (sparse)"] = extra
            tb["all blank"] = np.full(len(p), np.nan)
        mode = (k // 3) % 4      # every (variant, p_i mode) pair occurs within 12 consecutive cases
        j = int(rng.integers(1, len(p) - 1))
        p_i = float(p[j]) if mode == 0 else float(rng.uniform(p[1], p[-1])) if mode in (1, 2) else float(rng.choice([p[0] - 1.0, p[-1] + 1.0, p[-1] * 2]))
        container = rng.integers(0, 3)
        # dtype x row order: an unsigned (or signed 64-bit) integer pressure column, with the rows listed by decreasing pressure or
        # shuffled - the library's lookups sort, whatever the dtype (the model is given the ascending float table)
        rows_how = "ascending"
        if k % 6 in (4, 5) and float(np.max(p)) < 2 ** 31 and np.all(np.asarray(p) == np.round(p)):
            perm_r = np.arange(len(p))[::-1] if k % 12 < 6 else rng.permutation(len(p))
            rows_how = ("descending" if k % 12 < 6 else "shuffled") + ", pressure column " + ["uint32", "uint64", "int64"][(k // 6) % 3]
            tb_arg = {c: np.asarray(v)[perm_r].copy() for c, v in tb.items()}
            tb_arg["pressure"] = tb_arg["pressure"].astype([np.uint32, np.uint64, np.int64][(k // 6) % 3])
        elif k % 7 == 3:
            # every column held as an object array of Python floats (a frame read with dtype=object, `df.astype(object)`): the same table
            rows_how = "ascending, all columns of object dtype"
            tb_arg = {c: np.array(np.asarray(v, float).tolist(), dtype=object) for c, v in tb.items()}
        else:
            tb_arg = tb
        arg = pd.DataFrame(tb_arg) if container == 0 else dict(tb_arg)
        row_labels = "default"
        if container == 0 and mode in (1, 2) and k % 2 == 0 and float(np.floor(p_i)) not in set(float(x) for x in p) and p[0] <= float(np.floor(p_i)):
            # a frame cut from a larger one (`big.iloc[a:b]`, a filtered export) keeps the larger frame's integer row labels, and a whole-number
            # initial pressure may coincide with one of them: `x in series` looks at LABELS, values are what the wrapper must read
            p_i = float(np.floor(p_i))
            first_label = int(p_i) - int(rng.integers(0, len(p)))
            arg.index = pd.RangeIndex(first_label, first_label + len(p))
            row_labels = f"integers {first_label} .. {first_label + len(p) - 1} (include the whole-number initial pressure)"
        if container == 2:
            for v in arg.values():
                v.setflags(write=False)
        snap = snapshot(arg)
        inp = dict(table_kind=kind, rows=len(p), p_i=p_i, user_alpha=bool(user_alpha), full_columns_too=bool(both), simple=bool(simple), row_order=rows_how, carries_stale_m_scaled_column=bool(stale), carries_unrelated_columns_with_blanks=bool(sparse), row_labels=row_labels,
                   container=["DataFrame", "dict", "dict of read-only arrays"][int(container)],
                   table={c: [None if x != x else float(x) for x in v] for c, v in tb.items()})
        cls = FlowPropertiesSimple if (simple and not user_alpha) else FlowProperties
        impl = {}
        try:
            with warnings.catch_warnings():
                warnings.simplefilter("ignore")
                fp = cls(arg, p_i)
        except ValueError:
            impl["error"] = "ValueError"
        except Exception as e:  # noqa: BLE001
            impl["error"] = type(e).__name__
        ev += 1
        if not unchanged(arg, snap):
            bad("constructing the wrapper modified the caller's table", inp, "table differs after the call")
        outside = not (p[0] <= p_i <= p[-1])
        if outside != ("error" in impl) or impl.get("error", "ValueError") != "ValueError":
            bad("an initial pressure outside the table is not rejected with ValueError (or an inside one is rejected)", inp, impl.get("error", "no error"))
            continue
        if "error" not in impl:
            order_r = np.argsort(np.asarray(fp.pvt_props["pressure"], float), kind="stable")      # rows by increasing pressure
            ms = np.asarray(fp.pvt_props["m-scaled"], float)[order_r]
            m_i = float(fp.m_i)
            pq = np.sort(rng.uniform(p[0], p[-1], 12))
            ms_q = np.asarray(fp.m_scaled_func(pq), float)
            # (with an integer pressure column the scaled column comes out one ulp off the float table's; a query exactly ON the first
            # or last node then falls on the other side of the table's end, where the lookup switches to the fill value: interior nodes only)
            node_q = ms[:: max(1, len(ms) // 5)] if rows_how == "ascending" else ms[1:-1][:: max(1, len(ms) // 5)]
            qs = np.array(QUERIES + [float(x) for x in node_q] + [float(x) for x in (ms[:-1] + ms[1:])[:4] / 2])
            aq = np.asarray(fp.alpha(qs), float)
            impl.update(m_i=m_i, ms=ms, alpha_q=aq, ms_q=ms_q, pq=pq)
            alpha_tab = np.asarray(fp.pvt_props["alpha"], float)[order_r]
            if np.any(np.diff(ms_q) <= 0) or np.any(np.diff(ms) <= 0):
                bad("scaled pseudopressure is not strictly increasing in pressure", inp, [float(x) for x in ms_q[:5]])
            if not dom.relclose(float(fp.m_scaled_func(p_i)), m_i, 1e-13):
                bad("scaled pseudopressure at the initial pressure is not the reported m_i", inp, dict(at_p_i=float(fp.m_scaled_func(p_i)), m_i=m_i))
            if not (np.all(np.isfinite(aq)) and aq.min() >= alpha_tab.min() * (1 - 1e-12) and aq.max() <= alpha_tab.max() * (1 + 1e-12) and aq.min() > 0):
                bad("a diffusivity lookup is not finite / not within the table's positive range", inp,
                    dict(queries=[float(x) for x in qs], values=[float(x) for x in aq]))
            if not user_alpha:
                want = 1 / (tb0["compressibility"] * tb0["viscosity"])
                got = np.asarray(fp.alpha(ms), float)
                if not np.allclose(got, want, rtol=1e-10):
                    bad("diffusivity at table nodes is not 1/(compressibility x viscosity)", inp, float(np.abs(got / want - 1).max()))
            else:
                got = np.asarray(fp.alpha(ms), float)
                if not np.allclose(got, tb["alpha"], rtol=1e-10):
                    bad("with a user-supplied diffusivity column the lookup at table nodes is not that column", inp, float(np.abs(got / tb["alpha"] - 1).max()))
                if mode == 0 and not dom.relclose(m_i, 1.0, 1e-12):
                    bad("with user-supplied diffusivity m_i is not 1 at a table node", inp, m_i)
                a, b = tb0["pseudopressure"][np.searchsorted(p, p_i) - 1], tb0["pseudopressure"][min(np.searchsorted(p, p_i), len(p) - 1)]
                bound = (a + b) ** 2 / (4 * a * b) if a > 0 else math.inf
                if not (1 - 1e-12 <= m_i <= bound * (1 + 1e-12)):
                    bad("with user-supplied diffusivity m_i is not within [1, linear-interpolation bound]", inp, dict(m_i=m_i, bound=bound))
        items.append((tb, p_i, list(qs) if "error" not in impl else [], impl, cls is FlowPropertiesSimple))
        item_info.append({q_: v_ for q_, v_ in inp.items() if q_ != "table"})
        # ---------------- rescale_pseudopressure
        if k % 2 == 0:
            cols_r = {"pressure": np.array(p, float), "pseudopressure": np.array(tb0["pseudopressure"], float), "viscosity": np.array(tb0["viscosity"], float)}
            # the table as a DataFrame or as a plain dict of arrays (fixed 2026-10, c0aea80: a dict used to raise AttributeError)
            df = pd.DataFrame(cols_r) if k % 4 == 0 else cols_r
            pf, pi2 = float(rng.uniform(p[0], p[len(p) // 2])), float(rng.uniform(p[len(p) // 2] + 1, p[-1]))
            snap2 = snapshot(df)
            try:
                out = rescale_pseudopressure(df, pf, pi2)
            except Exception as e:  # noqa: BLE001
                bad("rescale_pseudopressure fails on an admissible table", dict(p_frac=pf, p_i=pi2, rows=len(p), container="DataFrame" if k % 4 == 0 else "dict of arrays"), repr(e)[:160])
                continue
            ev += 1
            from scipy.interpolate import interp1d
            L = interp1d(out["pressure"], out["pseudopressure"])
            if not unchanged(df, snap2):
                bad("rescale_pseudopressure modified the caller's table", dict(p_frac=pf, p_i=pi2), "table differs")
            if abs(float(L(pf))) > 1e-12 or abs(float(L(pi2)) - 1) > 1e-12:
                bad("rescaling does not map frac-face pressure to 0 and initial pressure to 1", dict(p_frac=pf, p_i=pi2, rows=len(p)), dict(at_frac=float(L(pf)), at_init=float(L(pi2))))
    # ---------------- user-supplied diffusivity on a table whose pseudopressure starts at 0 (every table built by the library does), with
    # the initial pressure inside the FIRST pressure interval and elsewhere between nodes (fixed 2026-10, ecc8743: the factor used to be an
    # interpolated reciprocal - infinite in the first interval): finite, strictly increasing, and m_i = 1 for every such p_i
    for k in range(4 if ctx.quick else 30):
        npts = int(rng.integers(4, 12))
        pk = np.cumsum(rng.uniform(5, 500, npts))
        mk = np.concatenate([[0.0], np.cumsum(rng.uniform(0.5, 50, npts - 1))])
        ak = rng.uniform(0.5, 5, npts)
        for where, p_i5 in (("first interval", float(rng.uniform(pk[0] + 1e-6 * (pk[1] - pk[0]), pk[1] - 1e-6 * (pk[1] - pk[0])))), ("second interval", float(rng.uniform(pk[1], pk[2]))),
                            ("last interval", float(rng.uniform(pk[-2], pk[-1])))):
            ev += 1
            inp5 = dict(pressure=[float(x) for x in pk], pseudopressure=[float(x) for x in mk], alpha=[float(x) for x in ak], p_i=p_i5, p_i_in=where)
            with warnings.catch_warnings():
                warnings.simplefilter("ignore")
                try:
                    fp5 = FlowProperties({"pressure": pk.copy(), "pseudopressure": mk.copy(), "alpha": ak.copy()}, p_i5)
                    mi5, ms5 = float(fp5.m_i), np.asarray(fp5.pvt_props["m-scaled"], float)
                    at5 = float(fp5.m_scaled_func(p_i5))
                except Exception as e:  # noqa: BLE001
                    bad("constructing the wrapper with user-supplied diffusivity fails for an initial pressure inside the table", inp5, repr(e)[:160])
                    continue
            # (what C09 states: finite, increasing, the value at p_i is the reported m_i, and m_i within linear-interpolation error above 1;
            # that it is exactly 1 is C15's clause and is checked there)
            j5 = int(np.searchsorted(pk, p_i5))
            a5, b5 = mk[j5 - 1], mk[j5]
            bound5 = (a5 + b5) ** 2 / (4 * a5 * b5) if a5 > 0 else math.inf
            if not (math.isfinite(mi5) and np.all(np.isfinite(ms5)) and np.all(np.diff(ms5) > 0) and dom.relclose(at5, mi5, 1e-12) and 1 - 1e-12 <= mi5 <= bound5 * (1 + 1e-12)):
                bad("with user-supplied diffusivity the scaled pseudopressure is not finite / increasing / within linear-interpolation error above 1 at the initial pressure", inp5,
                    dict(m_i=mi5, at_p_i=at5, bound=bound5, m_scaled_head=[float(x) for x in ms5[:3]]))
    # ---------------- missing columns: all subsets of the six columns, both classes (exhaustive)
    base = rescorr.synth_table("ideal", 6)
    base["alpha"] = 1 / (base["compressibility"] * base["viscosity"])
    cols = ["pressure", "pseudopressure", "compressibility", "viscosity", "z-factor", "alpha"]
    long_, short_, simple_ = {"pseudopressure", "compressibility", "pressure", "viscosity", "z-factor"}, {"pressure", "pseudopressure", "alpha"}, {"compressibility", "pressure", "viscosity"}
    for r in range(len(cols) + 1):
        for sub in itertools.combinations(cols, r):
            t = {c: base[c].copy() for c in sub}
            for cls, need_ok in ((FlowProperties, long_ <= set(sub) or short_ <= set(sub)), (FlowPropertiesSimple, simple_ <= set(sub))):
                ev += 1
                try:
                    with warnings.catch_warnings():
                        warnings.simplefilter("ignore")
                        cls(dict(t), 5000.0)
                    ok = True
                except ValueError:
                    ok = False
                except Exception as e:  # noqa: BLE001
                    ok = type(e).__name__
                if ok is not need_ok:
                    bad(f"{cls.__name__}: missing-column handling is wrong (must raise ValueError exactly when required columns are absent)",
                        dict(columns=list(sub)), dict(accepted=ok, should_accept=need_ok))
    # ---------------- model <-> implementation
    res = rescorr.run_fp_cases(ctx, items, "C09")
    for (tb, p_i, qs, impl, simple), r, info_ in zip(items, res, item_info):
        if r is None:
            continue
        impl_err = 1.0 if "error" in impl else 0.0
        scale = max(abs(impl.get("m_i", 1.0)), 1.0)
        if r[4] != impl_err or not (r[0] <= 1e-9 * scale and r[1] <= 1e-9 * max(1.0, float(np.max(np.abs(impl.get("ms", [1.0]))))) and r[3] <= 1e-9 * scale
                                    and r[2] <= 1e-9 * float(np.max(np.abs(impl.get("alpha_q", [1.0]))))):
            bad("FlowProperties disagrees with the model (for which the C09 theorems are proved)",
                dict(**info_, table={c: [None if x != x else float(x) for x in v] for c, v in tb.items()}), dict(diffs=r, impl_error=impl.get("error")))
    ctx.cov.update(evaluations=ev, distinct_nontrivial=len(items), traces_validated_against_impl=len([r for r in res if r is not None]), exhaustive_column_subsets=128,
                   rule="tables from all families as DataFrame / dict / dict of read-only arrays; p_i on nodes, between nodes, outside; both constructor "
                        "branches and FlowPropertiesSimple; diffusivity queries incl. +-1e300, +-inf, nodes, midpoints; all 64 column subsets x 2 classes; "
                        "rescale on random pressure pairs; every constructed object is also compared with the float instance of the Coq model")
    ctx.samples.append(dict(table_kind=kind, p_i=p_i, rows=len(p)))


def replay(payload):
    print(json.dumps(payload.get("input"), default=str)[:3000], json.dumps(payload.get("observed"), default=str))
    return 0
