"""C04 - each time level is the implicit backward-Euler update of the previous one."""
import json

import warnings

import numpy as np

from vlib import core, dom, rescorr

ID = "C04"
PROPS = ["C04_update.v", "C01_matrix.v", "C04_step_system.v", "C02_mesh.v", "C04_acceptance.v", "C04_time_loop.v", "C04_end_to_end.v"]
GEN = ["reservoir"]
RES_TOL = 1e-9


class Probe:
    """Intercepts scipy.sparse.linalg.bicgstab from the harness side."""

    def __init__(self, fail_at=None, fail_info=1, fail_every=None):
        self.fail_info = fail_info
        self.fail_every = fail_every
        import scipy.sparse.linalg as sla
        self.sla = sla
        self.orig = sla.bicgstab
        self.calls = []
        self.fail_at = fail_at

    def __enter__(self):
        def wrapped(A, b, *a, **kw):
            x, info = self.orig(A, b, *a, **kw)
            self.calls.append(dict(rtol=kw.get("rtol", kw.get("tol", 1e-5)), atol=kw.get("atol", 0.0), info=int(info)))
            if (self.fail_at is not None and len(self.calls) - 1 == self.fail_at) or (self.fail_every and len(self.calls) % self.fail_every == 0):
                # did not converge (info > 0: iteration limit) or broke down (info < 0): perturbed iterate, flagged
                return x * (1 + 1e-3), self.fail_info
            return x, info
        self.sla.bicgstab = wrapped
        return self

    def __exit__(self, *exc):
        self.sla.bicgstab = self.orig


def probes(ctx, cases):
    """Behavioural facts the oracle model needs: the tolerance handed to the solver, and that a
    non-converged solve makes simulate raise."""
    seen = 0
    for c in cases[:6]:
        with Probe() as p:
            im = rescorr.run_impl(c)
        if not p.calls:
            continue
        seen += 1
        worst_r = max(k["rtol"] for k in p.calls)
        worst_a = max(k["atol"] for k in p.calls)
        if worst_r > 1e-9 or worst_a > 1e-9:
            ctx.violations.append(dict(what="linear solver is called with a loose tolerance (solver error can compete with discretisation error)",
                                       key="loose-tol", input=rescorr.replay_payload(c), observed=dict(rtol=worst_r, atol=worst_a)))
        nsteps = len(c["times"]) - 1
        for at, code in [(a_, c_) for a_ in sorted({0, nsteps // 2, nsteps - 1}) for c_ in (1, -10, 0)]:      # 0: an iterate 1e-3 off, reported as converged (drifted recursive residual)
            with Probe(fail_at=at, fail_info=code) as p2:
                im2 = rescorr.run_impl(c)
            if len(p2.calls) <= at:
                continue
            # either the run is rejected, or the flagged iterate was replaced: the stored level must still be the update
            if "error" not in im2 and ("field" not in im or np.abs(im2["field"] - im["field"]).max() > 1e-8 * max(1.0, np.abs(im["field"]).max())):
                ctx.violations.append(dict(what="a linear solve that reported non-convergence (info != 0) was silently accepted into the result" if code else
                                           "an iterate 1e-3 away from the solution of its step, reported as converged (info = 0), was accepted into the result: the true residual is not checked",
                                           key="info-ignored" if code else "drift-accepted", input=rescorr.replay_payload(c),
                                           observed=dict(failed_step=at, info=code, max_field_change=float(np.abs(im2["field"] - im["field"]).max()) if "field" in im else None)))
                break
    ctx.cov["solver_probes"] = seen
    if not seen:
        ctx.notes.append("bicgstab was never called: solver probes skipped, residual check alone decides")


def extra_cases(rng, quick):
    """p_f/p_i extremely close to 1 on many nodes (where a loose solve used to swamp the signal)."""
    tb = rescorr.shipped_gas(stride=4)
    out = []
    for nx, ratio in ((400, 0.9998), (150, 0.99875)) if quick else ((400, 0.9998), (400, 0.99), (250, 0.99875), (120, 0.5)):
        nt = 8 if quick else 20
        out.append(dict(kind="single", table=tb, table_kind="shipped", pi=8000.0, pf=8000.0 * ratio, nx=nx,
                        times=rescorr.time_grid("quadratic", nt, 2.0, rng), grid="quadratic"))
        out.append(dict(kind="ideal", pi=8000.0, pf=8000.0 * ratio, nx=nx,
                        times=rescorr.time_grid("random", nt, 2.0, rng), grid="random"))
        # steps that differ by less than any default closeness tolerance, and steps far below 1e-8: each step must still be
        # solved with ITS increment
        for gk in ("jitter", "tiny"):
            out.append(dict(kind="ideal", pi=8000.0, pf=8000.0 * ratio, nx=nx, times=rescorr.time_grid(gk, nt + 6, 0.5, rng), grid=gk))
            out.append(dict(kind="single", table=tb, table_kind="shipped", pi=8000.0, pf=8000.0 * ratio, nx=min(nx, 150),
                            times=rescorr.time_grid(gk, nt + 6, 0.5, rng), grid=gk))
    # the ideal reservoir run far beyond depletion, down to profiles of 1e-200 (level 95 of 120 is the first below 1e-154; fixed 2026-10, 3794250: below 1e-154 the squares inside the
    # residual test's Euclidean norms underflowed, the solver handed back its right-hand side and the profile froze - 313 stored levels that
    # were not the update of the previous one)
    out.append(dict(kind="ideal", pi=8000.0, pf=100.0, nx=40 if quick else 90, times=np.linspace(0, np.sqrt(3600.0), 120) ** 2, grid="quadratic"))      # backward Euler with steps up to 60: 1e-206 at the end
    # long constant-drawdown runs, until the profile has relaxed onto the frac-face value (a step must still be SOLVED there)
    for nx in (3, 12):
        out.append(dict(kind="single", table=tb, table_kind="shipped", pi=8000.0, pf=500.0, nx=nx, times=np.linspace(0, 160.0, 60), grid="uniform"))
        out.append(dict(kind="single", table=rescorr.synth_table("liquid", 30), table_kind="liquid", pi=9000.0, pf=1000.0, nx=nx,
                        times=np.linspace(0, 12.0, 50), grid="uniform"))
        out.append(dict(kind="single", table=tb, table_kind="shipped", pi=8000.0, pf=8000.0 * (1 - 2e-6), nx=nx, times=np.linspace(0, 2.0, 12) ** 2, grid="quadratic"))
    # drawdown, shut-in with the frac-face pressure back AT (and, for an injection test, slightly above) the initial pressure, drawdown
    # again: during the shut-in the depleted region recharges from the interior - each of those steps is a backward-Euler step too
    for nx in (8, 40):
        tt = np.linspace(0, 1.2, 25) ** 2
        for top in (8000.0, 8000.0 * 1.01):
            sched = np.where(np.arange(25) < 8, 3000.0, np.where(np.arange(25) < 16, top, 5000.0))
            out.append(dict(kind="single", table=tb, table_kind="shipped", pi=8000.0, pf=3000.0, nx=nx, times=tt, grid="quadratic", sched=[float(x) for x in sched],
                            sched_style="drawdown / shut-in at p_initial / drawdown" if top == 8000.0 else "drawdown / injection 1% above p_initial / drawdown"))
    # staged grids: two runs of a schedule joined with `np.concatenate([stage1, stage1[-1] + stage2])`, stage2 starting at 0 - ONE repeated
    # time stamp in the middle (a zero increment).  Non-decreasing, so admissible; the step there is still the step system's solution
    # (identity matrix, right-hand side with the frac-face row set), not a copy of the stored level
    for nx in (6, 25):
        s1 = np.linspace(0, 0.6, 7) ** 2
        s2 = np.linspace(0, 1.1, 9) ** 2
        tt = np.concatenate([s1, s1[-1] + s2])
        out.append(dict(kind="single", table=tb, table_kind="shipped", pi=8000.0, pf=2500.0, nx=nx, times=tt, grid="staged (one repeated time stamp)"))
        out.append(dict(kind="ideal", pi=8000.0, pf=2500.0, nx=nx, times=tt, grid="staged (one repeated time stamp)"))
        sched = np.where(np.arange(len(tt)) < len(s1), 4000.0, 1500.0)
        out.append(dict(kind="single", table=tb, table_kind="shipped", pi=8000.0, pf=4000.0, nx=nx, times=tt, grid="staged (one repeated time stamp)",
                        sched=[float(x) for x in sched], sched_style="stage 1 at 4000 psi, stage 2 at 1500 psi"))
    return out


def field_tol(case):
    """Tolerance for the accumulated trajectory difference (model's Thomas solves from its own levels vs stored
    field).  The per-step residual is the tie; two accurate solvers differ per step by about cond x rounding, and
    the conditioning of the step matrix grows with the spread of the table's diffusivity (DESIGN 11.9)."""
    spread = 1.0
    if case["kind"] == "single":
        tb = case["table"]
        a_ = np.asarray(tb["alpha"], float) if "alpha" in tb else 1 / (np.asarray(tb["compressibility"], float) * np.asarray(tb["viscosity"], float))
        spread = float(a_.max() / a_.min())
    return min(1e-3, 1e-7 * max(1.0, spread))


def run(ctx):
    core.coq_phase(ctx, GEN, PROPS)
    rng = dom.rng_for(ctx, 4)
    n = 20 if ctx.quick else 200
    cases = rescorr.gen_cases(rng, n, ctx.quick, nt_max=25 if ctx.quick else 60) + extra_cases(rng, ctx.quick)
    # the other public entry points that drive the simulator are used FIRST, including in ways that make them raise (a history match
    # whose pressure limit lies beyond the table, a rejected schedule): whatever they do, every later step must still be the
    # backward-Euler update to rounding level - the runs below are made after them and compared with runs made before
    probe_cases = cases[:6]
    before = [rescorr.run_impl(c) for c in probe_cases]
    import pandas as pd
    from bluebonnet.forecast import forecast_pressure as fpm
    tbh = rescorr.shipped_gas(stride=20)
    prod_h = pd.DataFrame({"Days": np.arange(40.0), "Gas": np.linspace(50, 5, 40), "Pressure": np.linspace(3000, 900, 40)})
    with warnings.catch_warnings():
        warnings.simplefilter("ignore")
        # (a) a gauge history above the table's last pressure: the first objective evaluation raises; (b) an ordinary short fit
        prod_bad = prod_h.assign(Pressure=np.linspace(1.3, 1.05, 40) * float(tbh["pressure"][-1]))
        for pd_, kw in ((prod_bad, dict(pressure_imax=float(tbh["pressure"][-1]) * 3.0, n_iter=5)), (prod_h, dict(pressure_imax=float(tbh["pressure"][-1]) * 0.9, n_iter=3))):
            try:
                fpm.fit_production_pressure(pd_, pd.DataFrame(tbh), float(tbh["pressure"][-1]) * 0.6, **kw)
            except Exception:  # noqa: BLE001, S110
                pass
    for c_, b_, a_ in zip(probe_cases, before, [rescorr.run_impl(c) for c in probe_cases]):
        if "field" in b_ and ("field" not in a_ or not np.array_equal(a_["field"], b_["field"])):
            ctx.violations.append(dict(what="a simulation gives another pseudopressure field after an (unsuccessful) history-match call in the same process: the time levels are no longer the same "
                                            "implicit updates (solver settings changed behind the simulator's back)", key="cross-call-state", input=dict(**rescorr.replay_payload(c_), earlier_in_the_process="fit_production_pressure with pressure_imax beyond the table (raises)"),
                                       observed=dict(max_field_diff=float(np.abs(a_["field"] - b_["field"]).max()) if "field" in a_ else a_.get("error"))))
    # fine grids with large, varying steps (400 nodes, the shipped oil table, an oscillating frac-face schedule; steps of 30 on the gas
    # table): too large for the model run inside Coq, so the TRUE residual of every stored level is recomputed here from the table
    # (independent assembly: np.interp lookups, dense tridiagonal product) - the iterative solver's own convergence flag is not evidence
    # (fixed 2026-10, 15e03b2: levels were stored with a true relative residual of 3.8e-8 although the solver reported success)
    for tb_b, pi_b, pf_lo, tgrid_b, sched_kind in ((rescorr.shipped_oil(stride=1), 6000.0, 37.81, np.linspace(0, 100, 101), "oscillating"),
                                                   (rescorr.shipped_gas(stride=1), 6000.0, 100.0, np.arange(31) * 30.0, "constant")):
        nxb = 400
        sched_b = pf_lo + (pi_b - pf_lo) * (0.5 + 0.5 * np.sin(1.7 * np.arange(len(tgrid_b)))) if sched_kind == "oscillating" else np.full(len(tgrid_b), pf_lo)
        cb = dict(kind="single", table=tb_b, table_kind="shipped", pi=pi_b, pf=float(sched_b[0]), nx=nxb, times=tgrid_b, grid="coarse steps on a fine grid", sched=[float(x) for x in sched_b])
        imb = rescorr.run_impl(cb)
        if "field" not in imb:
            ctx.violations.append(dict(what="simulation fails on an admissible case", key="big-fails", input=rescorr.replay_payload(cb), observed=imb.get("error")))
            continue
        pt = np.asarray(tb_b["pressure"], float)
        s_i = float(np.interp(pi_b, pt, np.asarray(tb_b["compressibility"], float) * np.asarray(tb_b["viscosity"], float) * np.asarray(tb_b["z-factor"], float) / (2 * pt)))
        msc = np.asarray(tb_b["pseudopressure"], float) * s_i
        atab = 1.0 / (np.asarray(tb_b["compressibility"], float) * np.asarray(tb_b["viscosity"], float))
        a_of = lambda u: np.interp(u, msc, atab, left=atab.min(), right=atab.max())
        m_i_b = float(np.interp(pi_b, pt, msc))
        a_i = float(a_of(m_i_b))
        mf_b = np.interp(sched_b, pt, msc)
        fld = imb["field"]
        worst_b, at_b = 0.0, -1
        for i_ in range(len(tgrid_b) - 1):
            mesh = (tgrid_b[i_ + 1] - tgrid_b[i_]) * nxb ** 2
            b_ = np.minimum(fld[i_], m_i_b).copy()
            b_[0] = mf_b[i_]
            kk = mesh * a_of(b_) / a_i
            b_[0] = mf_b[i_] + kk[0] * mf_b[i_]
            x_ = fld[i_ + 1]
            ax_ = (1 + 2 * kk) * x_
            ax_[-1] = (1 + kk[-1]) * x_[-1]
            ax_[:-1] -= kk[:-1] * x_[1:]
            ax_[1:] -= kk[1:] * x_[:-1]
            r_ = float(np.linalg.norm(ax_ - b_) / np.linalg.norm(b_))
            if r_ > worst_b:
                worst_b, at_b = r_, i_
        if not worst_b <= 2e-9:
            ctx.violations.append(dict(what="a stored time level is not the implicit backward-Euler update of the previous one to solver accuracy: true residual of the step system (recomputed from the table) far above the tolerance asked of the solver",
                                       key="true-residual", input=rescorr.replay_payload(cb), observed=dict(worst_true_relative_residual=worst_b, step=at_b)))
    impls = [rescorr.run_impl(c) for c in cases]
    ok = [k for k, im in enumerate(impls) if "field" in im and len(cases[k]["times"]) * cases[k]["nx"] <= 9000]
    res = rescorr.run_cases(ctx, [cases[k] for k in ok], [impls[k] for k in ok], "C04", shard=2)
    steps = 0
    worst = 0.0
    for k, r in zip(ok, res):
        if r is None:
            continue
        d_field, d_rf, d_rfd, d_mi, resid, errflag = r
        steps += len(cases[k]["times"]) - 1
        worst = max(worst, resid)
        if not resid <= rescorr.resid_tol(cases[k], impls[k], RES_TOL):
            ctx.violations.append(dict(
                what="a stored time level does not satisfy the implicit update built from the previous level "
                     "(relative residual of the model's step system above rounding level)",
                key="residual", input=rescorr.replay_payload(cases[k]), observed=dict(max_relative_residual=resid)))
        elif cases[k].get("table_kind") != "random" and not d_field <= field_tol(cases[k]):
            ctx.violations.append(dict(what="stored field differs from the model's exact (Thomas) update sequence",
                                       key="field", input=rescorr.replay_payload(cases[k]), observed=dict(max_abs_diff=d_field)))
    probes(ctx, [c for c in cases if c["kind"] == "single"][:3] + [c for c in cases if c["kind"] == "ideal"][:3])
    ctx.cov.update(evaluations=len(cases), distinct_nontrivial=len(ok), steps_checked=steps,
                   worst_relative_residual=worst, residual_tolerance=RES_TOL,
                   rule="for every step of every run the float instance of the Coq model rebuilds the step's matrix and "
                        "right-hand side from the implementation's previous level, the run's single mesh constant and "
                        "time[i+1]-time[i], applies it to the implementation's new level (max-norm, relative to max|b|), "
                        "inside vm_compute; non-uniform grids and time-varying schedules included; nx up to 400 with "
                        "p_f/p_i = 0.9998; solver intercepted for tolerance and fault injection",
                   input_distribution=dict(nx=sorted({c["nx"] for c in cases}),
                                           grids={g: sum(1 for c in cases if c.get("grid") == g) for g in ("uniform", "quadratic", "geometric", "random", "huge", "jitter", "tiny")},
                                           schedules=sum(1 for c in cases if "sched" in c)))
    ctx.samples += [rescorr.describe(c) for c in cases[:3]]
    ctx.validated_only.append("the accuracy of scipy's spsolve on the tridiagonal step system and of the code's evaluation of norm(A @ x - b) "
                              "(nothing is assumed about BiCGSTAB any more: the theorems cover what the loop accepts whatever the solver returns, "
                              "the probe injects flagged and drifted iterates, and the true residual of every stored level is recomputed)")


def replay(payload):
    case = payload["input"]
    case["times"] = np.asarray(case["times"], float)
    ctx = core.Ctx(ID, "quick", 0)
    im = rescorr.run_impl(case)
    if "field" not in im:
        print("implementation raised", im)
        return 1
    res = rescorr.run_cases(ctx, [case], [im], "replay", shard=1)
    print(json.dumps(dict(result=res, recorded=payload.get("observed")), default=str))
    return 0 if res[0] and res[0][4] <= rescorr.resid_tol(case, im, RES_TOL) and res[0][0] <= field_tol(case) else 1
