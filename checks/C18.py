"""C18 - pressure-history fit uses the library's forward model and honours its limits."""
import json
import os
import warnings

import numpy as np

from vlib import core, dom, rescorr

ID = "C18"
GEN = ["fitpressure"]
PROPS = ["C18_fitpressure.v", "C18_setup.v"]


def coq_objective(ctx, items):
    body = [rescorr.HEADER, "From BBLib Require Import FitPressure."]
    for k, (tb, days, prod, pf, tau, M, p0) in enumerate(items):
        body.append(f"Eval vm_compute in match objective NumF {rescorr.table_term(tb)} {rescorr.fl(80.0)} {rescorr.flist(days)} {rescorr.flist(prod)} "
                    f"{rescorr.flist(pf)} {rescorr.fl(tau)} {rescorr.fl(M)} {rescorr.fl(p0)} with Some l => l | None => [nan] end.")
    path = os.path.join(ctx.bdir, "Obj_cases.v")
    open(path, "w").write("\n".join(body) + "\n")
    rc, o, dt = core.sh(["coqc", "-q", "-Q", core.LIB, "BBLib", path], 900)
    if rc:
        ctx.broken.append("objective model evaluation failed: " + o[-300:])
        return None
    return rescorr.parse_results(o)


def run(ctx):
    import pandas as pd
    from lmfit import Parameters
    from bluebonnet.flow import FlowProperties, SinglePhaseReservoir
    from bluebonnet.forecast import forecast_pressure as fpm
    core.coq_phase(ctx, GEN, PROPS)
    rng = dom.rng_for(ctx, 18)
    tb = rescorr.shipped_gas(stride=12)
    pvt = pd.DataFrame(tb)
    n = 5 if ctx.quick else 40
    ev = 0
    items, outs = [], []

    def bad(what, inp, obs):
        ctx.violations.append(dict(what=what, key=what, input=inp, observed=obs))

    def params(tau, M, p0):
        p = Parameters()
        p.add("tau", value=tau)
        p.add("M", value=M)
        p.add("p_initial", value=p0)
        return p

    for k in range(n):
        nd = int(rng.integers(6, 16))
        tau, M, p0 = float(rng.uniform(20, 500)), float(rng.uniform(100, 1e5)), float(rng.uniform(5000, 11000))
        days = np.arange(nd, dtype=float)
        pf = np.sort(rng.uniform(500, 0.9 * p0, nd))[::-1].copy() if k % 2 else rng.uniform(500, 0.9 * p0, nd)
        prod = np.cumsum(rng.uniform(0, 100, nd))
        with warnings.catch_warnings():
            warnings.simplefilter("ignore")
            got = np.asarray(fpm._obj_function(params(tau, M, p0), days, prod, pvt, pf), float)
            # the library's own variable-pressure simulation, called directly
            fp = FlowProperties(pvt, p0)
            res = SinglePhaseReservoir(80, float(pf[0]), p0, fp)
            res.simulate(days / tau, pressure_fracface=pf)
            rf = np.asarray(res.recovery_factor(), float)
        inp = dict(tau=tau, M=M, p_initial=p0, days=nd, schedule=[float(x) for x in pf[:5]])
        ev += 1
        if not np.allclose(got, M * rf - prod, rtol=1e-10, atol=1e-9 * M):
            bad("fitting objective is not M x (library recovery factor for that pressure history) minus cumulative production", inp,
                dict(objective=[float(x) for x in got[:4]], expected=[float(x) for x in (M * rf - prod)[:4]]))
        with warnings.catch_warnings():
            warnings.simplefilter("ignore")
            zero = np.asarray(fpm._obj_function(params(tau, M, p0), days, M * rf, pvt, pf), float)
        if np.abs(zero).max() > 1e-9 * M:
            bad("objective is not zero at the parameters that generated the data", inp, float(np.abs(zero).max()))
        items.append((tb, days, prod, pf, tau, M, p0))
        outs.append(got)
    # a long history (hourly gauge data over more than a year: > 10 000 retained rows): the objective is still the library's forward
    # model on EVERY row
    for nd in ((10400,) if ctx.quick else (10400, 26000)):
        tau, M, p0 = float(rng.uniform(2000, 9000)), float(rng.uniform(1e3, 1e5)), float(rng.uniform(6000, 10000))
        days = np.arange(nd, dtype=float)
        pf = 0.55 * p0 + 0.3 * p0 * np.exp(-days / (nd / 3.0)) * (1 + 0.05 * np.sin(days / 37.0))
        prod = np.cumsum(rng.uniform(0, 1, nd))
        with warnings.catch_warnings():
            warnings.simplefilter("ignore")
            got = np.asarray(fpm._obj_function(params(tau, M, p0), days, prod, pvt, pf), float)
            fp = FlowProperties(pvt, p0)
            res = SinglePhaseReservoir(80, float(pf[0]), p0, fp)
            res.simulate(days / tau, pressure_fracface=pf)
            rf = np.asarray(res.recovery_factor(), float)
        ev += 1
        if got.shape != rf.shape or not np.allclose(got, M * rf - prod, rtol=1e-10, atol=1e-9 * M):
            bad("fitting objective is not M x (library recovery factor for that pressure history) minus cumulative production (long history)", dict(tau=tau, M=M, p_initial=p0, days=nd),
                dict(max_abs_diff_over_M=float(np.abs(got - (M * rf - prod)).max() / M) if got.shape == rf.shape else "shape"))
    # one process, several wells: identical (tau, p_initial, number of rows) but different frac-face histories and
    # tables, evaluated one after the other in both orders -- the objective must depend on its arguments only
    for k in range(3 if ctx.quick else 20):
        nd = int(rng.integers(6, 14))
        tau, M, p0 = float(rng.uniform(20, 500)), float(rng.uniform(100, 1e5)), float(rng.uniform(5000, 9000))
        days = np.arange(nd, dtype=float)
        hists = [rng.uniform(500, 0.9 * p0, nd), np.sort(rng.uniform(500, 0.9 * p0, nd))[::-1].copy(), np.full(nd, 0.5 * p0)]
        prod = np.cumsum(rng.uniform(0, 100, nd))
        pvt2 = pd.DataFrame(rescorr.shipped_gas(stride=20))
        with warnings.catch_warnings():
            warnings.simplefilter("ignore")
            seq = [(h, t_) for h in hists for t_ in (pvt, pvt2)]
            first = [np.asarray(fpm._obj_function(params(tau, M, p0), days, prod, t_, h), float) for h, t_ in seq]
            second = [np.asarray(fpm._obj_function(params(tau, M, p0), days, prod, t_, h), float) for h, t_ in reversed(seq)][::-1]
            for (h, t_), a, b in zip(seq, first, second):
                fp = FlowProperties(t_, p0)
                res = SinglePhaseReservoir(80, float(h[0]), p0, fp)
                res.simulate(days / tau, pressure_fracface=h)
                want = M * np.asarray(res.recovery_factor(), float) - prod
                ev += 1
                if not (np.allclose(a, want, rtol=1e-10, atol=1e-9 * M) and np.allclose(b, want, rtol=1e-10, atol=1e-9 * M)):
                    bad("the objective depends on earlier evaluations (same tau / p_initial / row count, different pressure history or table): it is not "
                        "M x the library recovery for ITS pressure history minus production", dict(tau=tau, M=M, p_initial=p0, days=nd, schedule=[float(x) for x in h[:4]]),
                        dict(first_pass=[float(x) for x in a[:3]], second_pass=[float(x) for x in b[:3]], expected=[float(x) for x in want[:3]]))
    res_m = coq_objective(ctx, items)
    if res_m is not None and len(res_m) == len(outs):
        for it, got, mod in zip(items, outs, res_m):
            if len(mod) != len(got) or not np.allclose(mod, got, rtol=1e-7, atol=1e-7 * it[5]):
                bad("_obj_function disagrees with the model objective (the library forward model with 80 nodes, days/tau, p_initial for both pressures)",
                    dict(tau=it[4], M=it[5], p_initial=it[6]), dict(model=list(mod)[:4], impl=[float(x) for x in got[:4]]))
    elif res_m is not None:
        ctx.broken.append("objective model: result count mismatch")
    # ---------------- fit: limits, filtering, window
    nfit = 3 if ctx.quick else 20
    for k in range(nfit):
        nd = int(rng.integers(28, 45))  # the library needs more than 16 kept rows (tau in [30, 2(n-1)])
        gas = rng.uniform(5, 60, nd) * (rng.random(nd) > 0.25)
        pres = rng.uniform(800, 3500, nd)
        pres[rng.choice(nd, 2, replace=False)] = np.nan
        prod_days = np.nonzero(gas > 0)[0]
        pres[rng.choice(prod_days[1:], 2, replace=False)] = np.nan   # gauge down on producing days too
        prod = pd.DataFrame({"Days": np.arange(nd) * 1.0, "Gas": gas, "Pressure": pres, "Other": 1.0})
        # row labels are whatever the caller's table carries: 0..n-1, repeated (two exports joined without renumbering: shut-in days of
        # one share their label with producing days of the other), or in another order; the rows decide, not their labels
        labels = ["0..n-1", "repeated (two exports joined)", "reversed"][((k + 1) // 2) % 3]
        if labels.startswith("repeated"):
            prod.index = np.arange(nd) % (nd // 2 + 1)
        elif labels == "reversed":
            prod.index = np.arange(nd)[::-1]
        filt = bool(k % 2 == 0)
        if not filt:
            prod["Pressure"] = prod["Pressure"].fillna(1500.0)
        # the Days column is not read by the fit (time is the row count of the retained rows): a producing day whose date is missing
        # from the record is still a producing day
        days_missing = k % 4 in (0, 3)
        if days_missing:
            good = np.nonzero((gas > 0) & ~np.isnan(np.asarray(prod["Pressure"], float)))[0]
            prod.loc[prod.index[good[len(good) // 2]], "Days"] = np.nan
        p_imax, inplace_max = float(rng.uniform(9000, 11500)), float(rng.uniform(2000, 1e5))
        window = [None, 1, 3][k % 3]
        budget = int(rng.choice([1, 5, 20, 40]))
        snap = prod.copy(deep=True)
        with warnings.catch_warnings():
            warnings.simplefilter("ignore")
            try:
                # the flag as the caller may hold it: a Python bool, a numpy bool read back from a settings table, 1 / 0
                filt_arg = [filt, np.bool_(filt), int(filt)][(k // 2) % 3]
                result = fpm.fit_production_pressure(prod, pvt, 6000.0, filter_window_size=window, pressure_imax=p_imax, inplace_max=inplace_max,
                                                     filter_zero_prod_days=filt_arg, n_iter=budget)
            except Exception as e:  # noqa: BLE001
                bad("fit_production_pressure raises on admissible data", dict(days=nd, filter=filt, filter_given_as=type(filt_arg).__name__, window=window, n_iter=budget), repr(e)[:200])
                continue
        ev += 1
        if not prod.equals(snap):
            bad("fit_production_pressure modified the caller's production table", dict(days=nd), "changed")
        kept = prod[(prod["Gas"] > 0) & prod["Pressure"].notna()] if filt else prod
        pfk = np.asarray(kept["Pressure"], float)
        if window is not None and window > 1:
            from scipy.ndimage import uniform_filter1d
            pfk = uniform_filter1d(pfk, size=window)
        cum = np.cumsum(np.asarray(kept["Gas"], float))
        nk = len(kept)
        fit = {nm: float(result.params[nm].value) for nm in ("tau", "M", "p_initial")}
        lim = dict(tau=(30.0, 2.0 * (nk - 1)), M=(float(cum[nk - 2]), inplace_max), p_initial=(float(np.max(pfk)), p_imax))
        inp = dict(days=nd, kept=nk, filter=filt, window=window, n_iter=budget, limits=lim, row_labels=labels, a_producing_day_has_no_date=bool(days_missing))
        for nm in fit:
            lo, hi = lim[nm]
            dlo, dhi = float(result.params[nm].min), float(result.params[nm].max)
            if lo < hi and not (dom.relclose(dlo, lo, 1e-12, 1e-12) and dom.relclose(dhi, hi, 1e-12, 1e-12)):
                bad("a declared parameter limit is not the documented one (tau in [30, 2 x last day index], M from the second-last cumulative to the stated "
                    "maximum, initial pressure from the highest frac-face pressure to the stated maximum)", inp, dict(parameter=nm, declared=[dlo, dhi], expected=[lo, hi]))
            if lo < hi and not (lo - 1e-9 * abs(lo) <= fit[nm] <= hi + 1e-9 * abs(hi)):
                bad("a fitted parameter lies outside its declared limits", inp, dict(parameter=nm, value=fit[nm]))
        if len(result.residual) != nk:
            bad("rows without production or pressure are not excluded (or others are) when filtering is requested", inp, dict(residual_len=len(result.residual), expected=nk))
        else:
            # what was fitted: the residual lmfit reports at the fitted parameters must be M x (library recovery for the RETAINED rows'
            # pressure history, re-indexed days 0..n-1 over tau) minus the cumulative production OF THE RETAINED ROWS
            with warnings.catch_warnings():
                warnings.simplefilter("ignore")
                fpk = FlowProperties(pvt, fit["p_initial"])
                resk = SinglePhaseReservoir(80, float(pfk[0]), fit["p_initial"], fpk)
                resk.simulate(np.arange(nk) / fit["tau"], pressure_fracface=pfk)
                want = fit["M"] * np.asarray(resk.recovery_factor(), float) - cum
            if not np.allclose(np.asarray(result.residual, float), want, rtol=1e-7, atol=1e-7 * max(1.0, float(cum[-1]))):
                bad("the fitted residual is not M x (library recovery for the retained rows) minus the cumulative production of the retained rows",
                    dict(**inp, missing_pressure_on_producing_days=int(((prod["Gas"] > 0) & prod["Pressure"].isna()).sum())),
                    dict(residual=[float(x) for x in np.asarray(result.residual)[:4]], expected=[float(x) for x in want[:4]],
                         max_abs_diff=float(np.abs(np.asarray(result.residual, float) - want).max())))
        if window == 1:
            with warnings.catch_warnings():
                warnings.simplefilter("ignore")
                r0 = fpm.fit_production_pressure(prod, pvt, 6000.0, filter_window_size=None, pressure_imax=p_imax, inplace_max=inplace_max,
                                                 filter_zero_prod_days=filt, n_iter=budget)
            if not np.allclose(r0.residual, result.residual, rtol=1e-12, atol=1e-9):
                bad("a smoothing window of one sample changes the pressures", inp, float(np.abs(r0.residual - result.residual).max()))
    # ---------------- a short pressure spike (shut-in, gauge glitch) in a long record, initial-pressure guess below it: the fitted
    # initial pressure must still be at least the HIGHEST frac-face pressure (a percentile of the record is not the maximum)
    for k in range(2 if ctx.quick else 10):
        nd = int(rng.integers(120, 260))
        gas = rng.uniform(5, 60, nd)
        pres = rng.uniform(1500, 3000, nd)
        spike_at = rng.choice(np.arange(5, nd - 5), 1 + k % 2, replace=False)
        pres[spike_at] = float(rng.uniform(4000, 4500))
        prod = pd.DataFrame({"Days": np.arange(nd) * 1.0, "Gas": gas, "Pressure": pres})
        guess = float(rng.uniform(3050, 3400))
        for window in (None, 1):
            with warnings.catch_warnings():
                warnings.simplefilter("ignore")
                try:
                    result = fpm.fit_production_pressure(prod, pvt, guess, filter_window_size=window, pressure_imax=9000.0, inplace_max=1e6,
                                                         filter_zero_prod_days=bool(k % 2), n_iter=int(rng.choice([1, 10, 40])))
                except Exception as e:  # noqa: BLE001
                    bad("fit_production_pressure raises on admissible data", dict(days=nd, spike_rows=len(spike_at), guess=guess, window=window), repr(e)[:200])
                    continue
            ev += 1
            pfit = float(result.params["p_initial"].value)
            lo_decl = float(result.params["p_initial"].min)
            if pfit < float(pres.max()) * (1 - 1e-12) or lo_decl < float(pres.max()) * (1 - 1e-12):
                bad("fitted initial pressure (or its declared lower limit) is below the highest frac-face pressure of the history",
                    dict(days=nd, spike_rows=len(spike_at), highest_fracface_pressure=float(pres.max()), p_initial_guess=guess, window=window),
                    dict(p_initial=pfit, declared_minimum=lo_decl))
        # an initial-pressure guess ABOVE the stated maximum (two arguments that are each fine alone): the stated maximum still binds
        cap = float(pres.max()) + float(rng.uniform(300, 2500))
        guess_hi = cap + float(rng.uniform(200, 1500))
        with warnings.catch_warnings():
            warnings.simplefilter("ignore")
            try:
                result = fpm.fit_production_pressure(prod, pvt, guess_hi, filter_window_size=None, pressure_imax=cap, inplace_max=1e6,
                                                     filter_zero_prod_days=bool(k % 2), n_iter=int(rng.choice([1, 10, 40])))
            except Exception as e:  # noqa: BLE001
                result = None
                bad("fit_production_pressure raises when the initial-pressure guess lies above the stated maximum", dict(days=nd, guess=guess_hi, pressure_imax=cap), repr(e)[:200])
        if result is not None:
            ev += 1
            pfit, hi_decl = float(result.params["p_initial"].value), float(result.params["p_initial"].max)
            if pfit > cap * (1 + 1e-12) or hi_decl > cap * (1 + 1e-12):
                bad("fitted initial pressure (or its declared upper limit) exceeds the stated maximum when the guess lies above it",
                    dict(days=nd, highest_fracface_pressure=float(pres.max()), p_initial_guess=guess_hi, pressure_imax=cap), dict(p_initial=pfit, declared_maximum=hi_decl))
    ctx.cov.update(evaluations=ev, distinct_nontrivial=n + nfit, traces_validated_against_impl=len(items),
                   rule="random (tau, M, p_initial) and monotone / arbitrary frac-face schedules below p_initial for the objective (compared with the "
                        "float instance of the Coq objective and with a direct call of the library simulation); production tables with zero-rate days "
                        "and missing pressures, both filter settings, windows None/1/3, iteration budgets 1..40 for the fit")
    ctx.validated_only += ["lmfit keeps tau, M, p_initial inside [min, max] (its bounded-parameter transform is a trusted contract): checked on every fit",
                           "scipy.ndimage.uniform_filter1d(size=1) is the identity: checked on every window=1 fit"]
    ctx.samples.append(dict(tau=tau, M=M, p_initial=p0))


def replay(payload):
    print(json.dumps(payload.get("input"), default=str), json.dumps(payload.get("observed"), default=str))
    return 0
