"""C03 - recovery factor conserves mass and respects its physical ceiling."""
import json
import warnings

import numpy as np

from vlib import core, dom, rescorr

ID = "C03"
GEN = ["flowprops", "reservoir"]
PROPS = ["C03_massbalance.v", "C03_recovery_monotone.v", "C09_constructor.v", "C03_flux_branch.v", "C03_inplace_branch.v"]


def run(ctx):
    from scipy.interpolate import interp1d
    core.coq_phase(ctx, GEN, PROPS)
    rng = dom.rng_for(ctx, 3)
    nxs = (10, 20, 40, 80) if ctx.quick else (10, 20, 40, 80, 160)
    ev = 0
    report = []

    def bad(what, inp, obs):
        ctx.violations.append(dict(what=what, key=what, input=inp, observed=obs))

    k4_known = [e for e in core.known_findings(ID) if e["status"] == "known" and e.get("key") == "inplace-first-step"]
    k4_hits = []
    tables = [("ideal-gas (consistent)", rescorr.synth_table("ideal", 400), 0.0), ("liquid (consistent)", rescorr.synth_table("liquid", 400), 0.0),
              ("shipped gas", rescorr.shipped_gas(stride=4), None)]
    if not ctx.quick:
        tables.append(("haynesville", rescorr.shipped_haynesville(stride=6, consistent_only=True), None))
    # rows listed by decreasing pressure (as lab reports are) must give the same recoveries: every lookup of the library sorts
    # (ideal gas: density is NOT linear in pseudopressure, so a lookup that mis-handles the row order cannot hide)
    tables.append(("ideal-gas (consistent), rows by decreasing pressure", rescorr.synth_table("ideal", 400), 0.0))
    for tname, tb, incons in tables:
        rev = "decreasing" in tname
        p = tb["pressure"]
        if incons is None:
            # the table's own measurable inconsistency: c vs d ln(rho)/dp and m vs int 2p/(mu z)
            dln = np.gradient(np.log(tb["density"]), p)
            f = 2 * p / (tb["viscosity"] * tb["z-factor"])
            m2 = np.concatenate([[0.0], np.cumsum(np.diff(p) * (f[1:] + f[:-1]) / 2)])
            dm = np.diff(tb["pseudopressure"]) / np.maximum(np.diff(m2), 1e-300)
            incons = float(np.median(np.abs(tb["compressibility"][2:-2] / dln[2:-2] - 1)) + np.median(np.abs(dm[2:-2] - 1)))
        for sched_kind in (("constant", "stepdown") if rev else ("constant", "stepdown", "arbitrary", "chokeback")):
            ratios = (0.1, 0.99) if ctx.quick else (0.05, 0.5, 0.9, 0.99, 0.99875)
            if rev:
                ratios = ratios[:2]
            for ratio in ratios:
                pi = float(p[-2])
                pf = max(pi * ratio, float(p[1]))
                gaps = []
                for nx in nxs:
                    nt = 4 * nx * nx // 25 + 10
                    t = np.linspace(0, np.sqrt(0.8), nt) ** 2
                    c = dict(kind="single", table=tb, pi=pi, pf=pf, nx=nx, times=t)
                    if rev:
                        c["reverse_rows"] = True
                    if sched_kind == "stepdown" and not rev:
                        # ... on a reservoir object that was built and run with other settings (nx + 7 nodes, other pressures and
                        # flow properties) and whose fields were then re-assigned: same recoveries as a freshly built one
                        c["reassign"] = True
                    if sched_kind == "stepdown":
                        c["sched"] = list(np.where(t < 0.2, pf + 0.5 * (pi - pf), np.where(t < 0.5, pf + 0.25 * (pi - pf), pf)))
                    elif sched_kind == "arbitrary":
                        c["sched"] = list(pf + (pi - pf) * 0.4 * (1 + np.sin(7 * t)) / 2)
                    elif sched_kind == "chokeback":  # drawdown, choke back (frac-face pressure RISES), drawdown again
                        c["sched"] = list(np.where(t < 0.15, pf, np.where(t < 0.45, pf + 0.7 * (pi - pf), pf + 0.2 * (pi - pf))))
                    im = rescorr.run_impl(c)
                    ev += 1
                    inp = dict(table=tname, schedule=sched_kind, p_frac_over_p_initial=ratio, nx=nx, nt=nt)
                    if c.get("reassign"):
                        inp["object"] = "built and run with nx+7 nodes and other pressures / flow properties, then its fields re-assigned before simulate"
                    if "rf" not in im:
                        bad("simulation fails", inp, im.get("error"))
                        break
                    rf, rfd = im["rf"], im["rfd"]
                    if rf[0] != 0.0 or rfd[0] != 0.0:
                        bad("recovery does not start at zero", inp, dict(flux=float(rf[0]), inplace=float(rfd[0])))
                    scale = max(abs(rfd[-1]), abs(rf[-1]), 1e-12)
                    gaps.append(float(np.abs(rf - rfd).max() / scale))
                    if sched_kind in ("constant", "stepdown"):
                        tol = 1e-8 * scale  # linear-solver level, not discretisation
                        if np.any(np.diff(rf) < -tol) or np.any(np.diff(rfd) < -tol):
                            # known finding K4: the in-place recovery dips over the first step only, node 0 alone rising in it
                            fld = im["field"]
                            k4 = (not np.any(np.diff(rf) < -tol) and not np.any(np.diff(rfd)[1:] < -tol)
                                  and list(np.nonzero(fld[1] - fld[0] > 0)[0]) == [0])
                            if k4 and k4_known:
                                k4_hits.append(float(np.diff(rfd)[0]))
                            else:
                                bad("recovery decreases in time although frac-face pressure does not rise", inp,
                                    dict(min_step_flux=float(np.diff(rf).min()), min_step_inplace=float(np.diff(rfd).min()),
                                         first_bad_step=int(np.argmax((np.diff(rf) < -tol) | (np.diff(rfd) < -tol)))))
                    sched = np.asarray(c.get("sched", [pf] * nt), float)
                    rho = interp1d(p, tb["density"])
                    ceil = 1 - float(rho(sched.min())) / float(rho(pi))
                    if rfd.max() > ceil * (1 + 1e-9) + 1e-12:
                        bad("in-place recovery exceeds one minus density(lowest frac-face pressure)/density(initial pressure)", inp, dict(max_recovery=float(rfd.max()), ceiling=ceil))
                else:
                    report.append(dict(table=tname, schedule=sched_kind, ratio=ratio, gaps=gaps, table_inconsistency=incons))
                    inp = dict(table=tname, schedule=sched_kind, p_frac_over_p_initial=ratio, nx_ladder=list(nxs))
                    allow = [5.0 / nx_ + incons for nx_ in nxs]
                    if any(g > a for g, a in zip(gaps, allow)):
                        bad("flux-based and in-place recovery differ by more than first-order discretisation error (plus the table's own inconsistency)", inp, dict(gaps=gaps, allowed=allow))
                    for a, b in zip(gaps, gaps[1:]):
                        if b > 0.75 * a + incons + 5e-3:  # 5e-3: resolution of the (piecewise-linear) table itself
                            bad("the gap between flux-based and in-place recovery does not shrink under refinement", inp, dict(gaps=gaps, table_inconsistency=incons))
                            break
    # ---------------- one table object used for a whole study (a DataFrame passed to FlowProperties again and again, as a
    # p_i sweep or the fitting loop does): every construction must give what a fresh copy of the table gives
    import pandas as pd
    tbs = rescorr.synth_table("ideal", 200)
    for container in ("DataFrame", "dict"):
        obj = pd.DataFrame(tbs) if container == "DataFrame" else {k_: v_.copy() for k_, v_ in tbs.items()}
        for j, ratio in enumerate((0.1, 0.5, 0.9)):
            pi = float(tbs["pressure"][-2 - 10 * j])
            t = np.linspace(0, np.sqrt(0.8), 74) ** 2
            base_c = dict(kind="single", table=tbs, pi=pi, pf=pi * ratio, nx=20, times=t)
            im_f = rescorr.run_impl(base_c)
            im_o = rescorr.run_impl(dict(base_c, table_obj=obj))
            ev += 2
            inp = dict(table="ideal-gas (consistent)", container=container, construction_number=j + 1, p_frac_over_p_initial=ratio, nx=20)
            if "rf" not in im_o or "rf" not in im_f:
                bad("simulation fails", inp, im_o.get("error") or im_f.get("error"))
                continue
            if not (np.allclose(im_o["rf"], im_f["rf"], rtol=1e-12, atol=0) and np.allclose(im_o["rfd"], im_f["rfd"], rtol=1e-12, atol=0)):
                gap = float(np.abs(im_o["rf"] - im_o["rfd"]).max() / max(abs(im_o["rfd"][-1]), 1e-12))
                bad("recovery from a table object that was already used for an earlier construction differs from a fresh copy of the same table "
                    "(flux-based and in-place recovery no longer describe the same quantity)", inp,
                    dict(flux_final=float(im_o["rf"][-1]), flux_final_fresh=float(im_f["rf"][-1]), inplace_final=float(im_o["rfd"][-1]), gap=gap))
    # ---------------- both recoveries must not depend on WHICH solver produced a level: iterative solver made to report breakdown /
    # non-convergence on every other step (as it does by itself for large mesh ratios) vs left alone
    from checks.C04 import Probe
    tbs2 = rescorr.shipped_gas(stride=8)
    for kind_, code in (("single", -10), ("single", 1), ("ideal", -10)):
        t = np.linspace(0, np.sqrt(2.0), 60) ** 2
        base_c = dict(kind=kind_, table=tbs2, pi=8000.0, pf=800.0, nx=40, times=t) if kind_ == "single" else dict(kind="ideal", pi=8000.0, pf=800.0, nx=40, times=t)
        im_a = rescorr.run_impl(base_c)
        with Probe(fail_every=2, fail_info=code):
            im_b = rescorr.run_impl(base_c)
        ev += 2
        inp = dict(kind=kind_, nx=40, nt=60, p_frac_over_p_initial=0.1, solver_flag_injected=code)
        if "rf" not in im_b:
            bad("simulation fails when the iterative solver reports failure", inp, im_b.get("error"))
        elif not np.allclose(im_a["rf"], im_b["rf"], rtol=1e-7, atol=1e-10) or (kind_ == "single" and not np.allclose(im_a["rfd"], im_b["rfd"], rtol=1e-7, atol=1e-10)):
            bad("recovery depends on whether a level came from the iterative solver or from the direct-solve fallback (a flagged iterate was kept)", inp,
                dict(flux_final=[float(im_a["rf"][-1]), float(im_b["rf"][-1])], max_diff=float(np.abs(im_a["rf"] - im_b["rf"]).max())))
    # ---------------- the node count held as a narrow NumPy integer (np.uint8(24), np.int16(200) read from a settings array): the same
    # recoveries as for the Python int - both describe the same quantity on the same grid
    tbn = rescorr.synth_table("ideal", 60)
    for nx_n, ty_n in ((24, "uint8"), (200, "int16"), (100, "int8")) if ctx.quick else ((24, "uint8"), (200, "int16"), (100, "int8"), (250, "uint8"), (300, "uint16"), (182, "int16")):
        tg_n = np.linspace(0, np.sqrt(0.6), 40) ** 2
        base_n = dict(kind="single", table=tbn, pi=8000.0, pf=1500.0, nx=nx_n, times=tg_n)
        a_n, b_n = rescorr.run_impl(base_n), rescorr.run_impl(dict(base_n, nx_type=ty_n))
        ev += 2
        inp_n = dict(table="ideal-gas (consistent)", nx=nx_n, nx_given_as="numpy." + ty_n, p_frac=1500.0, p_initial=8000.0)
        if "rf" not in a_n or "rf" not in b_n:
            bad("simulation fails when the node count is a narrow NumPy integer", inp_n, b_n.get("error") or a_n.get("error"))
        elif not (np.allclose(a_n["rf"], b_n["rf"], rtol=1e-9, atol=1e-12) and np.allclose(a_n["rfd"], b_n["rfd"], rtol=1e-9, atol=1e-12)):
            bad("recovery depends on the integer TYPE of the node count (flux-based and in-place recovery no longer describe the same quantity on the same grid)", inp_n,
                dict(flux_final=[float(a_n["rf"][-1]), float(b_n["rf"][-1])], inplace_final=[float(a_n["rfd"][-1]), float(b_n["rfd"][-1])]))
    # ---------------- the far end of a refinement ladder: more than a thousand nodes (a few steps only - each costs 0.1 s): both
    # recoveries start at zero, neither decreases under constant drawdown, the in-place one stays under its ceiling, and the two agree with
    # the run on half as many nodes to first order (any "large grid" code path must still solve the same problem)
    tbl = rescorr.synth_table("ideal", 60)
    pl = np.asarray(tbl["pressure"], float)
    for nx_big, pf_big in ((1100, 1500.0),) if ctx.quick else ((1100, 1500.0), (1600, 4000.0), (2100, 800.0)):
        tg_big = np.linspace(0, 0.3, 9) ** 2
        big = rescorr.run_impl(dict(kind="single", table=tbl, pi=8000.0, pf=pf_big, nx=nx_big, times=tg_big))
        half = rescorr.run_impl(dict(kind="single", table=tbl, pi=8000.0, pf=pf_big, nx=nx_big // 2, times=tg_big))
        ev += 2
        inp = dict(table="ideal-gas (consistent)", nx=nx_big, p_frac=pf_big, p_initial=8000.0, times="linspace(0, 0.3, 9)**2")
        if "rf" not in big or "rf" not in half:
            bad("simulation fails on a grid of more than a thousand nodes", inp, big.get("error") or half.get("error"))
            continue
        ceiling_b = 1.0 - float(np.interp(pf_big, pl, tbl["density"]) / np.interp(8000.0, pl, tbl["density"]))
        if big["rf"][0] != 0.0 or big["rfd"][0] != 0.0:
            bad("recovery does not start at zero", inp, dict(flux=float(big["rf"][0]), inplace=float(big["rfd"][0])))
        if np.diff(big["rf"]).min() < -1e-9 or np.diff(big["rfd"])[1:].min() < -1e-9:
            bad("recovery decreases in time although frac-face pressure does not rise", inp, dict(flux=[float(x) for x in big["rf"][:5]], inplace=[float(x) for x in big["rfd"][:5]]))
        if big["rfd"].max() > ceiling_b + 1e-9:
            bad("in-place recovery exceeds one minus the density ratio at the frac-face pressure", inp, dict(inplace_max=float(big["rfd"].max()), ceiling=ceiling_b))
        if np.abs(big["rfd"] - half["rfd"]).max() > 0.02 * ceiling_b:
            bad("in-place recovery on a grid of more than a thousand nodes is not the refinement of the one on half as many nodes", inp,
                dict(inplace=[float(x) for x in big["rfd"][:5]], inplace_half_as_many_nodes=[float(x) for x in half["rfd"][:5]]))
    # ---------------- several wells simulated at the same time in a thread pool (same node count, own tables / pressures / grids): each
    # gets the recoveries it gets when simulated alone
    tbc = rescorr.synth_table("ideal", 120)
    pc = np.asarray(tbc["pressure"], float)
    conc = [dict(kind="single", table=tbc, pi=float(pc[-2 - 5 * j_]), pf=float(pc[3 + 9 * j_]), nx=30, times=np.linspace(0, np.sqrt(0.8 + j_), 90 + 15 * j_) ** 2) for j_ in range(4)]
    ser = [rescorr.run_impl(c_) for c_ in conc]

    def rep_c(c_, obs):
        bad("the recoveries of a reservoir simulated while others are simulated in other threads (own objects, same node count) differ from those of the same reservoir simulated alone",
            dict(nx=c_["nx"], p_initial=c_["pi"], p_frac=c_["pf"], nt=len(c_["times"]), simulated="concurrently with 3 other reservoirs, one thread each"), obs)
    ev += rescorr.threaded_equals_serial(conc, ser, rep_c, rounds=2)
    # ---------------- time grids held as integers (day counts) with a frac-face pressure that is not a whole number: the recoveries
    # are those of the same grid held as floats, and the in-place recovery stays under its ceiling for THAT frac-face pressure
    tbi = rescorr.synth_table("ideal", 300)
    pti = np.asarray(tbi["pressure"], float)
    rho_i = interp1d(pti, tbi["density"])
    for nx, pi_, pf_ in ((20, float(pti[-2]), float(pti[-2]) - 0.5), (40, 150.25 if pti[0] < 100 else float(pti[3]) + 0.25, None), (12, float(pti[-5]), float(pti[-5]) * 0.5 + 0.37)):
        if pf_ is None:
            pf_ = max(float(pti[1]) + 0.7, pi_ * 0.1 + 0.7)
        if not (pti[0] < pf_ < pi_ <= pti[-1]):
            continue
        days = np.arange(0, 60)
        base_i = dict(kind="single", table=tbi, pi=pi_, pf=pf_, nx=nx, times=days.astype(float) * 0.05)
        im_f = rescorr.run_impl(dict(base_i, times=days.astype(float)))
        inp_i = dict(table="ideal-gas (consistent)", nx=nx, p_initial=pi_, p_frac=pf_, time_grid="np.arange(0, 60)")
        for dt_name in ("int64", "int32"):
            im_i = rescorr.run_impl(dict(base_i, times=days, time_dtype=dt_name))
            ev += 1
            if "rfd" not in im_i or "rfd" not in im_f:
                bad("simulation fails on an integer-typed time grid", dict(**inp_i, dtype=dt_name), im_i.get("error"))
                continue
            ceil_i = 1 - float(rho_i(pf_)) / float(rho_i(pi_))
            if not (np.allclose(im_i["rf"], im_f["rf"], rtol=1e-9, atol=1e-12) and np.allclose(im_i["rfd"], im_f["rfd"], rtol=1e-9, atol=1e-12)) or im_i["rfd"].max() > ceil_i * (1 + 1e-9) + 1e-12:
                bad("recovery on an integer-typed time grid differs from the same grid held as floats (a frac-face pressure that is not a whole number is not honoured) / exceeds its ceiling",
                    dict(**inp_i, dtype=dt_name), dict(inplace_final=[float(im_i["rfd"][-1]), float(im_f["rfd"][-1])], flux_final=[float(im_i["rf"][-1]), float(im_f["rf"][-1])], ceiling=ceil_i))
    # ---------------- ideal reservoir plateau: 1 - p_frac/p_initial
    for ratio in ((0.1, 0.9, 0.99875) if ctx.quick else (0.0125, 0.1, 0.5, 0.9, 0.99, 0.99875)):
        plat = []
        for nx in nxs:
            t = np.linspace(0, np.sqrt(12.0), 10 * nx) ** 2  # fine in time: the time quadrature is not under test
            # (the middle ratio: on an object built with other settings whose fields are then re-assigned)
            reas = ratio == 0.9
            im = rescorr.run_impl(dict(kind="ideal", pi=9000.0, pf=9000.0 * ratio, nx=nx, times=t, **(dict(reassign=True) if reas else {})))
            ev += 1
            rf = im["rf"]
            if rf[0] != 0.0 or np.any(np.diff(rf) < -1e-12):
                bad("ideal-gas recovery does not start at zero / decreases", dict(ratio=ratio, nx=nx, fields_reassigned=reas), float(np.diff(rf).min()))
            plat.append(float(rf[-1] / (1 - ratio)))
        report.append(dict(ideal_plateau_over_expected=plat, ratio=ratio))
        if abs(plat[0] - 1) > 1.5 / nxs[0] or any(abs(b - 1) > 0.75 * abs(a - 1) + 1e-6 for a, b in zip(plat, plat[1:])):
            bad("ideal-gas recovery does not plateau at 1 - p_frac/p_initial (to first order, shrinking under refinement)",
                dict(ratio=ratio, nx_ladder=list(nxs), fields_reassigned_after_an_earlier_run=(ratio == 0.9)), plat)
    # K4 is printed only while its recorded witness still reproduces on the implementation
    if k4_known:
        tbw = rescorr.shipped_gas(stride=4)
        pw = tbw["pressure"]
        tw = np.concatenate([[0.0], 1e-6 * np.cumsum(1.5 ** np.arange(12))])
        imw = rescorr.run_impl(dict(kind="single", table=tbw, pi=float(pw[-2]), pf=max(float(pw[-2]) * 0.05, float(pw[1])), nx=20, times=tw))
        if "rfd" in imw and imw["rfd"][1] < 0 and np.all(np.diff(imw["rfd"])[1:] >= 0):
            ctx.known_printed.append(k4_known[0]["line"])
            ctx.notes.append(f"known finding K4 reproduced on its witness (dip {imw['rfd'][1]:.3g}); {len(k4_hits)} sampled runs showed it, largest {min(k4_hits) if k4_hits else 0:.3g}")
        elif k4_hits:
            bad("recovery decreases in time although frac-face pressure does not rise", dict(note="first-step dips seen although the recorded witness no longer reproduces"), k4_hits[:5])
    ctx.cov.update(evaluations=ev, distinct_nontrivial=len(report), ladders=report[:40],
                   rule="thermodynamically consistent synthetic tables (ideal gas, constant-compressibility liquid) exactly; shipped tables widened by their "
                        "own measured inconsistency (median |c/(d ln rho/dp) - 1| + median |dm/d(int 2p/(mu z)) - 1|); constant / step-down / arbitrary "
                        "schedules; p_frac/p_initial up to 0.99875; refinement ladders; ideal reservoir plateau at t = 12 diffusion times")
    ctx.validated_only += ["size and shrinkage of the gap between the two recovery modes, and the plateau value: numerical on the ladders (the theorems give the "
                           "exact discrete balance for constant coefficient, monotone stored total, zero start and the in-place ceiling)"]
    ctx.samples += report[:3]


def replay(payload):
    print(json.dumps(payload.get("input"), default=str), json.dumps(payload.get("observed"), default=str))
    return 0
