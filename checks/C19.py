"""C19 - Fluid facade and PVT-table builder reproduce the underlying correlations."""
import json
import warnings

import numpy as np

from vlib import core, dom

ID = "C19"
GEN = ["water", "gas", "oil", "fluid"]
PROPS = ["C19_facade.v", "C19_signatures.v"]


def run(ctx):
    from bluebonnet.fluids import gas, oil, water
    from bluebonnet.fluids.fluid import Fluid, build_pvt_gas
    core.coq_phase(ctx, GEN, PROPS)
    rng = dom.rng_for(ctx, 19)
    n = 60 if ctx.quick else 1500
    ev = 0
    goals = []

    def bad(what, inp, obs):
        ctx.violations.append(dict(what=what, key=what, input=inp, observed=obs))

    def close(a, b):
        a, b = np.asarray(a, float), np.asarray(b, float)
        return a.shape == b.shape and np.allclose(a, b, rtol=1e-12, atol=0)

    for k in range(n):
        T, api, gg, rsi, pb = dom.oil_params(rng)
        sal = float(rng.uniform(0.5, 25))  # != 0 so that a salinity/temperature mix-up shows
        swi = float(rng.uniform(0.05, 0.4))
        dead = k % 4 == 3
        if dead:
            # dead / nearly dead oils (the docstring's own Fluid(400, 35, 0.65, 0)): Standing's bubble point is then below
            # atmospheric or negative; the facade must still return exactly what the correlation returns
            rsi = float([0.0, 1.0, 5.0, 12.0][(k // 4) % 4])
            pb = 1000.0
        fl = Fluid(T, api, gg, rsi, sal, swi)
        settings = [(T, api, gg, rsi, sal, swi, pb, dead, "as constructed")]
        if k % 3 == 1:
            # the same object with its public fields re-assigned after it has been used (a sensitivity loop over one Fluid): every
            # method must follow the CURRENT attributes
            T2, api2, gg2, rsi2, pb2 = dom.oil_params(rng)
            settings.append((T2, api2, gg2, rsi2, float(rng.uniform(0.5, 25)), float(rng.uniform(0.05, 0.4)), pb2, False, "fields re-assigned after use"))
        if k % 3 == 2 and not dead:
            # a COPY of an object that has been used (copy.copy / copy.deepcopy / pickle round trip, as a sensitivity study that keeps the
            # base case does), with its fields changed on the copy: every method of the copy follows the copy's attributes
            T2, api2, gg2, rsi2, pb2 = dom.oil_params(rng)
            settings.append((T2, api2, gg2, rsi2, float(rng.uniform(0.5, 25)), float(rng.uniform(0.05, 0.4)), pb2, False,
                             ["shallow copy of a used object, fields changed on the copy", "deep copy of a used object, fields changed on the copy",
                              "pickle round trip of a used object, fields changed on the copy"][(k // 3) % 3]))
        for T, api, gg, rsi, sal, swi, pb, dead, how in settings:
            if "copy of a used object" in how or "pickle round trip" in how:
                import copy as _copy
                import pickle as _pickle
                try:
                    fl = _copy.copy(fl) if how.startswith("shallow") else _copy.deepcopy(fl) if how.startswith("deep") else _pickle.loads(_pickle.dumps(fl))
                except Exception as e:  # noqa: BLE001
                    bad("a Fluid that has been used can no longer be copied / pickled", dict(object=how), repr(e)[:200])
                    continue
            if how != "as constructed":
                fl.temperature, fl.api_gravity, fl.gas_specific_gravity, fl.solution_gor_initial, fl.salinity, fl.water_saturation_initial = T, api, gg, rsi, sal, swi
            ps = np.sort(np.concatenate([rng.uniform(15, 2.5 * pb, 5), [pb]]))
            tpc, ppc = float(rng.uniform(-110, -40)), float(rng.uniform(600, 700))
            inp = dict(T=T, api=api, gg=gg, Rsi=rsi, salinity=sal, Swi=swi, pressures=[float(x) for x in ps], Tpc=tpc, Ppc=ppc, object=how)
            pairs = [
                ("water_FVF", fl.water_FVF(ps), [water.b_water_McCain(T, p) for p in ps]),
                ("water_viscosity", fl.water_viscosity(ps), [water.viscosity_water_McCain(T, p, sal) for p in ps]),
                ("oil_FVF", fl.oil_FVF(ps), [oil.b_o_Standing(T, float(p), api, gg, rsi) for p in ps]),
                ("oil_viscosity", fl.oil_viscosity(ps), [oil.viscosity_beggs_robinson(T, float(p), api, gg, rsi) for p in ps]),
                ("pressure_bubblepoint", [fl.pressure_bubblepoint()], [oil.pressure_bubblepoint_Standing(T, api, gg, rsi)]),
            ]
            if dead:
                pairs = [pr_ for pr_ in pairs if not pr_[0].startswith("oil_")]   # the oil correlations need a positive bubble point
            tr = (T + 459.67) / (tpc + 459.67)
            if 1.05 <= tr <= 3:
                pg = ps[ps / ppc <= 30]
                pairs += [("gas_FVF", fl.gas_FVF(pg, tpc, ppc), [gas.b_factor_DAK(T, float(p), tpc, ppc) for p in pg]),
                          ("gas_viscosity", fl.gas_viscosity(pg, tpc, ppc), [gas.viscosity_Sutton(T, float(p), tpc, ppc, gg) for p in pg])]
            for name, got, want in pairs:
                ev += 1
                if not close(got, want):
                    bad(f"Fluid.{name} differs from the stand-alone correlation evaluated with the object's attributes" + ("" if how == "as constructed" else " (attributes re-assigned after the object was used)"), inp,
                        dict(got=[float(x) for x in np.ravel(got)][:4], want=[float(x) for x in np.ravel(want)][:4]))
    # ---------------- long pressure arrays through the facade (post-processing of a fine simulation): every entry is the stand-alone
    # correlation at that pressure, whatever the length of the array
    for nlong in ((20001,) if ctx.quick else (5001, 20001, 50001)):
        T, api, gg, rsi, pb = dom.oil_params(rng)
        fl = Fluid(T, api, gg, rsi, 3.0, 0.2)
        tpc, ppc = -72.2, 653.0
        plong = rng.uniform(100.0, min(9000.0, 30 * ppc), nlong)
        sub = np.concatenate([[0, nlong - 1], rng.choice(nlong, 150, replace=False)])
        checks_l = [("water_FVF", fl.water_FVF(plong), lambda x: water.b_water_McCain(T, x)), ("oil_FVF", fl.oil_FVF(plong), lambda x: oil.b_o_Standing(T, x, api, gg, rsi))]
        if 1.05 <= (T + 459.67) / (tpc + 459.67) <= 3:
            checks_l += [("gas_FVF", fl.gas_FVF(plong, tpc, ppc), lambda x: gas.b_factor_DAK(T, x, tpc, ppc)), ("gas_viscosity", fl.gas_viscosity(plong, tpc, ppc), lambda x: gas.viscosity_Sutton(T, x, tpc, ppc, gg))]
        for name, got, sc in checks_l:
            ev += 1
            got = np.asarray(got, float)
            want = np.array([float(sc(float(plong[j_]))) for j_ in sub])
            if got.shape != plong.shape or not np.allclose(got[sub], want, rtol=1e-12, atol=0):
                bad(f"Fluid.{name} differs from the stand-alone correlation evaluated with the object's attributes (long pressure array)", dict(T=T, api=api, gg=gg, Rsi=rsi, n=nlong, Tpc=tpc, Ppc=ppc),
                    dict(max_rel_diff=float(np.abs(got[sub] / want - 1).max()) if got.shape == plong.shape else "shape"))
    # ---------------- table builder
    ntab = 4 if ctx.quick else 20
    for k in range(ntab):
        g = dom.gas_params(rng)
        while abs(g["n2"] - g["co2"]) < 0.01 or abs(g["n2"] - g["h2s"]) < 0.01:    # a composition whose components cannot be confused unnoticed
            g = dom.gas_params(rng)
        # every maximum in turn (multiples of the 10-psi step and not): the grid's end must not depend on the luck of a draw
        pmax = [95.0, 100.0, 305.0, 1000.0][k % 4] if ctx.quick else [95.0, 100.0, 1000.0, 3333.0, 14000.0][k % 5]
        vals = {"N2": g["n2"], "H2S": g["h2s"], "CO2": g["co2"], "Gas Specific Gravity": g["sg"],
                "Reservoir Temperature (deg F)": g["T"]}
        with warnings.catch_warnings():
            warnings.simplefilter("ignore")
            vals_arg, vals_how = dom.gas_values_form(vals, k)    # what the keys say decides, not the order they were inserted in
            try:
                tb = build_pvt_gas(vals_arg, g["dry"], pmax)
            except Exception as e:  # noqa: BLE001
                bad("build_pvt_gas fails for an admissible gas description", dict(gas_values=vals, gas_values_given_as=vals_how, dryness=g["dry"], maximum_pressure=pmax), repr(e)[:200])
                continue
        inp = dict(gas_values=vals, gas_values_given_as=vals_how, dryness=g["dry"], maximum_pressure=pmax)
        P = np.asarray(tb["pressure"], float)
        ev += 1
        want_P = np.arange(10.0, pmax, 10.0)
        if not (len(P) == len(want_P) and np.allclose(P, want_P) and P[0] == 10.0 and P[-1] < pmax):
            bad("table pressures are not the 10-psi grid from 10 psi up to but excluding the maximum pressure", inp,
                dict(first=float(P[0]), last=float(P[-1]), rows=len(P)))
            continue
        tpc, ppc = gas.pseudocritical_point_Sutton(g["sg"], gas.make_nonhydrocarbon_properties(g["n2"], g["h2s"], g["co2"]), g["dry"])
        rows = rng.choice(len(P), size=min(len(P), 6), replace=False)
        for j in rows:
            p = float(P[j])
            want = {"z-factor": gas.z_factor_DAK(g["T"], p, tpc, ppc), "Density": gas.density_DAK(g["T"], p, tpc, ppc, g["sg"]),
                    "viscosity": gas.viscosity_Sutton(g["T"], p, tpc, ppc, g["sg"]),
                    "compressibility": gas.compressibility_DAK(g["T"], p, tpc, ppc), "temperature": g["T"]}
            for col, w in want.items():
                ev += 1
                if not dom.relclose(float(tb[col][j]), float(w), 1e-12):
                    bad(f"table column {col} differs from the stand-alone correlation at the row's pressure", dict(**inp, row=int(j), p=p),
                        dict(table=float(tb[col][j]), correlation=float(w)))
        # the same composition with the OTHER dryness setting, and then an unknown fluid type, in the same process: each table must
        # still come from its own setting's pseudocritical point, and the unknown type must still be rejected
        other = "dry gas" if g["dry"] == "wet gas" else "wet gas"
        with warnings.catch_warnings():
            warnings.simplefilter("ignore")
            tb_o = build_pvt_gas(dict(vals), other, pmax)
        tpc_o, ppc_o = gas.pseudocritical_point_Sutton(g["sg"], gas.make_nonhydrocarbon_properties(g["n2"], g["h2s"], g["co2"]), other)
        for j in rows[:3]:
            p = float(P[j])
            for col, w in (("z-factor", gas.z_factor_DAK(g["T"], p, tpc_o, ppc_o)), ("viscosity", gas.viscosity_Sutton(g["T"], p, tpc_o, ppc_o, g["sg"]))):
                ev += 1
                if not dom.relclose(float(tb_o[col][j]), float(w), 1e-12):
                    bad(f"table column {col} differs from the stand-alone correlation at the row's pressure (table built right after one for the other dryness setting)",
                        dict(gas_values=vals, dryness=other, built_after=g["dry"], maximum_pressure=pmax, row=int(j), p=p), dict(table=float(tb_o[col][j]), correlation=float(w)))
        for unknown in ("condensate", "gas"):
            ev += 1
            try:
                with warnings.catch_warnings():
                    warnings.simplefilter("ignore")
                    build_pvt_gas(dict(vals), unknown, pmax)
                bad("an unknown fluid type is not rejected", dict(gas_values=vals, fluid=unknown, after_valid_call_with=other), "table returned")
            except ValueError:
                pass
        # pseudocritical point properties
    for k in range(20 if ctx.quick else 400):
        sg = float(rng.uniform(0.55, 1.2))
        dry = "dry gas" if k % 2 else "wet gas"
        t0, p0 = gas.pseudocritical_point_Sutton(sg, gas.make_nonhydrocarbon_properties(0.0, 0.0, 0.0), dry)
        if dry == "dry gas":
            wt, wp = 120.1 + 429 * sg - 62.9 * sg ** 2 - 459.67, 671.1 - 14 * sg - 34.3 * sg ** 2
        else:
            wt, wp = 164.3 + 357.7 * sg - 67.7 * sg ** 2 - 459.67, 744 - 125.4 * sg + 5.9 * sg ** 2
        ev += 1
        if not (dom.relclose(t0, wt, 1e-12) and dom.relclose(p0, wp, 1e-12)):
            bad("pseudocritical point without contaminants is not the hydrocarbon-only correlation", dict(sg=sg, fluid=dry), dict(got=[t0, p0], want=[wt, wp]))
        n2, h2s, co2 = (float(rng.uniform(0, 0.08)) for _ in range(3))
        if k % 5 == 0:
            # other spellings of the documented fluid types: rejected, or evaluated as the type they name
            clo = lambda u, v: dom.relclose(u[0], v[0], 1e-12) and dom.relclose(u[1], v[1], 1e-12)
            ev += dom.check_dryness_spellings(lambda nm: [float(x) for x in gas.pseudocritical_point_Sutton(sg, gas.make_nonhydrocarbon_properties(n2, h2s, co2), nm)],
                                              lambda what, sp, obs: bad("pseudocritical_point_Sutton: " + what, dict(sg=sg, n2=n2, h2s=h2s, co2=co2, fluid=sp), obs), clo)
            vals_s = {"N2": n2, "H2S": h2s, "CO2": co2, "Gas Specific Gravity": sg, "Reservoir Temperature (deg F)": 250.0}

            def table_z(nm):
                with warnings.catch_warnings():
                    warnings.simplefilter("ignore")
                    return [float(x) for x in np.asarray(build_pvt_gas(dict(vals_s), nm, 400.0)["z-factor"], float)[::8]]
            ev += dom.check_dryness_spellings(table_z, lambda what, sp, obs: bad("build_pvt_gas: " + what, dict(gas_values=vals_s, fluid=sp), obs),
                                              lambda u, v: len(u) == len(v) and np.allclose(u, v, rtol=1e-12))
        a = gas.pseudocritical_point_Sutton(sg, gas.make_nonhydrocarbon_properties(n2, h2s, co2), dry)
        b = gas.pseudocritical_point_Sutton(sg, gas.make_nonhydrocarbon_properties(n2, h2s, co2, ("Argon", 0.0, 39.95, 271.0, 705.0)), dry)
        ev += 1
        if not (dom.relclose(a[0], b[0], 1e-12) and dom.relclose(a[1], b[1], 1e-12)):
            bad("a zero-fraction extra component changes the pseudocritical point", dict(sg=sg, n2=n2, h2s=h2s, co2=co2, fluid=dry), dict(without=list(a), with_extra=list(b)))
        if k < (3 if ctx.quick else 20):
            fa = lambda *xs: " ".join(core.frac(float(x)) for x in xs)
            var = "dry" if dry == "dry gas" else "wet"
            goals.append(dict(expr=f"match Gen_gas.pseudocritical_point_Sutton_{var} {fa(sg, n2, h2s, co2)} with Some (t, _) => t | None => 0 end",
                              value=float(a[0]), rtol=1e-9, label=f"pseudocritical T {dry} {(sg, n2, h2s, co2)}"))
            goals.append(dict(expr=f"match Gen_gas.pseudocritical_point_Sutton_{var} {fa(sg, n2, h2s, co2)} with Some (_, p) => p | None => 0 end",
                              value=float(a[1]), rtol=1e-9, label=f"pseudocritical P {dry}"))
    for fluid in ("oil", "condensate", "", "Dry Gas"):
        ev += 1
        try:
            gas.pseudocritical_point_Sutton(0.7, gas.make_nonhydrocarbon_properties(0, 0, 0), fluid)
            bad("an unknown fluid type is not rejected", dict(fluid=fluid), "no error")
        except ValueError:
            pass
    for g_ in goals:
        g_["unfold"] = core.gen_names(["gas"])
        g_["pre"] = "cbv iota beta. "
    core.cert_phase(ctx, goals, ["Gen_gas"])
    ctx.cov.update(evaluations=ev, distinct_nontrivial=n + ntab,
                   rule="random Fluid parameter sets with non-zero salinity/API/GOR and distinct gravities (so that every argument "
                        "mix-up changes the answer), pressure arrays on both sides of p_b; gas tables for random compositions x dryness x "
                        "maximum pressures incl. values on/off the 10-psi grid; Sutton reductions; unknown fluid types")
    ctx.samples.append(dict(T=T, api=api, gg=gg, Rsi=rsi, salinity=sal))


def replay(payload):
    print(json.dumps(payload.get("input"), default=str), json.dumps(payload.get("observed"), default=str))
    return 0
