"""C10 - results always reflect the most recent simulation, never stale state."""
import itertools
import json
import os
import re
import warnings

import numpy as np

from vlib import core, dom, rescorr

ID = "C10"
PROPS = ["C10_nostale.v", "C10_signatures.v"]
GEN = ["reservoir"]

# grids: 1 = A, 2 = B (same length as A), 3 = C (other length); schedules 0/1 belong to grids A/B, 2 to C
GRIDS = {1: np.linspace(0, 2.0, 9) ** 2 / 2.0, 2: np.linspace(0, 3.0, 9), 3: np.linspace(0, 1.0, 6)}
# grid 4: a longer forecast horizon that starts like grid A (the shared part re-resolved: equal to A within 3e-6 relative, not equal)
GRIDS[4] = np.concatenate([GRIDS[1] * (1 + 3e-6), GRIDS[1][-1] + np.array([0.3, 0.7, 1.5])])
OPS_BASE = [[0, 1], [0, 2], [0, 3], [0, 4], [2], [3], [4]]
# a simulate call that raises before completing: [5, g] = simulate(grid g, <something inadmissible>): for the single-phase class a
# frac-face schedule of the wrong length (ValueError), for the ideal class the time grid as a plain list (no .shape: AttributeError)
OPS_REJ = [[5, 2], [5, 3]]
OPS_SCHED = [[1, 1, 0], [1, 3, 2]]
QUERY = np.array([-1.0, 0.0, 0.05, 0.4, 0.9, 1.7, 2.5, 10.0])


def sym_histories(ctx, hists):
    """Ask the Coq model (symbolic instance) for outputs + final state of each history."""
    os.makedirs(ctx.bdir, exist_ok=True)
    out = []
    files = []
    shard = 400
    for s in range(0, len(hists), shard):
        part = hists[s:s + shard]
        body = ["From Coq Require Import List.", "From BBLib Require Import ObjectSM.", "Import ListNotations.",
                "Set Printing Width 1000000.", "Set Printing Depth 1000000."]
        lit = "[" + "; ".join("[" + "; ".join("[" + "; ".join(str(x) for x in op) + "]" for op in h) + "]" for h in part) + "]"
        body.append(f"Eval vm_compute in map sym_run {lit}.")
        path = os.path.join(ctx.bdir, f"Hist_{s // shard}.v")
        open(path, "w").write("\n".join(body) + "\n")
        files.append(path)
    for path in files:
        rc, o, dt = core.sh(["coqc", "-q", "-Q", core.LIB, "BBLib", path], 600)
        if rc:
            ctx.broken.append("symbolic history evaluation failed: " + o[-300:])
            return None
        m = re.search(r"=\s*(\[.*\])\s*:\s*list", o.replace("\n", " "))
        txt = m.group(1).replace(";", ",")
        out += json.loads(txt)
    return out


class Env:
    """Evaluates the model's symbolic values on FRESH objects of the implementation."""

    def __init__(self, cls, fp, nx, pf, pi, scheds):
        self.cls, self.fp, self.nx, self.pf, self.pi, self.scheds = cls, fp, nx, pf, pi, scheds
        self.cache = {}

    def new(self):
        return self.cls(self.nx, self.pf, self.pi, self.fp)

    def apply(self, obj, op, bufs=None):
        """bufs: the caller keeps ONE time array per length (and one schedule array per length) and refills it in place before
        each simulate call - the usual way of reusing a buffer; None: a fresh copy per call"""
        def arr(src, kind):
            if bufs is None:
                return src.copy()
            b = bufs.setdefault((kind, len(src)), np.empty(len(src)))
            b[:] = src
            return b
        if op[0] == 5:
            from bluebonnet.flow import SinglePhaseReservoir
            try:
                if isinstance(obj, SinglePhaseReservoir):
                    obj.simulate(GRIDS[op[1]].copy(), np.full(len(GRIDS[op[1]]) + 2, 1234.0))
                else:
                    obj.simulate([float(x) for x in GRIDS[op[1]]])
            except (ValueError, AttributeError):
                return "rejected"
            return "not rejected"
        if op[0] == 0:
            return obj.simulate(arr(GRIDS[op[1]], "t"))
        if op[0] == 1:
            return obj.simulate(arr(GRIDS[op[1]], "t"), arr(self.scheds[op[2]], "s"))
        if op[0] == 2:
            return np.array(obj.recovery_factor(), float)
        if op[0] == 3:
            return np.array(obj.recovery_factor(density=True), float)
        return np.array(obj.recovery_factor_interpolator()(QUERY), float)

    def field(self, f):  # [grid, 0 | sched+1]
        key = ("f",) + tuple(f)
        if key not in self.cache:
            o = self.new()
            self.apply(o, [0, f[0]] if f[1] == 0 else [1, f[0], f[1] - 1])
            self.cache[key] = np.array(o.pseudopressure, float)
        return self.cache[key]

    def rec(self, r):  # [mode, timegrid, fieldgrid, fieldsched]
        key = ("r",) + tuple(r)
        if key not in self.cache:
            o = self.new()
            o.time = GRIDS[r[1]].copy()
            o.pseudopressure = self.field(r[2:4]).copy()
            self.cache[key] = self.apply(o, [2] if r[0] == 0 else [3])
        return self.cache[key]

    def curve(self, c):  # [timegrid] + rec
        from scipy import interpolate
        rec = self.rec(c[1:])
        t = GRIDS[c[0]]
        return interpolate.interp1d(t, rec, bounds_error=False, fill_value=(0, rec[-1]))(QUERY)


def run_history(env, h, shared_buffers=False, caller_scales_results=False):
    """caller_scales_results: the caller converts every recovery array it is handed to per cent IN PLACE (rf *= 100) right after the
    call - what it was handed is its own; later calls on the object must not see it"""
    obj = env.new()
    outs = []
    bufs = {} if shared_buffers else None
    for op in h:
        try:
            with warnings.catch_warnings():
                warnings.simplefilter("ignore")
                if caller_scales_results and op[0] in (2, 3):
                    handed = obj.recovery_factor() if op[0] == 2 else obj.recovery_factor(density=True)
                    outs.append(np.array(handed, float))
                    try:
                        handed *= 100.0
                    except Exception:  # noqa: BLE001, S110
                        pass
                    continue
                outs.append(env.apply(obj, op, bufs))
        except RuntimeError:
            outs.append("RuntimeError")
        except Exception as e:  # noqa: BLE001
            outs.append(type(e).__name__)
    state = (getattr(obj, "time", None), getattr(obj, "pseudopressure", None), obj.__dict__.get("recovery"))
    return outs, state


def kept_outputs_stable(env, h):
    """Run the history keeping what each call stored / returned WITHOUT copying (plus a copy taken at that moment); afterwards every
    kept array must still equal its copy: results are values, a later call must not overwrite what an earlier one handed out."""
    obj = env.new()
    kept = []
    for k, op in enumerate(h):
        try:
            with warnings.catch_warnings():
                warnings.simplefilter("ignore")
                if op[0] <= 1:
                    env.apply(obj, op)
                    ref = obj.pseudopressure
                elif op[0] == 2:
                    ref = obj.recovery_factor()
                elif op[0] == 3:
                    ref = obj.recovery_factor(density=True)
                else:
                    continue
        except Exception:  # noqa: BLE001
            continue
        kept.append((k, ref, np.array(ref, float)))
    for k, ref, cp in kept:
        if not np.array_equal(np.asarray(ref, float), cp, equal_nan=True):
            return f"the array stored / returned by call #{k} ({h[k]}) was overwritten by a later call on the same object"
    return None


def same(a, b):
    if a is None or b is None:
        return a is None and b is None
    return isinstance(a, np.ndarray) and isinstance(b, np.ndarray) and a.shape == b.shape and np.array_equal(a, b, equal_nan=True)


def compare(env, h, sym, outs, state):
    """sym: model's symbolic outputs for the ops + 3 state entries."""
    n = len(h)
    for k in range(n):
        s, got = sym[k], outs[k]
        if s[0] == 8:
            ok = isinstance(got, str) and got == "rejected"
        elif s[0] == 0:
            ok = got is None
        elif s[0] == 9:
            ok = isinstance(got, str) and got == "RuntimeError"
        elif s[0] == 1:
            ok = same(got, env.rec(s[1:])) if not isinstance(got, str) else False
        else:
            ok = same(got, env.curve(s[1:])) if not isinstance(got, str) else False
        if not ok:
            return f"call #{k} ({h[k]}) returned something other than a fresh object would (model term {s})"
    st_t, st_f, st_r = sym[n], sym[n + 1], sym[n + 2]
    t, f, r = state
    if not same(np.asarray(t, float) if t is not None else None, GRIDS[st_t[0]] if st_t else None):
        return "stored time differs from the latest simulation's grid"
    if not same(f, env.field(st_f) if st_f else None):
        return "stored pseudopressure differs from a fresh object's after the latest simulation"
    if not same(np.asarray(r, float) if r is not None else None, env.rec(st_r) if st_r else None):
        return "cached recovery differs from what a fresh object holds after the latest simulation"
    return None


def histories(ctx, ops, maxlen, nrand, rng, randlen):
    hs = []
    for L in range(1, maxlen + 1):
        hs += [list(h) for h in itertools.product(ops, repeat=L)]
    for _ in range(nrand):
        L = int(rng.integers(maxlen + 1, randlen + 1))
        hs.append([ops[int(rng.integers(0, len(ops)))] for _ in range(L)])
    return hs


PRISTINE = r'''
import sys, json, warnings
import numpy as np
sys.path.insert(0, %(verif)r)
from checks import C10
from vlib import rescorr
from bluebonnet.flow import FlowProperties, IdealReservoir, SinglePhaseReservoir
warnings.simplefilter("ignore")
tb = rescorr.shipped_gas(stride=30)
fp = FlowProperties({k: v.copy() for k, v in tb.items()}, 8000.0)
scheds = {0: np.linspace(6000.0, 1500.0, 9), 1: np.linspace(5000.0, 3000.0, 9), 2: np.linspace(7000.0, 500.0, 6)}
cls = {"IdealReservoir": IdealReservoir, "SinglePhaseReservoir": SinglePhaseReservoir}[sys.argv[1]]
env = C10.Env(cls, fp, 8, 1000.0, 8000.0, scheds)
key = json.loads(sys.argv[2])
val = env.field(key[1:]) if key[0] == "f" else env.rec(key[1:])
print(json.dumps([float(x).hex() for x in np.asarray(val, float).ravel()]))
'''


def pristine_reference(ctx, cls_name, key):
    """The same fresh-object computation in a new interpreter process that has done nothing else: what the reference values
    of this process must equal if results do not depend on what OTHER objects did earlier (class- or module-level state)."""
    import subprocess
    import sys
    env = dict(os.environ)
    p = subprocess.run([sys.executable, "-c", PRISTINE % dict(verif=core.VERIF), cls_name, json.dumps(list(key))], capture_output=True, text=True, env=env, timeout=300)
    if p.returncode:
        ctx.broken.append("pristine-process reference failed: " + p.stderr[-300:])
        return None
    return np.array([float.fromhex(h) for h in json.loads(p.stdout.strip().splitlines()[-1])])


def run(ctx):
    from bluebonnet.flow import FlowProperties, IdealReservoir, SinglePhaseReservoir
    core.coq_phase(ctx, GEN, PROPS)
    rng = dom.rng_for(ctx, 10)
    tb = rescorr.shipped_gas(stride=30)
    with warnings.catch_warnings():
        warnings.simplefilter("ignore")
        fp = FlowProperties({k: v.copy() for k, v in tb.items()}, 8000.0)
    scheds = {0: np.linspace(6000.0, 1500.0, 9), 1: np.linspace(5000.0, 3000.0, 9), 2: np.linspace(7000.0, 500.0, 6)}
    total = 0
    # ---------------- the caller has escalated warnings to exceptions (pytest -W error, PYTHONWARNINGS=error): whatever a simulate call on
    # an unusual-but-valid grid (a repeated time stamp, i.e. one zero-length step) then does - answer or raise - the object afterwards is a
    # fresh object that ran that grid, or the object as it was before the call; never a mixture
    for cls_w in (IdealReservoir, SinglePhaseReservoir):
        grid_a = GRIDS[1].copy()
        grid_b = np.concatenate([GRIDS[2][:4], GRIDS[2][3:]])        # one repeated entry
        def mk_():
            return cls_w(8, 1000.0, 8000.0, fp)
        ref_a, ref_b = mk_(), mk_()
        ref_a.simulate(grid_a.copy())
        with warnings.catch_warnings():
            warnings.simplefilter("ignore")
            ref_b.simulate(grid_b.copy())
            want_a = np.array(ref_a.recovery_factor_interpolator()(QUERY), float)
            want_b = np.array(ref_b.recovery_factor_interpolator()(QUERY), float)
        used = mk_()
        used.simulate(grid_a.copy())
        used.recovery_factor()
        raised = None
        with warnings.catch_warnings():
            warnings.simplefilter("error")
            try:
                used.simulate(grid_b.copy())
            except Exception as e:  # noqa: BLE001
                raised = repr(e)[:120]
        total += 1
        try:
            with warnings.catch_warnings():
                warnings.simplefilter("ignore")
                got_w = np.array(used.recovery_factor_interpolator()(QUERY), float)
        except Exception as e:  # noqa: BLE001
            got_w = repr(e)[:160]
        want_w = want_a if raised else want_b
        if isinstance(got_w, str) or not np.allclose(got_w, want_w, rtol=1e-12, atol=1e-15):
            ctx.violations.append(dict(what="with warnings escalated to exceptions a simulate call on a grid with a repeated time stamp leaves the object in a state that is neither a fresh run of "
                                            "that grid nor the object as it was before the call (later outputs mix two runs)", key="warnings-as-errors",
                                       input=dict(cls=cls_w.__name__, history="simulate(A); recovery_factor(); [warnings.simplefilter('error')] simulate(B with one repeated time stamp); recovery_factor_interpolator()(query)",
                                                  grid_A=[float(x) for x in grid_a], grid_B=[float(x) for x in grid_b], simulate_B_raised=raised),
                                       observed=dict(interpolator=got_w if isinstance(got_w, str) else [float(x) for x in got_w], expected=[float(x) for x in want_w])))
    for cls, ops, maxlen in ((IdealReservoir, OPS_BASE + OPS_REJ[:1], 3 if ctx.quick else 5),
                             (SinglePhaseReservoir, OPS_BASE + OPS_SCHED + OPS_REJ, 3 if ctx.quick else 4)):
        env = Env(cls, fp, 8, 1000.0, 8000.0, scheds)
        hs = histories(ctx, ops, maxlen, 300 if ctx.quick else 3000, rng, 8 if ctx.quick else 12)
        syms = sym_histories(ctx, hs)
        if syms is None:
            return
        nviol = 0
        nviol_b = 0
        nviol_k = 0
        nviol_m = 0
        for h, sym in zip(hs, syms):
            outs, state = run_history(env, h)
            msg = compare(env, h, sym, outs, state)
            total += 1
            if msg and nviol < 3:
                nviol += 1
                ctx.violations.append(dict(what=f"{cls.__name__}: {msg}", key=cls.__name__ + msg[:40],
                                           input=dict(cls=cls.__name__, history=h), observed=msg))
            # the same history with the caller reusing one time buffer (and one schedule buffer) per length, refilled in place
            # before each simulate call: what is stored and returned must still be the latest simulation's
            if sum(1 for op in h if op[0] <= 1) >= 2:
                outs_b, state_b = run_history(env, h, shared_buffers=True)
                msg_b = compare(env, h, sym, outs_b, state_b)
                total += 1
                if msg_b and nviol_b < 3:
                    nviol_b += 1
                    ctx.violations.append(dict(what=f"{cls.__name__} (caller refills and reuses the same time array between simulate calls): {msg_b}", key=cls.__name__ + "buf" + msg_b[:40],
                                               input=dict(cls=cls.__name__, history=h, caller_reuses_buffers=True), observed=msg_b))
            if any(op[0] in (2, 3) for op in h[:-1]) and nviol_m < 3:
                outs_m, state_m = run_history(env, h, caller_scales_results=True)
                msg_m = compare(env, h, sym, outs_m, state_m)
                total += 1
                if msg_m:
                    nviol_m += 1
                    ctx.violations.append(dict(what=f"{cls.__name__} (the caller scales every recovery array it is handed in place, rf *= 100): {msg_m}", key=cls.__name__ + "scaled" + msg_m[:40],
                                               input=dict(cls=cls.__name__, history=h, caller_scales_returned_arrays_in_place=True), observed=msg_m))
            if sum(1 for op in h if op[0] <= 1) >= 2 and nviol_k < 3:
                msg_k = kept_outputs_stable(env, h)
                total += 1
                if msg_k:
                    nviol_k += 1
                    ctx.violations.append(dict(what=f"{cls.__name__}: {msg_k}", key=cls.__name__ + "kept", input=dict(cls=cls.__name__, history=h, outputs_kept_without_copy=True), observed=msg_k))
            # repeating the last call returns the same result
            if h[-1][0] >= 2:
                o2, _ = run_history(env, h + [h[-1]])
                a, b = o2[-2], o2[-1]
                if not ((isinstance(a, str) and a == b) or same(a, b)):
                    ctx.violations.append(dict(what=f"{cls.__name__}: repeating a call with the same arguments returns a different result",
                                               key="repeat" + cls.__name__, input=dict(cls=cls.__name__, history=h + [h[-1]]), observed="differs"))
        # the fresh-object references used above, recomputed in pristine interpreter processes (a few keys of each kind)
        keys = sorted(env.cache, key=str)
        pick = [k_ for k_ in keys if k_[0] == "f"][:2] + [k_ for k_ in keys if k_[0] == "r"][:: max(1, len([k_ for k_ in keys if k_[0] == "r"]) // 3)][:3]
        for key in pick:
            ref = pristine_reference(ctx, cls.__name__, key)
            if ref is not None and not np.array_equal(ref, np.asarray(env.cache[key], float).ravel(), equal_nan=True):
                ctx.violations.append(dict(what=f"{cls.__name__}: a fresh object's result depends on what other objects did earlier in the process "
                                                "(it differs from the same computation in a new interpreter)", key="process-state" + cls.__name__,
                                           input=dict(cls=cls.__name__, computation=list(key)), observed="differs"))
        ctx.cov["pristine_process_references"] = ctx.cov.get("pristine_process_references", 0) + len(pick)
        ctx.samples.append(dict(cls=cls.__name__, history=hs[len(hs) // 2], model_outputs=syms[len(hs) // 2]))
    ctx.cov.update(evaluations=total, distinct_nontrivial=total, exhaustive_up_to_length=dict(IdealReservoir=3 if ctx.quick else 5, SinglePhaseReservoir=3 if ctx.quick else 4),
                   rule="all histories up to the stated length over {simulate(A), simulate(B same length), simulate(C other length), "
                        "rf, rfd, interpolator} (+ simulate with schedules for the single-phase class), plus random longer histories; "
                        "for each, the Coq state machine (symbolic instance, vm_compute) says which fresh-object computation each "
                        "output and the final time/field/cache must equal; arrays are compared for exact equality",
                   op_codes="[0,g] simulate(grid g); [1,g,s] simulate(grid g, schedule s); [2] rf; [3] rfd; [4] interpolator; [5,g] simulate(grid g, inadmissible argument) - raises, must change nothing")


def replay(payload):
    print(json.dumps(payload["input"]))
    return 0
