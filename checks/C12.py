"""C12 - black-oil correlations are continuous and correctly ordered at the bubble point."""
import json
import math

import numpy as np

from vlib import core, dom

ID = "C12"
GEN = ["gas", "oil"]
PROPS = ["C12_blackoil.v", "C12_spivey.v", "C12_viscosity.v", "C12_continuity.v", "C12_arrays.v"]


def run(ctx):
    from bluebonnet.fluids import oil
    core.coq_phase(ctx, GEN, PROPS)
    rng = dom.rng_for(ctx, 12)
    n = 150 if ctx.quick else 3000
    npr = 40 if ctx.quick else 120
    ev = 0
    goals = []

    def bad(what, inp, obs):
        ctx.violations.append(dict(what=what, key=what, input=inp, observed=obs))

    k7 = [e for e in core.known_findings(ID) if e["status"] == "known" and e.get("key") == "K7-standing-undersat-compressibility-pole"]
    k7_hits = []
    for k in range(n):
        T, api, gg, rsi, pb = dom.oil_params(rng, edge=True)
        inp = dict(T=T, api=api, gg=gg, Rsi=rsi, pb=pb)
        f = lambda name, p: float(getattr(oil, name)(T, p, api, gg, rsi))
        lo, hi = float(np.nextafter(pb, 0)), float(np.nextafter(pb, 1e9))
        # continuity at the bubble point (values just below / at / just above)
        for name, tol in (("solution_gor_Standing", 1e-9), ("b_o_Standing", 1e-9), ("density_Standing", 1e-9), ("viscosity_beggs_robinson", 1e-9)):
            a, b, c = f(name, lo), f(name, pb), f(name, hi)
            ev += 1
            if not (dom.relclose(a, b, tol) and dom.relclose(b, c, tol)):
                bad(f"{name} is discontinuous at the bubble point", inp, dict(below=a, at=b, above=c))
        ps = np.unique(np.concatenate([np.linspace(15.0, pb, npr)[:-1], [lo, pb, hi], np.linspace(pb, 2.5 * pb, npr)[1:]]))
        gor = np.array([f("solution_gor_Standing", float(p)) for p in ps])
        bo = np.array([f("b_o_Standing", float(p)) for p in ps])
        mu = np.array([f("viscosity_beggs_robinson", float(p)) for p in ps])
        co = np.array([float(oil.oil_compressibility_undersat_Spivey(T, float(p), api, gg, rsi)) for p in ps[ps >= pb]])
        ev += 4 * len(ps)
        below, above = ps < pb, ps >= pb
        if np.any(np.diff(gor) < -1e-9 * rsi):
            bad("solution GOR decreases with pressure", inp, float(np.diff(gor).min()))
        if np.any(gor[above] != rsi):
            bad("solution GOR differs from the initial GOR at/above the bubble point", inp, [float(x) for x in gor[above][:3]])
        # inverse relation below the bubble point
        for p, g_ in list(zip(ps[below], gor[below]))[:: max(1, len(ps) // 10)]:
            back = float(oil.pressure_bubblepoint_Standing(T, api, gg, float(g_)))
            ev += 1
            if not dom.relclose(back, float(p), 1e-9, 1e-9):
                bad("solution GOR does not invert the bubble-point correlation below the bubble point", dict(**inp, p=float(p)), dict(gor=float(g_), pb_of_gor=back))
        # a ladder of pressures approaching the bubble point from below, one per decade of relative distance (1e-2 ... 1e-12): the
        # saturated branch is the inverse of the bubble-point correlation all the way up, and FVF / viscosity keep moving
        lad_p = [pb * (1 - 10.0 ** (-e_)) for e_ in range(2, 13)]
        lad_g = [f("solution_gor_Standing", q_) for q_ in lad_p]
        lad_b = [f("b_o_Standing", q_) for q_ in lad_p]
        lad_m = [f("viscosity_beggs_robinson", q_) for q_ in lad_p]
        ev += 3 * len(lad_p)
        for e_, q_, g_ in zip(range(2, 13), lad_p, lad_g):
            back = float(oil.pressure_bubblepoint_Standing(T, api, gg, float(g_)))
            if not dom.relclose(back, q_, 1e-12):
                bad("solution GOR does not invert the bubble-point correlation just below the bubble point", dict(**inp, p=q_, relative_distance_below_pb=10.0 ** (-e_)), dict(gor=float(g_), pb_of_gor=back, rel_error=abs(back / q_ - 1)))
                break
        for i_ in range(len(lad_p) - 5):      # distances 1e-2 ... 1e-8: consecutive decades differ by far more than rounding
            if not (lad_b[i_ + 1] > lad_b[i_] and lad_m[i_ + 1] < lad_m[i_] and lad_g[i_ + 1] > lad_g[i_]):
                bad("GOR / oil FVF do not strictly rise, or viscosity does not strictly fall, between pressures one decade of relative distance apart below the bubble point",
                    dict(**inp, p_low=lad_p[i_], p_high=lad_p[i_ + 1]), dict(gor=[lad_g[i_], lad_g[i_ + 1]], Bo=[lad_b[i_], lad_b[i_ + 1]], viscosity=[lad_m[i_], lad_m[i_ + 1]]))
                break
        if np.any(np.diff(bo[ps <= pb]) < -1e-12):
            bad("oil FVF does not rise with pressure up to the bubble point", inp, float(np.diff(bo[ps <= pb]).min()))
        if np.any(np.diff(bo[above]) > 1e-12):
            bad("oil FVF does not fall with pressure above the bubble point", inp, float(np.diff(bo[above]).max()))
        if np.any(np.diff(mu[ps <= pb]) > 1e-12 * mu.max()):
            bad("oil viscosity does not fall with pressure below the bubble point", inp, float(np.diff(mu[ps <= pb]).max()))
        if not (np.all(co > 0) and np.all(np.isfinite(co)) and np.all(mu > 0) and np.all(np.isfinite(mu))):
            bad("undersaturated compressibility / viscosity is not positive", inp, dict(co_min=float(co.min()), mu_min=float(mu.min())))
        # the library's OTHER undersaturated-compressibility correlation (Standing's; unused by the package): positive and finite too -
        # except next to its pole at p - p_b = 18117.9 psi, which is known finding K7
        for p_u in [float(x) for x in np.linspace(pb, 2.5 * pb, 9)[1:]]:
            ev += 1
            try:
                cs = float(oil.oil_compressibility_undersat_Standing(T, p_u, api, gg, rsi))
                ok_u = math.isfinite(cs) and 0 < cs < 1e-2
            except OverflowError:
                cs, ok_u = "OverflowError", False
            if not ok_u:
                if k7 and p_u - pb >= 13000.0:
                    k7_hits.append((T, api, gg, rsi, p_u))
                else:
                    bad("undersaturated compressibility (Standing's correlation) is not a positive finite number", dict(**inp, p=p_u, p_minus_pb=p_u - pb), cs)
        # the same clauses when the pressures come as an array (integer grids, float32, strided views): C12_arrays.v
        if k % 3 == 0 and pb > 60:
            grid = np.unique(np.concatenate([np.arange(15, int(2.5 * pb) + 1, max(1, int(pb) // 60)), [int(pb), int(pb) + 1]]))
            for arr in (grid.astype(np.int64), grid.astype(np.int32), grid.astype(np.float32), np.repeat(grid.astype(np.int64), 2)[::2]):
                # the GOR as float, Python int, numpy int - and, for float32 pressures, as a NumPy double / 0-d array (an element of a
                # DataFrame column): a double that float32 cannot hold exactly must not change which branch an entry takes
                rsi_in = [rsi, int(round(rsi)), np.int64(round(rsi))][k // 3 % 3]
                if arr.dtype == np.float32:
                    rsi_in = [np.float64(rsi), np.array(rsi), rsi][k // 3 % 3]
                inp_a = dict(**inp, dtype=str(arr.dtype), Rsi_passed_as=type(rsi_in).__name__, n=len(arr), first=int(arr[0]), last=int(arr[-1]))
                pb_a = float(oil.pressure_bubblepoint_Standing(T, api, gg, rsi_in))
                ga = np.asarray(oil.solution_gor_Standing(T, arr, api, gg, rsi_in))
                ba = np.asarray(oil.b_o_Standing(T, arr, api, gg, rsi_in))
                pa = arr.astype(float)
                ev += 2
                if ga.shape != arr.shape or ba.shape != arr.shape or not np.issubdtype(ga.dtype, np.floating) or not np.issubdtype(ba.dtype, np.floating):
                    bad("array call does not return a floating array of the input's shape", inp_a, dict(gor_dtype=str(ga.dtype), bo_dtype=str(ba.dtype)))
                    continue
                eps = 4 * float(np.finfo(ga.dtype).eps)
                ab, be = pa >= pb_a, pa < pb_a
                if np.any(np.abs(ga[ab] - float(rsi_in)) > eps * float(rsi_in)):
                    bad("solution GOR differs from the initial GOR at/above the bubble point (array argument)", inp_a, [float(x) for x in ga[ab][:3]])
                if np.any(np.diff(ga) < -eps * float(rsi_in)):
                    bad("solution GOR decreases with pressure (array argument)", inp_a, float(np.diff(ga).min()))
                for p_, g_ in list(zip(pa[be], ga[be]))[:: max(1, int(be.sum()) // 8)]:
                    back = float(oil.pressure_bubblepoint_Standing(T, api, gg, float(g_)))
                    if not dom.relclose(back, float(p_), max(1e-9, 40 * eps), 1e-6):
                        bad("solution GOR does not invert the bubble-point correlation below the bubble point (array argument)", dict(**inp_a, p=float(p_)), dict(gor=float(g_), pb_of_gor=back))
                        break
                sb = ba[pa <= pb_a]
                if len(sb) > 1 and np.any(np.diff(sb) <= 0 if ga.dtype == np.float64 else np.diff(sb) < -eps):
                    bad("oil FVF does not rise with pressure up to the bubble point (array argument)", inp_a, float(np.diff(sb).min()))
                ua = ba[pa > pb_a * (1 + 1e-6)]
                if len(ua) > 1 and np.any(np.diff(ua) >= 0 if ga.dtype == np.float64 else np.diff(ua) > eps):
                    bad("oil FVF does not fall with pressure above the bubble point (array argument)", inp_a, float(np.diff(ua).max()))
                pick = np.unique(np.concatenate([[0, len(arr) - 1], np.nonzero(ab)[0][:3], np.nonzero(ab)[0][-2:], np.nonzero(be)[0][-2:]])).astype(int)
                bs = np.array([float(oil.b_o_Standing(T, float(pa[j_]), api, gg, float(rsi_in))) for j_ in pick])
                if not np.allclose(np.asarray(ba, float)[pick], bs, rtol=max(1e-12, 8 * eps), atol=0):
                    j_ = int(pick[np.argmax(np.abs(np.asarray(ba, float)[pick] / bs - 1))])
                    bad("oil FVF of a pressure array differs from the scalar value at the same pressure (array argument, GOR passed as " + type(rsi_in).__name__ + ")", dict(**inp_a, p=float(pa[j_])),
                        dict(array_value=float(ba[j_]), scalar_value=float(oil.b_o_Standing(T, float(pa[j_]), api, gg, float(rsi_in)))))
                # the same pressures listed in another order (a depletion history runs from high to low pressure): every entry keeps its value
                for how, perm in (("descending", np.arange(len(arr))[::-1]), ("shuffled", rng.permutation(len(arr)))):
                    arr_p = arr[perm].copy()
                    gp = np.asarray(oil.solution_gor_Standing(T, arr_p, api, gg, rsi_in))
                    bp = np.asarray(oil.b_o_Standing(T, arr_p, api, gg, rsi_in))
                    dp_ = np.asarray(oil.density_Standing(T, arr_p, api, gg, rsi_in))
                    d_asc = np.asarray(oil.density_Standing(T, arr, api, gg, rsi_in))
                    ev += 1
                    if not (np.array_equal(gp, ga[perm]) and np.array_equal(bp, ba[perm]) and np.array_equal(dp_, d_asc[perm])):
                        bad("solution GOR / oil FVF / density of a pressure array depend on the ORDER in which the pressures are listed "
                            "(the ordering clauses about the bubble point fail for a depletion history)", dict(**inp_a, order=how),
                            dict(max_rel_diff_Bo=float(np.nanmax(np.abs(bp / ba[perm] - 1))), max_rel_diff_gor=float(np.nanmax(np.abs(gp / ga[perm] - 1)))))
                        break
        # scalar pressures in the other forms a caller may use (numpy scalars, 0-d and one-element arrays, ints, float32)
        if k % 10 == 4:
            rep = lambda what, i_, got_, want_: bad(what, i_, dict(got=got_, expected=want_))
            for pin in (float(int(0.6 * pb)) if 0.6 * pb > 16 else None, float(int(1.7 * pb))):
                if pin is None or abs(pin - pb) < 1.5:
                    continue
                for name in ("solution_gor_Standing", "b_o_Standing", "density_Standing", "viscosity_beggs_robinson"):
                    ev += dom.check_forms(lambda q, name=name: getattr(oil, name)(T, q, api, gg, rsi), pin, dom.SCALAR_FORMS + dom.ARRAY1_FORMS, rep, "oil." + name, inp)
            # several pressures on both sides of the bubble point, held as a 2-D field, as table columns with their own labels
            # (a frame sorted by decreasing pressure keeps its permuted labels), as unsigned / read-only / strided arrays
            ps_int = [max(16, int(0.3 * pb)), int(0.9 * pb) + 1, int(1.5 * pb) + 1, int(2.4 * pb) + 1, max(17, int(0.5 * pb)), int(1.1 * pb) + 2]
            for name in ("solution_gor_Standing", "b_o_Standing", "density_Standing"):
                ev += dom.check_vector_forms(lambda q, name=name: getattr(oil, name)(T, q, api, gg, rsi), ps_int, rep, "oil." + name, inp)
        if k < (4 if ctx.quick else 25):
            fa = lambda *xs: " ".join(core.frac(float(x)) for x in xs)
            for p in (float(rng.uniform(15, 0.97 * pb)), float(rng.uniform(1.03 * pb, 2.5 * pb))):
                for name in ("solution_gor_Standing", "b_o_Standing", "viscosity_beggs_robinson", "oil_compressibility_undersat_Spivey"):
                    if name.endswith("Spivey") and p < pb:
                        continue
                    goals.append(dict(expr=f"Gen_oil.{name} {fa(T, p, api, gg, rsi)}", value=float(getattr(oil, name)(T, p, api, gg, rsi)),
                                      rtol=1e-8, atol=1e-300, label=f"oil.{name}{(T, p, api, gg, rsi)}"))
            goals.append(dict(expr=f"Gen_oil.pressure_bubblepoint_Standing {fa(T, api, gg, rsi)}", value=pb, label="pressure_bubblepoint_Standing"))
    for g in goals:
        g["unfold"] = core.gen_names(GEN)
    core.cert_phase(ctx, goals, ["Gen_gas", "Gen_oil"])
    if k7:
        w7 = k7[0]["witness"]
        try:
            v7 = float(oil.oil_compressibility_undersat_Standing(w7["T"], w7["p"], w7["api"], w7["gg"], w7["Rsi"]))
        except OverflowError:
            v7 = float("inf")
        if not (0 < v7 < 1e-2):
            ctx.known_printed.append(k7[0]["line"])
            ctx.notes.append(f"known finding K7 reproduced on its witness (value {v7}); {len(k7_hits)} sampled evaluations showed it")
    # ---------------- very long pressure arrays (a 300 x 500 grid of cell pressures, flattened; a year of one-minute gauge data): more
    # than 65 536 entries above the bubble point in ONE call - every entry, the last ones included, has its own value
    for nlong in ((150001, 150002, 196613) if ctx.quick else (70001, 150001, 150002, 150003, 196613, 262147, 262148)):
        T, api, gg, rsi, pb = dom.oil_params(rng)
        pl = np.linspace(15.0, 2.5 * pb, nlong)
        sub = np.unique(np.concatenate([[0, 1, nlong - 3, nlong - 2, nlong - 1], rng.choice(nlong, 60, replace=False), np.searchsorted(pl, pb) + np.arange(-2, 3)]))
        sub = sub[(sub >= 0) & (sub < nlong)]
        for name in ("b_o_Standing", "density_Standing"):
            ev += 1
            got_l = np.asarray(getattr(oil, name)(T, pl, api, gg, rsi), float)
            want_l = np.array([float(getattr(oil, name)(T, float(pl[j_]), api, gg, rsi)) for j_ in sub])
            inp_l = dict(function="oil." + name, T=T, api=api, gg=gg, Rsi=rsi, pb=pb, pressures=f"linspace(15, 2.5 pb, {nlong})")
            if got_l.shape != pl.shape or not np.allclose(got_l[sub], want_l, rtol=1e-10, atol=0):
                bad_at = int(sub[np.argmax(np.abs(got_l[sub] / want_l - 1))]) if got_l.shape == pl.shape else -1
                bad(f"oil.{name} on a very long pressure array differs from the scalar call at some entries", dict(**inp_l, index=bad_at, pressure=float(pl[bad_at])),
                    dict(array_value=float(got_l[bad_at]) if bad_at >= 0 else "shape", scalar_value=float(getattr(oil, name)(T, float(pl[bad_at]), api, gg, rsi)) if bad_at >= 0 else None))
            above = pl > pb
            if name == "b_o_Standing" and got_l.shape == pl.shape and np.diff(got_l[above]).max() > 0:
                j_ = int(np.argmax(np.diff(got_l[above])))
                bad("oil formation volume factor does not fall with pressure above the bubble point (very long pressure array)", dict(**inp_l, pressure=float(pl[above][j_])),
                    dict(Bo=float(got_l[above][j_]), Bo_next=float(got_l[above][j_ + 1])))
    ctx.cov.update(evaluations=ev, distinct_nontrivial=n,
                   rule="oils from the box T 80..350, API 12..55, gas gravity 0.56..1.3, GOR 20..2500 with p_b > 50 (incl. box corners); "
                        "pressures 15 psia..2.5 p_b on a grid plus p_b and its two float neighbours")
    ctx.validated_only += [
                           "behaviour decided by float rounding exactly at p_b (exercised with nextafter neighbours)"]
    ctx.samples.append(dict(T=T, api=api, gg=gg, Rsi=rsi, pb=pb))


def replay(payload):
    print(json.dumps(payload.get("input")), json.dumps(payload.get("observed"), default=str))
    return 0
