"""C05 - forecast scaling law, bounded fitting and parameter round-trip."""
import json
import math
import warnings

import numpy as np

from vlib import core, dom

ID = "C05"
GEN = ["forecast", "reservoir"]
PROPS = ["C05_forecast.v", "C05_interpolator.v", "C05_signatures.v", "C05_fit_scaling.v"]


def curves(rng):
    """recovery curves: analytic, ideal-gas simulation, real-gas simulation (as interpolators)"""
    from scipy.interpolate import interp1d
    from vlib import rescorr
    out = {"analytic": lambda ts: 0.6 * (1 - np.exp(-np.sqrt(np.maximum(ts, 0)) * 1.3 - 0.7 * np.maximum(ts, 0)))}
    t = np.concatenate([[0.0], np.geomspace(1e-6, 40.0, 200)])
    for name, case in (("ideal", dict(kind="ideal", pi=8000.0, pf=1000.0, nx=30, times=t)),
                       ("real gas", dict(kind="single", table=rescorr.shipped_gas(stride=8), pi=8000.0, pf=1000.0, nx=30, times=t))):
        im = rescorr.run_impl(case)
        rf = im["rf"]
        out[name] = interp1d(t, rf, bounds_error=False, fill_value=(0, rf[-1]))
        if name == "ideal":
            # the caller's own curve objects of other kinds over a coarse table of the same recovery: the forecaster must CALL the curve
            # it was given (its kind and its out-of-range behaviour are part of the curve)
            tc = np.concatenate([[0.0], np.geomspace(1e-4, 40.0, 24)])
            rc = np.interp(tc, t, rf)
            out["ideal, cubic interp1d"] = interp1d(tc, rc, kind="cubic", bounds_error=False, fill_value=(0, rc[-1]))
            out["ideal, previous-value interp1d"] = interp1d(tc, rc, kind="previous", bounds_error=False, fill_value=(0, rc[-1]))
            out["ideal, linear interp1d extrapolating"] = interp1d(tc[:-6], rc[:-6], fill_value="extrapolate")
    return out


def run(ctx):
    from bluebonnet.forecast import Bounds, ForecasterOnePhase
    core.coq_phase(ctx, GEN, PROPS)
    rng = dom.rng_for(ctx, 5)
    crv = curves(rng)
    n = 20 if ctx.quick else 300
    ev = 0

    def bad(what, inp, obs):
        ctx.violations.append(dict(what=what, key=what, input=inp, observed=obs))

    k6_main = [e for e in core.known_findings(ID) if e["status"] == "known" and e.get("key") == "K6-small-M-round-trip"]
    k6_band_hits = []
    for k in range(n):
        cname = list(crv)[k % len(crv)]
        rf = crv[cname]
        # (every third case: the whole range of units a caller may use - scf .. Tcf, seconds .. years; fixed 2026-10, ea995a1: outside
        # samples x M^2 / tau >= 1e-3 and M < 1e10 the optimiser's unscaled stopping rules used to stop at, or one step from, the initial guess)
        M = dom.loguniform(rng, 1e-2, 1e6) if k % 3 else dom.loguniform(rng, 1e-9, 1e14)
        tau = dom.loguniform(rng, 1e-1, 1e5) if k % 3 else dom.loguniform(rng, 1e-3, 1e7)
        t = np.sort(rng.uniform(0, 3 * tau, 40))
        f = ForecasterOnePhase(rf)
        base = np.asarray(f.forecast_cum(t, M, tau), float)
        inp = dict(curve=cname, M=M, tau=tau)
        ev += 1
        if not np.allclose(base, M * np.asarray(rf(t / tau), float), rtol=1e-12, atol=0):
            bad("forecast is not M times the recovery curve at time/tau", inp, "mismatch")
        a, c = float(rng.uniform(0.1, 9)), dom.loguniform(rng, 1e-3, 1e3)
        if not np.allclose(np.asarray(f.forecast_cum(t, a * M, tau), float), a * base, rtol=1e-12):
            bad("forecast is not linear in M", inp, "mismatch")
        if not np.allclose(np.asarray(f.forecast_cum(c * t, M, c * tau), float), base, rtol=1e-9, atol=1e-12 * M):
            bad("forecast changes when time and tau are rescaled together", dict(**inp, c=c), float(np.abs(np.asarray(f.forecast_cum(c * t, M, c * tau)) - base).max()))
        # ---------------- round trip: window ending in [0.6 tau, 3 tau], >= 50 samples
        end = float(rng.uniform(0.6, 3.0)) * tau
        tt = np.linspace(end / 60, end, int(rng.integers(50, 120)))
        y = np.asarray(f.forecast_cum(tt, M, tau), float)
        kind = k % 3
        if kind == 0:
            b = Bounds(M=(M / float(rng.uniform(2, 50)), M * float(rng.uniform(2, 50))), tau=(tau / float(rng.uniform(2, 50)), tau * float(rng.uniform(2, 50))))
        elif kind == 1:
            b = Bounds(M=(0, np.inf), tau=(tau / 30, np.inf))
        else:
            b = None
        fit = ForecasterOnePhase(rf, b) if b is not None else ForecasterOnePhase(rf)
        try:
            with warnings.catch_warnings():
                warnings.simplefilter("ignore")
                fit.fit(tt, y)
        except Exception as e:  # noqa: BLE001
            bad("fit raises on noise-free data generated from the same curve", dict(**inp, window_end=end), repr(e)[:200])
            continue
        ev += 1
        bb = b if b is not None else fit.bounds
        if not (bb.M[0] <= fit.M_ <= bb.M[1] and bb.tau[0] <= fit.tau_ <= bb.tau[1]):
            bad("fitted M / tau lie outside the configured bounds", dict(**inp, bounds=dict(M=list(bb.M), tau=list(bb.tau))), dict(M=float(fit.M_), tau=float(fit.tau_)))
        # optimiser tolerance, not rounding.  On windows that barely reach boundary-dominated flow M and tau trade off along
        # a flat valley and curve_fit (default tolerances, finite-difference Jacobian across the kinks of an interpolated
        # curve) can stop up to ~3e-3 away while reproducing the data to 3e-4 of their maximum (1 case in ~300, DESIGN
        # 11.9): accept up to 1e-2 when the fitted curve is indistinguishable from the data.
        yh = np.asarray(f.forecast_cum(tt, fit.M_, fit.tau_), float)
        misfit = float(np.abs(yh - y).max() / y.max())
        close = dom.relclose(fit.M_, M, 2e-3) and dom.relclose(fit.tau_, tau, 2e-3)
        if not close and misfit <= 1e-3:
            close = dom.relclose(fit.M_, M, 1e-2) and dom.relclose(fit.tau_, tau, 1e-2)
        # (the recovery clause is about curves that determine M and tau: a piecewise-constant or coarse cubic / extrapolated user curve
        # does not - for those only containment in the bounds, above, and the supplied-tau optimum, below, are required)
        if not close and "interp1d" not in cname and k6_main and (len(tt) * M * M / tau < 1e-3 or M >= 1e10):
            k6_band_hits.append((M, tau, len(tt)))     # known finding K6: the optimiser's unscaled stopping rules (see below)
        elif not close and "interp1d" not in cname:
            bad("fitting noise-free production generated from the same curve does not recover M and tau", dict(**inp, window_end_over_tau=end / tau, samples=len(tt), bounds=kind),
                dict(M=float(fit.M_), tau=float(fit.tau_)))
        # ---------------- the same history held as a numpy masked array with a few entries masked (a gauge file read with usemask=True; the
        # numbers under the mask are still the production): fitted like the plain array of the same numbers
        if k < (6 if ctx.quick else 60) and "interp1d" not in cname:
            msk = np.zeros(len(y), bool)
            msk[[1, len(y) // 2]] = True
            fm_, fp_ = ForecasterOnePhase(rf), ForecasterOnePhase(rf)
            ev += 1
            try:
                with warnings.catch_warnings():
                    warnings.simplefilter("ignore")
                    fp_.fit(tt, y.copy())
                    fm_.fit(tt, np.ma.masked_array(y.copy(), mask=msk))
                if not (dom.relclose(fm_.M_, fp_.M_, 1e-6) and dom.relclose(fm_.tau_, fp_.tau_, 1e-6)):
                    bad("a production history given as a masked array is fitted differently from the plain array of the same numbers", dict(**inp, samples=len(tt), masked_entries=[1, len(y) // 2]),
                        dict(M_masked=float(fm_.M_), tau_masked=float(fm_.tau_), M_plain=float(fp_.M_), tau_plain=float(fp_.tau_)))
            except Exception as e:  # noqa: BLE001
                bad("fit fails on a production history given as a masked array", dict(**inp, samples=len(tt)), repr(e)[:200])
        # ---------------- explicit arguments always win over fitted attributes, at the ends of the admissible range too
        # (M = 0 is the lower end of the default bounds: the forecast is identically zero)
        M2, tau2 = float(M * rng.uniform(0.3, 3)), float(tau * rng.uniform(0.3, 3))
        for who, fo in (("fitted forecaster", fit), ("unfitted forecaster", f)):
            for Mx, taux in ((M2, tau2), (0.0, tau2), (0, tau2)):
                ev += 1
                try:
                    got_x = np.asarray(fo.forecast_cum(tt, Mx, taux), float)
                except Exception as e:  # noqa: BLE001
                    bad("forecast_cum with explicit M and tau fails", dict(**inp, who=who, M_given=Mx, tau_given=taux), repr(e)[:160])
                    continue
                want_x = float(Mx) * np.asarray(rf(tt / taux), float)
                if not np.allclose(got_x, want_x, rtol=1e-12, atol=0):
                    bad("forecast with explicitly given M and tau is not M times the recovery curve at time/tau", dict(**inp, who=who, M_given=Mx, tau_given=taux),
                        dict(max_abs_diff=float(np.abs(got_x - want_x).max()), fitted_M=float(getattr(fo, "M_", float("nan")))))
        # ---------------- supplied tau: returned unchanged, M the bounded least-squares optimum
        tau_given = tau * float(rng.uniform(0.5, 2.0))
        lo, hi = (M * 0.2, M * 0.9) if k % 2 else (M / 50, M * 50)
        fit2 = ForecasterOnePhase(rf, Bounds(M=(lo, hi), tau=(tau / 100, tau * 100)))
        with warnings.catch_warnings():
            warnings.simplefilter("ignore")
            fit2.fit(tt, y, tau=tau_given)
        r = np.asarray(rf(tt / tau_given), float)
        mstar = min(max(float(r @ y / (r @ r)), lo), hi)
        ev += 1
        # a supplied tau that lies OUTSIDE the configured tau bounds is still the user's choice
        for tg in (tau * 3.0, tau / 4.0):
            fit3 = ForecasterOnePhase(rf, Bounds(M=(M / 50, M * 50), tau=(tau / 2, tau * 2)))
            with warnings.catch_warnings():
                warnings.simplefilter("ignore")
                fit3.fit(tt, y, tau=tg)
            r3 = np.asarray(rf(tt / tg), float)
            m3 = min(max(float(r3 @ y / (r3 @ r3)), M / 50), M * 50)
            ev += 1
            if fit3.tau_ != tg or not dom.relclose(float(fit3.M_), m3, 1e-4):
                bad("a supplied tau (outside the configured tau bounds) is not returned unchanged with M the bounded least-squares optimum for it",
                    dict(**inp, tau_given=tg, tau_bounds=[tau / 2, tau * 2]), dict(tau=float(fit3.tau_), M=float(fit3.M_), optimum=m3))
        if fit2.tau_ != tau_given:
            bad("a supplied tau is not returned unchanged", dict(**inp, tau_given=tau_given), float(fit2.tau_))
        if not dom.relclose(float(fit2.M_), mstar, 1e-4):  # the trust-region solver stops a hair inside an active bound
            bad("with tau supplied, M is not the bounded least-squares optimum (clipped sum(r y)/sum(r r))", dict(**inp, tau_given=tau_given, bounds=[lo, hi]),
                dict(M=float(fit2.M_), optimum=mstar))
    # ---------------- long, noisy histories (hourly data over years): with tau supplied, M is the bounded least-squares optimum of ALL
    # the samples handed in (closed form); a free fit agrees with an independent least-squares solve over all samples
    for k, nlong in enumerate((25000, 60000) if ctx.quick else (12000, 25000, 60000, 130000)):
        rf = crv["ideal"]
        M, tau = dom.loguniform(rng, 1e2, 1e5), dom.loguniform(rng, 50.0, 5e3)
        tt = np.linspace(tau / 200, 1.8 * tau, nlong)
        r = np.asarray(rf(tt / tau), float)
        y = M * r * (1 + 0.02 * rng.standard_normal(nlong))
        fo = ForecasterOnePhase(rf, Bounds(M=(M / 50, M * 50), tau=(tau / 50, tau * 50)))
        with warnings.catch_warnings():
            warnings.simplefilter("ignore")
            fo.fit(tt, y, tau=tau)
        mstar = min(max(float(r @ y / (r @ r)), M / 50), M * 50)
        ev += 1
        if fo.tau_ != tau or not dom.relclose(float(fo.M_), mstar, 2e-6):
            bad("with tau supplied, M is not the bounded least-squares optimum over all the samples handed in (long noisy history)", dict(curve="ideal", M=M, tau=tau, samples=nlong, noise="2 % multiplicative"),
                dict(M=float(fo.M_), optimum=mstar, rel_diff=abs(float(fo.M_) / mstar - 1)))
    # ---------------- round trip for very small and very large resources in place (M from 1e-9 to 1e-4 and 1e11 to 1e13 in the caller's
    # units): finding K6, repaired by ea995a1 (curve_fit's absolute tolerances stopped at the initial guess); the K6 branches below are
    # active only while known_findings.json lists K6 as known
    k6 = [e for e in core.known_findings(ID) if e["status"] == "known" and e.get("key") == "K6-small-M-round-trip"]
    k6_hits = 0
    for k in range(12 if ctx.quick else 80):
        rf = crv["analytic"]
        M, tau = dom.loguniform(rng, 1e-9, 1e-4), dom.loguniform(rng, 1.0, 1e4)
        if k % 4 == 3:
            M, tau = dom.loguniform(rng, 1e11, 1e13), dom.loguniform(rng, 1.0, 30.0)     # the other end: a step of O(1) in tau is "small" next to M
        tt = np.linspace(tau / 40, float(rng.uniform(0.8, 2.5)) * tau, int(rng.integers(50, 100)) if k % 4 != 3 else 5000)
        y = M * np.asarray(rf(tt / tau), float)
        fo = ForecasterOnePhase(rf)
        ev += 1
        try:
            with warnings.catch_warnings():
                warnings.simplefilter("ignore")
                fo.fit(tt, y)
        except Exception as e:  # noqa: BLE001
            bad("fit raises on noise-free data generated from the same curve (small resource in place)", dict(curve="analytic", M=M, tau=tau), repr(e)[:200])
            continue
        ok6 = dom.relclose(fo.M_, M, 2e-3) and dom.relclose(fo.tau_, tau, 2e-3)
        inside6 = fo.bounds.M[0] <= fo.M_ <= fo.bounds.M[1] and fo.bounds.tau[0] <= fo.tau_ <= fo.bounds.tau[1]
        if not inside6:
            bad("fitted M / tau lie outside the configured bounds", dict(curve="analytic", M=M, tau=tau), dict(M=float(fo.M_), tau=float(fo.tau_)))
        elif not ok6 and k6 and (M < 3e-3 or M >= 1e10):
            k6_hits += 1
        elif not ok6:
            bad("fitting noise-free production generated from the same curve does not recover M and tau", dict(curve="analytic", M=M, tau=tau), dict(M=float(fo.M_), tau=float(fo.tau_)))
    w6x = dict(M=1e-4, tau=300.0)
    fwx = ForecasterOnePhase(crv["analytic"])
    twx = np.linspace(7.5, 450, 80)
    with warnings.catch_warnings():
        warnings.simplefilter("ignore")
        fwx.fit(twx, w6x["M"] * np.asarray(crv["analytic"](twx / w6x["tau"]), float))
    ev += 1
    if not k6 and not (dom.relclose(fwx.M_, w6x["M"], 2e-3) and dom.relclose(fwx.tau_, w6x["tau"], 2e-3)):
        bad("fitting noise-free production generated from the same curve does not recover M and tau (resource in place of 1e-4 in the caller's units)",
            dict(curve="analytic", M=w6x["M"], tau=w6x["tau"], times="linspace(7.5, 450, 80)"), dict(M=float(fwx.M_), tau=float(fwx.tau_)))
    if k6:
        w6 = k6[0]["witness"]
        rfw = crv["analytic"]
        tw = np.linspace(7.5, 450, 80)
        fw = ForecasterOnePhase(rfw)
        with warnings.catch_warnings():
            warnings.simplefilter("ignore")
            fw.fit(tw, w6["M"] * np.asarray(rfw(tw / w6["tau"]), float))
        if not dom.relclose(fw.M_, w6["M"], 1e-2):
            ctx.known_printed.append(k6[0]["line"])
            ctx.notes.append(f"known finding K6 reproduced on its witness (fitted M {fw.M_ / w6['M']:.3g} x, tau {fw.tau_ / w6['tau']:.3g} x the generating values); {k6_hits + len(k6_band_hits)} sampled fits showed it")
    # ---------------- the lookup object the library itself hands to the forecaster (recovery_factor_interpolator; tie 1:
    # C05_interpolator.v): stored value at every stored time, 0 before the first, the last stored recovery after the last,
    # never outside the range of the stored recoveries - for both reservoirs and both recovery modes
    from vlib import rescorr
    from bluebonnet.flow import FlowProperties, IdealReservoir, SinglePhaseReservoir
    tbl = rescorr.shipped_gas(stride=8)
    for k in range(4 if ctx.quick else 24):
        tgrid = np.concatenate([[0.0], np.sort(np.exp(rng.uniform(np.log(1e-5), np.log(20.0), int(rng.integers(8, 60)))))]) + (0.0 if k % 2 == 0 else float(rng.uniform(0.5, 30)))
        nx = int(rng.integers(8, 60))
        pi, pf = float(rng.uniform(5000, 11000)), float(rng.uniform(500, 3000))
        for who in ("ideal", "single", "single in-place"):
            res = IdealReservoir(nx, pf, pi, None) if who == "ideal" else SinglePhaseReservoir(nx, pf, pi, FlowProperties(tbl, pi))
            res.simulate(tgrid.copy())
            rec = np.array(res.recovery_factor(density=True) if who.endswith("in-place") else res.recovery_factor(), float)
            it = res.recovery_factor_interpolator()
            inp = dict(reservoir=who, nx=nx, pressure_initial=pi, pressure_fracface=pf, times=tgrid.tolist())
            ev += 1
            at = np.asarray(it(tgrid), float)
            if not np.allclose(at, rec, rtol=1e-12, atol=1e-15):
                bad("recovery_factor_interpolator does not return the stored recovery at the stored times", inp, dict(max_abs_diff=float(np.abs(at - rec).max())))
            before, after = float(it(tgrid[0] - 1.0)), float(it(tgrid[-1] * 3 + 1.0))
            if before != 0.0 or after != float(rec[-1]):
                bad("recovery_factor_interpolator outside the stored times is not (0 before, last stored recovery after)", inp, dict(before=before, after=after, last=float(rec[-1])))
            qs = rng.uniform(tgrid[0], tgrid[-1], 50)
            mid = np.asarray(it(qs), float)
            if not (np.all(mid >= rec.min() - 1e-15) and np.all(mid <= rec.max() + 1e-15)):
                bad("recovery_factor_interpolator leaves the range of the stored recoveries", inp, dict(min=float(mid.min()), max=float(mid.max()), stored=[float(rec.min()), float(rec.max())]))
            want = np.interp(qs, tgrid, rec)
            if not np.allclose(mid, want, rtol=1e-10, atol=1e-14):
                bad("recovery_factor_interpolator is not the piecewise-linear interpolant of the stored (time, recovery) pairs", inp, dict(max_abs_diff=float(np.abs(mid - want).max())))
            fo = ForecasterOnePhase(it)
            Mx, taux = float(dom.loguniform(rng, 1, 1e5)), float(dom.loguniform(rng, 0.5, 500))
            got = np.asarray(fo.forecast_cum(qs * taux, Mx, taux), float)
            if not np.allclose(got, Mx * np.interp(qs, tgrid, rec), rtol=1e-9, atol=1e-12 * Mx):
                bad("forecast built on the reservoir's own interpolator is not M times the stored recovery at time/tau", dict(**inp, M=Mx, tau=taux), dict(max_abs_diff=float(np.abs(got - Mx * np.interp(qs, tgrid, rec)).max())))
    # ---------------- integer-typed production tables (daily counts): the default guess, built from the data, lies below
    # non-integer lower limits and must still be moved inside the bounds, for a free and for a supplied tau
    for k in range(6 if ctx.quick else 60):
        cname = list(crv)[k % len(crv)]
        rf = crv[cname]
        M = float(10 ** rng.uniform(3, 6))
        tau = float(rng.integers(200, 4000))
        ti = np.arange(1, int(rng.integers(30, 90)) + 1, dtype=[np.int64, np.int32][k % 2]) * int(max(1, tau // 200))
        yi = np.round(M * np.asarray(rf(ti / tau), float)).astype(np.int64)
        if yi[-1] <= 0:
            continue
        mlo = 2.0 * float(yi[-1]) + float(rng.uniform(0.25, 0.75)) + float(rng.integers(0, 3))
        tlo = 5.0 * float(ti[-1]) + float(rng.uniform(0.25, 0.75)) + float(rng.integers(0, 3))
        for kind, b in (("finite", Bounds(M=(mlo, mlo * 40 + 0.5), tau=(tlo, tlo * 40 + 0.5))), ("half-infinite", Bounds(M=(mlo, np.inf), tau=(tlo, np.inf)))):
            for tg in (None, float(tau)):
                fit_i = ForecasterOnePhase(rf, b)
                ev += 1
                inp_i = dict(curve=cname, M=M, tau=tau, dtype_time=str(ti.dtype), dtype_cum=str(yi.dtype), samples=len(ti), bounds=kind,
                             M_bounds=list(b.M), tau_bounds=list(b.tau), tau_given=tg)
                try:
                    with warnings.catch_warnings():
                        warnings.simplefilter("ignore")
                        fit_i.fit(ti, yi) if tg is None else fit_i.fit(ti, yi, tau=tg)
                except Exception as e:  # noqa: BLE001
                    bad("fit fails on an integer-typed production table although the bounds are well-formed (the data-derived initial guess is not moved inside them)",
                        inp_i, repr(e)[:200])
                    continue
                if not (b.M[0] <= fit_i.M_ <= b.M[1]) or (tg is None and not (b.tau[0] <= fit_i.tau_ <= b.tau[1])) or (tg is not None and fit_i.tau_ != tg):
                    bad("fitted M / tau lie outside the configured bounds (integer-typed data)", inp_i, dict(M=float(fit_i.M_), tau=float(fit_i.tau_)))
    # ---------------- integer-typed columns with LARGE entries (cumulative production in scf as int32, above 2**30; times in seconds):
    # the data are exact, the fit must recover M and tau (fixed 2026-10, d0e8b74: the initial guess 2 x last entry wrapped negative)
    for k in range(3 if ctx.quick else 12):
        rf = crv["analytic"]
        M, tau = float(rng.uniform(1.2e9, 1.9e9)) / 0.6, float(rng.uniform(300, 3000))
        tt_i = np.linspace(0, 1.6 * tau, 61)
        cum_i = np.rint(M * np.asarray(rf(tt_i / tau), float))
        if not (2 ** 30 < cum_i[-1] < 2 ** 31):
            continue
        for what_i, ta, ca in (("int32 cumulative production above 2**30", tt_i, cum_i.astype(np.int32)), ("int32 times above 4.3e8 (seconds)", None, None)):
            if ta is None:
                tau_s = float(rng.uniform(2e8, 4e8))
                ta = np.linspace(0, 4.5e8, 61).astype(np.int32)
                ca = 500.0 * np.asarray(rf(ta.astype(float) / tau_s), float)
                M_t, tau_t = 500.0, tau_s
            else:
                M_t, tau_t = M, tau
            fo = ForecasterOnePhase(rf)
            ev += 1
            try:
                with warnings.catch_warnings():
                    warnings.simplefilter("ignore")
                    fo.fit(ta, ca)
                if not (dom.relclose(fo.M_, M_t, 1e-3) and dom.relclose(fo.tau_, tau_t, 1e-3)):
                    bad("fitting noise-free production generated from the same curve does not recover M and tau (" + what_i + ")", dict(curve="analytic", M=M_t, tau=tau_t, dtype=what_i), dict(M=float(fo.M_), tau=float(fo.tau_)))
                with warnings.catch_warnings():
                    warnings.simplefilter("ignore")
                    fo.fit(ta, ca, tau=tau_t)
                if not dom.relclose(fo.M_, M_t, 1e-3):
                    bad("with tau supplied, M is not the bounded least-squares optimum (" + what_i + ")", dict(curve="analytic", M=M_t, tau=tau_t, dtype=what_i), dict(M=float(fo.M_)))
            except Exception as e:  # noqa: BLE001
                bad("fit raises on admissible data", dict(curve="analytic", M=M_t, tau=tau_t, dtype=what_i), repr(e)[:200])
    # ---------------- data whose unconstrained least-squares optimum lies OUTSIDE the bounds (net injection / noise around a small
    # negative offset): the fitted M must still be inside the configured bounds - the default bounds (0, inf) included - and with tau
    # supplied it is the clipped closed-form optimum
    for k in range(6 if ctx.quick else 40):
        cname = list(crv)[k % len(crv)]
        rf = crv[cname]
        tau = float(dom.loguniform(rng, 1.0, 1e4))
        tt = np.linspace(tau / 50, 2 * tau, int(rng.integers(50, 90)))
        r = np.asarray(rf(tt / tau), float)
        y = -float(rng.uniform(50, 500)) * r + rng.normal(0, 1.0, len(tt))       # optimum M < 0
        for how, b in (("default bounds", None), ("explicit default-equal bounds", Bounds(M=(0, np.inf), tau=(1e-10, np.inf))), ("finite bounds", Bounds(M=(1.5, 900.5), tau=(tau / 20, tau * 20)))):
            for tg in (None, tau):
                fo = ForecasterOnePhase(rf) if b is None else ForecasterOnePhase(rf, b)
                bb = fo.bounds
                ev += 1
                inp_n = dict(curve=cname, tau=tau, samples=len(tt), bounds=how, tau_given=tg, data="negative multiple of the curve plus unit noise")
                try:
                    with warnings.catch_warnings():
                        warnings.simplefilter("ignore")
                        fo.fit(tt, y) if tg is None else fo.fit(tt, y, tau=tg)
                except Exception as e:  # noqa: BLE001
                    bad("fit raises on admissible data", inp_n, repr(e)[:200])
                    continue
                if not (bb.M[0] <= fo.M_ <= bb.M[1]) or (tg is None and not (bb.tau[0] <= fo.tau_ <= bb.tau[1])):
                    bad("fitted M / tau lie outside the configured bounds", dict(**inp_n, M_bounds=list(bb.M), tau_bounds=list(bb.tau)), dict(M=float(fo.M_), tau=float(fo.tau_)))
                elif tg is not None:
                    mstar = min(max(float(r @ y / (r @ r)), bb.M[0]), bb.M[1])
                    if not dom.relclose(float(fo.M_), mstar, 1e-4, 1e-4 * max(1.0, abs(bb.M[0]))):
                        bad("with tau supplied, M is not the bounded least-squares optimum (clipped sum(r y)/sum(r r))", dict(**inp_n, bounds_M=list(bb.M)), dict(M=float(fo.M_), optimum=mstar))
    # ---------------- the forecaster's public fields re-assigned after construction (bounds tightened after a first fit with the
    # defaults, another recovery curve put in): the next fit / forecast must use the CURRENT fields
    for k in range(6 if ctx.quick else 40):
        names = list(crv)
        rf, rf_other = crv[names[k % len(names)]], crv[names[(k + 1) % len(names)]]
        M, tau = dom.loguniform(rng, 1e1, 1e5), dom.loguniform(rng, 1.0, 1e4)
        tt = np.linspace(tau / 50, float(rng.uniform(1.0, 2.5)) * tau, int(rng.integers(50, 90)))
        y = M * np.asarray(rf(tt / tau), float)
        fo = ForecasterOnePhase(rf_other) if k % 2 else ForecasterOnePhase(rf_other, Bounds(M=(M / 1e3, M * 1e3), tau=(tau / 1e3, tau * 1e3)))
        with warnings.catch_warnings():
            warnings.simplefilter("ignore")
            try:
                fo.fit(tt, y)            # an earlier fit with the first settings
            except Exception:  # noqa: BLE001, S110
                pass
            fo.rf_curve = rf
            new_b = Bounds(M=(M * 0.2, M * 0.6), tau=(tau * 0.3, tau * 0.8))    # excludes the generating parameters: active bounds
            fo.bounds = new_b
            inp_r = dict(curve=names[k % len(names)], M=M, tau=tau, first_bounds="default" if k % 2 else "wide", bounds_assigned_after_construction=dict(M=list(new_b.M), tau=list(new_b.tau)))
            ev += 1
            try:
                fo.fit(tt, y)
                if not (new_b.M[0] <= fo.M_ <= new_b.M[1] and new_b.tau[0] <= fo.tau_ <= new_b.tau[1]):
                    bad("after assigning new bounds to the forecaster, the fitted M / tau lie outside the configured bounds", inp_r, dict(M=float(fo.M_), tau=float(fo.tau_)))
                tg = tau * 0.5
                fo.fit(tt, y, tau=tg)
                r = np.asarray(rf(tt / tg), float)
                mstar = min(max(float(r @ y / (r @ r)), new_b.M[0]), new_b.M[1])
                if fo.tau_ != tg or not dom.relclose(float(fo.M_), mstar, 1e-4):
                    bad("after assigning new bounds / another recovery curve to the forecaster, a fit with tau supplied does not return the bounded least-squares optimum for the current fields",
                        dict(**inp_r, tau_given=tg), dict(M=float(fo.M_), optimum=mstar, tau=float(fo.tau_)))
                got = np.asarray(fo.forecast_cum(tt, M, tau), float)
                if not np.allclose(got, y, rtol=1e-12, atol=0):
                    bad("after assigning another recovery curve to the forecaster, forecast_cum is not M times the current curve at time/tau", inp_r, dict(max_abs_diff=float(np.abs(got - y).max())))
            except Exception as e:  # noqa: BLE001
                bad("fit fails after new (well-formed) bounds were assigned to the forecaster", inp_r, repr(e)[:200])
    # ---------------- two wells fitted one after the other on ONE forecaster (tabulated curve whose table ends at scaled time 40): the
    # first in years (tau of a few units), the second in days with every sample beyond the END of the table when scaled by the FIRST
    # well's tau.  The round trip of the second well must not depend on the first (a fit that starts from the previous optimum sits on
    # the flat tail of the curve, where tau has no gradient); checked against the generating values whenever a fresh object recovers them
    for k in range(3 if ctx.quick else 12):
        for cname in ("ideal", "real gas"):
            rf = crv[cname]
            MA, tauA = dom.loguniform(rng, 1e2, 1e4), float(rng.uniform(0.5, 4.0))
            MB, tauB = dom.loguniform(rng, 1e2, 1e4), float(rng.uniform(400.0, 1500.0))
            tA = np.linspace(tauA / 40, 2.0 * tauA, 60)
            tB = np.linspace(max(tauB / 30, 45.0 * tauA), 2.0 * tauB, 60)          # tB / tauA > 40 for every sample
            yA, yB = MA * np.asarray(rf(tA / tauA), float), MB * np.asarray(rf(tB / tauB), float)
            inp_h = dict(curve=cname, first_well=dict(M=MA, tau=tauA, times=f"linspace({tA[0]:.4g}, {tA[-1]:.4g}, 60)"),
                         second_well=dict(M=MB, tau=tauB, times=f"linspace({tB[0]:.4g}, {tB[-1]:.4g}, 60)"), history="fit(first well); fit(second well) on the same object")
            with warnings.catch_warnings():
                warnings.simplefilter("ignore")
                try:
                    fresh = ForecasterOnePhase(rf)
                    fresh.fit(tB, yB)
                    same = ForecasterOnePhase(rf)
                    same.fit(tA, yA)
                    same.fit(tB, yB)
                except Exception as e:  # noqa: BLE001
                    bad("fit fails on noise-free production of a second well", inp_h, repr(e)[:200])
                    continue
            ev += 1
            fresh_ok = dom.relclose(fresh.M_, MB, 5e-3) and dom.relclose(fresh.tau_, tauB, 5e-3)
            same_ok = dom.relclose(same.M_, MB, 5e-3) and dom.relclose(same.tau_, tauB, 5e-3)
            if fresh_ok and not same_ok:
                bad("a second fit on the same forecaster does not recover the M and tau that generated the (noise-free) production, although a fresh forecaster does: the result depends on the earlier fit",
                    inp_h, dict(same_object=dict(M=float(same.M_), tau=float(same.tau_)), fresh_object=dict(M=float(fresh.M_), tau=float(fresh.tau_))))
    # ---------------- Bounds validation and guess regularisation
    for k in range(60 if ctx.quick else 1500):
        lo, hi = sorted(rng.uniform(-5, 5, 2))
        tl, th = sorted(np.exp(rng.uniform(-3, 3, 2)))
        ev += 1
        for Mb, tb, ok in (((lo, hi), (tl, th), lo < hi and tl < th), ((hi, lo), (tl, th), False), ((lo, lo), (tl, th), False), ((lo, hi), (th, tl), False),
                           ((lo, hi), (tl, tl), False), ((lo,), (tl, th), False), ((lo, hi, hi + 1), (tl, th), False), ((lo, hi), (tl,), False), ((lo, hi), (tl, th, th + 1), False),
                           # limits that are not numbers are malformed too
                           ((math.nan, hi), (tl, th), False), ((lo, math.nan), (tl, th), False), ((lo, hi), (math.nan, th), False), ((lo, hi), (tl, math.nan), False)):
            try:
                Bounds(M=Mb, tau=tb)
                acc = True
            except ValueError:
                acc = False
            if acc != ok:
                bad("Bounds validation is wrong (malformed bounds accepted or well-formed ones rejected)", dict(M=[None if x != x else x for x in Mb], tau=[None if x != x else x for x in tb], NaN_shown_as_null=True), dict(accepted=acc))
        if lo < hi and tl < th:
            b = Bounds(M=(lo, hi), tau=(tl, th))
            if b.fit_bounds() != ((lo, tl), (hi, th)):
                bad("fit_bounds is not ((M_lo, tau_lo), (M_hi, tau_hi))", dict(M=[lo, hi], tau=[tl, th]), str(b.fit_bounds()))
            for g in ([float(rng.uniform(-20, 20)), float(np.exp(rng.uniform(-6, 6)))], [float(rng.uniform(-20, 20))]):
                g0 = list(g)
                out = b.regularize_initial_guess(list(g))
                out2 = b.regularize_initial_guess(list(out))
                inside = lo <= out[0] <= hi and (len(out) == 1 or tl <= out[1] <= th)
                same = all((x == y) for x, y, l_, h_ in zip(out, g0, (lo, tl), (hi, th)) if l_ <= y <= h_)
                if not inside or out2 != out or not same:
                    bad("initial guess is not moved inside finite bounds / is not left alone when inside / not idempotent", dict(M=[lo, hi], tau=[tl, th], guess=g0), out)
    ctx.cov.update(evaluations=ev, distinct_nontrivial=n,
                   rule="M over 8 decades, tau over 6, three recovery curves (analytic, simulated ideal gas, simulated real gas); finite / half-infinite / "
                        "default bounds; round trips over windows ending in [0.6 tau, 3 tau] with 50..120 samples; supplied tau with interior and active bounds; "
                        "random well-formed and malformed Bounds; out-of-bounds initial guesses")
    ctx.validated_only += ["that scipy's curve_fit stays inside its box and converges (third-party optimiser): validated on the sampled round trips; "
                           "the fixed-tau result is compared with the proved closed-form optimum"]
    ctx.samples.append(inp)


def replay(payload):
    print(json.dumps(payload.get("input"), default=str), json.dumps(payload.get("observed"), default=str))
    return 0
