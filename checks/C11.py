"""C11 - array evaluation equals elementwise scalar evaluation for every dtype."""
import json
import warnings

import numpy as np

from vlib import core, dom

ID = "C11"
GEN = ["water", "gas", "oil"]
PROPS = ["C11_arrays.v"]
DTYPES = [np.float64, np.float32, np.int64, np.int32]
# unsigned pressure columns (pd.to_numeric(..., downcast="unsigned"), image / binary loaders) are integer arrays too
UDTYPES = [np.uint32, np.uint64]


def variants(base, rng, dtypes=None):
    """contiguous / strided view / read-only / length 0 / length 1 versions of a pressure list"""
    out = []
    for dt in (dtypes or DTYPES):
        a = np.asarray(base).astype(dt)
        out.append(("contiguous", a.copy()))
        big = np.empty(2 * len(a), dtype=dt)
        big[::2] = a
        big[1::2] = 7
        out.append(("strided", big[::2]))
        out.append(("reversed-view", a.copy()[::-1]))
        ro = a.copy()
        ro.setflags(write=False)
        out.append(("read-only", ro))
        out.append(("empty", np.array([], dtype=dt)))
        out.append(("length-1", a[:1].copy()))
        # equal entries (a piecewise-constant schedule, rounded gauge readings): every occurrence gets its value
        out.append(("repeated-values", np.concatenate([a, a[:2], a[-1:], a[:2]]) if len(a) else a.copy()))
        if dt == np.float64 and len(a):
            # entries that differ by parts in 1e6 .. 1e7 (node pressures of a barely depleted reservoir): nearly equal is not equal
            out.append(("nearly-equal-values", a[len(a) // 2] * (1 + 2e-6 * np.arange(5))))
            out.append(("nearly-equal-values-1e-7", a[-1] * (1 - 1e-7 * np.arange(4))))
    return out


def run(ctx):
    from bluebonnet.fluids import oil, water
    from bluebonnet.fluids.fluid import Fluid
    core.coq_phase(ctx, GEN, PROPS)
    rng = dom.rng_for(ctx, 11)
    n = 10 if ctx.quick else 150
    ev = 0
    kinds = {}

    def bad(what, inp, obs):
        ctx.violations.append(dict(what=what, key=what, input=inp, observed=obs))

    def compare(name, arr_call, scalar_call, arr, label, params):
        nonlocal ev
        before = arr.copy()
        inp = dict(function=name, dtype=str(arr.dtype), layout=label, pressures=[float(x) for x in arr[:12]], **params)
        try:
            with warnings.catch_warnings():
                warnings.simplefilter("ignore")
                got = arr_call(arr)
        except Exception as e:  # noqa: BLE001
            bad(f"{name}: array call raises", inp, repr(e)[:200])
            return
        ev += 1
        kinds[(name, str(arr.dtype), label)] = kinds.get((name, str(arr.dtype), label), 0) + 1
        got = np.asarray(got)
        if not np.array_equal(arr, before):
            bad(f"{name}: the input array was modified", inp, "input changed")
        if got.shape != arr.shape:
            bad(f"{name}: result shape differs from the input's", inp, dict(shape=list(got.shape), expected=list(arr.shape)))
            return
        if got.size and not np.issubdtype(got.dtype, np.floating):
            bad(f"{name}: result is not floating point", inp, str(got.dtype))
        elif not got.size and not np.issubdtype(got.dtype, np.floating):
            bad(f"{name}: result is not floating point", inp, str(got.dtype))
        # precision of the floating type involved: float32 input -> float32 arithmetic
        rtol = 2e-5 if arr.dtype == np.float32 else 1e-12
        want = np.array([float(scalar_call(float(x))) for x in arr], dtype=float)
        if got.size and not np.allclose(got.astype(float), want, rtol=rtol, atol=0):
            k = int(np.argmax(np.abs(got.astype(float) - want) / np.maximum(np.abs(want), 1e-300)))
            bad(f"{name}: array result differs from the element-wise scalar result", inp,
                dict(index=k, pressure=float(arr[k]), array_value=float(got[k]), scalar_value=float(want[k])))

    for k in range(n):
        T, api, gg, rsi, pb = dom.oil_params(rng)
        # integer-valued pressures so that every dtype holds them exactly; pb itself (float) and its float neighbours
        ints = np.unique(np.round(np.concatenate([rng.uniform(15, pb, 4), rng.uniform(pb, 2.5 * pb, 4), [np.floor(pb), np.ceil(pb)]])))
        params = dict(T=T, api=api, gg=gg, Rsi=rsi, pb=pb)
        for label, arr in variants(ints, rng, DTYPES + UDTYPES):
            compare("oil.b_o_Standing", lambda a: oil.b_o_Standing(T, a, api, gg, rsi), lambda x: oil.b_o_Standing(T, x, api, gg, rsi), arr, label, params)
            compare("oil.solution_gor_Standing", lambda a: oil.solution_gor_Standing(T, a, api, gg, rsi), lambda x: oil.solution_gor_Standing(T, x, api, gg, rsi), arr, label, params)
            above = arr[arr >= pb] if arr.size else arr
            compare("oil.oil_compressibility_undersat_Spivey", lambda a: oil.oil_compressibility_undersat_Spivey(T, a, api, gg, rsi),
                    lambda x: oil.oil_compressibility_undersat_Spivey(T, x, api, gg, rsi), above.copy(), label, params)
            sal = float(rng.uniform(0, 25))
            for fn, argc in (("b_water_McCain", 0), ("b_water_McCain_dp", 0), ("compressibility_water_McCain", 1), ("density_water_McCain", 1), ("viscosity_water_McCain", 1)):
                f = getattr(water, fn)
                extra = (sal,) if argc else ()
                compare("water." + fn, lambda a, f=f, extra=extra: f(T, a, *extra), lambda x, f=f, extra=extra: f(T, x, *extra), arr, label, dict(T=T, salinity=sal))
            fl = Fluid(T, api, gg, rsi, sal, 0.1)
            compare("Fluid.oil_FVF", fl.oil_FVF, lambda x: oil.b_o_Standing(T, x, api, gg, rsi), arr, label, params)
            compare("Fluid.oil_viscosity", fl.oil_viscosity, lambda x: oil.viscosity_beggs_robinson(T, x, api, gg, rsi), arr, label, params)
            compare("Fluid.water_FVF", fl.water_FVF, lambda x: water.b_water_McCain(T, x), arr, label, params)
            compare("Fluid.water_viscosity", fl.water_viscosity, lambda x: water.viscosity_water_McCain(T, x, sal), arr, label, params)
            # the gas methods take arrays too (one correlation call per entry)
            tpc_g, ppc_g = -70.0, 655.0
            if 1.05 <= (T + 459.67) / (tpc_g + 459.67) <= 3.0 and (not arr.size or float(arr.max()) / ppc_g <= 30.0):
                from bluebonnet.fluids import gas as gas_
                compare("Fluid.gas_FVF", lambda a: fl.gas_FVF(a, tpc_g, ppc_g), lambda x: gas_.b_factor_DAK(T, x, tpc_g, ppc_g), arr, label, dict(**params, Tpc=tpc_g, Ppc=ppc_g))
                compare("Fluid.gas_viscosity", lambda a: fl.gas_viscosity(a, tpc_g, ppc_g), lambda x: gas_.viscosity_Sutton(T, x, tpc_g, ppc_g, gg), arr, label, dict(**params, Tpc=tpc_g, Ppc=ppc_g))
        # two-dimensional arrays whose memory order is not their logical order (a transposed view, a Fortran-ordered array, the block of
        # a multi-column DataFrame, a broadcast row): shape AND layout together - every entry is still the value of ITS pressure
        if k < (3 if ctx.quick else 30):
            forms2 = [f_ for f_ in dom.VECTOR_FORMS if "2-D" in f_[0]]
            pe = [float(x) for x in ints[: len(ints) - len(ints) % 2]]

            def rep2(what, inp_, obs, want_=None):
                bad(what, inp_, dict(observed=obs, expected=want_))
            if len(pe) >= 4:
                sal2 = float(rng.uniform(0, 25))
                fl2 = Fluid(T, api, gg, rsi, sal2, 0.1)
                for nm2, f2 in (("oil.b_o_Standing", lambda q: oil.b_o_Standing(T, q, api, gg, rsi)), ("oil.solution_gor_Standing", lambda q: oil.solution_gor_Standing(T, q, api, gg, rsi)),
                                ("oil.density_Standing", lambda q: oil.density_Standing(T, q, api, gg, rsi)), ("water.b_water_McCain", lambda q: water.b_water_McCain(T, q)),
                                ("water.density_water_McCain", lambda q: water.density_water_McCain(T, q, sal2)), ("Fluid.oil_FVF", fl2.oil_FVF)):
                    ev += dom.check_vector_forms(f2, pe, rep2, nm2, dict(function=nm2, **params), forms=forms2)
        # fluid parameters held as 0-d arrays (what np.asarray / np.squeeze / an HDF5 attribute hands out): the array methods give what
        # the scalar calls give for the same numbers, and the caller's parameter objects are left as they were
        if k < (3 if ctx.quick else 40):
            from bluebonnet.fluids import gas as gas0
            tpc0, ppc0 = -72.2, 653.0
            if 1.05 <= (T + 459.67) / (tpc0 + 459.67) <= 3.0:
                T0, tpc_arr, ppc_arr = np.array(float(T)), np.array(tpc0), np.array(ppc0)
                fl0 = Fluid(T0, api, gg, rsi, 3.0, 0.1)
                p0 = np.array([float(x) for x in ints[:6]])
                p0 = p0[p0 / ppc0 <= 30.0]
                for nm0, call0, sc0 in (("Fluid.gas_viscosity", lambda a: fl0.gas_viscosity(a, tpc_arr, ppc_arr), lambda x: gas0.viscosity_Sutton(float(T), x, tpc0, ppc0, gg)),
                                        ("Fluid.gas_FVF", lambda a: fl0.gas_FVF(a, tpc_arr, ppc_arr), lambda x: gas0.b_factor_DAK(float(T), x, tpc0, ppc0)),
                                        ("Fluid.oil_FVF", fl0.oil_FVF, lambda x: oil.b_o_Standing(float(T), x, api, gg, rsi)),
                                        ("Fluid.water_viscosity", fl0.water_viscosity, lambda x: water.viscosity_water_McCain(float(T), x, 3.0))):
                    ev += 1
                    try:
                        got0 = np.asarray(call0(p0.copy()), float)
                    except Exception as e:  # noqa: BLE001
                        bad(f"{nm0}: array call raises when a fluid parameter is a 0-d array", dict(function=nm0, T=T, Tpc=tpc0, Ppc=ppc0, parameters="0-d arrays"), repr(e)[:200])
                        continue
                    want0 = np.array([float(sc0(float(x))) for x in p0])
                    if got0.shape != p0.shape or not np.allclose(got0, want0, rtol=1e-12, atol=0):
                        bad(f"{nm0}: array result differs from the element-wise scalar result when a fluid parameter is a 0-d array", dict(function=nm0, T=T, Tpc=tpc0, Ppc=ppc0, pressures=[float(x) for x in p0]),
                            dict(array=[float(x) for x in got0], scalar=[float(x) for x in want0]))
                    if float(T0) != float(T) or float(tpc_arr) != tpc0 or float(ppc_arr) != ppc0:
                        bad(f"{nm0}: the caller's parameter objects (0-d arrays) were modified", dict(function=nm0), dict(T=[float(T), float(T0)], Tpc=[tpc0, float(tpc_arr)], Ppc=[ppc0, float(ppc_arr)]))
                        break
        # long arrays (a pressure field of a fine simulation, hourly gauge data): every entry is its own correlation value, whatever
        # the length of the array
        if k < (1 if ctx.quick else 4):
            from bluebonnet.fluids import gas as gas_
            tpc_g, ppc_g = -72.2, 653.0
            if 1.05 <= (T + 459.67) / (tpc_g + 459.67) <= 3.0:
                for nlong in (6001, 20001) if ctx.quick else (6001, 12000, 20001, 40001):
                    plong = np.sort(rng.uniform(100.0, 9000.0, nlong))
                    sub = np.concatenate([[0, 1, nlong - 1], rng.choice(nlong, 120, replace=False)])
                    for nm, arr_call, sc in (("Fluid.gas_FVF", lambda a: fl.gas_FVF(a, tpc_g, ppc_g), lambda x: gas_.b_factor_DAK(T, x, tpc_g, ppc_g)),
                                             ("Fluid.gas_viscosity", lambda a: fl.gas_viscosity(a, tpc_g, ppc_g), lambda x: gas_.viscosity_Sutton(T, x, tpc_g, ppc_g, gg))):
                        ev += 1
                        got_l = np.asarray(arr_call(plong), float)
                        want_l = np.array([float(sc(float(plong[j_]))) for j_ in sub])
                        if got_l.shape != plong.shape or not np.allclose(got_l[sub], want_l, rtol=1e-12, atol=0):
                            bad(f"{nm}: array result differs from the element-wise scalar result (long array)", dict(function=nm, n=nlong, T=T, Tpc=tpc_g, Ppc=ppc_g, dtype="float64"),
                                dict(max_rel_diff=float(np.abs(got_l[sub] / want_l - 1).max()) if got_l.shape == plong.shape else "shape"))
        # many single-precision pressures through the gas methods (fixed 2026-10: about 7 in 100 000 float32 pressures made the root
        # search of the Z-factor give up with RuntimeError, the rest were solved in single precision): no failure, double-precision values
        if k < (2 if ctx.quick else 10):
            from bluebonnet.fluids import gas as gas_
            tpc_g, ppc_g = -72.2, 653.0
            if 1.05 <= (T + 459.67) / (tpc_g + 459.67) <= 3.0:
                p32 = rng.uniform(50.0, 9000.0, 15000 if ctx.quick else 60000).astype(np.float32)
                ev += 1
                try:
                    with warnings.catch_warnings():
                        warnings.simplefilter("ignore")
                        bg32 = np.asarray(fl.gas_FVF(p32, tpc_g, ppc_g), float)
                    sub = rng.choice(len(p32), 200, replace=False)
                    want32 = np.array([float(gas_.b_factor_DAK(T, float(p32[j_]), tpc_g, ppc_g)) for j_ in sub])
                    if bg32.shape != p32.shape or not np.allclose(bg32[sub], want32, rtol=2e-5, atol=0):
                        bad("Fluid.gas_FVF: array result differs from the element-wise scalar result (float32 pressures)", dict(T=T, Tpc=tpc_g, Ppc=ppc_g, n=len(p32), dtype="float32"),
                            dict(max_rel_diff=float(np.abs(bg32[sub] / want32 - 1).max())))
                except Exception as e:  # noqa: BLE001
                    worst = None
                    for q_ in p32:
                        try:
                            gas_.b_factor_DAK(T, q_, tpc_g, ppc_g)
                        except Exception:  # noqa: BLE001
                            worst = float(q_)
                            break
                    bad("Fluid.gas_FVF: array call raises on a float32 pressure array inside the correlation's range", dict(T=T, Tpc=tpc_g, Ppc=ppc_g, n=len(p32), dtype="float32", first_failing_pressure=worst), repr(e)[:200])
        # integer-valued scalar parameters (Python ints) with large integer pressures: any product formed
        # in the array's integer dtype before a float enters (p*T, p**2*T, ...) wraps silently for int32
        Ti, sali = int(rng.choice([100, 200, 300, 400])), int(rng.integers(0, 25))
        apii, rsii = int(rng.integers(20, 50)), int(rng.integers(200, 1500))
        big = np.arange(500, 20001, 1500)
        pbi = float(oil.pressure_bubblepoint_Standing(Ti, apii, 0.8, rsii))
        pari = dict(T=Ti, salinity=sali, api=apii, gg=0.8, Rsi=rsii, note="Python-int parameters")
        for label, arr in variants(big, rng):
            if label in ("empty", "length-1", "read-only"):
                continue
            for fn, argc in (("b_water_McCain", 0), ("b_water_McCain_dp", 0), ("compressibility_water_McCain", 1), ("density_water_McCain", 1), ("viscosity_water_McCain", 1)):
                f = getattr(water, fn)
                extra = (sali,) if argc else ()
                compare("water." + fn, lambda a, f=f, extra=extra: f(Ti, a, *extra), lambda x, f=f, extra=extra: f(Ti, x, *extra), arr, label + "/int-params", pari)
            fli = Fluid(Ti, apii, 0.8, rsii, sali, 0.1)
            compare("Fluid.water_FVF", fli.water_FVF, lambda x: water.b_water_McCain(Ti, x), arr, label + "/int-params", pari)
            compare("Fluid.water_viscosity", fli.water_viscosity, lambda x: water.viscosity_water_McCain(Ti, x, sali), arr, label + "/int-params", pari)
            if pbi > 50:
                compare("oil.b_o_Standing", lambda a: oil.b_o_Standing(Ti, a, apii, 0.8, rsii), lambda x: oil.b_o_Standing(Ti, x, apii, 0.8, rsii), arr, label + "/int-params", pari)
                compare("oil.solution_gor_Standing", lambda a: oil.solution_gor_Standing(Ti, a, apii, 0.8, rsii), lambda x: oil.solution_gor_Standing(Ti, x, apii, 0.8, rsii), arr, label + "/int-params", pari)
                compare("Fluid.oil_FVF", fli.oil_FVF, lambda x: oil.b_o_Standing(Ti, x, apii, 0.8, rsii), arr, label + "/int-params", pari)
        # exactly at the bubble point (float64 only: pb is not representable in the other dtypes)
        exact = np.array([np.nextafter(pb, 0), pb, np.nextafter(pb, 1e9), pb / 2, 2 * pb])
        for label, arr in (("contains-pb", exact), ("contains-pb-strided", np.repeat(exact, 2)[::2])):
            compare("oil.b_o_Standing", lambda a: oil.b_o_Standing(T, a, api, gg, rsi), lambda x: oil.b_o_Standing(T, x, api, gg, rsi), arr, label, params)
            compare("oil.solution_gor_Standing", lambda a: oil.solution_gor_Standing(T, a, api, gg, rsi), lambda x: oil.solution_gor_Standing(T, x, api, gg, rsi), arr, label, params)
    ctx.cov.update(evaluations=ev, distinct_nontrivial=len(kinds),
                   rule="for random oils: pressure arrays on both sides of p_b as float64/float32/int64/int32 x {contiguous, strided view, reversed view, "
                        "read-only, empty, length 1}, also with Python-int scalar parameters and integer pressures up to 20000 (integer products can wrap), plus float64 arrays containing p_b itself and its two float neighbours; every function of the "
                        "property's observe_at list; compared element by element with the scalar call (rtol 1e-12, 2e-5 for float32 input)",
                   input_distribution={"dtypes": [str(np.dtype(d)) for d in DTYPES + UDTYPES], "functions": sorted({k_[0] for k_ in kinds})})
    ctx.validated_only.append("float32 rounding (cast to float32 is the identity in the model); behaviour exactly at p_b in floats")
    ctx.samples.append(dict(T=T, api=api, gg=gg, Rsi=rsi, pb=pb, pressures=[float(x) for x in ints]))


def replay(payload):
    print(json.dumps(payload.get("input"), default=str), json.dumps(payload.get("observed"), default=str))
    return 0
