"""C16 - multiphase storage is a pressure derivative; diffusivity is mobility over it."""
import json
import warnings

import numpy as np

from vlib import core, dom, mphase
from checks.C15 import doc_mobility

ID = "C16"
GEN = ["flowprops"]
PROPS = ["C16_storage.v", "C14_signatures.v"]


def doc_storage(p, so, sw, phi, pvt):
    sg = 1 - so - sw
    return phi * (pvt["rho_o0"] * (pvt["Rv"](p) * sg / pvt["Bg"](p) + so / pvt["Bo"](p))
                  + pvt["rho_g0"] * (pvt["Rs"](p) * so / pvt["Bo"](p) + sg / pvt["Bg"](p))
                  + pvt["rho_w0"] * sw / pvt["Bw"](p))


def run(ctx):
    from scipy.interpolate import interp1d
    from bluebonnet.flow.flowproperties import (FlowPropertiesTwoPhase, RelPermParams, alpha_multiphase, compressibility_combined_func,
                                                lambda_combined_func, relative_permeabilities_twophase)
    core.coq_phase(ctx, GEN, PROPS)
    rng = dom.rng_for(ctx, 16)
    n = 16 if ctx.quick else 300
    ev = 0

    def bad(what, inp, obs):
        ctx.violations.append(dict(what=what, key=what, input=inp, observed=obs))

    for k in range(n):
        kind = ["shipped", "constant", "linear", "kinked"][k % 4]
        tb = mphase.shipped(stride=int(rng.integers(5, 40))) if kind == "shipped" else mphase.synthetic(kind, int(rng.integers(6, 50)), rng, uniform=bool(k % 3))
        if k % 8 >= 4:
            tb["Rv"] = tb["Rv"] * 0  # without vaporised oil
        rho = dict(rho_o0=float(rng.uniform(40, 60)), rho_g0=float(rng.uniform(0.03, 0.08)), rho_w0=float(rng.uniform(60, 70)))
        P = tb["pressure"]
        pvt = {c: interp1d(P, tb[c], fill_value="extrapolate") for c in mphase.COLS}
        pvt.update(rho)
        phi, sw = float(rng.uniform(0.02, 0.4)), float(rng.uniform(0, 0.3))
        p = rng.uniform(P[1], P[-2], 10)
        so = rng.uniform(0, 1 - sw, 10)
        # ... half of them with a gas saturation that is small but not zero (1e-9 .. 1e-4: the first gas coming out of solution): the
        # free-gas term is small there, not absent
        so[:5] = 1 - sw - np.array([1e-9, 1e-7, 3e-6, 1e-5, 1e-4]) * float(rng.uniform(0.3, 1.0))
        inp = dict(table=kind, rows=len(P), phi=phi, Sw=sw, reference_densities=rho, with_vaporised_oil=bool(k % 8 < 4))
        cp = np.asarray(compressibility_combined_func(p, so, phi, sw, pvt), float)
        want = doc_storage(p + 0.5, so, sw, phi, pvt) - doc_storage(p - 0.5, so, sw, phi, pvt)
        scale = np.abs(doc_storage(p, so, sw, phi, pvt)).max()
        ev += 1
        if not np.allclose(cp, want, rtol=1e-9, atol=1e-13 * scale) or (kind != "constant" and not np.allclose(cp[:5], want[:5], rtol=2e-9, atol=0)):
            bad("multiphase compressibility is not the pressure difference (derivative) of the documented stored mass at fixed saturation", inp,
                dict(got=[float(x) for x in cp[:5]], finite_difference_of_storage=[float(x) for x in want[:5]], So=[float(x) for x in so[:5]], Sg=[float(x) for x in (1 - so - sw)[:5]]))
        if kind == "constant" and np.abs(cp).max() > 1e-12 * scale:
            bad("multiphase compressibility does not vanish for pressure-independent tables", inp, float(np.abs(cp).max()))
        # vaporised oil that sets in at a pressure INSIDE the table (Rv exactly zero below a knot, rising above it): queries that lie entirely
        # in the dry range, one at a time and as an array, up to the knot itself - the one-psi difference reaches across the knot
        if k < (4 if ctx.quick else 60) and len(P) >= 6:
            jk = len(P) // 2
            rv_on = np.where(np.asarray(P, float) > P[jk], 2e-6 * (np.asarray(P, float) - P[jk]), 0.0)
            pvt_on = dict(pvt, Rv=interp1d(P, rv_on, fill_value="extrapolate"))
            q_dry = np.array([float(P[jk]), float(P[jk]) - 0.2, float(P[jk]) - 0.45, float(P[jk]) - 0.7, 0.5 * float(P[jk - 1] + P[jk])])
            so_q = np.full(len(q_dry), 0.55 * (1 - sw))
            want_on = doc_storage(q_dry + 0.5, so_q, sw, phi, pvt_on) - doc_storage(q_dry - 0.5, so_q, sw, phi, pvt_on)
            ev += 2
            got_arr = np.asarray(compressibility_combined_func(q_dry, so_q, phi, sw, pvt_on), float)
            got_one = np.array([float(np.ravel(compressibility_combined_func(float(q_), float(s_), phi, sw, pvt_on))[0]) for q_, s_ in zip(q_dry, so_q)])
            scale_on = np.abs(doc_storage(q_dry, so_q, sw, phi, pvt_on)).max()
            for how_, got_ in (("an array of pressures all below the onset of vaporised oil", got_arr), ("one pressure at a time", got_one)):
                if not np.allclose(got_, want_on, rtol=1e-9, atol=1e-13 * scale_on):
                    bad("multiphase compressibility is not the pressure difference (derivative) of the documented stored mass at fixed saturation "
                        "(vaporised oil sets in at a knot inside the table; queried at and just below the knot)", dict(**inp, queried_as=how_, knot=float(P[jk]), pressures=[float(x) for x in q_dry]),
                        dict(got=[float(x) for x in got_], finite_difference_of_storage=[float(x) for x in want_on]))
        # pressure and saturation held as pandas Series taken from two different frames (cell pressures indexed by cell id, saturations
        # with the default index): the arguments are paired by POSITION, as for arrays
        if k < (4 if ctx.quick else 60):
            import pandas as pd
            p_ser = pd.Series(p, index=np.arange(len(p)) * 3 + 100)
            so_ser = pd.Series(so)
            ev += 1
            try:
                with warnings.catch_warnings():
                    warnings.simplefilter("ignore")
                    cp_ser = np.asarray(compressibility_combined_func(p_ser, so_ser, phi, sw, pvt), float)
            except Exception as e:  # noqa: BLE001
                cp_ser = None
                bad("multiphase compressibility fails when pressure and saturation are pandas Series with different indexes", inp, repr(e)[:200])
            if cp_ser is not None and (cp_ser.shape != cp.shape or not np.allclose(cp_ser, cp, rtol=1e-12, atol=0, equal_nan=False)):
                bad("multiphase compressibility pairs pressure and saturation by LABEL instead of by position when both are pandas Series with different indexes", inp,
                    dict(shape=list(cp_ser.shape), got=[float(x) for x in cp_ser.ravel()[:5]], as_arrays=[float(x) for x in cp[:5]]))
        cp2 = np.asarray(compressibility_combined_func(p, so, 2.5 * phi, sw, pvt), float)
        ev += 1
        if not np.allclose(cp2, 2.5 * cp, rtol=1e-10, atol=1e-14 * scale):
            bad("multiphase compressibility is not proportional to porosity", inp, float(np.abs(cp2 - 2.5 * cp).max()))
        if kind == "linear":
            # analytic slope: inside one table cell every 1/B, R/B product is NOT linear, so use a cell-centred fine difference of the documented storage
            h = 1e-3
            fine = (doc_storage(p + h, so, sw, phi, pvt) - doc_storage(p - h, so, sw, phi, pvt)) / (2 * h)
            ev += 1
            away = np.min(np.abs(p[:, None] - P[None, :]), axis=1) > 1.0  # the one-psi window must not straddle a table kink
            if not np.allclose(cp[away], fine[away], rtol=2e-2, atol=1e-9 * scale):
                bad("multiphase compressibility does not match an independent fine finite difference of the documented storage", inp,
                    dict(got=[float(x) for x in cp[:3]], fine=[float(x) for x in fine[:3]]))
        par = dict(n_o=2.0, n_w=2.0, n_g=2.0, S_or=0.1, S_wc=max(sw, 0.05), S_gc=0.05, k_ro_max=0.9, k_rw_max=0.5, k_rg_max=0.8)
        krt = relative_permeabilities_twophase(RelPermParams(**par), sw)
        kr = {f: interp1d(krt["So"], krt[f]) for f in ("kro", "krg", "krw")}
        so2 = np.clip(so, 0, 1 - sw)
        # the same with MOBILE water (water above its connate saturation: all three phases flow, krw > 0)
        from bluebonnet.flow.flowproperties import relative_permeabilities
        swm = min(0.6, par["S_wc"] + 0.25)
        sog = np.linspace(0.0, 1 - swm, 25)
        recs = np.array([(float(a), swm, float(1 - swm - a)) for a in sog], dtype=[("So", "f8"), ("Sw", "f8"), ("Sg", "f8")])
        krm = relative_permeabilities(recs, RelPermParams(**par))
        kr_mob = {f: interp1d(sog, np.asarray(krm[f], float), bounds_error=False, fill_value=(float(krm[f][0]), float(krm[f][-1]))) for f in ("kro", "krg", "krw")}
        so_m = np.clip(so, 0, 1 - swm)
        lam_m = np.asarray(lambda_combined_func(p, so_m, pvt, kr_mob), float)
        ev += 1
        if float(np.min(kr_mob["krw"](so_m))) <= 0 or not np.allclose(lam_m, doc_mobility(p, so_m, pvt, kr_mob), rtol=1e-12):
            bad("total mobility is not the documented sum over components (mobile water)", dict(**inp, Sw_mobile=swm),
                float(np.abs(lam_m - doc_mobility(p, so_m, pvt, kr_mob)).max()))
        with np.errstate(all="ignore"):
            al_m = np.asarray(alpha_multiphase(p, so_m, phi, swm, pvt, kr_mob), float)
        cp_m = np.asarray(compressibility_combined_func(p, so_m, phi, swm, pvt), float)
        okm = np.abs(cp_m) > 0
        if not np.allclose(al_m[okm], doc_mobility(p, so_m, pvt, kr_mob)[okm] / cp_m[okm], rtol=1e-12):
            bad("multiphase diffusivity is not documented total mobility divided by total compressibility (mobile water)", dict(**inp, Sw_mobile=swm), "mismatch")
        lam = np.asarray(lambda_combined_func(p, so2, pvt, kr), float)
        ev += 1
        if not np.allclose(lam, doc_mobility(p, so2, pvt, kr), rtol=1e-12):
            bad("total mobility is not the documented sum over components", inp, float(np.abs(lam - doc_mobility(p, so2, pvt, kr)).max()))
        al = np.asarray(alpha_multiphase(p, so2, phi, sw, pvt, kr), float)
        cp3 = np.asarray(compressibility_combined_func(p, so2, phi, sw, pvt), float)
        ok = np.abs(cp3) > 0
        ev += 1
        if not np.allclose(al[ok], lam[ok] / cp3[ok], rtol=1e-12):
            bad("multiphase diffusivity is not total mobility divided by total compressibility", inp, "mismatch")
        if kind != "constant":
            tb2 = dict(tb)
            tb2["So"] = np.clip(tb["So"], 0, 1 - sw)
            if k % 2:
                # a table shared with a single-phase workflow carries that workflow's columns too (its own 1/(c mu) under the name
                # "alpha", a scaled pseudopressure): the two-phase diffusivity is computed from the fluid columns, whatever else is there
                tb2["alpha"] = 1.0 / (1e-5 + 1e-9 * np.asarray(P, float))
                tb2["m-scaled"] = np.linspace(0.0, 1.3, len(P))
                tb2["compressibility"] = np.full(len(P), 3e-6)
            try:
                with warnings.catch_warnings():
                    warnings.simplefilter("ignore")
                    # the caller's density mapping lists its three keys in whatever order it was built (what the keys say decides)
                    rho_how, rho_arg = [("oil, gas, water", dict(rho)), ("water, gas, oil", {q: rho[q] for q in ("rho_w0", "rho_g0", "rho_o0")}),
                                        ("gas, oil, water", {q: rho[q] for q in ("rho_g0", "rho_o0", "rho_w0")}), ("gas, water, oil", {q: rho[q] for q in ("rho_g0", "rho_w0", "rho_o0")})][k % 4]
                    inp = dict(**inp, density_mapping_key_order=rho_how, table_also_carries_single_phase_columns=bool(k % 2))
                    fp = FlowPropertiesTwoPhase.from_table(tb2, krt, rho_arg, phi, sw, float(P[len(P) // 2]))
                ta = np.asarray(fp.pvt_props["alpha"], float)
                wl = doc_mobility(P, tb2["So"], pvt, kr)
                wc = doc_storage(P + 0.5, tb2["So"], sw, phi, pvt) - doc_storage(P - 0.5, tb2["So"], sw, phi, pvt)
                ev += 1
                good = np.abs(wc) > 1e-300
                if not np.allclose(ta[good], (wl / wc)[good], rtol=1e-8):
                    bad("tabulated diffusivity of FlowPropertiesTwoPhase is not documented mobility over documented storage difference", inp,
                        float(np.nanmax(np.abs(ta[good] / (wl / wc)[good] - 1))))
            except Exception as e:  # noqa: BLE001
                bad("FlowPropertiesTwoPhase.from_table fails on an admissible table", inp, repr(e)[:200])
    ctx.cov.update(evaluations=ev, distinct_nontrivial=n,
                   rule="shipped / constant / linear-in-pressure 1/B / kinked tables, with and without vaporised oil, random saturations, porosities, connate "
                        "water and reference densities; compared with an independent transcription of the documented storage and mobility")
    ctx.samples.append(inp)


def replay(payload):
    print(json.dumps(payload.get("input"), default=str), json.dumps(payload.get("observed"), default=str))
    return 0
