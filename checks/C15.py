"""C15 - multiphase pseudopressure is the pressure integral of total mobility."""
import json
import warnings

import numpy as np

from vlib import core, dom, mphase

ID = "C15"
GEN = ["flowprops"]
PROPS = ["C15_pseudopressure.v"]


def doc_mobility(p, so, pvt, kr):
    """Total mass mobility transcribed from docs/background.md (k = rho_ref = 1)."""
    lg = kr["krg"](so) / (pvt["mu_g"](p) * pvt["Bg"](p))
    lo = kr["kro"](so) / (pvt["mu_o"](p) * pvt["Bo"](p))
    lw = kr["krw"](so) / (pvt["mu_w"](p) * pvt["Bw"](p))
    return (pvt["Rv"](p) * lg + lo) * pvt["rho_o0"] + (lg + pvt["Rs"](p) * lo) * pvt["rho_g0"] + lw * pvt["rho_w0"]


def run(ctx):
    from scipy.interpolate import interp1d
    from bluebonnet.flow.flowproperties import (FlowPropertiesTwoPhase, RelPermParams, pseudopressure_threephase,
                                                relative_permeabilities_twophase)
    core.coq_phase(ctx, GEN, PROPS)
    rng = dom.rng_for(ctx, 15)
    n = 12 if ctx.quick else 200
    ev = 0

    def bad(what, inp, obs):
        ctx.violations.append(dict(what=what, key=what, input=inp, observed=obs))

    for k in range(n):
        kind = ["shipped", "constant", "linear", "kinked"][k % 4]
        tb = mphase.shipped(stride=int(rng.integers(5, 40))) if kind == "shipped" else mphase.synthetic(kind, int(rng.integers(4, 60)), rng, uniform=bool(k % 3))
        par = dict(n_o=float(rng.uniform(1, 4)), n_w=float(rng.uniform(1, 4)), n_g=float(rng.uniform(1, 4)), S_or=float(rng.uniform(0, 0.2)),
                   S_wc=float(rng.uniform(0.05, 0.2)), S_gc=float(rng.uniform(0, 0.1)), k_ro_max=float(rng.uniform(0.3, 1)), k_rw_max=float(rng.uniform(0.1, 1)),
                   k_rg_max=float(rng.uniform(0.3, 1)))
        sw = par["S_wc"] * float(rng.uniform(0.2, 1))
        krt = relative_permeabilities_twophase(RelPermParams(**par), sw)
        rho = dict(rho_o0=float(rng.uniform(40, 60)), rho_g0=float(rng.uniform(0.03, 0.08)), rho_w0=float(rng.uniform(60, 70)))
        P, So = tb["pressure"], np.clip(tb["So"], 0, 1 - sw)
        pvt = {c: interp1d(P, tb[c], fill_value="extrapolate") for c in mphase.COLS}
        pvt.update(rho)
        kr = {f: interp1d(krt["So"], krt[f]) for f in ("kro", "krg", "krw")}
        if k % 5 == 3:
            # a long table on a pressure grid whose step drifts slowly (1 psi growing by parts in 1e5 over the table: second differences
            # far below any default closeness tolerance): the integral is taken over the rows' own pressures
            nk = 4000 if ctx.quick else 9000
            kk = np.arange(nk, dtype=float)
            a_drift = 5e-10
            P_new = float(P[0]) + (float(P[-1]) - float(P[0])) * (kk + a_drift * kk ** 2) / (nk - 1 + a_drift * (nk - 1) ** 2)
            tb = {c_: (np.interp(P_new, P, np.asarray(v_, float)) if np.ndim(v_) == 1 and len(v_) == len(P) else v_) for c_, v_ in tb.items()}
            tb["pressure"] = P_new
            P, So = tb["pressure"], np.clip(tb["So"], 0, 1 - sw)
            pvt = {c: interp1d(P, tb[c], fill_value="extrapolate") for c in mphase.COLS}
            pvt.update(rho)
        m = np.asarray(pseudopressure_threephase(P, So, pvt, kr), float)
        lam = doc_mobility(P, So, pvt, kr)
        want = np.concatenate([[0.0], np.cumsum(np.diff(P) * (lam[1:] + lam[:-1]) / 2)])
        inp = dict(table=kind, rows=len(P), relperm=par, Sw=sw, reference_densities=rho, uniform_grid=bool(np.allclose(np.diff(P), np.diff(P)[0])))
        ev += 1
        if m.shape != P.shape or not np.allclose(m, want, rtol=1e-10, atol=1e-12 * abs(want[-1])):
            bad("multiphase pseudopressure is not the trapezoid integral over pressure of the documented total mobility", inp,
                dict(got=[float(x) for x in m[:4]], want=[float(x) for x in want[:4]]))
        if m[0] != 0.0 or np.any(np.diff(m)[(lam[1:] + lam[:-1]) > 0] <= 0):
            bad("multiphase pseudopressure is not zero at the first pressure / not strictly increasing where mobility is positive", inp, [float(x) for x in m[:4]])
        # relative permeabilities given as plain Python functions (the docstrings allow any callable), one of which hands back ITS
        # ARGUMENT (straight-line kro = So): the integral is the same, and the caller's saturation array is left as it was
        if k < (4 if ctx.quick else 40) and k % 5 != 3:
            swf = float(sw)
            kr_fn = {"kro": lambda s_: s_, "krg": lambda s_: np.clip(1.0 - swf - s_, 0.0, 1.0) ** 2, "krw": lambda s_: np.full(np.shape(s_), 0.05)}
            kr_ref = dict(kr_fn, kro=lambda s_: 1.0 * np.asarray(s_, float))
            so_arg = np.array(So, float)
            so_keep = so_arg.copy()
            ev += 1
            try:
                m_fn = np.asarray(pseudopressure_threephase(P, so_arg, pvt, kr_fn), float)
            except Exception as e:  # noqa: BLE001
                bad("pseudopressure_threephase fails when the relative permeabilities are plain Python functions", dict(**inp, kr="kro = So (returns its argument), krg = (1 - Sw - So)^2, krw = 0.05"), repr(e)[:200])
                m_fn = None
            if m_fn is not None:
                lam_fn = doc_mobility(P, so_keep.copy(), pvt, kr_ref)
                want_fn = np.concatenate([[0.0], np.cumsum(np.diff(P) * (lam_fn[1:] + lam_fn[:-1]) / 2)])
                if not np.array_equal(so_arg, so_keep):
                    bad("pseudopressure_threephase modifies the caller's saturation array (relative permeability given as a function that returns its argument)",
                        dict(**inp, kr="kro = So (returns its argument)"), dict(So_before=[float(x) for x in so_keep[:4]], So_after=[float(x) for x in so_arg[:4]]))
                if m_fn.shape != np.shape(P) or not np.allclose(m_fn, want_fn, rtol=1e-10, atol=1e-12 * abs(want_fn[-1])):
                    bad("multiphase pseudopressure is not the trapezoid integral of the documented total mobility when the relative permeabilities are plain Python functions "
                        "(kro hands back its argument)", dict(**inp, kr="kro = So (returns its argument), krg = (1 - Sw - So)^2, krw = 0.05"),
                        dict(got=[float(x) for x in m_fn[:4]], want=[float(x) for x in want_fn[:4]], last_got=float(m_fn[-1]), last_want=float(want_fn[-1])))
        # "any constant factor": from unit conversions of the permeability (1 mD = 9.87e-16 m^2) to large ones
        c = float(rng.uniform(0.1, 50)) if k % 3 == 0 else dom.loguniform(rng, 1e-18, 1e-9) if k % 3 == 1 else dom.loguniform(rng, 1e3, 1e9)
        pvt2 = dict(pvt)
        for key in ("rho_o0", "rho_g0", "rho_w0"):
            pvt2[key] = c * pvt[key]
        m2 = np.asarray(pseudopressure_threephase(P, So, pvt2, kr), float)
        ev += 1
        if not np.allclose(m2, c * m, rtol=1e-10, atol=0):
            bad("multiphase pseudopressure does not scale with a constant factor applied to mobility", dict(**inp, factor=c), float(np.abs(m2 - c * m).max()))
        # through FlowPropertiesTwoPhase: scaled pseudopressure increasing, 1 at p_i, frac-face pressure in [0, 1)
        tb2 = dict(tb)
        tb2["So"] = So
        j = int(rng.integers(len(P) // 2, len(P)))
        p_i = float(P[j])
        try:
            with warnings.catch_warnings():
                warnings.simplefilter("ignore")
                fp = FlowPropertiesTwoPhase.from_table(tb2, krt, rho, 0.1, sw, p_i)
        except Exception as e:  # noqa: BLE001
            bad("FlowPropertiesTwoPhase.from_table fails on an admissible table", inp, repr(e)[:200])
            continue
        ms = np.asarray(fp.pvt_props["m-scaled"], float)
        ev += 1
        # ... and the SCALED pseudopressure the wrapper reports does not change at all when mobility is multiplied by a constant
        try:
            with warnings.catch_warnings():
                warnings.simplefilter("ignore")
                fpc = FlowPropertiesTwoPhase.from_table(tb2, krt, {q: c * rho[q] for q in rho}, 0.1, sw, p_i)
            msc = np.asarray(fpc.pvt_props["m-scaled"], float)
            pq_ = float(rng.uniform(P[1], p_i))
            ev += 1
            if not (np.allclose(msc, ms, rtol=1e-9, atol=1e-13) and dom.relclose(float(fpc.m_i), float(fp.m_i), 1e-9) and dom.relclose(float(fpc.m_scaled_func(pq_)), float(fp.m_scaled_func(pq_)), 1e-9, 1e-13)):
                bad("the scaled multiphase pseudopressure (column, m_i, frac-face value) changes when mobility is multiplied by a constant factor", dict(**inp, factor=c, p_i=p_i, p_query=pq_),
                    dict(m_i=[float(fp.m_i), float(fpc.m_i)], at_query=[float(fp.m_scaled_func(pq_)), float(fpc.m_scaled_func(pq_))], column_head=[float(x) for x in msc[:3]]))
        except Exception as e:  # noqa: BLE001
            bad("FlowPropertiesTwoPhase.from_table fails when the reference densities are multiplied by a constant", dict(**inp, factor=c), repr(e)[:200])
        mraw_fp = np.asarray(fp.pvt_props["pseudopressure"], float)
        if not np.allclose(mraw_fp, want, rtol=1e-10, atol=1e-12 * abs(want[-1])):
            bad("the pseudopressure column built by FlowPropertiesTwoPhase.from_table is not the trapezoid integral of the documented total mobility", inp,
                dict(got=[float(x) for x in mraw_fp[:4]], want=[float(x) for x in want[:4]]))
        # the documented mobility is a function of pressure and of the table's oil saturation only: neither the water-saturation
        # argument (a sensitivity run with another Sw on the same table) nor the ORDER in which the caller's density mapping lists
        # its three keys may change the integral
        import pandas as pd
        rho_forms = (("keys in reverse order", {q: rho[q] for q in ("rho_w0", "rho_g0", "rho_o0")}), ("keys gas, oil, water", {q: rho[q] for q in ("rho_g0", "rho_o0", "rho_w0")}),
                     ("pandas Series sorted by label", pd.Series(rho).sort_index()))
        for how, sw_x, rho_x in [("Sw = 0", 0.0, rho), (f"Sw raised by 0.15", sw + 0.15, rho), ("Sw = 0.45", 0.45, rho)] + [("density mapping: " + h_, sw, r_) for h_, r_ in rho_forms[k % 3:k % 3 + 1]]:
            try:
                with warnings.catch_warnings():
                    warnings.simplefilter("ignore")
                    fpx = FlowPropertiesTwoPhase.from_table(tb2, krt, rho_x, 0.1, sw_x, p_i)
                mx = np.asarray(fpx.pvt_props["pseudopressure"], float)
            except Exception as e:  # noqa: BLE001
                bad("FlowPropertiesTwoPhase.from_table fails on an admissible table", dict(**inp, variation=how), repr(e)[:200])
                continue
            ev += 1
            if not np.allclose(mx, want, rtol=1e-10, atol=1e-12 * abs(want[-1])):
                bad("the pseudopressure built by FlowPropertiesTwoPhase.from_table is not the integral of the documented total mobility (it changes with the water-saturation argument / "
                    "with the order of the keys of the density mapping)", dict(**inp, variation=how), dict(got=[float(x) for x in mx[:4]], want=[float(x) for x in want[:4]], at_end=[float(mx[-1]), float(want[-1])]))
        # the same table as a DataFrame whose integer index labels are not 0..n-1 in row order (a lab table listed from high
        # to low pressure and then sorted, or concatenated pieces): rows are what they are, labels must not matter
        if k % 2 == 0:
            import pandas as pd
            base_df = pd.DataFrame({c: np.asarray(v, float) for c, v in tb2.items() if np.ndim(v) == 1 and len(v) == len(P)})
            for how, df in (("default index", base_df),
                            ("listed high-to-low then sorted", base_df.iloc[::-1].reset_index(drop=True).sort_values("pressure")),
                            ("shuffled then sorted", base_df.sample(frac=1.0, random_state=int(rng.integers(0, 2 ** 31))).reset_index(drop=True).sort_values("pressure"))):
                try:
                    with warnings.catch_warnings():
                        warnings.simplefilter("ignore")
                        fpd = FlowPropertiesTwoPhase.from_table(df, krt, rho, 0.1, sw, p_i)
                    msd = np.asarray(fpd.pvt_props["m-scaled"], float)
                    mraw = np.asarray(pseudopressure_threephase(df["pressure"], df["So"], pvt, kr), float)
                except Exception as e:  # noqa: BLE001
                    bad("FlowPropertiesTwoPhase.from_table / pseudopressure_threephase fails on an admissible DataFrame table", dict(**inp, index=how), repr(e)[:200])
                    continue
                ev += 1
                if not (np.allclose(msd, ms, rtol=1e-10, atol=1e-13) and np.allclose(mraw, want, rtol=1e-10, atol=1e-12 * abs(want[-1]))):
                    bad("multiphase pseudopressure of a DataFrame table depends on its index labels (it is not the integral of the documented mobility over the rows' pressures)",
                        dict(**inp, index=how), dict(scaled=[float(x) for x in msd[:4]], scaled_expected=[float(x) for x in ms[:4]],
                                                     raw=[float(x) for x in mraw[:4]], raw_expected=[float(x) for x in want[:4]]))
        # the relative-permeability table listed in another row order (by gas saturation, i.e. descending So, or shuffled): the
        # lookups are by saturation value, so the order of the rows must not matter
        for how, perm in (("rows by descending So", np.arange(len(krt))[::-1]), ("rows shuffled", rng.permutation(len(krt)))):
            try:
                with warnings.catch_warnings():
                    warnings.simplefilter("ignore")
                    krp = krt.iloc[perm].reset_index(drop=True) if hasattr(krt, "iloc") else krt[perm].copy()
                    fpk = FlowPropertiesTwoPhase.from_table(tb2, krp, rho, 0.1, sw, p_i)
                msk = np.asarray(fpk.pvt_props["m-scaled"], float)
            except Exception as e:  # noqa: BLE001
                bad("FlowPropertiesTwoPhase.from_table fails on an admissible relative-permeability table", dict(**inp, kr_rows=how), repr(e)[:200])
                continue
            ev += 1
            if not np.allclose(msk, ms, rtol=1e-10, atol=1e-13):
                bad("multiphase pseudopressure depends on the row order of the relative-permeability table (it is not the integral of the documented mobility)",
                    dict(**inp, kr_rows=how), dict(scaled=[float(x) for x in msk[:4]], scaled_expected=[float(x) for x in ms[:4]]))
        # initial pressures that are NOT table rows (between rows, and inside the first pressure interval, where the pseudopressure starts
        # from zero): the scaled pseudopressure is 1 there too (fixed 2026-10, ecc8743: it used to be off by the interpolation error of a
        # reciprocal - 1.09 at 25 psi on the shipped table - and NaN in the first interval)
        for where_, p_off in (("between rows", float(rng.uniform(P[j - 1], P[j])) if j >= 1 else None), ("first interval", float(rng.uniform(P[0] + 1e-6 * (P[1] - P[0]), P[1])))):
            if p_off is None or not (lam[:2].max() > 0 or where_ != "first interval"):
                continue
            try:
                with warnings.catch_warnings():
                    warnings.simplefilter("ignore")
                    fpo = FlowPropertiesTwoPhase.from_table(tb2, krt, rho, 0.1, sw, p_off)
                mo, ao = float(fpo.m_i), float(fpo.m_scaled_func(p_off))
                mso = np.asarray(fpo.pvt_props["m-scaled"], float)
            except Exception as e:  # noqa: BLE001
                bad("FlowPropertiesTwoPhase.from_table fails for an initial pressure inside the table", dict(**inp, p_i=p_off, p_i_is=where_), repr(e)[:200])
                continue
            ev += 1
            if not (dom.relclose(mo, 1.0, 1e-10) and dom.relclose(ao, 1.0, 1e-10) and np.all(np.isfinite(mso)) and np.all(np.diff(mso)[(lam[1:] + lam[:-1]) > 0] > 0)):
                bad("scaled multiphase pseudopressure is not 1 at an initial pressure that is not a table row (or not finite / increasing)", dict(**inp, p_i=p_off, p_i_is=where_),
                    dict(m_i=mo, at_p_i=ao, scaled_head=[float(x) for x in mso[:3]]))
        pf = float(rng.uniform(P[1], p_i * 0.999))
        mf = float(fp.m_scaled_func(pf))
        if np.any(np.diff(ms) <= 0) or not dom.relclose(float(fp.m_i), 1.0, 1e-10) or not dom.relclose(float(ms[j]), 1.0, 1e-10) or not (0 <= mf < 1):
            bad("scaled multiphase pseudopressure is not strictly increasing / not 1 at initial pressure / frac-face value not in [0,1)", dict(**inp, p_i=p_i, p_frac=pf),
                dict(m_i=float(fp.m_i), at_node=float(ms[j]), frac=mf, min_step=float(np.diff(ms).min())))
    ctx.cov.update(evaluations=ev, distinct_nontrivial=n,
                   rule="shipped oil+water table (random strides) and synthetic constant / linear / kinked tables on uniform and non-uniform pressure grids; "
                        "random admissible rel-perm sets and reference densities; compared with an independent transcription of the documented mobility")
    ctx.samples.append(inp)


def replay(payload):
    print(json.dumps(payload.get("input"), default=str), json.dumps(payload.get("observed"), default=str))
    return 0
