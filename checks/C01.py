"""C01 - simulated pseudopressure obeys the maximum principle and the frac-face value."""
import json

import numpy as np

from vlib import core, dom, rescorr

ID = "C01"
PROPS = ["C01_maxprinciple.v", "C01_relaxation.v", "C01_matrix.v", "C04_step_system.v", "C04_acceptance.v", "C04_time_loop.v", "C04_end_to_end.v", "C01_source_loop.v"]
GEN = ["reservoir"]
TOL = 1e-9


def conclusions(case, impl):
    """Conclusions of the C01 theorems evaluated on the implementation's own output."""
    out = []
    if "error" in impl:
        return out
    f = impl["field"]
    nt, nx = f.shape
    if case["kind"] == "ideal":
        lo_run = np.zeros(nt)
        hi = 1.0
        const = True
        g = 0.0
    else:
        fp = impl["fp"]
        sched = case.get("sched")
        pf = np.asarray(sched if sched is not None else [case["pf"]] * nt, float)
        mf = np.asarray(fp.m_scaled_func(pf), float)
        hi = float(fp.m_i)
        lo_run = np.minimum.accumulate(np.concatenate([[mf[0]], mf[:-1]]))
        const = sched is None or len(set(sched)) == 1
        g = float(mf[0])
    scale = max(abs(hi), 1e-300)
    for i in range(nt):
        lo = min(lo_run[i], hi)
        if f[i].min() < lo - TOL * scale or f[i].max() > hi + TOL * scale or not np.all(np.isfinite(f[i])):
            j = int(np.argmin(f[i])) if f[i].min() < lo - TOL * scale else int(np.argmax(f[i]))
            out.append(dict(what="simulated value outside [lowest frac-face pseudopressure so far, initial pseudopressure]",
                            step=i, node=j, value=float(f[i, j]), lower=float(lo), upper=hi))
            break
    if const and nt > 1:
        # conclusion of C01_single_phase_relaxes / C01_ideal_relaxes: the excess over the frac-face value is bounded
        # by (m_i - m_f)/(2 nx) * phi_j * prod_i n(n+1)/(n(n+1) + 2 mesh_i amin), phi_j = j (2n+1-j)
        if case["kind"] == "ideal" and case.get("law"):
            amin = float(min(case["law"][0], case["law"][0] + case["law"][1]))      # user subclass: alpha(m) = a0 + a1 m on [0, 1]
        elif case["kind"] == "ideal":
            amin = 1.0
        else:
            a = np.asarray(impl["fp"].pvt_props["alpha"], float)
            amin = float(a.min() / impl["fp"].alpha(impl["fp"].m_i))
        jj = np.arange(1, nx + 1, dtype=float)
        phi = jj * (2 * nx + 1 - jj)
        pm = nx * (nx + 1.0)
        cb = (hi - g) / (2.0 * nx)
        tt = np.asarray(case["times"], float)
        # 1/dx^2 as the code computes it: linspace(0, 1, nx) for the ideal reservoir, (1/nx)^2 for the single-phase one
        inv_dx2 = float(nx - 1) ** 2 if case["kind"] == "ideal" else float(nx) ** 2
        if amin > 0 and np.isfinite(amin) and hi >= g and inv_dx2 > 0:
            for i in range(1, nt):
                cb *= pm / (pm + 2.0 * (tt[i] - tt[i - 1]) * inv_dx2 * amin)
                ex = f[i] - g - cb * phi * (1 + 1e-9)
                if ex.max() > TOL * scale:
                    j = int(np.argmax(ex))
                    out.append(dict(what="excess over the frac-face value above the proved relaxation bound",
                                    key="relax-bound", step=i, node=j, value=float(f[i, j]), frac=g,
                                    bound=float(g + cb * phi[j]), amin=amin))
                    break
    if const:
        d = np.diff(f[1:], axis=1)
        if d.size and d.min() < -TOL * scale:
            i, j = np.unravel_index(np.argmin(d), d.shape)
            out.append(dict(what="profile not non-decreasing away from the fracture under constant drawdown",
                            step=int(i) + 1, node=int(j), value=float(d[i, j])))
        if f.shape[0] > 1 and f[1:, 0].min() < g - TOL * scale:
            out.append(dict(what="first node below the frac-face value", value=float(f[1:, 0].min()), frac=g))
        dt_ = np.diff(f[:, 1:], axis=0)  # beyond the node next to the fracture
        steps = np.diff(np.asarray(case["times"], float))
        for i in sorted(set(np.nonzero(dt_ > TOL * scale)[0])):
            # known finding K3: single-phase, in a step longer than the previous one, a bump that is largest at code
            # node 1 and dies out within a few nodes (the frac-face row restarts node 0 from m_f every step)
            js = np.nonzero(dt_[i] > TOL * scale)[0]
            # (on fine grids the bump spreads over more nodes: up to nx/20 of them)
            prefix = len(js) <= max(5, nx // 20) and list(js) == list(range(len(js))) and np.all(np.diff(dt_[i, js]) <= 0)
            # ... and the bump keeps moving inward during the step that follows the increase
            grew = i >= 1 and (steps[i] > steps[i - 1] or (i >= 2 and steps[i - 1] > steps[i - 2]))
            k3 = case["kind"] == "single" and grew and prefix
            j = int(js[np.argmax(dt_[i, js])])
            out.append(dict(what="value rose in time beyond the node next to the fracture under constant drawdown",
                            key="time-monotone" if k3 else "time-monotone-other", step=int(i), node=j + 1,
                            rise=float(dt_[i, j]), rising_nodes=[int(x) + 1 for x in js]))
            if not k3:
                break
    return out


def relaxation_cases(ctx, rng):
    """Constant drawdown run for a very long time, with small and with huge steps."""
    cases = []
    for k, grid in enumerate(["uniform", "huge"]):
        tb = rescorr.make_table(["shipped", "kinked"][k % 2], rng, True)
        p = tb["pressure"]
        pi = float(p[-3])
        pf = float(p[2])
        times = np.linspace(0, 20.0, 200) if grid == "uniform" else np.array([0.0, 1e2, 1e4, 1e6, 1e8])
        cases.append(dict(kind="single", table=tb, table_kind="relax", pi=pi, pf=pf, nx=12, times=times, grid=grid, relax=True))
        cases.append(dict(kind="ideal", pi=5000.0, pf=100.0, nx=12, times=times, grid=grid, relax=True))
    # a liquid described the simple way (pseudopressure = pressure, c ~ 3e-6 1/psi): its SCALED pseudopressure is of order 1e-6, far below
    # any absolute solver tolerance - every clause is relative to m_i (fixed 2026-10, 223c4bf: values 5e-7 m_i below the frac-face value)
    pw = np.linspace(500.0, 9000.0, 40)
    tw = dict(pressure=pw, pseudopressure=pw.copy(), compressibility=3.1e-6 * (1 - 2e-5 * (pw - 500.0)), viscosity=0.3 + 2e-6 * pw, **{"z-factor": np.ones_like(pw)})
    tw["density"] = 62.0 * np.exp(3.1e-6 * (pw - 500.0))
    for nxw, tgw in ((30, np.linspace(0, 10, 400) ** 2), (200, np.concatenate([[0.0], np.geomspace(1e-6, 50.0, 150)]))):
        cases.append(dict(kind="single", table=tw, table_kind="liquid with pseudopressure = pressure", pi=8000.0, pf=1000.0, nx=nxw, times=tgw, grid="tiny scaled pseudopressure"))
    # fine grids, where the iterative solver of the ideal reservoir is known to break down and the direct-solve fallback decides
    # whether the bounds survive
    for nx, grid in ((320, "quadratic"), (400, "geometric"), (512, "uniform")):
        tg = np.linspace(0, 3, 160) ** 2 if grid == "quadratic" else np.concatenate([[0.0], np.geomspace(1e-6, 9.0, 120)]) if grid == "geometric" else np.linspace(0, 9.0, 160)
        cases.append(dict(kind="ideal", pi=5000.0, pf=100.0, nx=nx, times=tg, grid=grid))
    return cases


def run(ctx):
    core.coq_phase(ctx, GEN, PROPS)
    rng = dom.rng_for(ctx, 1)
    n = 20 if ctx.quick else 240
    cases = rescorr.gen_cases(rng, n, ctx.quick) + relaxation_cases(ctx, rng)
    impls = [rescorr.run_impl(c) for c in cases]
    # wells simulated at the same time in different threads (one worker per well, same node count, different grids and pressures):
    # every clause must hold for each of them exactly as when they are simulated one after the other
    tbw = rescorr.make_table("shipped", rng, True)
    conc_cases = []
    for j_ in range(4):
        conc_cases.append(dict(kind="single" if j_ % 2 == 0 else "ideal", table=tbw, table_kind="shipped", pi=float(tbw["pressure"][-2 - j_]), pf=float(tbw["pressure"][2 + 3 * j_]),
                               nx=40, times=rescorr.time_grid(["quadratic", "geometric", "uniform", "random"][j_], 60 + 20 * j_, 2.0 + j_, rng), grid="concurrent"))
    conc_serial = [rescorr.run_impl(c) for c in conc_cases]
    for c_, im_ in zip(conc_cases, rescorr.run_threaded(conc_cases) + rescorr.run_threaded(conc_cases)):
        for v in conclusions(c_, im_):
            if v.get("key") in ("time-monotone",):
                continue
            ctx.violations.append(dict(what=v["what"] + " (wells simulated concurrently in threads)", key="threads" + v["what"], input=dict(**rescorr.replay_payload(c_), simulated="concurrently with 3 other wells of the same node count, one thread each"), observed=v))
    rescorr.threaded_equals_serial(conc_cases, conc_serial, lambda c_, obs: ctx.violations.append(dict(
        what="a simulation that runs while others run in other threads (own objects, own arrays, same node count) differs from the same simulation run alone", key="threads-differ",
        input=dict(**rescorr.replay_payload(c_), simulated="concurrently with 3 other wells, one thread each"), observed=obs)), rounds=1)
    steps = 0
    for c, im in zip(cases, impls):
        for v in conclusions(c, im):
            kf = [e for e in core.known_findings(ID) if e["status"] == "known" and e.get("key") == v.get("key")]
            if kf:
                ctx.known_hits = getattr(ctx, "known_hits", 0) + 1
                continue
            ctx.violations.append(dict(what=v["what"], key=v["what"], input=rescorr.replay_payload(c), observed=v))
        if "earlier" in im:
            # what an earlier run on the same object stored / returned is a value: it must not change when the object is simulated
            # again (a kept field that is silently overwritten then violates every clause for ITS frac-face pressure)
            e = im["earlier"]
            if not np.array_equal(e["field_ref"], e["field_copy"]) or not np.array_equal(e["rf_ref"], e["rf_copy"]):
                lo_e = float(np.min(e["field_ref"]))
                ctx.violations.append(dict(what="the pseudopressure field (or recovery) kept from an earlier simulate on the same object changed when the object was simulated again with another "
                                                "frac-face pressure: the kept field is no longer the solution for its own frac-face pressure" + (" (it goes below that pressure's scaled pseudopressure)" if lo_e < e["m_f"] - TOL else ""),
                                           key="kept-output-overwritten", input=dict(**rescorr.replay_payload(c), earlier_pressure_fracface=e["pf"]),
                                           observed=dict(max_change_field=float(np.abs(np.asarray(e["field_ref"], float) - e["field_copy"]).max()), kept_min=lo_e, frac_face_value_of_the_kept_run=e["m_f"])))
        if "field" in im:
            steps += im["field"].shape[0] - 1
            if c.get("relax"):
                g = 0.0 if c["kind"] == "ideal" else float(im["fp"].m_scaled_func(c["pf"]))
                top = 1.0 if c["kind"] == "ideal" else float(im["fp"].m_i)
                devs = np.abs(im["field"][1:] - g).max(axis=1)
                # the distance to the frac-face value never grows, and is gone after very large steps
                if np.any(np.diff(devs) > 1e-9 * top) or (c["grid"] == "huge" and devs[-1] > 1e-5 * (top - g)):
                    ctx.violations.append(dict(what="profile does not relax to the frac-face value", key="relax",
                                               input=rescorr.replay_payload(c),
                                               observed=dict(final_dev=float(devs[-1]), frac=g, max_increase=float(np.diff(devs).max()))))
    # the same conclusions when the iterative solver reports failure on every other step (it does so by itself on fine grids):
    # the levels the direct-solve fallback stores obey the maximum principle too
    from checks.C04 import Probe
    for c in [c_ for c_ in cases if c_["kind"] == "single" and len(c_["times"]) * c_["nx"] <= 4000][:4] + [c_ for c_ in cases if c_["kind"] == "ideal"][:2]:
        with Probe(fail_every=2, fail_info=-10):
            imf = rescorr.run_impl(c)
        for v in conclusions(c, imf):
            if [e for e in core.known_findings(ID) if e["status"] == "known" and e.get("key") == v.get("key")]:
                continue
            ctx.violations.append(dict(what=v["what"] + " (direct-solve fallback exercised: iterative solver made to report failure on every other step)",
                                       key=v["what"] + "-fallback", input=rescorr.replay_payload(c), observed=v))
    # model <-> implementation (float instance of the model evaluated by Coq)
    small = [k for k, c in enumerate(cases) if len(c["times"]) * c["nx"] <= 4000]
    res = rescorr.run_cases(ctx, [cases[k] for k in small], [impls[k] for k in small], "C01", shard=3)
    worst = 0.0
    for k, r in zip(small, res):
        if r is None:
            continue
        d_field, d_rf, d_rfd, d_mi, resid, errflag = r
        impl_err = 1.0 if "error" in impls[k] else 0.0
        if errflag != impl_err:
            ctx.violations.append(dict(what="model and implementation disagree on whether the call raises",
                                       key="raise", input=rescorr.replay_payload(cases[k]),
                                       observed=dict(model_error=errflag, impl=impls[k].get("error"))))
            continue
        worst = max(worst, resid, d_mi)
        # tie: every stored level solves the MODEL's step system built from the previous stored level (relative residual at
        # rounding level), and the fields agree grossly.  A tight field comparison is not a sound oracle: for tables whose
        # diffusivity spans many decades the step matrix is ill-conditioned and two accurate solvers differ by cond x eps.
        traj_ok = d_field <= 1e-3 or cases[k].get("table_kind") == "random"   # 'random' tables: trajectories of two accurate solvers separate (DESIGN 11.9)
        if not (resid <= rescorr.resid_tol(cases[k], impls[k]) and d_mi <= 1e-9 and traj_ok):
            ctx.violations.append(dict(what="implementation's stored levels are not the model's implicit updates (the model for which the bounds are proved)",
                                       key="corr", input=rescorr.replay_payload(cases[k]),
                                       observed=dict(max_relative_step_residual=resid, max_abs_diff_field=d_field, diff_m_i=d_mi)))
    ctx.cov.update(evaluations=len(cases), distinct_nontrivial=sum(1 for im in impls if "field" in im),
                   steps_checked=steps, traces_validated_against_impl=len([r for r in res if r is not None]),
                   worst_model_impl_diff=worst,
                   rule="seeded random cases over {shipped, Haynesville, ideal, liquid, falling, kinked, random} tables x "
                        "{uniform, quadratic, geometric, random, huge-step} grids x nx x p_f/p_i incl. 0.99875 x "
                        "{constant, step-down, random} schedules; non-trivial = simulation completed; each case is run on "
                        "the implementation, its output is checked against the proved conclusions, and (size permitting) "
                        "compared with the float instance of the Coq model run by vm_compute",
                   input_distribution=dict(
                       kinds={k: sum(1 for c in cases if c["kind"] == k) for k in ("single", "ideal")},
                       grids={g: sum(1 for c in cases if c.get("grid") == g) for g in ("uniform", "quadratic", "geometric", "random", "huge", "jitter", "tiny")},
                       schedules=sum(1 for c in cases if "sched" in c),
                       errors=sum(1 for im in impls if "error" in im)))
    ctx.samples += [rescorr.describe(c) for c in cases[:4]]
    for e in core.known_findings(ID):
        if e["status"] == "known" and e.get("key") == "time-monotone":
            # printed only while the recorded witness still reproduces on the implementation
            w = e["witness"]
            wt = np.concatenate([[0.0], np.cumsum(np.array(w["mesh_ratios"]) / w["nx"] ** 2)])
            wc = dict(kind="single", table=rescorr.synth_table("liquid", 30), pi=w["p_i"], pf=w["p_f"], nx=w["nx"], times=wt)
            hits = [v for v in conclusions(wc, rescorr.run_impl(wc)) if v.get("key") == "time-monotone"]
            if hits:
                ctx.known_printed.append(f"KNOWN-FINDING: property={ID} {e['what']}")
                ctx.notes.append(f"known finding K3 reproduced on its witness (rise {hits[0]['rise']:.3g})")


def replay(payload):
    case = payload["input"]
    case["times"] = np.asarray(case["times"], float)
    im = rescorr.run_impl(case)
    print(json.dumps(dict(observed_now=conclusions(case, im), recorded=payload.get("observed")), indent=1, default=str))
    return 1 if conclusions(case, im) else 0
