"""C07 - density, formation volume factor and compressibility are mutually consistent."""
import json
import math

import numpy as np

from vlib import core, dak, dom

ID = "C07"
GEN = ["water", "gas", "oil"]
PROPS = ["C07_identities.v", "C07_gas.v"]


def run(ctx):
    from bluebonnet.fluids import gas, oil, water
    core.coq_phase(ctx, GEN, PROPS)
    ok_k, out_k, th_k = core.compile_variant(ctx, "K1_dak_coefficient.v", "K1_dak_coefficient.v", src_dir=core.FINDINGS)
    if ok_k:
        core.register(ctx, "K1_dak_coefficient.v", th_k, True, out_k)
    # density / viscosity increasing in pressure: proved on top of C06's root theorems, in the variant
    # of the equation of state that checks against the regenerated gas.py (coded now; published if
    # gas.py is ever corrected - see known finding K1)
    from checks.C06 import SUBST_PUB
    ok_r, _, _ = core.compile_variant(ctx, "C06_root.v", "C06_root.v")
    if ok_r:
        ok_m, out_m, th_m = core.compile_variant(ctx, "C07_monotone.v", "C07_monotone.v")
        core.register(ctx, "C07_monotone.v", th_m, ok_m, out_m)
    else:
        ok_rp, _, _ = core.compile_variant(ctx, "C06_root.v", "C06_root_pub.v", SUBST_PUB)
        sub = SUBST_PUB + [("C06_root", "C06_root_pub")]
        ok_m, out_m, th_m = core.compile_variant(ctx, "C07_monotone.v", "C07_monotone_pub.v", sub)
        core.register(ctx, "C07_monotone_pub.v" if ok_rp else "C07_monotone.v", th_m, ok_rp and ok_m, out_m)
    rng = dom.rng_for(ctx, 7)
    n = 250 if ctx.quick else 5000
    ev = 0
    known_k1 = [e for e in core.known_findings(ID) if e["status"] == "known" and e["key"].startswith("K1")]
    k1_seen = 0
    worst_k1 = 0.0

    def bad(what, inp, obs):
        ctx.violations.append(dict(what=what, key=what, input=inp, observed=obs))

    goals = []
    # ---------------- whole-degree temperature ladders around 0 F at one pressure (equal floats hash equally; -1.0 and -2.0 hash to the same
    # value in CPython): density is p M / (Z R T) with Z the root of the coded equation of state for THAT temperature (independent solve)
    for p_l in ((1500.0,) if ctx.quick else (400.0, 1500.0, 5000.0)):
        tpc_l, ppc_l, sg_l = -102.0, 650.0, 0.65
        for T_l in list(range(-6, 7)) + list(range(6, -7, -1)):
            tr_l = (T_l + 459.67) / (tpc_l + 459.67)
            if not 1.05 <= tr_l <= 3.0:
                continue
            zref = dak.z_solve(tr_l, p_l / ppc_l, False)
            rho_l = float(gas.density_DAK(T_l, p_l, tpc_l, ppc_l, sg_l))
            mu_l = float(gas.viscosity_Sutton(T_l, p_l, tpc_l, ppc_l, sg_l))
            ev += 1
            want_l = p_l * 28.964 * sg_l / (zref * 10.73159 * (T_l + 459.67))
            if not dom.relclose(rho_l, want_l, 1e-8) or not mu_l > 0:
                bad("gas density is not p M / (Z R T) with Z the root of the equation of state for its own temperature (whole-degree temperature ladder around 0 F)",
                    dict(T=T_l, p=p_l, Tpc=tpc_l, Ppc=ppc_l, sg=sg_l, ladder="-6 .. 6 F and back, same pressure"), dict(density=rho_l, expected=want_l, rel_diff=abs(rho_l / want_l - 1)))
                break
    for k in range(n):
        # ---------------- gas
        g = dom.gas_params(rng)
        T, tpc, ppc, sg = g["T"], g["Tpc"], g["Ppc"], g["sg"]
        p = dom.loguniform(rng, 15, min(14000.0, 30 * ppc))
        if k % 10 == 9:
            # exact reference state points of the library (standard conditions, table start, documented examples): floats and ints
            T, p = [(60, 14.7), (60.0, 14.70), (60.0, 14.696), (59.0, 14.7), (60.0, 10.0), (100.0, 14.7), (60, 1000), (400.0, 14.7)][(k // 10) % 8]
            if not 1.05 <= (T + 459.67) / (tpc + 459.67) <= 3:
                continue
        z = float(gas.z_factor_DAK(T, p, tpc, ppc))
        rho = float(gas.density_DAK(T, p, tpc, ppc, sg))
        bg = float(gas.b_factor_DAK(T, p, tpc, ppc))
        ev += 1
        inp = dict(T=T, p=p, Tpc=tpc, Ppc=ppc, sg=sg)
        want_rho = p * 28.964 * sg / (z * 10.73159 * (T + 459.67))
        if not dom.relclose(rho, want_rho, 1e-12):
            bad("gas density is not p*M/(Z*R*T)", inp, dict(density=rho, expected=want_rho))
        std = 14.7 * 28.964 * sg / (10.73159 * (60 + 459.67))
        if not dom.relclose(rho * bg * 5.615, std, 1e-10):
            bad("gas density times Bg depends on pressure / is not the standard-condition mass content", inp,
                dict(density_times_Bg=rho * bg * 5.615, expected=std))
        # the same identity at other standard conditions (14.65 Texas, 14.696 = 1 atm, 14.73 AGA, 15.025 Louisiana; 59 / 68 F)
        if k % 2 == 0:
            for tsc, psc in ((60.0, 14.65), (59.0, 14.696), (68.0, 14.73), (60.0, 15.025)):
                bg_s = float(gas.b_factor_DAK(T, p, tpc, ppc, tsc, psc))
                std_s = psc * 28.964 * sg / (10.73159 * (tsc + 459.67))
                ev += 1
                if not dom.relclose(rho * bg_s * 5.615, std_s, 1e-10):
                    bad("gas density times Bg is not the standard-condition mass content at the requested standard conditions",
                        dict(**inp, temperature_standard=tsc, pressure_standard=psc), dict(density_times_Bg=rho * bg_s * 5.615, expected=std_s))
                    break
        # where the Z isotherm climbs back through 1 (reduced pressure about 4.4 .. 6.5): a fine ladder of pressures through that
        # point - Z, density and viscosity keep increasing and Z is the root (nothing special happens where the gas looks ideal)
        if k % 6 == 2:
            fz = lambda q: float(gas.z_factor_DAK(T, q, tpc, ppc)) - 1.0
            lo_, hi_ = 3.0 * ppc, 9.0 * ppc
            if hi_ / ppc <= 30 and fz(lo_) < 0 < fz(hi_):
                for _ in range(60):
                    mid_ = 0.5 * (lo_ + hi_)
                    lo_, hi_ = (mid_, hi_) if fz(mid_) < 0 else (lo_, mid_)
                pz = 0.5 * (lo_ + hi_)
                lad = pz + 5e-4 * np.arange(-240, 241)
                zl = np.array([float(gas.z_factor_DAK(T, float(q), tpc, ppc)) for q in lad])
                rl = np.array([float(gas.density_DAK(T, float(q), tpc, ppc, sg)) for q in lad])
                trl = (T + 459.67) / (tpc + 459.67)
                zr = np.array([dak.z_solve(trl, float(q) / ppc, False) for q in lad[::16]])
                ev += 1
                if np.any(np.diff(zl) <= 0) or np.any(np.diff(rl) <= 0) or not np.allclose(zl[::16], zr, rtol=1e-9, atol=0):
                    jb = int(np.argmin(np.diff(rl)))
                    bad("in a fine pressure ladder through the point where Z passes 1 the Z-factor / density do not keep increasing, or Z is not the root of the equation of state",
                        dict(**inp, pressure_where_Z_is_1=pz, ladder_step_psi=5e-4), dict(min_step_Z=float(np.diff(zl).min()), min_step_density=float(np.diff(rl).min()), at_pressure=float(lad[jb]),
                                                                                            max_rel_diff_from_root=float(np.abs(zl[::16] / zr - 1).max())))
        # the same identity for the Fluid facade's array methods on pressures that lie close together (node pressures of a barely
        # depleted reservoir, a finite-difference stencil): every entry has its own Bg and its own viscosity
        if k % 4 == 1:
            from bluebonnet.fluids.fluid import Fluid
            flg = Fluid(T, 35.0, sg, 650.0)
            for spacing in (2e-6, 1e-7, 3e-4):
                pa = p * (1 + spacing * np.arange(5))
                if pa[-1] / ppc > 30.0:
                    continue
                bga = np.asarray(flg.gas_FVF(pa, tpc, ppc), float)
                mua = np.asarray(flg.gas_viscosity(pa, tpc, ppc), float)
                rhoa = np.array([float(gas.density_DAK(T, float(q), tpc, ppc, sg)) for q in pa])
                muw = np.array([float(gas.viscosity_Sutton(T, float(q), tpc, ppc, sg)) for q in pa])
                ev += 1
                if bga.shape != pa.shape or not np.allclose(rhoa * bga * 5.615, std, rtol=1e-10, atol=0) or not np.allclose(mua, muw, rtol=1e-12, atol=0):
                    bad("gas density times the Bg returned by Fluid.gas_FVF for an array of closely spaced pressures is not the standard-condition mass content at every entry "
                        "(or Fluid.gas_viscosity is not the correlation's value at every entry)", dict(**inp, pressures=[float(q) for q in pa], relative_spacing=spacing),
                        dict(density_times_Bg=[float(x) for x in rhoa * bga * 5.615], expected=std, viscosity=[float(x) for x in mua], viscosity_expected=[float(x) for x in muw]))
        # compressibility = d ln(density)/dp (Richardson-extrapolated central differences of the library's own density)
        cg = float(gas.compressibility_DAK(T, p, tpc, ppc))
        f = lambda q: math.log(gas.density_DAK(T, q, tpc, ppc, sg))
        h = p * 1e-3
        d1 = (f(p + h) - f(p - h)) / (2 * h)
        d2 = (f(p + h / 2) - f(p - h / 2)) / h
        dln = d2 + (d2 - d1) / 3
        if not dom.relclose(cg, dln, 2e-6, 1e-12):
            # is the discrepancy exactly the one predicted by K1?  (formula with E' = coded EOS derivative)
            tr, pr = (T + 459.67) / (tpc + 459.67), p / ppc
            r = 0.27 * pr / (tr * z)
            Dc = dak.dzeos(tr, r, False)
            c_pred = (1 / pr - 0.27 / (z * z * tr) * (Dc / (1 + r * Dc / z))) / ppc
            Dp = dak.dzeos(tr, r, True)
            c_code = (1 / pr - 0.27 / (z * z * tr) * (Dp / (1 + r * Dp / z))) / ppc
            if known_k1 and dom.relclose(dln, c_pred, 2e-6, 1e-12) and dom.relclose(cg, c_code, 1e-9):
                k1_seen += 1
                worst_k1 = max(worst_k1, abs(cg / dln - 1))
            else:
                bad("gas compressibility is not the isothermal d ln(density)/dp of the library's own density", inp,
                    dict(compressibility=cg, dlnrho_dp=dln))
        mu = float(gas.viscosity_Sutton(T, p, tpc, ppc, sg))
        mu2 = float(gas.viscosity_Sutton(T, p * 1.05, tpc, ppc, sg))
        if not (mu > 0 and math.isfinite(mu)) or not mu2 > mu:
            bad("gas viscosity is not positive / does not increase with pressure", inp, dict(mu=mu, mu_at_1p05p=mu2))
        # the same gas functions with the pressure given in the other scalar forms (numpy scalars, 0-d array, Python int, float32)
        if k % 25 == 3:
            pin = float(int(p)) if p > 20 else 20.0
            gi = dict(T=T, Tpc=tpc, Ppc=ppc, sg=sg)
            rep = lambda what, i_, got_, want_: bad(what, i_, dict(got=got_, expected=want_))
            for label, fn in (("gas.z_factor_DAK", lambda q: gas.z_factor_DAK(T, q, tpc, ppc)), ("gas.density_DAK", lambda q: gas.density_DAK(T, q, tpc, ppc, sg)),
                              ("gas.b_factor_DAK", lambda q: gas.b_factor_DAK(T, q, tpc, ppc)), ("gas.compressibility_DAK", lambda q: gas.compressibility_DAK(T, q, tpc, ppc)),
                              ("gas.viscosity_Sutton", lambda q: gas.viscosity_Sutton(T, q, tpc, ppc, sg))):
                ev += dom.check_forms(fn, pin, dom.SCALAR_FORMS, rep, label, gi)
        # ---------------- oil
        To, api, gg, rsi, pb = dom.oil_params(rng, edge=True)
        po = float(rng.uniform(15, 2.5 * pb)) if k % 4 else pb
        ro = float(oil.density_Standing(To, po, api, gg, rsi))
        bo = float(oil.b_o_Standing(To, po, api, gg, rsi))
        rs = float(oil.solution_gor_Standing(To, po, api, gg, rsi))
        want = 62.37 * 141.5 / (131.5 + api) + 0.0136 * gg * rs
        ev += 1
        if not dom.relclose(ro * bo, want, 1e-12):
            bad("oil density times Bo is not stock-tank oil plus dissolved gas", dict(T=To, p=po, api=api, gg=gg, Rsi=rsi), dict(got=ro * bo, expected=want))
        if k % 5 == 0:
            # the same sweep held in the other containers a caller may use (2-D field, table column with its own labels, unsigned
            # or read-only arrays): element by element the scalar value, whatever the shape or the labels
            ps_int = [max(16, int(0.3 * pb)), int(0.9 * pb) + 1, int(1.5 * pb) + 1, int(2.4 * pb) + 1, max(17, int(0.5 * pb)), int(1.1 * pb) + 2]
            rep_v = lambda what, i_, got_, want_: bad(what, i_, dict(got=got_, expected=want_))
            for lab in ("density_Standing", "b_o_Standing", "solution_gor_Standing"):
                ev += dom.check_vector_forms(lambda q, lab=lab: getattr(oil, lab)(To, q, api, gg, rsi), ps_int, rep_v, "oil." + lab, dict(T=To, api=api, gg=gg, Rsi=rsi, pb=pb))
            # arrays that sweep across the bubble point (a PVT-table sweep): every entry must equal the scalar call
            arr = np.array([0.3 * pb, 0.9 * pb, pb, 1.5 * pb, 2.4 * pb])
            for order in (arr, arr[::-1].copy(), arr[:2], arr[2:]):
                try:
                    da = np.asarray(oil.density_Standing(To, order, api, gg, rsi), float)
                    ba = np.asarray(oil.b_o_Standing(To, order, api, gg, rsi), float)
                    ra = np.asarray(oil.solution_gor_Standing(To, order, api, gg, rsi), float)
                except Exception as e:  # noqa: BLE001
                    bad("oil density/FVF/GOR raise on a pressure array", dict(T=To, pressures=[float(x) for x in order], api=api, gg=gg, Rsi=rsi), repr(e)[:200])
                    continue
                ev += 1
                ds = np.array([float(oil.density_Standing(To, float(x), api, gg, rsi)) for x in order])
                wanta = 62.37 * 141.5 / (131.5 + api) + 0.0136 * gg * ra
                if not np.allclose(da, ds, rtol=1e-12) or not np.allclose(da * ba, wanta, rtol=1e-12):
                    bad("oil density times Bo is not stock-tank oil plus dissolved gas for every entry of a pressure array spanning the bubble point",
                        dict(T=To, pressures=[float(x) for x in order], api=api, gg=gg, Rsi=rsi, pb=pb),
                        dict(array=[float(x) for x in da], scalar=[float(x) for x in ds]))
        # ---------------- water
        Tw, pw, s = float(rng.uniform(32, 400)), float(rng.uniform(0, 20000)), float(rng.uniform(0, 25))
        rw = float(water.density_water_McCain(Tw, pw, s))
        bw = float(water.b_water_McCain(Tw, pw))
        wantw = 62.368 + 0.438603 * s + 1.60074e-3 * s ** 2
        ev += 1
        if not dom.relclose(rw * bw, wantw, 1e-12) or not bw > 0:
            bad("water density times Bw is not the brine density at standard conditions", dict(T=Tw, p=pw, salinity=s), dict(got=rw * bw, expected=wantw))
        if k < (4 if ctx.quick else 30):
            rho_r = 0.27 * (p / ppc) / (((T + 459.67) / (tpc + 459.67)) * z)
            orc = f"(fun _ _ _ => {core.frac(rho_r)})"
            fa = lambda *xs: " ".join(core.frac(float(x)) for x in xs)
            goals += [
                dict(expr=f"Gen_gas.density_DAK {orc} {fa(T, p, tpc, ppc, sg)}", value=rho, rtol=1e-8, label=f"density_DAK{(T, p, tpc, ppc, sg)}"),
                dict(expr=f"Gen_gas.b_factor_DAK {orc} {fa(T, p, tpc, ppc, 60.0, 14.7)}", value=bg, rtol=1e-8, label="b_factor_DAK"),
                dict(expr=f"Gen_gas.compressibility_DAK {orc} {fa(T, p, tpc, ppc)}", value=cg, rtol=1e-7, label="compressibility_DAK"),
                dict(expr=f"Gen_gas.viscosity_Sutton {orc} {fa(T, p, tpc, ppc, sg)}", value=mu, rtol=1e-8, label="viscosity_Sutton"),
                dict(expr=f"Gen_water.density_water_McCain {fa(Tw, pw, s)}", value=rw, label="density_water_McCain"),
            ]
            if abs(po - pb) > 1e-3 * pb:
                goals.append(dict(expr=f"Gen_oil.density_Standing {fa(To, po, api, gg, rsi)}", value=ro, rtol=1e-8, label=f"density_Standing{(To, po, api, gg, rsi)}"))
    for gl in goals:
        gl["unfold"] = core.gen_names(GEN)
    core.cert_phase(ctx, goals, ["Gen_water", "Gen_gas", "Gen_oil"])
    ctx.cov.update(evaluations=ev, distinct_nontrivial=ev, k1_points=k1_seen, k1_worst_relative_gap=worst_k1,
                   rule="random gas compositions (Sutton pseudocritical point, 1.05<=T_r<=3), pressures 15..min(14000, 30 Ppc); oils in the C12 box "
                        "incl. corners and p = p_b; water T 32..400 F, p 0..20000, salinity 0..25; each identity evaluated on the "
                        "implementation; d ln(rho)/dp by Richardson-extrapolated central differences of the library's own density")
    for e in known_k1:
        if ok_k and k1_seen:
            ctx.known_printed.append(f"KNOWN-FINDING: property={ID} compressibility_DAK is the logarithmic pressure-derivative of the published DAK density, "
                                     f"not of the library's own (K1: first coefficient A1*A2/T_r); {k1_seen} sampled points, relative gap up to {worst_k1:.3g}")
        elif k1_seen and not ok_k:
            ctx.broken.append("known finding K1 is observed but its characterisation theorem no longer checks")


def replay(payload):
    print(json.dumps(payload.get("input")), json.dumps(payload.get("observed"), default=str))
    return 0
