"""C17 - invariance to time-origin shifts and equivalent schedule forms."""
import json
import warnings

import numpy as np

from vlib import core, dom, rescorr

ID = "C17"
PROPS = ["C17_shift.v", "C17_prelude.v", "C01_matrix.v", "C04_step_system.v", "C17_user_law.v", "C04_time_loop.v", "C04_end_to_end.v", "C17_source_loop.v"]
GEN = ["reservoir"]


def impl_checks(ctx, cases):
    from bluebonnet.flow import FlowProperties, IdealReservoir, SinglePhaseReservoir
    ev = 0
    eps = np.finfo(float).eps

    def bad(what, case, obs):
        ctx.violations.append(dict(what=what, key=what, input=rescorr.replay_payload(case), observed=obs))

    for c in cases:
        base = rescorr.run_impl(c)
        if "field" not in base:
            continue
        t = np.asarray(c["times"], float)
        dtmin = float(np.diff(t).min()) if len(t) > 1 else 1.0
        if dtmin <= 0:
            continue
        for shift in (1.0, -3.5, 1e3, -1e6, 12345.678):
            c2 = dict(c)
            c2["times"] = t + shift
            sh = rescorr.run_impl(c2)
            ev += 1
            # shifting rounds each time to ulp(shift): the increments change by <= eps*|shift| each
            spread = 1.0
            if c["kind"] == "single":
                a_ = 1 / (np.asarray(c["table"]["compressibility"]) * np.asarray(c["table"]["viscosity"]))
                spread = float(a_.max() / a_.min())  # conditioning of the step matrix: solver error ~ spread * rtol
            # ... and two solves of the same step agree only to (solver rtol 1e-13) x (condition ~ 1 + 4 k_max) per step
            inv_dx2 = float(c["nx"] - 1) ** 2 if c["kind"] == "ideal" else float(c["nx"]) ** 2
            kmax = float(np.diff(t).max()) * inv_dx2 * max(1.0, spread)
            tol = (1e-9 + 40 * eps * abs(shift) / dtmin) * max(1.0, spread) + 1e-12 * (1 + 4 * kmax) * len(t)
            if "field" not in sh:
                bad("shifted time grid makes the simulation fail", c2, dict(shift=shift, error=sh.get("error")))
                continue
            # the lookup built from a shifted run: the stored recovery at the (shifted) simulated times, 0 before the first, the final
            # value after the last - evaluated at times computed independently of the array that was handed to simulate, which must
            # come back unchanged
            rf_s = np.array(sh["res"].recovery_factor(), float)
            its = sh["res"].recovery_factor_interpolator()
            ts = t + shift
            at_s = np.asarray(its(ts), float)
            b_s, a_s = float(its(ts[0] - 1.0)), float(its(ts[-1] + 1.0 + abs(ts[-1]) * 1e-9))
            ev += 1
            if not np.array_equal(sh["time_arg"], ts):
                bad("the caller's time array is modified by simulate / recovery_factor / recovery_factor_interpolator", c2, dict(shift=shift, max_change=float(np.abs(sh["time_arg"] - ts).max())))
            if not np.allclose(at_s, rf_s, rtol=1e-12, atol=1e-15) or b_s != 0.0 or a_s != float(rf_s[-1]):
                bad("recovery interpolator of a run on a shifted time grid does not reproduce recovery at the simulated times / 0 before / final value after", c2,
                    dict(shift=shift, max_node_diff=float(np.abs(at_s - rf_s).max()), before=b_s, after=a_s, final=float(rf_s[-1])))
            d = float(np.abs(sh["field"] - base["field"]).max())
            dr = float(np.abs(sh["rf"] - base["rf"]).max())
            if d > tol or dr > tol * max(1.0, t[-1] / dtmin):
                bad("shifting all times by a constant changes the pseudopressure field / recovery", c,
                    dict(shift=shift, max_field_diff=d, max_rf_diff=dr, tol=tol))
        if c["kind"] == "single" and "sched" not in c:
            c3 = dict(c)
            c3["sched"] = [c["pf"]] * len(t)
            cs = rescorr.run_impl(c3)
            ev += 1
            if "field" not in cs or not np.array_equal(cs["field"], base["field"]) or not np.array_equal(cs["rf"], base["rf"]):
                bad("a frac-face schedule that is constant in time does not give exactly the scalar setting's result", c, {})
            # wrong schedule lengths are rejected
            # every length class: empty, a single entry (broadcastable!), two, around len(time), a multiple of it
            for n2 in sorted({0, 1, 2, len(t) - 2, len(t) - 1, len(t) + 1, len(t) + 3, 2 * len(t)} - {len(t)}):
                if n2 < 0:
                    continue
                c4 = dict(c)
                c4["sched"] = [c["pf"]] * n2
                r4 = rescorr.run_impl(c4)
                ev += 1
                if r4.get("error") != "ValueError":
                    bad("a schedule whose length differs from the time grid is not rejected with ValueError", c4,
                        dict(schedule_len=n2, time_len=len(t), got=r4.get("error", "no error")))
        # a rejected schedule must leave the object as it was: a used object keeps answering for its last successful run, a fresh
        # one still has nothing to answer with
        if c["kind"] == "single" and "sched" not in c and len(t) >= 3 and c.get("two_phase_sw") is None:
            used = base["res"]
            rf_before = np.array(used.recovery_factor(), float)
            t_other = np.array(t, float) * 7.0 + 3.0
            with warnings.catch_warnings():
                warnings.simplefilter("ignore")
                try:
                    used.simulate(t_other, np.full(len(t) - 1, c["pf"]))
                    bad("a schedule whose length differs from the time grid is not rejected with ValueError", c, dict(schedule_len=len(t) - 1, time_len=len(t), object="already simulated"))
                except ValueError:
                    pass
                ev += 1
                try:
                    rf_after = np.array(used.recovery_factor(), float)
                    it_after = np.asarray(used.recovery_factor_interpolator()(t), float)
                    if not (np.array_equal(rf_after, rf_before) and np.allclose(it_after, rf_before, rtol=1e-12, atol=1e-15) and np.array_equal(np.asarray(used.time, float), t)):
                        bad("after a REJECTED simulate call (schedule of the wrong length) the object no longer answers for its last successful run: recovery / interpolator / stored times changed",
                            c, dict(final_recovery_before=float(rf_before[-1]), final_recovery_after=float(rf_after[-1]), stored_times_changed=not np.array_equal(np.asarray(used.time, float), t)))
                except Exception as e:  # noqa: BLE001
                    bad("after a REJECTED simulate call the object no longer answers for its last successful run", c, repr(e)[:160])
                fresh_r = SinglePhaseReservoir(c["nx"], c["pf"], c["pi"], base["fp"])
                try:
                    fresh_r.simulate(t_other, np.full(len(t) + 1, c["pf"]))
                except ValueError:
                    pass
                for call in ("recovery_factor", "recovery_factor_interpolator"):
                    ev += 1
                    try:
                        getattr(fresh_r, call)()
                        bad(f"{call}() on an object whose only simulate call was rejected does not raise", c, {})
                    except RuntimeError:
                        pass
                    except Exception as e:  # noqa: BLE001
                        bad(f"{call}() on an object whose only simulate call was rejected raises {type(e).__name__} instead of RuntimeError", c, {})
        # recovery before any simulation raises; interpolator fill
        with warnings.catch_warnings():
            warnings.simplefilter("ignore")
            if c["kind"] == "ideal":
                fresh = IdealReservoir(c["nx"], c["pf"], c["pi"], None)
            else:
                fresh = SinglePhaseReservoir(c["nx"], c["pf"], c["pi"], base["fp"])
        for call in ("recovery_factor", "recovery_factor_interpolator"):
            ev += 1
            try:
                getattr(fresh, call)()
                bad(f"{call}() before any simulation does not raise", c, {})
            except RuntimeError:
                pass
            except Exception as e:  # noqa: BLE001
                bad(f"{call}() before any simulation raises {type(e).__name__} instead of RuntimeError", c, {})
        res = base["res"]
        rf = res.recovery_factor()
        it = res.recovery_factor_interpolator()
        ev += 1
        at_nodes = np.asarray(it(t), float)
        before = float(it(t[0] - 1.0 - abs(t[0])))
        after = float(it(t[-1] * 2 + 10.0))
        if not np.array_equal(base["time_arg"], t):
            bad("the caller's time array is modified by simulate / recovery_factor / recovery_factor_interpolator", c, dict(max_change=float(np.abs(base["time_arg"] - t).max())))
        # a lookup object, once built, is a value: what the caller later does to ITS arrays (the time array it handed in, the recovery
        # array it was given) must not change what the lookup returns
        rf_then = np.array(rf, float)
        base["time_arg"] *= 3.0
        base["time_arg"] += 7.0
        try:
            rf *= 100.0
        except Exception:  # noqa: BLE001, S110
            pass
        again = np.asarray(it(t), float)
        ev += 1
        if not np.array_equal(again, at_nodes):
            bad("a recovery interpolator that was already built changes its values when the caller afterwards modifies its own time array / the recovery array it was handed (the lookup aliases the caller's arrays)",
                c, dict(max_change=float(np.abs(again - at_nodes).max())))
        rf = rf_then
        if not np.allclose(at_nodes, rf, rtol=1e-12, atol=1e-15) or before != 0.0 or after != float(rf[-1]):
            bad("recovery interpolator does not reproduce recovery at the simulated times / 0 before / final value after", c,
                dict(max_node_diff=float(np.abs(at_nodes - rf).max()), before=before, after=after, final=float(rf[-1])))
    # ---------------- the interpolator on single-precision / int32 grids whose first two times coincide - as they do once a float32 grid
    # is shifted by a large time origin (fixed 2026-10, 69d4598: scipy's lookup for such dtypes returned NaN there)
    from bluebonnet.flow import IdealReservoir as _Ideal
    for tg_, nm_ in (((np.array([0, 1e-3, .1, .2, .5, 1.2]) + 1e5).astype(np.float32), "float32 grid shifted by 1e5"), (np.array([0, 0, 1, 2, 5, 9], dtype=np.int32), "int32 day counts, first day repeated"),
                     ((np.array([0, 1e-3, .1, .2, .5, 1.2]) - 3e5).astype(np.float32), "float32 grid shifted by -3e5")):
        r_ = _Ideal(30, 1000.0, 8000.0, None)
        r_.simulate(tg_.copy())
        rf_ = np.array(r_.recovery_factor(), float)
        it_ = r_.recovery_factor_interpolator()
        at_ = np.asarray(it_(tg_.astype(np.float64)), float)
        ev += 1
        first_ = float(it_(float(tg_[0]) - 1.0))
        # at a repeated time the lookup may return either of the two recoveries stored for it
        lo_ = np.array([rf_[np.nonzero(tg_ == q_)[0]].min() for q_ in tg_]); hi_ = np.array([rf_[np.nonzero(tg_ == q_)[0]].max() for q_ in tg_])
        if not (np.all(np.isfinite(at_)) and np.all(at_ >= lo_ - 1e-12) and np.all(at_ <= hi_ + 1e-12) and first_ == 0.0 and float(it_(float(tg_[-1]) + 1.0)) == float(rf_[-1])):
            ctx.violations.append(dict(what="recovery interpolator does not reproduce recovery at the simulated times / 0 before / final value after (time grid that is not float64 and whose first two entries coincide)",
                                       key="interp-nonfloat64-repeated-first", input=dict(kind="ideal", nx=30, time_grid=nm_, times=[float(x) for x in tg_]),
                                       observed=dict(at_simulated_times=[None if x != x else float(x) for x in at_], recovery=[float(x) for x in rf_], before_first=first_)))
    # time grids that are not float64 (day counts as integers, float32 from a file): the frac-face pressure must not inherit the
    # grid's dtype - scalar setting == constant schedule exactly, and shifting the grid by half a day changes nothing
    from bluebonnet.flow import FlowProperties
    tbg = rescorr.shipped_gas(stride=20)
    with warnings.catch_warnings():
        warnings.simplefilter("ignore")
        fpg = FlowProperties({k_: v_.copy() for k_, v_ in tbg.items()}, 8000.0)
    for tgrid, name in ((np.arange(0, 30), "int64 day counts"), (np.arange(0, 30, dtype=np.int32), "int32 day counts"),
                        (np.linspace(0, 3, 25).astype(np.float32) ** 2, "float32")):
        for pf in (1000.7, 2500.25):
            runs = {}
            for how in ("scalar", "constant schedule", "shifted by 0.5"):
                r_ = SinglePhaseReservoir(8, pf, 8000.0, fpg)
                with warnings.catch_warnings():
                    warnings.simplefilter("ignore")
                    if how == "scalar":
                        r_.simulate(tgrid.copy())
                    elif how == "constant schedule":
                        r_.simulate(tgrid.copy(), np.full(len(tgrid), pf))
                    else:
                        r_.simulate(tgrid.astype(float) + 0.5)
                    runs[how] = (np.array(r_.pseudopressure, float), np.array(r_.recovery_factor(), float))
            ev += 3
            inp_t = dict(time_grid=name, p_frac=pf, p_initial=8000.0, nx=8)
            if not (np.array_equal(runs["scalar"][0], runs["constant schedule"][0]) and np.array_equal(runs["scalar"][1], runs["constant schedule"][1])):
                ctx.violations.append(dict(what="a frac-face schedule that is constant in time does not give exactly the scalar setting's result (time grid that is not float64)",
                                           key="const-sched-dtype", input=inp_t,
                                           observed=dict(max_field_diff=float(np.abs(runs["scalar"][0] - runs["constant schedule"][0]).max()))))
            tolg = 1e-6 if "float32" in name else 1e-9
            if np.abs(runs["scalar"][0] - runs["shifted by 0.5"][0]).max() > tolg:
                ctx.violations.append(dict(what="shifting all times by a constant changes the pseudopressure field (time grid that is not float64)",
                                           key="shift-dtype", input=inp_t,
                                           observed=dict(max_field_diff=float(np.abs(runs["scalar"][0] - runs["shifted by 0.5"][0]).max()))))
    return ev


def run(ctx):
    core.coq_phase(ctx, GEN, PROPS)
    rng = dom.rng_for(ctx, 17)
    n = 10 if ctx.quick else 120
    cases = [c for c in rescorr.gen_cases(rng, n, ctx.quick, nt_max=20 if ctx.quick else 60, sched_prob=0.3)
             if c["grid"] != "huge"]
    # user subclasses of both classes that override the documented hook `alpha_scaled` (a pressure-dependent law on the ideal class,
    # another table's diffusivity on the single-phase class) on UNIFORM grids: every increment is the same number before the shift and
    # differs in its last bits after it, so anything keyed on "the same step as before" behaves differently at the two origins
    shipped_ = rescorr.shipped_gas(stride=20)
    shipped_ = dict(shipped_, alpha=1.0 / (np.asarray(shipped_["compressibility"], float) * np.asarray(shipped_["viscosity"], float)))
    for j_, (law_, nx_, dt_) in enumerate((([0.25, 0.75], 20, 0.01), ([1.6, -0.9], 35, 0.004)) if ctx.quick else
                                          (([0.25, 0.75], 20, 0.01), ([1.6, -0.9], 35, 0.004), ([0.1, 0.9], 60, 0.002), ([2.0, -1.5], 12, 0.05))):
        cases.append(dict(kind="ideal", pi=8000.0, pf=1000.0 + 2000.0 * j_, nx=nx_, times=np.arange(25 + 10 * j_) * dt_, grid="uniform", law=law_))
        cases.append(dict(kind="single", table=shipped_, table_kind="shipped", pi=8000.0, pf=1000.0 + 2000.0 * j_, nx=nx_, times=np.arange(25 + 10 * j_) * dt_ * 3, grid="uniform", override=True))
    # time grids handed over in other containers (a masked array with nothing masked, a pandas Series with default labels, a list): the
    # same simulation as for the plain array of the same numbers
    def rep_tf(c_, form_, obs_):
        ctx.violations.append(dict(what="a time grid given in another container is not simulated like the same numbers in a plain array", key="time-container",
                                   input=dict(**rescorr.replay_payload(c_), time_form=form_), observed=obs_))
    rescorr.time_container_forms([c for c in cases if c["kind"] == "single" and not c.get("reassign") and c.get("two_phase_sw") is None and not c.get("sweep")][:2]
                                 + [c for c in cases if c["kind"] == "ideal" and not c.get("reassign")][:1], rep_tf)
    ev = impl_checks(ctx, cases)
    # the model (whose shift invariance is proved) against the implementation, on shifted grids
    shifted = []
    for c in cases[: (6 if ctx.quick else 40)]:
        c2 = dict(c)
        c2["times"] = np.asarray(c["times"], float) + float(rng.choice([-50.0, 7.25, 1000.0]))
        shifted.append(c2)
    impls = [rescorr.run_impl(c) for c in shifted]
    small = [k for k, c in enumerate(shifted) if len(c["times"]) * c["nx"] <= 3000]
    res = rescorr.run_cases(ctx, [shifted[k] for k in small], [impls[k] for k in small], "C17", shard=3, with_resid=False)
    for k, r in zip(small, res):
        if r is None:
            continue
        impl_err = 1.0 if "error" in impls[k] else 0.0
        if r[5] != impl_err:
            ctx.violations.append(dict(what="model and implementation disagree on whether the call raises", key="raise",
                                       input=rescorr.replay_payload(shifted[k]), observed=dict(model=r[5], impl=impls[k].get("error"))))
        elif shifted[k].get("table_kind") == "random":
            # tables whose diffusivity jumps by decades between neighbouring rows make the level-to-level map so sensitive that two
            # accurate trajectories separate (DESIGN 11.9); for them the tie is the per-step residual (C04), not the trajectory
            continue
        elif not (r[0] <= 1e-6 and r[1] <= 1e-6):
            ctx.violations.append(dict(what="implementation on a shifted grid differs from the (shift-invariant) model", key="corr",
                                       input=rescorr.replay_payload(shifted[k]), observed=dict(field=r[0], rf=r[1])))
    ctx.cov.update(evaluations=ev + len(shifted), distinct_nontrivial=len(cases),
                   traces_validated_against_impl=len([r for r in res if r is not None]),
                   rule="each generated case (both classes, all table families, uniform/quadratic/geometric/random grids) is re-run "
                        "with five time shifts up to 1e6 (tolerance scaled by eps*|shift|/dt_min), as a constant schedule, with "
                        "schedules of length 0, 1, 2, len(time)+{-2,-1,1,3}, 2 len(time), and through the recovery interpolator; shifted cases are also "
                        "compared with the float instance of the Coq model")
    ctx.samples += [rescorr.describe(c) for c in cases[:3]]
    ctx.validated_only.append("rounding of the shifted time stamps (float): covered by the scaled tolerance on explored inputs")


def replay(payload):
    case = payload["input"]
    case["times"] = np.asarray(case["times"], float)
    ctx = core.Ctx(ID, "quick", 0)
    impl_checks(ctx, [case])
    print(json.dumps([v["what"] for v in ctx.violations]))
    return 1 if ctx.violations else 0
