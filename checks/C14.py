"""C14 - Brooks-Corey relative permeabilities are finite, within [0, k_max] and monotone."""
import json
import math

import numpy as np

from vlib import core, dom

ID = "C14"
GEN = ["flowprops"]
PROPS = ["C14_relperm.v", "C14_signatures.v"]
NAMES = ("n_o", "n_w", "n_g", "S_or", "S_wc", "S_gc", "k_ro_max", "k_rw_max", "k_rg_max")


def admissible(rng, edge=False):
    while True:
        n = [float(rng.choice([1.0, 6.0, rng.uniform(1, 6)])) if edge else float(rng.uniform(1, 6)) for _ in range(3)]
        s = [float(rng.uniform(0, 0.4)) * float(rng.random() < 0.8) for _ in range(3)]
        k = [float(rng.choice([0.0, 1.0, rng.uniform(0, 1)])) for _ in range(3)]
        if sum(s) < 0.98:
            return dict(zip(NAMES, n + s + k))


ORDERS = [("So", "Sw", "Sg"), ("So", "Sg", "Sw"), ("Sw", "So", "Sg"), ("Sg", "Sw", "So"), ("Sw", "Sg", "So"), ("Sg", "So", "Sw")]


def sat_records(rows, order=("So", "Sw", "Sg")):
    """rows are (So, Sw, Sg) triples; the record array lists its fields in the given order (phases are identified by NAME)"""
    pos = {"So": 0, "Sw": 1, "Sg": 2}
    return np.array([tuple(r[pos[f]] for f in order) for r in rows], dtype=[(f, "f8") for f in order])


# the documented order of the fields of RelPermParams (its docstring's parameter list)
DOC_ORDER = ["n_o", "n_w", "n_g", "S_or", "S_wc", "S_gc", "k_ro_max", "k_rw_max", "k_rg_max"]


def run(ctx):
    from bluebonnet.flow.flowproperties import RelPermParams, relative_permeabilities, relative_permeabilities_twophase
    core.coq_phase(ctx, GEN, PROPS)
    rng = dom.rng_for(ctx, 14)
    n = 300 if ctx.quick else 6000
    ev = 0
    goals = []

    def bad(what, inp, obs):
        ctx.violations.append(dict(what=what, key=what, input=inp, observed=obs))

    for k in range(n):
        par = admissible(rng, edge=k % 3 == 0)
        # the record is built by keyword, positionally in the documented order of its nine fields, or from a sequence in that order
        how_built = ["keywords", "positional, documented order", "_make from a list in the documented order"][k % 3]
        P = RelPermParams(**par) if k % 3 == 0 else RelPermParams(*[par[q] for q in DOC_ORDER]) if k % 3 == 1 else RelPermParams._make([par[q] for q in DOC_ORDER])
        par = dict(par, record_built=how_built)
        rows = []
        for _ in range(8):
            x = rng.dirichlet([0.6, 0.6, 0.6])
            rows.append(tuple(float(v) for v in x))
        # phases below their residual, exact residual, and sums off by less than 1e-3
        rows.append((par["S_or"] * 0.5, 1 - par["S_or"] * 0.5 - par["S_gc"] * 0.5, par["S_gc"] * 0.5))
        rows.append((par["S_or"], par["S_wc"], 1 - par["S_or"] - par["S_wc"]))
        rows.append((0.3, 0.3, 0.4 + 5e-4))
        if k % 4 == 3:
            # records whose fields have object dtype (DataFrame.to_records() of an object-cast frame; exact Fractions that sum to one):
            # admissible saturations, so the function answers, with the values it gives for the same numbers as floats
            from fractions import Fraction
            rows_o = [(0.5, 0.25, 0.25), (Fraction(1, 2), Fraction(1, 5), Fraction(3, 10)), (par["S_or"] * 0.5, 0.3, 0.7 - par["S_or"] * 0.5)]
            rec_o = np.array([tuple(r_) for r_ in rows_o], dtype=[("So", object), ("Sw", object), ("Sg", object)])
            try:
                kr_o = relative_permeabilities(rec_o, P)
                kr_f = relative_permeabilities(sat_records([tuple(float(x) for x in r_) for r_ in rows_o]), P)
                for ph_ in ("kro", "krw", "krg"):
                    if not np.allclose(np.asarray(kr_o[ph_], float), np.asarray(kr_f[ph_], float), rtol=1e-12, atol=0):
                        bad("relative permeabilities of object-dtype saturation records differ from those of the same numbers as floats", dict(params=par, field_dtypes="object (floats, Fractions)"),
                            dict(phase=ph_, object_records=[float(x) for x in kr_o[ph_]], float_records=[float(x) for x in kr_f[ph_]]))
            except Exception as e:  # noqa: BLE001
                bad("an admissible saturation record is rejected", dict(params=par, saturations=[[float(x) for x in r_] for r_ in rows_o], field_dtypes="object (Python floats / Fractions)"), repr(e)[:200])
        if k % 4 == 1:
            # a table whose columns have different dtypes (DataFrame({"So": 0, "Sw": sw, "Sg": 1 - sw}).to_records(): the constant
            # column is integer): vertices of the saturation triangle with whole-number entries, each field with its own dtype
            mixed = np.zeros(3, dtype=[("So", np.int64), ("Sw", np.float64), ("Sg", np.float32)])
            mixed["So"], mixed["Sw"], mixed["Sg"] = [0, 1, 0], [1.0, 0.0, 0.0], [0.0, 0.0, 1.0]
            try:
                krm = relative_permeabilities(mixed, P)
                for (so_, sw_, sg_), rec_ in zip(((0, 1.0, 0.0), (1, 0.0, 0.0), (0, 0.0, 1.0)), krm):
                    want_m = (par["k_ro_max"] if so_ == 1 else 0.0, par["k_rw_max"] if sw_ == 1 else 0.0, par["k_rg_max"] if sg_ == 1 else 0.0)
                    got_m = (float(rec_["kro"]), float(rec_["krw"]), float(rec_["krg"]))
                    if not np.allclose(got_m, want_m, rtol=1e-6, atol=0):
                        bad("relative permeabilities of a single-phase saturation record (fields of different dtypes) are not (k_max of that phase, 0, 0)", dict(params=par, saturation=dict(So=so_, Sw=sw_, Sg=sg_), field_dtypes="int64, float64, float32"), list(got_m))
            except Exception as e:  # noqa: BLE001
                bad("an admissible parameter set / saturation record is rejected", dict(params=par, saturations="vertices of the saturation triangle", field_dtypes="So int64, Sw float64, Sg float32"), repr(e)[:200])
        try:
            kr = relative_permeabilities(sat_records(rows, ORDERS[k % len(ORDERS)]), P)
        except Exception as e:  # noqa: BLE001
            bad("an admissible parameter set / saturation record is rejected", dict(params=par, saturations=rows), repr(e)[:200])
            continue
        ev += len(rows)
        for (so, sw, sg), rec in zip(rows, kr):
            for ph, s, sr, km, val in (("kro", so, par["S_or"], par["k_ro_max"], rec["kro"]), ("krw", sw, par["S_wc"], par["k_rw_max"], rec["krw"]),
                                       ("krg", sg, par["S_gc"], par["k_rg_max"], rec["krg"])):
                val = float(val)
                inp = dict(params=par, saturation=dict(So=so, Sw=sw, Sg=sg), phase=ph)
                if not math.isfinite(val) or val < 0 or val > km * (1 + 1e-12):
                    bad("relative permeability is not a finite number in [0, k_max]", inp, val)
                elif s <= sr and val != 0.0:
                    bad("relative permeability is not exactly 0 at or below the phase's residual saturation", inp, val)
        # monotone in the phase's own saturation
        grid = np.linspace(0, 1, 41)
        for ph, idx in (("kro", 0), ("krw", 1), ("krg", 2)):
            rows2 = []
            for s in grid:
                r = [0.0, 0.0, 0.0]
                r[idx] = float(s)
                r[(idx + 1) % 3] = float((1 - s) * 0.4)
                r[(idx + 2) % 3] = float(1 - s - (1 - s) * 0.4)
                rows2.append(tuple(r))
            vals = np.asarray(relative_permeabilities(sat_records(rows2), P)[ph], float)
            ev += len(grid)
            if np.any(np.diff(vals) < -1e-15):
                bad("relative permeability decreases as the phase's own saturation increases", dict(params=par, phase=ph), float(np.diff(vals).min()))
        # rejection: one guard at a time
        if k % 10 == 0:
            for name, value in (("n_o", 6.5), ("n_w", 0.5), ("n_g", 7.0), ("S_or", -0.1), ("S_wc", 1.2), ("S_gc", -1e-9),
                                ("k_ro_max", 1.1), ("k_rw_max", -0.2), ("k_rg_max", 1 + 1e-9)):
                q = {kk_: vv_ for kk_, vv_ in par.items() if kk_ != "record_built"}
                q[name] = value
                ev += 1
                try:
                    relative_permeabilities(sat_records([(0.4, 0.3, 0.3)]), RelPermParams(**q))
                    bad("a parameter outside its individual range is not rejected", dict(params=q, changed=name), "no error")
                except ValueError:
                    pass
            for off in (2e-3, -0.05, 0.3):
                ev += 1
                try:
                    relative_permeabilities(sat_records([(0.4, 0.3, 0.3 + off)]), P)
                    bad("saturations that do not sum to one are not rejected", dict(params=par, sum=1 + off), "no error")
                except ValueError:
                    pass
            # two-phase helper
            sw = par["S_wc"] * float(rng.uniform(0, 1))
            df = relative_permeabilities_twophase(P, sw)
            ev += 1
            tot = np.asarray(df["So"] + df["Sw"] + df["Sg"], float)
            if not np.allclose(tot, 1.0, atol=1e-12) or np.any(np.asarray(df["krw"], float) != 0.0) or not np.all(np.isfinite(df[["kro", "krw", "krg"]].to_numpy())):
                bad("two-phase helper: saturations do not sum to one / water is mobile / values not finite", dict(params=par, Sw=sw),
                    dict(sum_min=float(tot.min()), sum_max=float(tot.max()), krw_max=float(np.max(df["krw"]))))
            if par["S_wc"] < 0.9:
                try:
                    relative_permeabilities_twophase(P, par["S_wc"] + 0.05)
                    bad("two-phase helper accepts a water saturation above residual", dict(params=par), "no error")
                except ValueError:
                    pass
        if k < (5 if ctx.quick else 40):
            # certified evaluation of the translated function at a point with every phase mobile
            so = par["S_or"] + 0.31 * (1 - par["S_or"] - par["S_wc"] - par["S_gc"])
            sw = par["S_wc"] + 0.27 * (1 - par["S_or"] - par["S_wc"] - par["S_gc"])
            sg = 1 - so - sw
            rec = relative_permeabilities(sat_records([(so, sw, sg)]), P)[0]
            d = 1 - par["S_or"] - par["S_wc"] - par["S_gc"]
            F = core.frac
            for ph, s_, sr, km, nn in (("kro", so, par["S_or"], par["k_ro_max"], par["n_o"]), ("krw", sw, par["S_wc"], par["k_rw_max"], par["n_w"]),
                                       ("krg", sg, par["S_gc"], par["k_rg_max"], par["n_g"])):
                # the closed form that C14_relperm.v proves equal to the translated function on admissible input
                goals.append(dict(expr=f"{F(km)} * pypow (pyclip (({F(s_)} - {F(sr)}) / (1 - {F(par['S_or'])} - {F(par['S_wc'])} - {F(par['S_gc'])})) 0 1) {F(nn)}",
                                  value=float(rec[ph]), rtol=1e-9, atol=1e-15, label=f"{ph} {par}", unfold=["pyclip", "Rmax", "Rmin"]))
    core.cert_phase(ctx, goals, ["Gen_flowprops"])
    ctx.cov.update(evaluations=ev, distinct_nontrivial=n,
                   rule="admissible RelPermParams incl. fractional exponents, non-zero residuals for every phase and box corners; saturation records "
                        "on the simplex incl. phases below/at residual and sums off by < 1e-3; one-at-a-time inadmissible parameters; two-phase helper "
                        "for Sw <= S_wc and Sw > S_wc")
    ctx.samples.append(dict(params=par))
    ctx.notes.append("the packing into a structured array and the final `< 0` clamp are modelled by hand (clamp0) and tied by the value checks above")


def replay(payload):
    print(json.dumps(payload.get("input"), default=str), json.dumps(payload.get("observed"), default=str))
    return 0
