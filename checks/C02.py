"""C02 - solver converges to the solution of the documented diffusion problem."""
import json
import warnings

import numpy as np

from vlib import core, dom, refsol, rescorr

ID = "C02"
GEN = ["reservoir"]
PROPS = ["C02_convergence.v", "C02_consistency.v", "C01_matrix.v", "C04_step_system.v", "C03_flux_branch.v", "C02_mesh.v", "C10_signatures.v", "C17_user_law.v"]
T_END = 0.5


def ladder(kind, ratio, nxs, table=None, grid="quadratic", reverse_rows=False, reassign=False, two_phase_sw=None):
    """errors of field (max over nodes, relative to u_i - u_f) and of both recoveries at T_END"""
    out = []
    for nx in nxs:
        nt = 4 * nx * nx // 25 + 10
        t = np.linspace(0, np.sqrt(T_END), nt) ** 2 if grid == "quadratic" else np.linspace(0, T_END, nt)
        if kind == "ideal":
            c = dict(kind="ideal", pi=8000.0, pf=8000.0 * ratio, nx=nx, times=t)
        else:
            pi = float(table["pressure"][-2])
            c = dict(kind="single", table=table, pi=pi, pf=max(pi * ratio, float(table["pressure"][1])), nx=nx, times=t)
            if reverse_rows:
                c["reverse_rows"] = True
        if two_phase_sw is not None and kind != "ideal":
            c["two_phase_sw"] = two_phase_sw    # TwoPhaseReservoir(nx, p_frac, p_initial, fluid, Sw_init), positional
        if reassign:
            c["reassign"] = True    # the object was built and run with another node count / pressures; its fields are then re-assigned
        im = rescorr.run_impl(c)
        if "field" not in im:
            out.append(dict(nx=nx, error=im.get("error")))
            continue
        if kind == "ideal":
            ui, uf, dx, fvf = 1.0, 0.0, 1.0 / (nx - 1), 1 - ratio
        else:
            ui, uf, dx, fvf = im["m_i"], float(im["fp"].m_scaled_func(c["pf"])), 1.0 / nx, 1.0
        x = (np.arange(nx) + 1) * dx
        out.append(dict(nx=nx, nt=nt, ui=ui, uf=uf, x=x, field=im["field"][-1], rf=float(im["rf"][-1]),
                        rfd=float(im["rfd"][-1]) if "rfd" in im else None, fvf=fvf, fp=im.get("fp"), case=c))
    return out


def run(ctx):
    core.coq_phase(ctx, GEN, PROPS)
    rng = dom.rng_for(ctx, 2)
    nxs = (10, 20, 40) if ctx.quick else (10, 20, 40, 80, 160)
    ev = 0
    report = []

    def bad(what, inp, obs):
        ctx.violations.append(dict(what=what, key=what, input=inp, observed=obs))

    def judge(name, errs, inp, c_first, what):
        """first-order small at the coarsest rung and shrinking under refinement"""
        report.append(dict(case=name, quantity=what, errors=[float(e) for e in errs]))
        if not errs[0] <= c_first / nxs[0]:
            bad(f"{what}: error at nx={nxs[0]} is not first-order small", inp, dict(errors=[float(e) for e in errs], bound=c_first / nxs[0]))
        for a, b in zip(errs, errs[1:]):
            if not b <= 0.7 * a + 1e-9:
                bad(f"{what}: error does not shrink under refinement", inp, dict(errors=[float(e) for e in errs]))
                break

    ratios = (0.0125, 0.5, 0.99875) if ctx.quick else (0.0125, 0.1, 0.5, 0.875, 0.99, 0.99875)
    # ---------------- closed form: ideal reservoir and constant-diffusivity tables
    liquid = rescorr.synth_table("liquid", 60)
    cum = float(refsol.fourier_cumflux(T_END)[0])
    shifted = rescorr.synth_table("shifted", 60)   # pseudopressure measured from a reference inside the table: m_f < 0 for deep drawdown
    for ratio in ratios:
        for kind, tb in (("ideal", None), ("single", liquid)) + ((("single", shifted),) if ratio <= 0.5 else ()):
            lad = ladder(kind, ratio, nxs, tb)
            ev += len(lad)
            inp = dict(kind=kind, table="constant diffusivity" if tb is not None else None, p_frac_over_p_initial=ratio, nx_ladder=list(nxs), t_end=T_END)
            if any("field" not in r for r in lad):
                bad("simulation fails on the refinement ladder", inp, [r.get("error") for r in lad])
                continue
            ferr, rerr, derr = [], [], []
            for r in lad:
                ex = refsol.fourier_field(np.minimum(r["x"], 2 - r["x"]), T_END, r["ui"], r["uf"])
                ferr.append(np.abs(r["field"] - ex).max() / (r["ui"] - r["uf"]))
                rfex = cum * (r["ui"] - r["uf"]) * r["fvf"]
                rerr.append(abs(r["rf"] / rfex - 1))
                if r["rfd"] is not None:
                    derr.append(abs(r["rfd"] / rfex - 1))
            judge(f"{kind} r={ratio}", ferr, inp, 2.5, "pseudopressure field vs Fourier series")
            judge(f"{kind} r={ratio}", rerr, inp, 2.5, "flux recovery vs Fourier series")
            # the oil-gas class (same time stepping, one more positional argument: the initial water saturation) on the same ladder
            if ratio == ratios[1] and kind == "single" and tb is liquid:
                lad3 = ladder(kind, ratio, nxs, tb, two_phase_sw=0.25)
                ev += len(lad3)
                inp3 = dict(**inp, object="TwoPhaseReservoir(nx, pressure_fracface, pressure_initial, fluid, 0.25)  (documented positional order, Sw_init = 0.25)")
                if any("field" not in r for r in lad3):
                    bad("simulation fails for the oil-gas reservoir class", inp3, [r.get("error") for r in lad3])
                else:
                    ferr3 = [np.abs(r["field"] - refsol.fourier_field(np.minimum(r["x"], 2 - r["x"]), T_END, r["ui"], r["uf"])).max() / (r["ui"] - r["uf"]) for r in lad3]
                    judge(f"two-phase class r={ratio}", ferr3, inp3, 2.5, "pseudopressure field vs Fourier series (oil-gas reservoir class)")
            # the same ladder walked with objects whose node count and pressures were RE-ASSIGNED after an earlier run with other
            # settings (a refinement loop that reuses its reservoir object): same problem, same answers
            if ratio == ratios[1] and tb is not shifted:
                lad2 = ladder(kind, ratio, nxs, tb, reassign=True)
                ev += len(lad2)
                inp2 = dict(**inp, object="built and run with nx+7 nodes and other pressures, then nx / pressure_fracface / pressure_initial re-assigned before simulate")
                if any("field" not in r for r in lad2):
                    bad("simulation fails after re-assigning the reservoir's fields", inp2, [r.get("error") for r in lad2])
                else:
                    for r, r2 in zip(lad, lad2):
                        d = float(np.abs(r["field"] - r2["field"]).max() / (r["ui"] - r["uf"]))
                        if d > 1e-9 or not dom.relclose(r["rf"], r2["rf"], 1e-9, 1e-12):
                            bad("a reservoir whose fields were re-assigned solves a different problem than a freshly built one with the same settings", dict(**inp2, nx=r["nx"]),
                                dict(field_max_rel_diff=d, flux_recovery_fresh=r["rf"], flux_recovery_reassigned=r2["rf"]))
                            break
    # ---------------- a refinement study run as a thread pool (one worker per ratio, same node count, different pressures and
    # horizons): each member must be the simulation it is when run alone, and so converge like it
    for nx_c in nxs[:2]:
        nt_c = 4 * nx_c * nx_c // 25 + 10
        conc = [dict(kind="ideal", pi=8000.0, pf=8000.0 * r_, nx=nx_c, times=np.linspace(0, np.sqrt(T_END * (1 + 0.3 * j_)), nt_c + 7 * j_) ** 2) for j_, r_ in enumerate((0.0125, 0.3, 0.6, 0.9))]
        conc += [dict(kind="single", table=liquid, pi=float(liquid["pressure"][-2]), pf=float(liquid["pressure"][-2]) * 0.4, nx=nx_c, times=np.linspace(0, np.sqrt(T_END), nt_c) ** 2)]
        ser = [rescorr.run_impl(c_) for c_ in conc]
        ev += rescorr.threaded_equals_serial(conc, ser, lambda c_, obs: bad(
            "a simulation that runs while others run in other threads (own objects, own arrays, same node count) is not the simulation it is when run alone - it does not solve the documented problem",
            dict(kind=c_["kind"], nx=c_["nx"], nt=len(c_["times"]), p_frac_over_p_initial=c_["pf"] / c_["pi"], simulated="concurrently with 4 other runs, one thread each"), obs), rounds=2, workers=5)
    # ---------------- user subclasses that override the documented hook `alpha_scaled` (a law on the ideal class, another table's
    # diffusivity on the single-phase class) and inherit `simulate`: the scheme must be the scheme FOR THAT LAW at every step - compared
    # with the float instance of the model (ReservoirUser.idu_simulate / Reservoir.simulate_single, which take the law as a parameter;
    # the convergence theorems are stated for an arbitrary non-negative law)
    ship_u = rescorr.shipped_gas(stride=12)
    ship_u = dict(ship_u, alpha=1.0 / (np.asarray(ship_u["compressibility"], float) * np.asarray(ship_u["viscosity"], float)))
    user_cases = []
    for j_, law_ in enumerate(([0.25, 0.75], [1.6, -0.9])):
        for grid_ in ("uniform", "quadratic"):
            tg_ = np.linspace(0, 0.6, 30) if grid_ == "uniform" else np.linspace(0, np.sqrt(0.6), 30) ** 2
            user_cases.append(dict(kind="ideal", pi=8000.0, pf=800.0 + 3000.0 * j_, nx=16 + 9 * j_, times=tg_, grid=grid_, law=law_))
        user_cases.append(dict(kind="single", table=ship_u, table_kind="shipped", pi=8000.0, pf=800.0 + 3000.0 * j_, nx=16 + 9 * j_,
                               times=np.linspace(0, 2.0, 30) if j_ else np.linspace(0, np.sqrt(2.0), 30) ** 2, grid="uniform" if j_ else "quadratic", override=True))
    user_impls = [rescorr.run_impl(c_) for c_ in user_cases]
    ev += len(user_cases)
    for c_, im_, r_ in zip(user_cases, user_impls, rescorr.run_cases(ctx, user_cases, user_impls, "C02user", shard=3, with_resid=False)):
        if "field" not in im_:
            bad("simulation fails for a user subclass that overrides alpha_scaled", rescorr.describe(c_), im_.get("error"))
        elif r_ is not None and not (r_[0] <= 1e-6 and r_[1] <= 1e-6):
            ctx.violations.append(dict(what="a user subclass that overrides the documented hook alpha_scaled does not get the scheme for its own diffusivity law: "
                                            "its stored field differs from the model's (which consults the law at every step)",
                                       key="user-law", input=rescorr.replay_payload(c_), observed=dict(max_abs_diff_field=r_[0], max_abs_diff_recovery=r_[1])))
    # ---------------- the time grid in the containers a caller holds it in (a masked array with nothing masked, a pandas Series with default
    # labels - a column of a production table divided by tau -, a plain list): the scheme is the scheme for those numbers
    def rep_tf(c_, form_, obs_):
        ctx.violations.append(dict(what="a time grid given in another container does not give the solution of the documented problem: it is not simulated like the same numbers in a plain array",
                                   key="time-container", input=dict(**rescorr.replay_payload(c_), time_form=form_), observed=obs_))
    ev += rescorr.time_container_forms([dict(kind="single", table=ship_u, table_kind="shipped", pi=8000.0, pf=1500.0, nx=20, times=np.linspace(0, np.sqrt(1.5), 25) ** 2, grid="quadratic"),
                                        dict(kind="ideal", pi=8000.0, pf=1500.0, nx=20, times=np.linspace(0, np.sqrt(1.5), 25) ** 2, grid="quadratic")], rep_tf)
    # ---------------- pressure-dependent diffusivity: independent method-of-lines reference
    tables = [("shipped", rescorr.shipped_gas(stride=6))] + ([] if ctx.quick else [("ideal-gas", rescorr.synth_table("ideal", 80)), ("haynesville", rescorr.shipped_haynesville(stride=8))])
    # the same table with its rows listed by decreasing pressure must give the same answers (the library's lookups sort)
    tables = [(n, t, False) for n, t in tables] + [(tables[0][0] + " (rows by decreasing pressure)", tables[0][1], True)]
    for tname, tb, rev in tables:
      for grid in (("quadratic",) if rev else ("quadratic", "uniform")):   # equal steps too: a coefficient frozen between equal steps must show
        for ratio in ((0.2,) if ctx.quick or rev else (0.05, 0.5, 0.9)):
            lad = ladder("single", ratio, nxs, tb, grid, reverse_rows=rev)
            ev += len(lad)
            inp = dict(kind="single", table=tname, time_grid=grid, p_frac_over_p_initial=ratio, nx_ladder=list(nxs), t_end=T_END)
            if any("field" not in r for r in lad):
                bad("simulation fails on the refinement ladder", inp, [r.get("error") for r in lad])
                continue
            # the reference problem is built from the TABLE, independently of the library's lookups: scaled pseudopressure
            # m * (c mu z / 2p)(p_i), diffusivity 1/(c mu) interpolated in it and held at its extreme values outside
            pt = np.asarray(tb["pressure"], float)
            s_i = float(np.interp(lad[0]["case"]["pi"], pt, tb["compressibility"] * tb["viscosity"] * tb["z-factor"] / (2 * pt)))
            msc = np.asarray(tb["pseudopressure"], float) * s_i
            atab = 1.0 / (np.asarray(tb["compressibility"], float) * np.asarray(tb["viscosity"], float))
            ui_t, uf_t = float(np.interp(lad[0]["case"]["pi"], pt, msc)), float(np.interp(lad[0]["case"]["pf"], pt, msc))
            alpha_t = lambda u: np.interp(u, msc, atab, left=atab.min(), right=atab.max())
            a_i = float(alpha_t(ui_t))
            if not (dom.relclose(ui_t, lad[0]["ui"], 1e-9) and dom.relclose(uf_t, lad[0]["uf"], 1e-9, 1e-12)):
                bad("initial / frac-face scaled pseudopressure differ from the table's (m c mu z / 2p at p_i)", inp,
                    dict(m_i=lad[0]["ui"], m_f=lad[0]["uf"], table_m_i=ui_t, table_m_f=uf_t))
            with warnings.catch_warnings():
                warnings.simplefilter("ignore")
                xr, ur = refsol.mol_reference(lambda u: alpha_t(u) / a_i, ui_t, uf_t, T_END, nref=240 if ctx.quick else 480)
            ferr = []
            for r in lad:
                ex = np.interp(np.minimum(r["x"], 2 - r["x"]), np.concatenate([[0.0], xr]), np.concatenate([[r["uf"]], ur]))
                ferr.append(np.abs(r["field"] - ex).max() / (r["ui"] - r["uf"]))
            judge(f"{tname} {grid} r={ratio}", ferr, inp, 3.5, "pseudopressure field vs method-of-lines reference")
            # the same ladder with the iterative solver reporting failure on every third step (as it does by itself on fine grids):
            # the direct-solve fallback must advance the SAME problem
            if grid == "quadratic" and not rev:
                from checks.C04 import Probe
                with Probe(fail_every=3, fail_info=-10):
                    lad_f = ladder("single", ratio, nxs, tb, grid)
                ev += len(lad_f)
                if any("field" not in r for r in lad_f):
                    bad("simulation fails on the refinement ladder when the iterative solver reports failure", inp, [r.get("error") for r in lad_f])
                else:
                    ferr_f = []
                    for r in lad_f:
                        ex = np.interp(np.minimum(r["x"], 2 - r["x"]), np.concatenate([[0.0], xr]), np.concatenate([[r["uf"]], ur]))
                        ferr_f.append(np.abs(r["field"] - ex).max() / (r["ui"] - r["uf"]))
                    judge(f"{tname} {grid} r={ratio} (fallback solver on every third step)", ferr_f, dict(**inp, solver="iterative solver made to report failure on every third step"),
                          3.5, "pseudopressure field vs method-of-lines reference, direct-solve fallback exercised")
    ctx.cov.update(evaluations=ev, distinct_nontrivial=len(report), ladders=report[:40],
                   rule="refinement ladders (nx, nt) -> (2 nx, ~4 nt) at t = 0.5: ideal reservoir and a constant-diffusivity table against the closed-form "
                        "Fourier series (field at the nodes and flux recovery) for p_frac/p_initial from 0.0125 to 0.99875; pressure-dependent tables against an "
                        "independent fine-grid BDF method-of-lines solution; pass = error at the coarsest rung <= C/nx and each rung <= 0.7 x the previous")
    ctx.validated_only += ["the convergence statement for the DOCUMENTED problem (unit interval, discontinuous initial data): numerical, on the ladders listed under "
                           "coverage.ladders against the Fourier series / an independent method-of-lines solution; the theorems give unconditional max-norm "
                           "stability, the interior-row truncation defect M_tt dt^2/2 + a dt M_xxxx h^2/12 for smooth solutions and the accumulated-defect error "
                           "bound, with the mirror-row defect and the O(h) grid-length mismatch as hypotheses"]
    ctx.samples += report[:3]


def replay(payload):
    print(json.dumps(payload.get("input"), default=str), json.dumps(payload.get("observed"), default=str))
    return 0
