"""C06 - gas Z-factor is the root of the Dranchuk-Abou-Kassem equation of state."""
import json
import math
import signal
import warnings

import numpy as np

from vlib import core, dak, dom

ID = "C06"
GEN = ["gas"]
TPC, PPC = -60.0, 650.0  # any pseudocritical point: Z depends on (T_r, p_r) only


def z_impl(tr, pr):
    from bluebonnet.fluids import gas
    T = tr * (TPC + 459.67) - 459.67
    return float(gas.z_factor_DAK(T, pr * PPC, TPC, PPC)), T, pr * PPC


SUBST_PUB = [("C0code", "C0pub"), ("Zcode_", "Zpub_"), ("rhoZ_code", "rhoZ_pub"), ("_coded_eos", "_published_eos")]


def coq(ctx):
    core.coq_phase(ctx, GEN, [], findings=[])
    ok_c, out_c, th_c = core.compile_variant(ctx, "C06_root.v", "C06_root.v")
    ok_p, out_p, th_p = core.compile_variant(ctx, "C06_root.v", "C06_root_pub.v", SUBST_PUB)
    ok_k, out_k, th_k = core.compile_variant(ctx, "K1_dak_coefficient.v", "K1_dak_coefficient.v", src_dir=core.FINDINGS)
    if ok_p:
        core.register(ctx, "C06_root_pub.v", th_p, True, out_p)
        ctx.eos = "published"
    elif ok_c:
        core.register(ctx, "C06_root.v", th_c, True, out_c)
        ctx.eos = "coded"
    else:
        core.register(ctx, "C06_root.v", th_c, False, out_c)
        ctx.eos = None
    ok_h, out_h, th_h = core.compile_variant(ctx, "C06_hallyarbrough.v", "C06_hallyarbrough.v")
    core.register(ctx, "C06_hallyarbrough.v", th_h, ok_h, out_h)
    ctx.hy_ok = ok_h
    ctx.k1_ok = ok_k
    if ok_k:
        core.register(ctx, "K1_dak_coefficient.v", th_k, True, out_k)


def cert(ctx, pts):
    """Kernel-certified residuals: the implementation's density satisfies the (spec) equation that the
    translated residual was proved equal to."""
    if not ctx.eos:
        return
    c0 = "C0pub" if ctx.eos == "published" else "C0code"
    goals = []
    for tr, pr in pts:
        z, T, p = z_impl(tr, pr)
        trf = (T + 459.67) / (TPC + 459.67)
        prf = p / PPC
        rho = 0.27 * prf / (z * trf)
        goals.append(dict(expr=f"({core.frac(rho)}) * (27 / 100 * {core.frac(prf)} / ({core.frac(trf)} * {core.frac(rho)}) - Zeos {c0} {core.frac(trf)} {core.frac(rho)})",
                          value=0.0, atol=1e-9, unfold=["Zeos", c0, "C1", "C2", "C3", "A1", "A2", "A3", "A4", "A5", "A6", "A7", "A8", "A9", "A10", "A11"],
                          label=f"residual at T_r={tr:.4g}, p_r={pr:.4g}"))
    core.cert_phase(ctx, goals, [], prelude="From BBLib Require Import DAK_spec.")


def hy_trace(pr, tr):
    """Run the library's z_factor_hallyarbrough under a line tracer and record (y, fdum) each time the `while` test is
    evaluated: the loop's own iterates, observed without touching the library."""
    import ast
    import inspect
    import sys
    from bluebonnet.fluids import gas
    fn = gas.z_factor_hallyarbrough
    src, first = inspect.getsourcelines(fn)
    tree = ast.parse("".join(src).lstrip() if not src[0].startswith("def") else "".join(src))
    loops = [n for n in ast.walk(tree) if isinstance(n, ast.While)]
    if len(loops) != 1:
        return None, None
    wl = first + loops[0].lineno - 1
    code = fn.__code__
    rec = []

    def local(frame, event, arg):
        if event == "line" and frame.f_lineno == wl:
            rec.append((float(frame.f_locals["y"]), float(frame.f_locals["fdum"])))
        return local

    def tracer(frame, event, arg):
        return local if frame.f_code is code else None
    old = sys.gettrace()
    sys.settrace(tracer)
    try:
        with warnings.catch_warnings():
            warnings.simplefilter("ignore")
            z = float(fn(float(pr), float(tr)))
    finally:
        sys.settrace(old)
    return rec, z


def hy_tie(ctx):
    """The Hall-Yarbrough loop as the model has it (C06_hallyarbrough.v): start (0.001, 1), continue while |fdum| > 0.001,
    each pass = hy_newton_step (values certified in Coq against the regenerated step), result = hy_zfact at the last y."""
    rng = dom.rng_for(ctx, 66)
    goals = []
    n = 6 if ctx.quick else 40
    traced = 0
    for k in range(n):
        tr, pr = float(rng.uniform(1.1, 3.0)), float(dom.loguniform(rng, 0.05, 25.0))
        rec, z = hy_trace(pr, tr)
        inp = dict(T_r=tr, p_r=pr)
        if rec is None:
            ctx.broken.append("z_factor_hallyarbrough no longer has exactly one while loop: the loop model of C06_hallyarbrough.v does not apply")
            return
        traced += 1
        t = 1.0 / tr
        ok_shape = (len(rec) >= 2 and rec[0] == (0.001, 1.0) and all(abs(f) > 0.001 for _, f in rec[:-1]) and abs(rec[-1][1]) <= 0.001
                    and all(0 < y < 1 for y, _ in rec))
        zf = 0.06125 * pr * t * math.exp(-1.2 * (1 - t) ** 2) / rec[-1][0] if rec else float("nan")
        if not ok_shape or not dom.relclose(z, zf, 1e-12):
            ctx.violations.append(dict(what="Hall-Yarbrough loop does not run as modelled (start at y = 0.001, continue while |residual| > 0.001, densities inside (0,1), "
                                            "result 0.06125 p t exp(-1.2 (1-t)^2) / y at the last density)", key="hy-loop", input=inp,
                                       observed=dict(iterates=rec[:3] + rec[-2:], Z=z, Z_from_last_density=zf)))
            continue
        # certify a few passes: residual at y_k and the updated density
        for j in sorted({0, len(rec) // 2, len(rec) - 2}):
            if 0 <= j < len(rec) - 1:
                (y0, _), (y1, f1) = rec[j], rec[j + 1]
                args = " ".join(core.frac(a) for a in (pr, t, y0))
                goals.append(dict(expr=f"Gen_gas.hy_residual {args}", value=f1, rtol=1e-9, atol=1e-9, label=f"HY residual, pass {j} at T_r={tr:.4g}, p_r={pr:.4g}"))
                goals.append(dict(expr=f"Gen_gas.hy_update {args}", value=y1, rtol=1e-9, atol=1e-12, label=f"HY update, pass {j} at T_r={tr:.4g}, p_r={pr:.4g}"))
    for g in goals:
        g["unfold"] = ["Gen_gas.hy_residual", "Gen_gas.hy_update"]
    ctx.cov["hall_yarbrough_traced_runs"] = traced
    core.cert_phase(ctx, goals, ["Gen_gas"])


def impl_checks(ctx):
    from bluebonnet.fluids import gas
    from bluebonnet.fluids.fluid import build_pvt_gas
    rng = dom.rng_for(ctx, 6)
    n = 400 if ctx.quick else 6000
    ev = 0
    pts = [(1.05, 30.0), (1.05, 1e-4), (3.0, 30.0), (3.0, 1e-3), (1.5, 25.0), (1.05, 2.0), (2.207, 10.0)]
    for _ in range(n):
        pts.append((float(rng.uniform(1.05, 3.0)), dom.loguniform(rng, 1e-4, 30.0)))
    known_k1 = [e for e in core.known_findings(ID) if e["status"] == "known" and e["key"].startswith("K1")]
    k1_seen = 0

    def bad(what, inp, obs):
        ctx.violations.append(dict(what=what, key=what, input=inp, observed=obs))

    for tr, pr in pts:
        try:
            z, T, p = z_impl(tr, pr)
        except Exception as e:  # noqa: BLE001
            bad("z_factor_DAK raises inside the validity rectangle", dict(T_r=tr, p_r=pr), repr(e)[:200])
            continue
        ev += 1
        trf = (T + 459.67) / (TPC + 459.67)
        prf = p / PPC
        rho = 0.27 * prf / (z * trf)
        r_pub = abs(dak.residual(trf, prf, rho, True)) * rho
        r_cod = abs(dak.residual(trf, prf, rho, False)) * rho
        inp = dict(T_r=tr, p_r=pr, T=T, p=p, Tpc=TPC, Ppc=PPC)
        if not (math.isfinite(z) and 0.05 * (1 + 1e-9) < z < 5 * (1 - 1e-9)):
            bad("Z is not strictly inside the search interval (0.05, 5) (a search bound or a non-finite value was returned)", inp, z)
        elif r_pub <= 1e-8:
            pass
        elif r_cod <= 1e-8 and known_k1:
            k1_seen += 1  # satisfies the coded equation: exactly known finding K1
        else:
            bad("returned Z does not satisfy the Dranchuk-Abou-Kassem equation at its own reduced density",
                inp, dict(Z=z, residual_published=r_pub, residual_coded=r_cod))
        if 20 * 0.27 * prf / trf <= 1 and abs(z - 1) > 6.48 * prf / trf * (1 + 1e-9):
            bad("Z does not tend to 1 as pressure tends to 0 (|Z-1| exceeds the proved modulus 6.48 p_r/T_r)", inp, z)
    # one process, many gases: the same reservoir temperature with different pseudocritical points, in
    # both orders (a result must not depend on which gas was evaluated before)
    for _ in range(8 if ctx.quick else 60):
        T = float(rng.uniform(100, 380))
        gases = []
        while len(gases) < 3:
            tpc, ppc = float(rng.uniform(-130, 60)), float(rng.uniform(550, 750))
            if 1.05 <= (T + 459.67) / (tpc + 459.67) <= 3:
                gases.append((tpc, ppc))
        p = float(rng.uniform(200, 9000))
        first = [float(gas.z_factor_DAK(T, p, a, b)) for a, b in gases]
        second = [float(gas.z_factor_DAK(T, p, a, b)) for a, b in reversed(gases)][::-1]
        ev += 6
        for (tpc, ppc), z1, z2 in zip(gases, first, second):
            trf, prf = (T + 459.67) / (tpc + 459.67), p / ppc
            if prf > 30:
                continue
            rho = 0.27 * prf / (z1 * trf)
            res = min(abs(dak.residual(trf, prf, rho, True)), abs(dak.residual(trf, prf, rho, False))) * rho
            inp = dict(T=T, p=p, gases_in_call_order=gases, this_gas=[tpc, ppc])
            if z1 != z2:
                bad("Z depends on which other gas was evaluated earlier in the same process", inp, dict(first_order=z1, reverse_order=z2))
            elif res > 1e-8:
                bad("returned Z does not satisfy the Dranchuk-Abou-Kassem equation at its own reduced temperature and density", inp, dict(Z=z1, residual=res))
    # continuity in pressure: no jumps along fine pressure sweeps
    for tr in ([1.05, 1.3, 2.0, 3.0] if ctx.quick else list(np.linspace(1.05, 3, 25))):
        prs = np.linspace(0.02, 30, 600 if ctx.quick else 3000)
        zs = np.array([z_impl(tr, float(x))[0] for x in prs])
        ev += len(prs)
        j = int(np.argmax(np.abs(np.diff(zs))))
        if abs(zs[j + 1] - zs[j]) > 0.15:
            bad("Z jumps between neighbouring pressures (not continuous in pressure)",
                dict(T_r=tr, p_r=[float(prs[j]), float(prs[j + 1])]), [float(zs[j]), float(zs[j + 1])])
    # default table range of build_pvt_gas
    for sg, T in ((0.55, 80.0), (0.8, 200.0), (1.2, 400.0)) if ctx.quick else [(s, t) for s in (0.55, 0.7, 0.9, 1.2) for t in (80., 200., 300., 400.)]:
        vals = {"N2": 0.0, "H2S": 0.0, "CO2": 0.0, "Gas Specific Gravity": sg, "Reservoir Temperature (deg F)": T}
        tpc, ppc = gas.pseudocritical_point_Sutton(sg, gas.make_nonhydrocarbon_properties(0, 0, 0), "dry gas")
        tr = (T + 459.67) / (tpc + 459.67)
        if not 1.05 <= tr <= 3:
            continue
        with warnings.catch_warnings():
            warnings.simplefilter("ignore")
            tbl = build_pvt_gas(vals, "dry gas", 2000.0 if ctx.quick else 14000.0)
        zt = np.asarray(tbl["z-factor"], float)
        ev += len(zt)
        if not np.all((zt > 0.05) & (zt < 5) & np.isfinite(zt)) or np.abs(np.diff(zt)).max() > 0.05:
            bad("build_pvt_gas z-factor column contains a search bound / jump", dict(sg=sg, T=T), [float(zt.min()), float(zt.max())])
    # ---------------- consecutive evaluations at temperatures that differ only slightly (a drifting temperature log, 200.0 F then
    # 200.004 F): each value is the root for ITS temperature (independent solve of the coded equation of state), whatever was
    # evaluated just before
    for k_ in range(6 if ctx.quick else 60):
        tr0, pr0 = float(rng.uniform(1.1, 2.8)), dom.loguniform(rng, 0.05, 25.0)
        seq = [tr0] + [tr0 * (1 + s_ * d_) for d_ in (1e-7, 1e-6, 4e-6, 1e-5, 1e-4) for s_ in (1, -1)]
        for tr_ in seq:
            z_ = z_impl(tr_, pr0)[0]
            zref = dak.z_solve(tr_, pr0, False)
            ev += 1
            if not dom.relclose(z_, zref, 1e-9):
                bad("z_factor_DAK evaluated right after a call at a slightly different temperature is not the root of the equation of state for its own temperature",
                    dict(T_r=tr_, p_r=pr0, evaluated_after=dict(T_r_sequence=seq[:seq.index(tr_)][-3:])), dict(Z=z_, root=zref, rel_diff=abs(z_ / zref - 1)))
                break
    # ---------------- the same state evaluated first with reduced-precision scalars (a float32 / float16 element of an array) and then
    # with plain floats, and whole-degree temperature ladders around 0 F (equal floats hash equally across types; -1.0 and -2.0 hash
    # to the same value in CPython): every double-precision answer is the root for ITS OWN arguments, whatever was asked before
    from bluebonnet.fluids import gas as gas_h
    for k_ in range(4 if ctx.quick else 40):
        T_h = float(int(rng.uniform(60, 400)))
        p_h = float(int(dom.loguniform(rng, 100, 12000)))
        tr_h, pr_h = (T_h + 459.67) / (TPC + 459.67), p_h / PPC
        if not (1.05 <= tr_h <= 3.0 and pr_h <= 30.0):
            continue
        for first in (np.float16, np.float32):
            with warnings.catch_warnings():
                warnings.simplefilter("ignore")
                gas_h.z_factor_DAK(first(T_h), p_h, first(TPC) if float(first(TPC)) == TPC else TPC, PPC)
            z_ = float(gas_h.z_factor_DAK(T_h, p_h, TPC, PPC))
            zref = dak.z_solve(tr_h, pr_h, False)
            ev += 1
            if not dom.relclose(z_, zref, 1e-9):
                bad("z_factor_DAK called with plain floats right after a call with the same numbers as reduced-precision scalars is not the root of the equation of state",
                    dict(T=T_h, p=p_h, Tpc=TPC, Ppc=PPC, evaluated_after=f"the same state with the temperature as {first.__name__}"), dict(Z=z_, root=zref, rel_diff=abs(z_ / zref - 1)))
                break
    for p_l in ((900.0, 4200.0) if ctx.quick else (300.0, 900.0, 2500.0, 4200.0, 9000.0)):
        for T_l in list(range(-8, 9)) + list(range(8, -9, -1)):
            tr_l, pr_l = (T_l + 459.67) / (TPC + 459.67), p_l / PPC
            if not 1.05 <= tr_l <= 3.0:
                continue
            z_ = float(gas_h.z_factor_DAK(T_l, p_l, TPC, PPC))
            zref = dak.z_solve(tr_l, pr_l, False)
            ev += 1
            if not dom.relclose(z_, zref, 1e-9):
                bad("z_factor_DAK on a ladder of whole-degree temperatures around 0 F is not the root of the equation of state for its own temperature",
                    dict(T=T_l, p=p_l, Tpc=TPC, Ppc=PPC, ladder="-8 .. 8 F and back, same pressure"), dict(Z=z_, root=zref, rel_diff=abs(z_ / zref - 1)))
                break
    # ---------------- interleaved evaluations (schedules): (a) deterministic - while one evaluation sits in its root search a
    # second evaluation at another temperature runs to completion (what a thread switch inside the solve does), by wrapping the
    # root finder the module calls; (b) real threads with a short switch interval.  Every value must equal the serial one.
    inter = [(float(rng.uniform(1.05, 3.0)), dom.loguniform(rng, 1e-2, 30.0)) for _ in range(40 if ctx.quick else 400)]
    serial = [z_impl(tr_, pr_)[0] for tr_, pr_ in inter]
    if hasattr(gas, "brentq"):
        orig_brentq = gas.brentq
        state = dict(depth=0, k=0)

        def interleaving_brentq(f, a, b, *args, **kw):
            if state["depth"] == 0:
                state["depth"] = 1
                try:
                    o_tr, o_pr = inter[(state["k"] + 7) % len(inter)]
                    z_impl(o_tr, o_pr)       # another caller's complete evaluation, in the middle of this one
                finally:
                    state["depth"] = 0
            return orig_brentq(f, a, b, *args, **kw)
        gas.brentq = interleaving_brentq
        try:
            for k_, (tr_, pr_) in enumerate(inter):
                state["k"] = k_
                z2 = z_impl(tr_, pr_)[0]
                ev += 1
                if z2 != serial[k_]:
                    bad("z_factor_DAK returns a different value when another evaluation (other temperature) runs while it is in its root search - shared work state",
                        dict(T_r=tr_, p_r=pr_, interleaved_with=dict(T_r=inter[(k_ + 7) % len(inter)][0], p_r=inter[(k_ + 7) % len(inter)][1])), dict(serial=serial[k_], interleaved=z2))
                    break
        finally:
            gas.brentq = orig_brentq
    import sys as _sys
    from concurrent.futures import ThreadPoolExecutor
    old_si = _sys.getswitchinterval()
    _sys.setswitchinterval(1e-6)
    try:
        reps = 6 if ctx.quick else 30
        with ThreadPoolExecutor(max_workers=8) as ex:
            got = list(ex.map(lambda tp: z_impl(tp[0], tp[1])[0], inter * reps))
    finally:
        _sys.setswitchinterval(old_si)
    ev += len(got)
    wrong = [i for i, z_ in enumerate(got) if z_ != serial[i % len(inter)]]
    if wrong:
        i = wrong[0]
        bad("z_factor_DAK returns a different value when evaluated concurrently from several threads than serially", dict(T_r=inter[i % len(inter)][0], p_r=inter[i % len(inter)][1], threads=8),
            dict(serial=serial[i % len(inter)], concurrent=got[i], wrong_values=len(wrong), calls=len(got)))
    # Hall-Yarbrough: terminates, finite, within a few percent of the DAK value on the common range
    class TO(Exception):
        pass

    def on_alarm(s, f):
        raise TO()
    old = signal.signal(signal.SIGVTALRM, on_alarm)
    hy_worst = 0.0
    hy_n = 0
    try:
        for tr in np.linspace(1.05, 3.0, 14 if ctx.quick else 40):
            for pr in ([0.05, 0.5, 1.0, 1.5, 3.0, 5.0, 12.0, 20.0, 25.0, 30.0] if ctx.quick else np.linspace(0.02, 30, 90)):
                signal.setitimer(signal.ITIMER_VIRTUAL, 2.0)
                try:
                    with warnings.catch_warnings():
                        warnings.simplefilter("ignore")
                        zh = float(gas.z_factor_hallyarbrough(float(pr), float(tr)))
                except TO:
                    zh = None
                finally:
                    signal.setitimer(signal.ITIMER_VIRTUAL, 0)
                hy_n += 1
                if zh is None or not math.isfinite(zh):
                    bad("z_factor_hallyarbrough does not terminate with a finite value", dict(T_r=float(tr), p_r=float(pr)), zh)
                    continue
                if tr >= 1.2:  # common range of the two correlations (away from the critical point)
                    zd = z_impl(float(tr), float(pr))[0]
                    zp = dak.z_solve(float(tr), float(pr), True)
                    dev, dev_pub = abs(zh / zd - 1), abs(zh / zp - 1)
                    hy_worst = max(hy_worst, dev_pub)
                    if dev > 0.06:
                        if dev_pub <= 0.06 and known_k1:
                            k1_seen += 1  # the library's DAK value is off by K1, Hall-Yarbrough is fine
                        else:
                            bad("Hall-Yarbrough and DAK disagree by more than a few percent on their common range",
                                dict(T_r=float(tr), p_r=float(pr)), dict(hall_yarbrough=zh, dak_library=zd, dak_published=zp))
        # inputs chosen so that the FIRST Newton step (from the starting density 0.001) lands on, or within a few floats of, 1: the
        # residual is affine in the pressure, so that pressure is known in closed form; where it lies inside the range the routine
        # must still terminate with a finite value close to its neighbours' (fixed 2026-10: it used to stall for ever on the float
        # just below 1 and, before the first repair, to return NaN beyond it)
        stall_pts = [(27.823693612435807, 1.5), (20.08755433473804, 1.2)]
        for tr in np.linspace(1.1, 1.6, 6 if ctx.quick else 26):
            t_ = 1 / float(tr)
            y0 = 0.001
            A_ = 0.06125 * t_ * math.exp(-1.2 * (1 - t_) ** 2)
            B_ = ((y0 + y0 ** 2 + y0 ** 3 - y0 ** 4) / (1 - y0) ** 3 - (14.76 * t_ - 9.76 * t_ ** 2 + 4.58 * t_ ** 3) * y0 ** 2
                  + (90.7 * t_ - 242.2 * t_ ** 2 + 42.4 * t_ ** 3) * y0 ** (2.18 + 2.82 * t_))
            D_ = ((1 + 4 * y0 + 4 * y0 ** 2 - 4 * y0 ** 3 + y0 ** 4) / (1 - y0) ** 4 - (29.52 * t_ - 19.52 * t_ ** 2 + 9.16 * t_ ** 3) * y0
                  + (2.18 + 2.82 * t_) * (90.7 * t_ - 242.2 * t_ ** 2 + 42.4 * t_ ** 3) * y0 ** (1.18 + 2.82 * t_))
            p_star = (B_ + D_ * (1 - y0)) / A_
            if 0 < p_star <= 30:
                q_ = p_star
                for _ in range(6):
                    q_ = math.nextafter(q_, 0.0)
                for _ in range(13):
                    stall_pts.append((q_, float(tr)))
                    q_ = math.nextafter(q_, 100.0)
        for pr, tr in stall_pts:
            signal.setitimer(signal.ITIMER_VIRTUAL, 2.0)
            try:
                with warnings.catch_warnings():
                    warnings.simplefilter("ignore")
                    zh = float(gas.z_factor_hallyarbrough(float(pr), float(tr)))
            except TO:
                zh = None
            finally:
                signal.setitimer(signal.ITIMER_VIRTUAL, 0)
            hy_n += 1
            zn = None
            if zh is not None and math.isfinite(zh):
                signal.setitimer(signal.ITIMER_VIRTUAL, 2.0)
                try:
                    with warnings.catch_warnings():
                        warnings.simplefilter("ignore")
                        zn = float(gas.z_factor_hallyarbrough(float(pr) * (1 + 1e-6), float(tr)))
                except TO:
                    zn = None
                finally:
                    signal.setitimer(signal.ITIMER_VIRTUAL, 0)
            if zh is None or not math.isfinite(zh) or zn is None or not math.isfinite(zn) or abs(zh / zn - 1) > 1e-3:
                bad("z_factor_hallyarbrough does not terminate with a finite value that varies continuously with pressure (inputs whose first Newton step lands next to reduced density 1)",
                    dict(T_r=float(tr), p_r=float(pr)), dict(value=zh, value_at_p_times_1_000001=zn))
    finally:
        signal.signal(signal.SIGVTALRM, old)
    ctx.cov.update(evaluations=ev + hy_n, distinct_nontrivial=len(pts), k1_points=k1_seen,
                   hall_yarbrough_points=hy_n, hall_yarbrough_worst_dev_vs_published=hy_worst,
                   rule="(T_r, p_r) corners + log-uniform random points of [1.05,3]x(0,30]; fine pressure sweeps for continuity; "
                        "build_pvt_gas default range for several gravities/temperatures; Hall-Yarbrough on a grid. "
                        "Each point: Z strictly inside (0.05,5), residual of the DAK equation at the implementation's own density, "
                        "|Z-1| against the proved modulus")
    ctx.samples += [dict(T_r=t, p_r=p, Z=z_impl(t, p)[0]) for t, p in pts[:5]]
    return pts, k1_seen


def run(ctx):
    coq(ctx)
    pts, k1_seen = impl_checks(ctx)
    if ctx.hy_ok:
        hy_tie(ctx)
    cert(ctx, pts[:7] + pts[7:7 + (6 if ctx.quick else 60)])
    ctx.validated_only += ["solver tolerance of brentq (contract: exact root) -- residual certified <= 1e-9 at sampled points",
                           "Hall-Yarbrough: that the Newton loop exits, and its few-percent agreement with DAK (no general theorem): validated on the grid; the loop body, the unit-interval invariant and what an exit returns are proved / certified (C06_hallyarbrough.v)"]
    for e in core.known_findings(ID):
        if e["status"] == "known" and e["key"].startswith("K1"):
            w = e["witness"]
            z = z_impl(w["T_r"], w["p_r"])[0]
            zp = dak.z_solve(w["T_r"], w["p_r"], True)
            if ctx.eos == "coded" and ctx.k1_ok and abs(z - zp) > 1e-3:
                ctx.known_printed.append(f"KNOWN-FINDING: property={ID} {e['what'][:160]} (witness T_r={w['T_r']}, p_r={w['p_r']}: Z={z:.4f}, published {zp:.4f})")
            elif ctx.eos == "coded" and not ctx.k1_ok:
                ctx.broken.append("the coded equation of state no longer matches the recorded characterisation of known finding K1")


def replay(payload):
    i = payload["input"]
    z, T, p = z_impl(i["T_r"], i["p_r"]) if not isinstance(i.get("p_r"), list) else (None, None, None)
    print(json.dumps(dict(Z_now=z, recorded=payload.get("observed")), default=str))
    return 0
