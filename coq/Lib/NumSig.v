(* NumSig: the numeric signature over which the hand-written kernels are written once.
   NumR is the instance all theorems are about; NumF (IEEE binary64, PrimFloat) is the
   instance that is executed by vm_compute in the correspondence check. *)
From Coq Require Import Reals List PrimFloat.
Import ListNotations.

Record Num (T : Type) := {
  n0 : T; n1 : T; n2 : T;
  nadd : T -> T -> T; nsub : T -> T -> T; nmul : T -> T -> T; ndiv : T -> T -> T;
  nleb : T -> T -> bool; nltb : T -> T -> bool; neqb : T -> T -> bool;
  nabs : T -> T;
}.
Arguments n0 {T}. Arguments n1 {T}. Arguments n2 {T}.
Arguments nadd {T}. Arguments nsub {T}. Arguments nmul {T}. Arguments ndiv {T}.
Arguments nleb {T}. Arguments nltb {T}. Arguments neqb {T}. Arguments nabs {T}.

Definition Rleb (a b : R) : bool := if Rle_dec a b then true else false.
Definition Rltb (a b : R) : bool := if Rlt_dec a b then true else false.
Definition Reqb (a b : R) : bool := if Req_EM_T a b then true else false.

Definition NumR : Num R := {|
  n0 := 0%R; n1 := 1%R; n2 := 2%R;
  nadd := Rplus; nsub := Rminus; nmul := Rmult; ndiv := Rdiv;
  nleb := Rleb; nltb := Rltb; neqb := Reqb; nabs := Rabs |}.

Definition NumF : Num float := {|
  n0 := 0%float; n1 := 1%float; n2 := 2%float;
  nadd := PrimFloat.add; nsub := PrimFloat.sub; nmul := PrimFloat.mul; ndiv := PrimFloat.div;
  nleb := PrimFloat.leb; nltb := PrimFloat.ltb; neqb := PrimFloat.eqb; nabs := PrimFloat.abs |}.

Section Derived.
  Context {T : Type} (N : Num T).
  Definition nmin (a b : T) : T := if nleb N a b then a else b.
  Definition nmax (a b : T) : T := if nleb N a b then b else a.
  Definition nneg (a : T) : T := nsub N (n0 N) a.
  Fixpoint nsum (l : list T) : T := match l with [] => n0 N | x :: t => nadd N x (nsum t) end.
  (* left fold, the order numpy/python use *)
  Definition nsum_l (l : list T) : T := fold_left (nadd N) l (n0 N).
  Definition lmin (d : T) (l : list T) : T := fold_left nmin l d.
  Definition lmax (d : T) (l : list T) : T := fold_left nmax l d.
End Derived.

Lemma Rleb_true a b : Rleb a b = true <-> (a <= b)%R.
Proof. unfold Rleb. destruct (Rle_dec a b); split; intros; auto; discriminate. Qed.
Lemma Rleb_false a b : Rleb a b = false <-> (b < a)%R.
Proof. unfold Rleb. destruct (Rle_dec a b); split; intros; auto; try discriminate.
  - exfalso. apply (Rlt_irrefl a). eapply Rle_lt_trans; eauto.
  - apply Rnot_le_lt; auto. Qed.
Lemma nmin_R a b : nmin NumR a b = Rmin a b.
Proof. unfold nmin, Rmin; simpl. unfold Rleb. destruct (Rle_dec a b); reflexivity. Qed.
Lemma nmax_R a b : nmax NumR a b = Rmax a b.
Proof. unfold nmax, Rmax; simpl. unfold Rleb. destruct (Rle_dec a b); reflexivity. Qed.
