(* InterpThms: properties of the linear interpolant (R instance of Interp.interp_lin) on
   strictly increasing abscissae: exact at nodes, between its neighbours inside a segment,
   within the range of the ordinates on the whole table, strictly increasing for strictly
   increasing ordinates; and of the clamped lookup used for the diffusivity. *)
From Coq Require Import Reals List Lra Lia Arith Bool.
From BBLib Require Import NumSig Interp.
Import ListNotations.
Open Scope R_scope.

Fixpoint incr (l : list R) : Prop :=
  match l with
  | a :: ((b :: _) as t) => a < b /\ incr t
  | _ => True
  end.

Lemma incr_tail a l : incr (a :: l) -> incr l.
Proof. destruct l; simpl; tauto. Qed.

Lemma incr_hd_lt_nth a l : incr (a :: l) -> forall j, (j < length l)%nat -> a < nth j l 0.
Proof.
  revert a. induction l as [|b t IH]; intros a H j Hj; simpl in Hj; [lia|].
  destruct H as [Hab Ht]. destruct j; simpl; [exact Hab|].
  apply Rlt_trans with b; [exact Hab|]. apply IH; [exact Ht|lia].
Qed.

Lemma incr_hd_le_last a l : incr (a :: l) -> a <= last (a :: l) 0.
Proof.
  revert a. induction l as [|b t IH]; intros a H; [simpl; lra|].
  destruct H as [Hab Ht]. change (last (a :: b :: t) 0) with (last (b :: t) 0).
  specialize (IH b Ht). lra.
Qed.

Lemma seg_R x0 x1 y0 y1 q : seg NumR x0 x1 y0 y1 q = (y1 - y0) / (x1 - x0) * (q - x0) + y0.
Proof. reflexivity. Qed.

Lemma seg_at_left x0 x1 y0 y1 : seg NumR x0 x1 y0 y1 x0 = y0.
Proof. rewrite seg_R. replace (x0 - x0) with 0 by ring. ring. Qed.
Lemma seg_at_right x0 x1 y0 y1 : x0 < x1 -> seg NumR x0 x1 y0 y1 x1 = y1.
Proof. intros H. rewrite seg_R. field. lra. Qed.

Lemma seg_between x0 x1 y0 y1 q lo hi : x0 < x1 -> x0 <= q <= x1 ->
  lo <= y0 <= hi -> lo <= y1 <= hi -> lo <= seg NumR x0 x1 y0 y1 q <= hi.
Proof.
  intros Hx Hq H0 H1. rewrite seg_R.
  set (t := (q - x0) / (x1 - x0)).
  assert (Ht : 0 <= t <= 1).
  { unfold t. split.
    - apply Rmult_le_pos; [lra|]. left. apply Rinv_0_lt_compat. lra.
    - apply Rmult_le_reg_r with (x1 - x0); [lra|]. unfold Rdiv. rewrite Rmult_assoc, Rinv_l by lra. lra. }
  replace ((y1 - y0) / (x1 - x0) * (q - x0) + y0) with (y0 + (y1 - y0) * t) by (unfold t; field; lra).
  nra.
Qed.

Lemma seg_strict_mono x0 x1 y0 y1 q1 q2 : x0 < x1 -> y0 < y1 -> q1 < q2 ->
  seg NumR x0 x1 y0 y1 q1 < seg NumR x0 x1 y0 y1 q2.
Proof.
  intros Hx Hy Hq. rewrite !seg_R.
  assert (0 < (y1 - y0) / (x1 - x0)).
  { apply Rmult_lt_0_compat; [lra|]. apply Rinv_0_lt_compat. lra. }
  nra.
Qed.

Definition ys_in (lo hi : R) (ys : list R) := forall j, (j < length ys)%nat -> lo <= nth j ys 0 <= hi.

Lemma ys_in_tail lo hi y ys : ys_in lo hi (y :: ys) -> ys_in lo hi ys.
Proof. intros H j Hj. apply (H (S j)). simpl. lia. Qed.

(* unfolding lemmas for the R instance *)
Lemma interp_lin_two x0 x1 y0 y1 q :
  interp_lin NumR [x0; x1] (y0 :: y1 :: nil) q = seg NumR x0 x1 y0 y1 q.
Proof. reflexivity. Qed.
Lemma interp_lin_two' x0 x1 y0 y1 yt q :
  interp_lin NumR [x0; x1] (y0 :: y1 :: yt) q = seg NumR x0 x1 y0 y1 q.
Proof. reflexivity. Qed.
Lemma interp_lin_cons x0 x1 x2 xt y0 y1 yt q :
  interp_lin NumR (x0 :: x1 :: x2 :: xt) (y0 :: y1 :: yt) q
  = if Rle_dec q x1 then seg NumR x0 x1 y0 y1 q
    else interp_lin NumR (x1 :: x2 :: xt) (y1 :: yt) q.
Proof. cbn [interp_lin]. simpl nleb. unfold Rleb. destruct (Rle_dec q x1); reflexivity. Qed.

(* value within the range of the ordinates for a query inside the table *)
Theorem interp_lin_range lo hi : forall xs ys q,
  incr xs -> length ys = length xs -> (2 <= length xs)%nat -> ys_in lo hi ys ->
  hd 0 xs <= q <= last xs 0 -> lo <= interp_lin NumR xs ys q <= hi.
Proof.
  induction xs as [|x0 xt IH]; intros ys q Hinc Hlen Hn Hys Hq; [simpl in Hn; lia|].
  destruct xt as [|x1 xt']; [simpl in Hn; lia|].
  destruct ys as [|y0 [|y1 yt]]; try (simpl in Hlen; lia).
  destruct Hinc as [H01 Hinc'].
  assert (Hy0 : lo <= y0 <= hi) by (apply (Hys 0%nat); simpl; lia).
  assert (Hy1 : lo <= y1 <= hi) by (apply (Hys 1%nat); simpl; lia).
  destruct xt' as [|x2 xt''].
  - destruct yt; [|simpl in Hlen; lia]. rewrite interp_lin_two. simpl in Hq.
    apply seg_between; auto.
  - rewrite interp_lin_cons. destruct (Rle_dec q x1) as [Hle|Hgt].
    + apply seg_between; auto. simpl in Hq. lra.
    + apply IH; [exact Hinc' | simpl in Hlen |- *; lia | simpl; lia | eapply ys_in_tail; eauto | ].
      change (last (x0 :: x1 :: x2 :: xt'') 0) with (last (x1 :: x2 :: xt'') 0) in Hq.
        simpl hd. apply Rnot_le_lt in Hgt. lra.
Qed.

(* exact at table nodes *)
Theorem interp_lin_at_node : forall xs ys j,
  incr xs -> length ys = length xs -> (2 <= length xs)%nat -> (j < length xs)%nat ->
  interp_lin NumR xs ys (nth j xs 0) = nth j ys 0.
Proof.
  induction xs as [|x0 xt IH]; intros ys j Hinc Hlen Hn Hj; [simpl in Hn; lia|].
  destruct xt as [|x1 xt']; [simpl in Hn; lia|].
  destruct ys as [|y0 [|y1 yt]]; try (simpl in Hlen; lia).
  pose proof Hinc as [H01 Hinc'].
  destruct xt' as [|x2 xt''].
  - destruct yt; [|simpl in Hlen; lia]. rewrite interp_lin_two.
    destruct j as [|[|j]]; simpl in Hj; try lia; simpl.
    + apply seg_at_left.
    + now apply seg_at_right.
  - rewrite interp_lin_cons. destruct j as [|j].
    + simpl nth. destruct (Rle_dec x0 x1); [apply seg_at_left|lra].
    + change (nth (S j) (x0 :: x1 :: x2 :: xt'') 0) with (nth j (x1 :: x2 :: xt'') 0).
      change (nth (S j) (y0 :: y1 :: yt) 0) with (nth j (y1 :: yt) 0).
      destruct j as [|j].
      * simpl nth. destruct (Rle_dec x1 x1); [now apply seg_at_right|lra].
      * assert (x1 < nth (S j) (x1 :: x2 :: xt'') 0).
        { change (nth (S j) (x1 :: x2 :: xt'') 0) with (nth j (x2 :: xt'') 0).
          apply incr_hd_lt_nth; [exact Hinc'|]. simpl in Hj |- *. lia. }
        destruct (Rle_dec (nth (S j) (x1 :: x2 :: xt'') 0) x1); [lra|].
        apply IH; auto; simpl in *; lia.
Qed.

(* strictly increasing ordinates give a strictly increasing interpolant on the table *)
Theorem interp_lin_strict_mono : forall xs ys q1 q2,
  incr xs -> incr ys -> length ys = length xs -> (2 <= length xs)%nat ->
  hd 0 xs <= q1 -> q1 < q2 -> q2 <= last xs 0 ->
  interp_lin NumR xs ys q1 < interp_lin NumR xs ys q2.
Proof.
  induction xs as [|x0 xt IH]; intros ys q1 q2 Hix Hiy Hlen Hn H1 H12 H2; [simpl in Hn; lia|].
  destruct xt as [|x1 xt']; [simpl in Hn; lia|].
  destruct ys as [|y0 [|y1 yt]]; try (simpl in Hlen; lia).
  pose proof Hix as [Hx01 Hix']. pose proof Hiy as [Hy01 Hiy'].
  destruct xt' as [|x2 xt''].
  - destruct yt; [|simpl in Hlen; lia]. rewrite !interp_lin_two. now apply seg_strict_mono.
  - rewrite !interp_lin_cons.
    assert (Hl' : length (y1 :: yt) = length (x1 :: x2 :: xt'')) by (simpl in *; lia).
    assert (Hn' : (2 <= length (x1 :: x2 :: xt''))%nat) by (simpl; lia).
    change (last (x0 :: x1 :: x2 :: xt'') 0) with (last (x1 :: x2 :: xt'') 0) in H2.
    destruct (Rle_dec q1 x1) as [Hq1|Hq1]; destruct (Rle_dec q2 x1) as [Hq2|Hq2].
    + now apply seg_strict_mono.
    + apply Rnot_le_lt in Hq2.
      assert (Hnode : interp_lin NumR (x1 :: x2 :: xt'') (y1 :: yt) x1 = y1).
      { apply (interp_lin_at_node (x1 :: x2 :: xt'') (y1 :: yt) 0); auto. simpl. lia. }
      assert (Hrest : y1 < interp_lin NumR (x1 :: x2 :: xt'') (y1 :: yt) q2).
      { rewrite <- Hnode at 1. apply IH; auto. simpl. lra. }
      assert (Hfirst : seg NumR x0 x1 y0 y1 q1 <= y1).
      { destruct (Rle_lt_or_eq_dec _ _ Hq1) as [Hlt|Heq].
        - left. rewrite <- (seg_at_right x0 x1 y0 y1 Hx01) at 2. now apply seg_strict_mono.
        - rewrite Heq. right. now apply seg_at_right. }
      lra.
    + lra.
    + apply IH; auto. simpl. apply Rnot_le_lt in Hq1. lra.
Qed.

(* ---- numpy.interp's segment selection gives the same real number as searchsorted-left ---- *)
Lemma seg_np_R x0 x1 y0 y1 q : seg_np NumR x0 x1 y0 y1 q = seg NumR x0 x1 y0 y1 q.
Proof.
  unfold seg_np, isnan. simpl neqb. unfold Reqb.
  destruct (Req_EM_T _ _) as [_|H]; [reflexivity|exfalso; apply H; reflexivity].
Qed.

Lemma interp_np_cons x0 x1 x2 xt y0 y1 yt q :
  interp_np NumR (x0 :: x1 :: x2 :: xt) (y0 :: y1 :: yt) q
  = if Rlt_dec q x1 then (if Req_EM_T q x0 then y0 else seg NumR x0 x1 y0 y1 q)
    else interp_np NumR (x1 :: x2 :: xt) (y1 :: yt) q.
Proof.
  cbn [interp_np]. simpl nltb; simpl neqb. unfold Rltb, Reqb. rewrite seg_np_R.
  destruct (Rlt_dec q x1); destruct (Req_EM_T q x0); reflexivity.
Qed.
Lemma interp_np_two x0 x1 y0 y1 yt q :
  interp_np NumR [x0; x1] (y0 :: y1 :: yt) q
  = if Rlt_dec q x1 then (if Req_EM_T q x0 then y0 else seg NumR x0 x1 y0 y1 q) else y1.
Proof.
  cbn [interp_np]. simpl nltb; simpl neqb. unfold Rltb, Reqb. rewrite seg_np_R.
  destruct (Rlt_dec q x1); destruct (Req_EM_T q x0); reflexivity.
Qed.

Theorem interp_np_is_interp_lin : forall xs ys q,
  incr xs -> length ys = length xs -> (2 <= length xs)%nat -> hd 0 xs <= q <= last xs 0 ->
  interp_np NumR xs ys q = interp_lin NumR xs ys q.
Proof.
  induction xs as [|x0 xt IH]; intros ys q Hinc Hlen Hn Hq; [simpl in Hn; lia|].
  destruct xt as [|x1 xt']; [simpl in Hn; lia|].
  destruct ys as [|y0 [|y1 yt]]; try (simpl in Hlen; lia).
  pose proof Hinc as [H01 Hinc'].
  destruct xt' as [|x2 xt''].
  - rewrite interp_np_two, interp_lin_two'. simpl in Hq.
    destruct (Rlt_dec q x1).
    + destruct (Req_EM_T q x0) as [->|]; [now rewrite seg_at_left|reflexivity].
    + assert (q = x1) by lra. subst q. now rewrite seg_at_right.
  - rewrite interp_np_cons, interp_lin_cons.
    change (last (x0 :: x1 :: x2 :: xt'') 0) with (last (x1 :: x2 :: xt'') 0) in Hq. simpl hd in Hq.
    destruct (Rlt_dec q x1) as [Hlt|Hge].
    + destruct (Rle_dec q x1); [|lra].
      destruct (Req_EM_T q x0) as [->|]; [now rewrite seg_at_left|reflexivity].
    + destruct (Rle_dec q x1) as [Hle|Hgt].
      * assert (q = x1) by lra. subst q. rewrite seg_at_right by exact H01.
        rewrite IH; [| exact Hinc' | simpl in *; lia | simpl; lia | simpl hd; lra].
        apply (interp_lin_at_node (x1 :: x2 :: xt'') (y1 :: yt) 0); auto; simpl in *; lia.
      * apply IH; [exact Hinc' | simpl in *; lia | simpl; lia | simpl hd; lra].
Qed.

(* ---- the clamped lookup (interp1d with fill_value=(lo, hi), bounds_error=False) ---- *)
Lemma interp_fill_R lo hi xs ys q :
  incr xs -> length ys = length xs -> (2 <= length xs)%nat ->
  interp_fill NumR lo hi xs ys q =
  if Rlt_dec q (hd 0 xs) then lo else if Rlt_dec (last xs 0) q then hi else interp_lin NumR xs ys q.
Proof.
  intros Hinc Hl Hn. unfold interp_fill. simpl nltb. unfold Rltb. simpl n0.
  destruct (Rlt_dec q (hd 0 xs)); [reflexivity|]. destruct (Rlt_dec (last xs 0) q); [reflexivity|].
  apply interp_np_is_interp_lin; auto. lra.
Qed.

(* every real query returns a value within [lo, hi] when the ordinates and both fill values are *)
Theorem interp_fill_range lo hi flo fhi xs ys q :
  incr xs -> length ys = length xs -> (2 <= length xs)%nat -> ys_in lo hi ys ->
  lo <= flo <= hi -> lo <= fhi <= hi ->
  lo <= interp_fill NumR flo fhi xs ys q <= hi.
Proof.
  intros Hinc Hlen Hn Hys Hflo Hfhi. rewrite interp_fill_R by assumption.
  destruct (Rlt_dec q (hd 0 xs)); [exact Hflo|].
  destruct (Rlt_dec (last xs 0) q); [exact Hfhi|].
  apply interp_lin_range; auto. lra.
Qed.

Theorem interp_fill_at_node flo fhi xs ys j :
  incr xs -> length ys = length xs -> (2 <= length xs)%nat -> (j < length xs)%nat ->
  interp_fill NumR flo fhi xs ys (nth j xs 0) = nth j ys 0.
Proof.
  intros Hinc Hlen Hn Hj. rewrite interp_fill_R by assumption.
  assert (Hge : hd 0 xs <= nth j xs 0).
  { destruct xs as [|a l]; [simpl in Hn; lia|]. destruct j; [simpl; lra|].
    simpl. left. apply incr_hd_lt_nth; [exact Hinc|]. simpl in Hj. lia. }
  assert (Hle : nth j xs 0 <= last xs 0).
  { clear Hge Hlen Hn ys. revert j Hj. induction xs as [|a l IH]; intros j Hj; [simpl in Hj; lia|].
    destruct j as [|j].
    - simpl nth. now apply incr_hd_le_last.
    - destruct l as [|b l']; [simpl in Hj; lia|].
      change (last (a :: b :: l') 0) with (last (b :: l') 0). simpl nth.
      apply IH; [eapply incr_tail; eauto | simpl in Hj |- *; lia]. }
  destruct (Rlt_dec (nth j xs 0) (hd 0 xs)); [lra|].
  destruct (Rlt_dec (last xs 0) (nth j xs 0)); [lra|].
  now apply interp_lin_at_node.
Qed.

Theorem interp_fill_outside flo fhi xs ys q :
  (q < hd 0 xs -> interp_fill NumR flo fhi xs ys q = flo) /\
  (hd 0 xs <= last xs 0 -> last xs 0 < q -> interp_fill NumR flo fhi xs ys q = fhi).
Proof.
  unfold interp_fill. simpl nltb. unfold Rltb. simpl n0. split.
  - intros H. destruct (Rlt_dec q (hd 0 xs)); [reflexivity|lra].
  - intros H0 H. destruct (Rlt_dec q (hd 0 xs)); [lra|]. destruct (Rlt_dec (last xs 0) q); [reflexivity|lra].
Qed.

(* ---- the interpolant is affine-equivariant in the ordinates ---- *)
Lemma seg_affine k c x0 x1 y0 y1 q :
  seg NumR x0 x1 (k * y0 + c) (k * y1 + c) q = k * seg NumR x0 x1 y0 y1 q + c.
Proof. rewrite !seg_R. unfold Rdiv. ring. Qed.

Theorem interp_lin_affine k c : forall xs ys q, length ys = length xs ->
  (2 <= length xs)%nat ->
  interp_lin NumR xs (map (fun y => k * y + c) ys) q = k * interp_lin NumR xs ys q + c.
Proof.
  induction xs as [|x0 xt IH]; intros ys q Hlen Hn; [simpl in Hn; lia|].
  destruct xt as [|x1 xt']; [simpl in Hn; lia|].
  destruct ys as [|y0 [|y1 yt]]; try (simpl in Hlen; lia).
  destruct xt' as [|x2 xt''].
  - destruct yt; [|simpl in Hlen; lia]. cbn [map]. rewrite !interp_lin_two. apply seg_affine.
  - cbn [map]. rewrite !interp_lin_cons. destruct (Rle_dec q x1); [apply seg_affine|].
    change (k * y1 + c :: map (fun y => k * y + c) yt) with (map (fun y => k * y + c) (y1 :: yt)).
    apply IH; simpl in *; lia.
Qed.

Corollary interp_lin_scal k xs ys q : length ys = length xs -> (2 <= length xs)%nat ->
  interp_lin NumR xs (map (fun y => y * k) ys) q = k * interp_lin NumR xs ys q.
Proof.
  intros Hl Hn. rewrite (map_ext _ (fun y => k * y + 0)) by (intros; ring).
  rewrite interp_lin_affine by assumption. ring.
Qed.

(* ---- two interpolants over the same abscissae use the same segment ---- *)
Theorem interp_lin_same_segment (f : R -> R) (Q : R -> R -> Prop) : forall xs ys q,
  incr xs -> length ys = length xs -> (2 <= length xs)%nat -> hd 0 xs <= q <= last xs 0 ->
  (forall x0 x1 y0 y1, x0 < x1 -> x0 <= q <= x1 -> In y0 ys -> In y1 ys ->
     Q (seg NumR x0 x1 y0 y1 q) (seg NumR x0 x1 (f y0) (f y1) q)) ->
  Q (interp_lin NumR xs ys q) (interp_lin NumR xs (map f ys) q).
Proof.
  induction xs as [|x0 xt IH]; intros ys q Hinc Hlen Hn Hq HQ; [simpl in Hn; lia|].
  destruct xt as [|x1 xt']; [simpl in Hn; lia|].
  destruct ys as [|y0 [|y1 yt]]; try (simpl in Hlen; lia).
  destruct Hinc as [H01 Hinc'].
  destruct xt' as [|x2 xt''].
  - destruct yt; [|simpl in Hlen; lia]. cbn [map]. rewrite !interp_lin_two. simpl in Hq.
    apply HQ; auto; simpl; auto.
  - cbn [map]. rewrite !interp_lin_cons. destruct (Rle_dec q x1) as [Hle|Hgt].
    + apply HQ; auto; simpl in Hq |- *; auto. lra.
    + change (f y1 :: map f yt) with (map f (y1 :: yt)).
      apply IH; [exact Hinc' | simpl in *; lia | simpl; lia | |].
      * change (last (x0 :: x1 :: x2 :: xt'') 0) with (last (x1 :: x2 :: xt'') 0) in Hq.
        simpl hd. apply Rnot_le_lt in Hgt. lra.
      * intros a0 a1 b0 b1 Ha Hqa Hb0 Hb1. apply HQ; auto; right; assumption.
Qed.

(* harmonic/arithmetic mean inequality on one segment: L(1/y) * L(y) >= 1 *)
Lemma seg_am_hm x0 x1 a b q : x0 < x1 -> x0 <= q <= x1 -> 0 < a -> 0 < b ->
  1 <= seg NumR x0 x1 (/ a) (/ b) q * seg NumR x0 x1 a b q <= (a + b) ^ 2 / (4 * a * b).
Proof.
  intros Hx Hq Ha Hb. rewrite !seg_R.
  set (t := (q - x0) / (x1 - x0)).
  assert (Ht : 0 <= t <= 1).
  { unfold t. split.
    - apply Rmult_le_pos; [lra|]. left. apply Rinv_0_lt_compat. lra.
    - apply Rmult_le_reg_r with (x1 - x0); [lra|]. unfold Rdiv. rewrite Rmult_assoc, Rinv_l by lra. lra. }
  replace ((/ b - / a) / (x1 - x0) * (q - x0) + / a) with ((1 - t) / a + t / b) by (unfold t; field; lra).
  replace ((b - a) / (x1 - x0) * (q - x0) + a) with ((1 - t) * a + t * b) by (unfold t; field; lra).
  assert (E : ((1 - t) / a + t / b) * ((1 - t) * a + t * b) = 1 + t * (1 - t) * ((a - b) ^ 2 / (a * b))) by (field; lra).
  rewrite E.
  assert (Hab : 0 < a * b) by now apply Rmult_lt_0_compat.
  assert (Hsq : 0 <= (a - b) ^ 2 / (a * b)).
  { apply Rmult_le_pos; [apply pow2_ge_0|]. left. now apply Rinv_0_lt_compat. }
  clearbody t.
  assert (Hsq2 : 0 <= (t - 1 / 2) ^ 2) by apply pow2_ge_0.
  assert (Htt : 0 <= t * (1 - t) <= 1 / 4) by (split; nra).
  split; [nra|].
  replace ((a + b) ^ 2 / (4 * a * b)) with (1 + 1 / 4 * ((a - b) ^ 2 / (a * b))) by (field; lra).
  nra.
Qed.

(* ---- minimum / maximum of a list as computed by the model ---- *)
Lemma lmin_le_acc (l : list R) : forall d, lmin NumR d l <= d.
Proof.
  induction l as [|x t IH]; intros d; simpl; [lra|].
  eapply Rle_trans; [apply IH|]. rewrite nmin_R. apply Rmin_l.
Qed.
Lemma lmin_le_elem (l : list R) : forall d x, In x l -> lmin NumR d l <= x.
Proof.
  induction l as [|y t IH]; intros d x Hin; [contradiction|]. simpl. destruct Hin as [->|Hin].
  - eapply Rle_trans; [apply lmin_le_acc|]. rewrite nmin_R. apply Rmin_r.
  - now apply IH.
Qed.
Lemma lmin_in (l : list R) : forall d, lmin NumR d l = d \/ In (lmin NumR d l) l.
Proof.
  induction l as [|y t IH]; intros d; simpl; [left; reflexivity|].
  destruct (IH (nmin NumR d y)) as [E|Hin]; [|right; right; exact Hin].
  rewrite E, nmin_R. unfold Rmin. destruct (Rle_dec d y); [left; reflexivity|right; left; reflexivity].
Qed.
Lemma lmax_ge_acc (l : list R) : forall d, d <= lmax NumR d l.
Proof.
  induction l as [|x t IH]; intros d; simpl; [lra|].
  eapply Rle_trans; [|apply IH]. rewrite nmax_R. apply Rmax_l.
Qed.
Lemma lmax_ge_elem (l : list R) : forall d x, In x l -> x <= lmax NumR d l.
Proof.
  induction l as [|y t IH]; intros d x Hin; [contradiction|]. simpl. destruct Hin as [->|Hin].
  - eapply Rle_trans; [|apply lmax_ge_acc]. rewrite nmax_R. apply Rmax_r.
  - now apply IH.
Qed.
Lemma lmax_in (l : list R) : forall d, lmax NumR d l = d \/ In (lmax NumR d l) l.
Proof.
  induction l as [|y t IH]; intros d; simpl; [left; reflexivity|].
  destruct (IH (nmax NumR d y)) as [E|Hin]; [|right; right; exact Hin].
  rewrite E, nmax_R. unfold Rmax. destruct (Rle_dec d y); [right; left; reflexivity|left; reflexivity].
Qed.
