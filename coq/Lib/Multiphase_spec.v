(* Multiphase_spec: total mass mobility and stored mass per unit volume transcribed from
   docs/background.md ("Simplified two-phase flow"), with k = rho_ref = 1 as in the code.
   (The documentation's gas storage term reads S_g/b_o; the three-phase section of the same
   document and the code agree on S_g/b_g, which is what is transcribed here.) *)
From Coq Require Import Reals Lra.
Open Scope R_scope.

Section Spec.
  Variables rho_o rho_g rho_w : R.                 (* standard-condition densities *)
  Variables Rv Rs mu_o mu_g mu_w Bo Bg Bw : R -> R.  (* functions of pressure *)
  Variables kro krg krw : R -> R.                  (* functions of oil saturation *)

  Definition mobility (p So : R) : R :=
    (Rv p * (krg So / (mu_g p * Bg p)) + kro So / (mu_o p * Bo p)) * rho_o
    + (krg So / (mu_g p * Bg p) + Rs p * (kro So / (mu_o p * Bo p))) * rho_g
    + krw So / (mu_w p * Bw p) * rho_w.

  Definition storage (phi So Sw p : R) : R :=
    let Sg := 1 - So - Sw in
    phi * (rho_o * (Rv p * (Sg / Bg p) + So / Bo p)
           + rho_g * (Rs p * (So / Bo p) + Sg / Bg p)
           + rho_w * (Sw / Bw p)).
End Spec.
