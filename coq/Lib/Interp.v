(* Interp: model of scipy.interpolate.interp1d(kind="linear") on sorted abscissae, over the
   numeric signature, with its three out-of-range behaviours; theorems for the R instance. *)
From Coq Require Import Reals List Lra Lia Arith Bool.
From BBLib Require Import NumSig.
Import ListNotations.

Section Interp.
  Context {T : Type} (N : Num T).
  Local Notation "a +! b" := (nadd N a b) (at level 50, left associativity).
  Local Notation "a -! b" := (nsub N a b) (at level 50, left associativity).
  Local Notation "a *! b" := (nmul N a b) (at level 40, left associativity).
  Local Notation "a /! b" := (ndiv N a b) (at level 40, left associativity).

  (* scipy: slope = (y_hi - y_lo) / (x_hi - x_lo); y = slope * (q - x_lo) + y_lo *)
  Definition seg (x0 x1 y0 y1 q : T) : T := ((y1 -! y0) /! (x1 -! x0)) *! (q -! x0) +! y0.

  (* searchsorted(x, q, side="left") clipped to [1, n-1]: the first segment whose right end
     is >= q, or the last segment *)
  Fixpoint interp_lin (xs ys : list T) (q : T) : T :=
    match xs, ys with
    | x0 :: ((x1 :: xt') as xt), y0 :: ((y1 :: _) as yt) =>
        match xt' with
        | [] => seg x0 x1 y0 y1 q
        | _ => if nleb N q x1 then seg x0 x1 y0 y1 q else interp_lin xt yt q
        end
    | _, _ => n0 N
    end.

  (* numpy.interp (which interp1d delegates to unless fill_value="extrapolate"): the segment is
     the one with x_j <= q < x_{j+1}; a query equal to a node returns the node's ordinate; a NaN
     result (infinite ordinates) is recomputed from the segment's right end *)
  Definition isnan (r : T) : bool := negb (neqb N r r).
  Definition seg_np (x0 x1 y0 y1 q : T) : T :=
    let slope := (y1 -! y0) /! (x1 -! x0) in
    let r := slope *! (q -! x0) +! y0 in
    if isnan r then
      let r2 := slope *! (q -! x1) +! y1 in
      if (isnan r2 && neqb N y0 y1)%bool then y0 else r2
    else r.
  Fixpoint interp_np (xs ys : list T) (q : T) : T :=
    match xs, ys with
    | x0 :: ((x1 :: xt') as xt), y0 :: ((y1 :: _) as yt) =>
        if nltb N q x1 then (if neqb N q x0 then y0 else seg_np x0 x1 y0 y1 q)
        else match xt' with
             | [] => y1
             | _ => interp_np xt yt q
             end
    | _, _ => n0 N
    end.

  Inductive mode := Strict | Fill (lo hi : T) | Extrap.

  Definition interp1d (m : mode) (xs ys : list T) (q : T) : option T :=
    let xf := hd (n0 N) xs in
    let xl := last xs (n0 N) in
    match m with
    | Extrap => Some (interp_lin xs ys q)
    | Fill lo hi =>
        Some (if nltb N q xf then lo else if nltb N xl q then hi else interp_np xs ys q)
    | Strict =>
        if (nltb N q xf || nltb N xl q)%bool then None else Some (interp_np xs ys q)
    end.

  Definition interp_fill lo hi xs ys q : T :=
    if nltb N q (hd (n0 N) xs) then lo else if nltb N (last xs (n0 N)) q then hi else interp_np xs ys q.

  (* scipy.integrate.cumulative_trapezoid(y, x, initial=0) *)
  Fixpoint cumtrapz_from (acc : T) (y x : list T) : list T :=
    match y, x with
    | y0 :: ((y1 :: _) as yt), x0 :: ((x1 :: _) as xt) =>
        let acc' := acc +! (x1 -! x0) *! (y0 +! y1) /! n2 N in
        acc' :: cumtrapz_from acc' yt xt
    | _, _ => []
    end.
  Definition cumtrapz (y x : list T) : list T :=
    match y with [] => [] | _ => n0 N :: cumtrapz_from (n0 N) y x end.
End Interp.
Arguments Strict {T}. Arguments Fill {T}. Arguments Extrap {T}.
