(* FloatCmp: helpers used by generated correspondence cases (float instance only). *)
From Coq Require Import List PrimFloat.
From BBLib Require Import NumSig.
Import ListNotations.

Definition fabsdiff (a b : float) : float := PrimFloat.abs (PrimFloat.sub a b).
(* NaN-aware maximum: a NaN difference poisons the result *)
Definition fmaxnan (a b : float) : float :=
  if PrimFloat.eqb a a then (if PrimFloat.eqb b b then (if PrimFloat.ltb a b then b else a) else b) else a.
Definition maxdiff (a b : list float) : float :=
  if Nat.eqb (length a) (length b)
  then fold_left fmaxnan (map (fun p => fabsdiff (fst p) (snd p)) (combine a b)) 0%float
  else infinity.
Definition sample_field (field : list (list float)) (ij : list (nat * nat)) : list float :=
  map (fun p => nth (snd p) (nth (fst p) field []) nan) ij.
Definition within (d tol : float) : bool := PrimFloat.leb d tol.
Definition opt_list (o : option (list (list float))) : list (list float) :=
  match o with Some l => l | None => [] end.
