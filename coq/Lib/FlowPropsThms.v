(* FlowPropsThms (C09, C15): theorems about the R instance of the FlowProperties model
   (Reservoir.fp_init and the lookups built from it). *)
From Coq Require Import Reals List Lra Lia Arith Bool.
From BBLib Require Import NumSig Tridiag Interp Reservoir ReservoirThms InterpThms.
Import ListNotations.
Open Scope R_scope.

Lemma Rltb_true a b : Rltb a b = true <-> a < b.
Proof. unfold Rltb. destruct (Rlt_dec a b); split; intros; auto; discriminate. Qed.
Lemma Rltb_false a b : Rltb a b = false <-> b <= a.
Proof. unfold Rltb. destruct (Rlt_dec a b); split; intros; auto; try discriminate; lra. Qed.

Lemma interp1d_strict_inside xs ys q : incr xs -> length ys = length xs -> (2 <= length xs)%nat ->
  hd 0 xs <= q <= last xs 0 ->
  interp1d NumR Strict xs ys q = Some (interp_lin NumR xs ys q).
Proof.
  intros Hinc Hl Hn [H1 H2]. unfold interp1d. simpl nltb. simpl n0.
  replace (Rltb q (hd 0 xs)) with false by (symmetry; apply Rltb_false; lra).
  replace (Rltb (last xs 0) q) with false by (symmetry; apply Rltb_false; lra). cbn [orb].
  f_equal. apply interp_np_is_interp_lin; auto.
Qed.
Lemma interp1d_strict_outside xs ys q : q < hd 0 xs \/ last xs 0 < q ->
  interp1d NumR Strict xs ys q = None.
Proof.
  intros H. unfold interp1d. simpl nltb. simpl n0. destruct H as [H|H].
  - replace (Rltb q (hd 0 xs)) with true by (symmetry; apply Rltb_true; lra). reflexivity.
  - replace (Rltb (last xs 0) q) with true by (symmetry; apply Rltb_true; lra).
    now rewrite orb_true_r.
Qed.

Lemma incr_scale k l : 0 < k -> incr l -> incr (map (fun m => m * k) l).
Proof.
  intros Hk. induction l as [|a t IH]; intros H; [exact I|].
  destruct t as [|b t']; [exact I|]. destruct H as [Hab Ht]. cbn [map incr].
  split; [nra|]. apply IH. exact Ht.
Qed.

Definition all_pos (l : list R) := forall x, In x l -> 0 < x.

Lemma ys_in_of_bounds lo hi l : (forall x, In x l -> lo <= x <= hi) -> ys_in lo hi l.
Proof. intros H j Hj. apply H. now apply nth_In. Qed.

Section Table.
  Variable tb : table (T := R).
  Variable p_i : R.
  Let p := t_pressure tb.
  Let pp := t_pseudopressure tb.
  Hypothesis Hn : (2 <= length p)%nat.
  Hypothesis Hlpp : length pp = length p.
  Hypothesis Hincp : incr p.
  Hypothesis Hincpp : incr pp.
  Hypothesis Hrange : hd 0 p <= p_i <= last p 0.

  (* ---------- branch without a user-supplied diffusivity ---------- *)
  Section Computed.
    Hypothesis Hnoalpha : t_alpha tb = None.
    Let c := t_compressibility tb.
    Let mu := t_viscosity tb.
    Let z := t_zfactor tb.
    Hypothesis Hlc : length c = length p.
    Hypothesis Hlmu : length mu = length p.
    Hypothesis Hlz : length z = length p.
    Hypothesis Hpos : all_pos p /\ all_pos c /\ all_pos mu /\ all_pos z.

    Definition scal_col :=
      map (fun r => scaling_row NumR (fst (fst (fst r))) (snd (fst (fst r))) (snd (fst r)) (snd r))
          (combine (combine (combine c p) mu) z).
    Definition alpha_col := map2 (fun cc m => 1 / (cc * m)) c mu.
    Definition factor := interp_lin NumR p scal_col p_i.
    Definition ms := map (fun m => m * factor) pp.

    Lemma scal_col_length : length scal_col = length p.
    Proof. unfold scal_col. rewrite map_length, !combine_length. lia. Qed.

    Lemma scal_col_pos x : In x scal_col -> 0 < x.
    Proof.
      intros Hin. unfold scal_col in Hin. apply in_map_iff in Hin. destruct Hin as [[[[cc pr] m] zz] [<- Hin]].
      destruct Hpos as [Hp [Hc [Hmu Hz]]].
      apply in_combine_l in Hin as H1. apply in_combine_r in Hin as H2.
      apply in_combine_l in H1 as H3. apply in_combine_r in H1 as H4.
      apply in_combine_l in H3 as H5. apply in_combine_r in H3 as H6.
      simpl. unfold scaling_row, half. simpl.
      specialize (Hp _ H6). specialize (Hc _ H5). specialize (Hmu _ H4). specialize (Hz _ H2).
      apply Rdiv_lt_0_compat; [|nra].
      repeat apply Rmult_lt_0_compat; lra.
    Qed.

    (* a positive lower bound on a finite list of positive numbers *)
    Lemma factor_pos : 0 < factor.
    Proof.
      assert (Hne : scal_col <> []).
      { intro E. pose proof scal_col_length as L. rewrite E in L. simpl in L. lia. }
      destruct scal_col as [|s0 st] eqn:Es; [contradiction|].
      set (lo := lmin NumR s0 (s0 :: st)). set (hi := lmax NumR s0 (s0 :: st)).
      assert (Hlo : 0 < lo).
      { unfold lo. destruct (lmin_in (s0 :: st) s0) as [E|Hin]; [rewrite E|];
          apply scal_col_pos; rewrite Es; [left; reflexivity|exact Hin]. }
      assert (Hb : lo <= factor <= hi).
      { unfold factor. rewrite Es. apply interp_lin_range; auto.
        - rewrite <- Es. apply scal_col_length.
        - apply ys_in_of_bounds. intros x Hx. split; [now apply lmin_le_elem|now apply lmax_ge_elem]. }
      lra.
    Qed.

    Theorem fp_init_computed :
      fp_init NumR tb p_i = Some {| fp_pressure := p; fp_mscaled := ms; fp_alpha := alpha_col;
                                    fp_m_i := interp_lin NumR p ms p_i;
                                    fp_alpha_lo := lmin NumR (hd 0 alpha_col) alpha_col;
                                    fp_alpha_hi := lmax NumR (hd 0 alpha_col) alpha_col;
                                    fp_density := t_density tb |}.
    Proof.
      unfold fp_init. rewrite Hnoalpha. fold p pp c mu z. fold scal_col. fold alpha_col.
      rewrite interp1d_strict_inside by (auto using scal_col_length). fold factor.
      change (map (fun m => nmul NumR m factor) pp) with ms.
      rewrite interp1d_strict_inside by (auto; unfold ms; now rewrite map_length). reflexivity.
    Qed.

    Lemma ms_incr : incr ms.
    Proof. unfold ms. apply incr_scale; [apply factor_pos|exact Hincpp]. Qed.
    Lemma ms_length : length ms = length p.
    Proof. unfold ms. now rewrite map_length. Qed.

    (* scaled pseudopressure is a strictly increasing function of pressure on the table ... *)
    Theorem m_scaled_strictly_increasing q1 q2 : hd 0 p <= q1 -> q1 < q2 -> q2 <= last p 0 ->
      interp_lin NumR p ms q1 < interp_lin NumR p ms q2.
    Proof. intros. apply interp_lin_strict_mono; auto using ms_incr, ms_length. Qed.

    (* ... whose value at p_i is the reported m_i, for the object the constructor returns *)
    Theorem m_scaled_at_p_i fp : fp_init NumR tb p_i = Some fp ->
      m_scaled_func NumR fp p_i = Some (fp_m_i fp).
    Proof.
      rewrite fp_init_computed. intros E. inversion E; subst fp. unfold m_scaled_func. cbn [fp_pressure fp_mscaled fp_m_i].
      now rewrite interp1d_strict_inside by (auto using ms_length).
    Qed.

    (* diffusivity at the table nodes is 1 / (compressibility * viscosity) *)
    Theorem alpha_at_nodes fp j : fp_init NumR tb p_i = Some fp -> (j < length p)%nat ->
      alpha_func NumR fp (nth j (fp_mscaled fp) 0) = 1 / (nth j c 0 * nth j mu 0).
    Proof.
      rewrite fp_init_computed. intros E Hj. inversion E; subst fp. unfold alpha_func.
      cbn [fp_pressure fp_mscaled fp_alpha fp_alpha_lo fp_alpha_hi].
      rewrite interp_fill_at_node.
      - unfold alpha_col, map2. rewrite (nth_map_lt _ _ _ (0, 0)).
        + rewrite combine_nth by lia. reflexivity.
        + rewrite combine_length. lia.
      - apply ms_incr.
      - unfold alpha_col, map2. rewrite map_length, combine_length, ms_length. lia.
      - rewrite ms_length. exact Hn.
      - rewrite ms_length. exact Hj.
    Qed.
  End Computed.
End Table.

(* ---------- the clamped diffusivity lookup ---------- *)
Theorem alpha_lookup_within_table_range (ms a : list R) (q : R) :
  incr ms -> length a = length ms -> (2 <= length ms)%nat -> all_pos a ->
  let lo := lmin NumR (hd 0 a) a in
  let hi := lmax NumR (hd 0 a) a in
  0 < lo /\ lo <= interp_fill NumR lo hi ms a q <= hi.
Proof.
  intros Hinc Hl Hn Hpos lo hi.
  destruct a as [|a0 at_]; [simpl in Hl; lia|]. simpl hd in *.
  assert (Hlo : 0 < lo).
  { unfold lo. destruct (lmin_in (a0 :: at_) a0) as [E|Hin]; [rewrite E; apply Hpos; left; reflexivity|now apply Hpos]. }
  assert (Hlh : lo <= hi).
  { unfold lo, hi. eapply Rle_trans; [apply lmin_le_acc|apply lmax_ge_acc]. }
  split; [exact Hlo|].
  apply interp_fill_range; auto; try lra.
  apply ys_in_of_bounds. intros x Hx. split; [now apply lmin_le_elem|now apply lmax_ge_elem].
Qed.

(* ---------- p_i outside the table: construction fails (both branches) ---------- *)
Theorem fp_init_outside_table_fails (tb : table (T := R)) p_i :
  p_i < hd 0 (t_pressure tb) \/ last (t_pressure tb) 0 < p_i -> fp_init NumR tb p_i = None.
Proof.
  intros H. unfold fp_init. destruct (t_alpha tb); rewrite interp1d_strict_outside by exact H; reflexivity.
Qed.
Theorem fp_init_simple_outside_table_fails (tb : table (T := R)) p_i :
  p_i < hd 0 (t_pressure tb) \/ last (t_pressure tb) 0 < p_i -> fp_init_simple NumR tb p_i = None.
Proof. intros H. unfold fp_init_simple. rewrite interp1d_strict_outside by exact H. reflexivity. Qed.

(* ---------- branch with a user-supplied diffusivity column ---------- *)
Section UserAlpha.
  Variable tb : table (T := R).
  Variable p_i : R.
  Variable a : list R.
  Let p := t_pressure tb.
  Let pp := t_pseudopressure tb.
  Hypothesis Halpha : t_alpha tb = Some a.
  Hypothesis Hn : (2 <= length p)%nat.
  Hypothesis Hlpp : length pp = length p.
  Hypothesis Hincp : incr p.
  Hypothesis Hpp : all_pos pp.
  Hypothesis Hrange : hd 0 p <= p_i <= last p 0.

  Definition ufactor := 1 / interp_lin NumR p pp p_i.
  Definition ums := map (fun m => m * ufactor) pp.

  Theorem fp_init_user :
    fp_init NumR tb p_i = Some {| fp_pressure := p; fp_mscaled := ums; fp_alpha := a;
                                  fp_m_i := interp_lin NumR p ums p_i;
                                  fp_alpha_lo := lmin NumR (hd 0 a) a;
                                  fp_alpha_hi := lmax NumR (hd 0 a) a;
                                  fp_density := t_density tb |}.
  Proof.
    unfold fp_init. rewrite Halpha. fold p pp.
    rewrite interp1d_strict_inside by auto.
    change (ndiv NumR (n1 NumR) (interp_lin NumR p pp p_i)) with ufactor.
    change (map (fun m => nmul NumR m ufactor) pp) with ums.
    rewrite interp1d_strict_inside by (auto; unfold ums; now rewrite map_length). reflexivity.
  Qed.

  Lemma user_m_i_product :
    interp_lin NumR p ums p_i = ufactor * interp_lin NumR p pp p_i.
  Proof. unfold ums. apply interp_lin_scal; [exact Hlpp|exact Hn]. Qed.

  (* the pseudopressure interpolated at p_i is positive (it lies between the smallest and the largest table value) *)
  Lemma interp_pp_pos : 0 < interp_lin NumR p pp p_i.
  Proof.
    assert (Hne : pp <> []). { intro E. rewrite E in Hlpp. simpl in Hlpp. lia. }
    destruct pp as [|s0 st] eqn:Es; [contradiction|].
    set (lo := lmin NumR s0 (s0 :: st)). set (hi := lmax NumR s0 (s0 :: st)).
    assert (Hlo : 0 < lo).
    { unfold lo. destruct (lmin_in (s0 :: st) s0) as [E|Hin]; [rewrite E|]; apply Hpp; [left; reflexivity|exact Hin]. }
    assert (Hb : lo <= interp_lin NumR p (s0 :: st) p_i <= hi).
    { apply interp_lin_range; auto.
      apply ys_in_of_bounds. intros x Hx. split; [now apply lmin_le_elem|now apply lmax_ge_elem]. }
    lra.
  Qed.

  (* the reported m_i is exactly 1, for every initial pressure inside the table *)
  Theorem user_m_i_is_one : interp_lin NumR p ums p_i = 1.
  Proof. rewrite user_m_i_product. unfold ufactor. pose proof interp_pp_pos. field. lra. Qed.

  (* (the two clauses of the property text, now corollaries: at least 1 everywhere, exactly 1 at table nodes) *)
  Theorem user_m_i_at_least_one : 1 <= interp_lin NumR p ums p_i.
  Proof. rewrite user_m_i_is_one. lra. Qed.
  Theorem user_m_i_one_at_nodes j : (j < length p)%nat -> p_i = nth j p 0 ->
    interp_lin NumR p ums p_i = 1.
  Proof. intros _ _. apply user_m_i_is_one. Qed.

  (* and the scaled column is strictly increasing when the pseudopressure column is *)
  Lemma ufactor_pos : 0 < ufactor.
  Proof. unfold ufactor. apply Rdiv_lt_0_compat; [lra|apply interp_pp_pos]. Qed.
End UserAlpha.

(* ---------- rescale_pseudopressure: frac-face pressure -> 0, initial pressure -> 1 ---------- *)
Section Rescale.
  Variables p pp : list R.
  Variables p_frac p_i : R.
  Hypothesis Hn : (2 <= length p)%nat.
  Hypothesis Hl : length pp = length p.
  Hypothesis Hinc : incr p.
  Hypothesis Hf : hd 0 p <= p_frac <= last p 0.
  Hypothesis Hi : hd 0 p <= p_i <= last p 0.
  Let L := interp_lin NumR p pp.
  Hypothesis Hne : L p_i <> L p_frac.

  Definition rescaled := map (fun m => / (L p_i - L p_frac) * m + - L p_frac / (L p_i - L p_frac)) pp.

  Lemma all_some_opt_map_some (f : R -> R) : forall l, all_some_opt (map (fun q => Some (f q)) l) = Some (map f l).
  Proof. induction l as [|x t IH]; simpl; [reflexivity|]. now rewrite IH. Qed.

  Lemma nodes_in_range q : In q p -> hd 0 p <= q <= last p 0.
  Proof.
    intros Hin. apply In_nth with (d := 0) in Hin. destruct Hin as [j [Hj <-]]. split.
    - destruct p as [|a0 l]; [simpl in Hj; lia|]. destruct j; [simpl; lra|]. simpl. left.
      apply incr_hd_lt_nth; [exact Hinc|]. simpl in Hj. lia.
    - clear -Hinc Hj. revert j Hj. induction p as [|a0 l IH]; intros j Hj; [simpl in Hj; lia|].
      destruct j as [|j]; [simpl nth; now apply incr_hd_le_last|].
      destruct l as [|b l']; [simpl in Hj; lia|].
      change (last (a0 :: b :: l') 0) with (last (b :: l') 0). simpl nth.
      apply IH; [eapply incr_tail; eauto|simpl in Hj |- *; lia].
  Qed.

  Theorem rescale_model_value :
    rescale_pseudopressure NumR p pp p_frac p_i = Some rescaled.
  Proof.
    unfold rescale_pseudopressure. rewrite !interp1d_strict_inside by assumption. fold L.
    assert (E : map (fun q => match interp1d NumR Strict p pp q with
                              | Some mq => Some (ndiv NumR (nsub NumR mq (L p_frac)) (nsub NumR (L p_i) (L p_frac)))
                              | None => None end) p
                = map (fun q => Some ((L q - L p_frac) / (L p_i - L p_frac))) p).
    { apply map_ext_in. intros q Hq. rewrite interp1d_strict_inside by (auto; now apply nodes_in_range). reflexivity. }
    rewrite E, all_some_opt_map_some. f_equal. unfold rescaled.
    (* at the nodes the interpolant returns the column itself *)
    apply nth_ext with (d := 0) (d' := 0); [now rewrite !map_length|].
    intros j Hj. rewrite map_length in Hj.
    rewrite (nth_map_lt _ _ _ 0) by exact Hj. rewrite (nth_map_lt _ _ _ 0) by lia.
    unfold L at 1. rewrite interp_lin_at_node by auto. field. lra.
  Qed.

  Theorem rescale_maps_fracface_to_0_and_initial_to_1 :
    interp_lin NumR p rescaled p_frac = 0 /\ interp_lin NumR p rescaled p_i = 1.
  Proof.
    unfold rescaled. rewrite !interp_lin_affine by auto. fold L. split; field; lra.
  Qed.
End Rescale.
