(* ReservoirUser: the ideal reservoir's time stepping with a USER-SUPPLIED scaled diffusivity -
   what a subclass of IdealReservoir that overrides the documented hook `alpha_scaled` and inherits
   `simulate` must compute: the loop body calls self.alpha_scaled(previous level) at every step.
   With the constant law 1 this is Reservoir.simulate_ideal (ideal_user_one below); for a
   subclass of SinglePhaseReservoir no new definition is needed, since Reservoir.simulate_single
   already takes the law as a parameter.  Executed by the correspondence check (float instance). *)
From Coq Require Import Reals List Lra Lia Arith Bool.
From BBLib Require Import NumSig Tridiag Interp Reservoir.
Import ListNotations.

Section Model.
  Context {T : Type} (N : Num T).
  Local Notation "a +! b" := (nadd N a b) (at level 50, left associativity).
  Local Notation "a -! b" := (nsub N a b) (at level 50, left associativity).
  Local Notation "a *! b" := (nmul N a b) (at level 40, left associativity).
  Local Notation "a /! b" := (ndiv N a b) (at level 40, left associativity).

  Definition ideal_next_u (alpha_s : T -> T) (mesh : T) (prev : list T) : list T :=
    thomas N (rows_of N (map (fun v => mesh *! alpha_s v) prev)) prev.

  Fixpoint run_ideal_u (alpha_s : T -> T) (dx2 : T) (times : list T) (prev : list T) : list (list T) :=
    match times with
    | t0 :: ((t1 :: _) as tt) =>
        let nxt := ideal_next_u alpha_s ((t1 -! t0) /! dx2) prev in nxt :: run_ideal_u alpha_s dx2 tt nxt
    | _ => []
    end.
  Definition simulate_ideal_u (alpha_s : T -> T) (nx : nat) (dx2 : T) (times : list T) : list (list T) :=
    match times with
    | [] => []
    | _ => let init := repeat (n1 N) nx in init :: run_ideal_u alpha_s dx2 times init
    end.
  (* subclass of IdealReservoir(nx, pf, pi) with alpha_scaled overridden: .simulate(times) *)
  Definition idu_simulate (alpha_s : T -> T) (nx : nat) (nxT : T) (times : list T) : list (list T) :=
    let h := n1 N /! (nxT -! n1 N) in
    simulate_ideal_u alpha_s nx (h *! h) times.

  Fixpoint resid_ideal_u (floor : T) (alpha_s : T -> T) (dx2 : T) (times : list T) (field : list (list T)) : list T :=
    match times, field with
    | t0 :: ((t1 :: _) as tt), prev :: ((new :: _) as rest) =>
        let mesh := (t1 -! t0) /! dx2 in
        rel_resid N floor (rows_of N (map (fun v => mesh *! alpha_s v) prev)) new prev
        :: resid_ideal_u floor alpha_s dx2 tt rest
    | _, _ => []
    end.
  Definition idu_residuals (frac : T) (alpha_s : T -> T) (nxT : T) (times : list T) (field : list (list T)) : list T :=
    let h := n1 N /! (nxT -! n1 N) in resid_ideal_u (frac *! n1 N) alpha_s (h *! h) times field.
End Model.

(* with the stock law (IdealReservoir.alpha_scaled = ones) this is the model the theorems are about *)
Lemma ideal_next_u_one {T} (N : Num T) mesh prev :
  ideal_next_u N (fun _ => n1 N) mesh prev = ideal_next N mesh prev.
Proof. reflexivity. Qed.

Lemma run_ideal_u_one {T} (N : Num T) dx2 : forall times prev,
  run_ideal_u N (fun _ => n1 N) dx2 times prev = run_ideal N dx2 times prev.
Proof.
  induction times as [|t0 tt IH]; intros prev; [reflexivity|].
  destruct tt as [|t1 tt']; [reflexivity|].
  change (run_ideal_u N (fun _ => n1 N) dx2 (t0 :: t1 :: tt') prev)
    with (ideal_next_u N (fun _ => n1 N) (ndiv N (nsub N t1 t0) dx2) prev
          :: run_ideal_u N (fun _ => n1 N) dx2 (t1 :: tt') (ideal_next_u N (fun _ => n1 N) (ndiv N (nsub N t1 t0) dx2) prev)).
  change (run_ideal N dx2 (t0 :: t1 :: tt') prev)
    with (ideal_next N (ndiv N (nsub N t1 t0) dx2) prev
          :: run_ideal N dx2 (t1 :: tt') (ideal_next N (ndiv N (nsub N t1 t0) dx2) prev)).
  rewrite ideal_next_u_one. f_equal. apply IH.
Qed.

Theorem ideal_user_one {T} (N : Num T) nx nxT times :
  idu_simulate N (fun _ => n1 N) nx nxT times = id_simulate N nx nxT times.
Proof.
  unfold idu_simulate, id_simulate, simulate_ideal_u, simulate_ideal.
  destruct times as [|t0 tt]; [reflexivity|]. now rewrite run_ideal_u_one.
Qed.
