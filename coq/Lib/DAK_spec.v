(* DAK_spec: the Dranchuk-Abou-Kassem (1975) equation of state written independently of the
   code, parameterised by the first density coefficient so that the published form and the
   form found in gas.py can be compared. *)
From Coq Require Import Reals Lra.
From Coquelicot Require Import Coquelicot.
From Interval Require Import Tactic.
Open Scope R_scope.

Definition A1 := 3265 / 10000.   Definition A2 := - (107 / 100).     Definition A3 := - (5339 / 10000).
Definition A4 := 1569 / 100000.  Definition A5 := - (5165 / 100000). Definition A6 := 5475 / 10000.
Definition A7 := - (7361 / 10000). Definition A8 := 1844 / 10000.    Definition A9 := 1056 / 10000.
Definition A10 := 6134 / 10000.  Definition A11 := 721 / 1000.

(* published: A1 + A2/Tr + ... ; gas.py: A1*A2/Tr + ... *)
Definition C0pub (t : R) := A1 + A2 / t + A3 / t ^ 3 + A4 / t ^ 4 + A5 / t ^ 5.
Definition C0code (t : R) := A1 * A2 / t + A3 / t ^ 3 + A4 / t ^ 4 + A5 / t ^ 5.
Definition C1 (t : R) := A6 + A7 / t + A8 / t ^ 2.
Definition C2 (t : R) := - A9 * (A7 / t + A8 / t ^ 2).
Definition C3 (t : R) := A10 / t ^ 3.

Definition Zeos (c0 : R -> R) (t r : R) : R :=
  1 + c0 t * r + C1 t * r ^ 2 + C2 t * r ^ 5
  + C3 t * r ^ 2 * exp (- A11 * r ^ 2) + C3 t * A11 * r ^ 4 * exp (- A11 * r ^ 2).

(* dZ/d rho as coded in compressibility_DAK (it uses the published first coefficient) *)
Definition dZeos_pub (t r : R) : R :=
  C0pub t + 2 * C1 t * r + 5 * C2 t * r ^ 4
  + (2 * A10 * r / t ^ 3 + 2 * A10 * A11 * r ^ 3 / t ^ 3 - 2 * A10 * A11 ^ 2 * r ^ 5 / t ^ 3) * exp (- A11 * r ^ 2).

Definition delta (t : R) := A1 + A2 / t - A1 * A2 / t.

Lemma Zeos_code_vs_pub t r : Zeos C0code t r = Zeos C0pub t r - delta t * r.
Proof. unfold Zeos, C0code, C0pub, delta. ring. Qed.

Lemma dZeos_pub_is_derivative (t r : R) : t <> 0 -> is_derive (Zeos C0pub t) r (dZeos_pub t r).
Proof.
  intros Ht. unfold Zeos, dZeos_pub, C0pub, C1, C2, C3.
  auto_derive; [exact I|]. unfold A1, A2, A3, A4, A5, A6, A7, A8, A9, A10, A11.
  replace (r * (r * 1)) with (r ^ 2) by ring. field. exact Ht.
Qed.

Lemma dZeos_code_is_derivative (t r : R) : t <> 0 -> is_derive (Zeos C0code t) r (dZeos_pub t r - delta t).
Proof.
  intros Ht.
  apply (is_derive_ext (fun x => Zeos C0pub t x - delta t * x)).
  - intros x. now rewrite Zeos_code_vs_pub.
  - apply @is_derive_minus; [now apply dZeos_pub_is_derivative|].
    evar_last; [apply is_derive_scal; apply is_derive_id|]. unfold scal, mult, one; simpl. unfold mult; simpl. ring.
Qed.

(* ---- facts over the correlation's validity rectangle, coded coefficients ---- *)
Ltac unfold_eos := unfold Zeos, C0code, C0pub, C1, C2, C3, A1, A2, A3, A4, A5, A6, A7, A8, A9, A10, A11.

Lemma Zcode_lt_5 t r : 105 / 100 <= t <= 3 -> 0 <= r <= 155 / 100 -> Zeos C0code t r < 5.
Proof. intros. unfold_eos. interval with (i_bisect t, i_bisect r, i_depth 20). Qed.

Lemma Zcode_gt_005 t r : 105 / 100 <= t <= 3 -> 0 <= r <= 155 -> 5 / 100 < Zeos C0code t r.
Proof. intros. unfold_eos. interval with (i_bisect t, i_bisect r, i_depth 40). Qed.

Lemma Zpub_lt_5 t r : 105 / 100 <= t <= 3 -> 0 <= r <= 155 / 100 -> Zeos C0pub t r < 5.
Proof. intros. unfold_eos. interval with (i_bisect t, i_bisect r, i_depth 20). Qed.

Lemma Zpub_gt_005 t r : 105 / 100 <= t <= 3 -> 0 <= r <= 155 -> 5 / 100 < Zeos C0pub t r.
Proof. intros. unfold_eos. interval with (i_bisect t, i_bisect r, i_depth 40). Qed.

(* ---- rho * Z(rho) is strictly increasing on the whole bracket, hence the root is unique ---- *)
Definition rhoZ (c0 : R -> R) (t r : R) := r * Zeos c0 t r.
Definition drhoZ_code (t r : R) := Zeos C0code t r + r * (dZeos_pub t r - delta t).
Definition drhoZ_pub (t r : R) := Zeos C0pub t r + r * dZeos_pub t r.

Lemma rhoZ_code_derive (t r : R) : t <> 0 -> is_derive (rhoZ C0code t) r (drhoZ_code t r).
Proof.
  intros Ht. unfold rhoZ, drhoZ_code.
  evar_last.
  - apply (is_derive_mult (fun x => x) (Zeos C0code t) r 1 (dZeos_pub t r - delta t)).
    + apply @is_derive_id.
    + now apply dZeos_code_is_derivative.
    + intros; apply Rmult_comm.
  - unfold plus, mult; simpl. ring.
Qed.

Lemma drhoZ_code_pos t r : 105 / 100 <= t <= 3 -> 0 <= r <= 155 -> 0 < drhoZ_code t r.
Proof.
  intros. unfold drhoZ_code, dZeos_pub, delta. unfold_eos.
  interval with (i_bisect t, i_bisect r, i_depth 40).
Qed.

Lemma rhoZ_code_strict_mono t r1 r2 : 105 / 100 <= t <= 3 -> 0 <= r1 -> r1 < r2 -> r2 <= 155 ->
  rhoZ C0code t r1 < rhoZ C0code t r2.
Proof.
  intros Ht H1 H12 H2.
  assert (Ht0 : t <> 0) by lra.
  destruct (MVT_gen (rhoZ C0code t) r1 r2 (drhoZ_code t)) as [c [Hc E]].
  - intros x _. now apply rhoZ_code_derive.
  - intros x _. apply continuity_pt_filterlim. apply (ex_derive_continuous (rhoZ C0code t)).
    eexists. now apply rhoZ_code_derive.
  - rewrite Rmin_left, Rmax_right in Hc by lra.
    assert (0 < drhoZ_code t c) by (apply drhoZ_code_pos; lra).
    assert (0 < drhoZ_code t c * (r2 - r1)) by (apply Rmult_lt_0_compat; lra).
    lra.
Qed.

(* Z -> 1 as the density -> 0 *)
Lemma Zcode_near_1 t r : 105 / 100 <= t <= 3 -> 0 <= r <= 1 -> Rabs (Zeos C0code t r - 1) <= (12 / 10) * r.
Proof.
  intros Ht Hr.
  replace (Zeos C0code t r - 1) with
    (r * (C0code t + C1 t * r + C2 t * r ^ 4 + C3 t * r * exp (- A11 * r ^ 2) + C3 t * A11 * r ^ 3 * exp (- A11 * r ^ 2)))
    by (unfold Zeos; ring).
  rewrite Rabs_mult, (Rabs_pos_eq r) by lra. rewrite Rmult_comm.
  apply Rmult_le_compat_r; [lra|]. unfold_eos.
  interval with (i_bisect t, i_bisect r, i_depth 20).
Qed.

(* ---- the same facts for the published coefficients ---- *)

Lemma rhoZ_pub_derive (t r : R) : t <> 0 -> is_derive (rhoZ C0pub t) r (drhoZ_pub t r).
Proof.
  intros Ht. unfold rhoZ, drhoZ_pub.
  evar_last.
  - apply (is_derive_mult (fun x => x) (Zeos C0pub t) r 1 (dZeos_pub t r)).
    + apply @is_derive_id.
    + now apply dZeos_pub_is_derivative.
    + intros; apply Rmult_comm.
  - unfold plus, mult; simpl. ring.
Qed.

Lemma drhoZ_pub_pos t r : 105 / 100 <= t <= 3 -> 0 <= r <= 155 -> 0 < drhoZ_pub t r.
Proof.
  intros. unfold drhoZ_pub, dZeos_pub. unfold_eos.
  interval with (i_bisect t, i_bisect r, i_depth 40).
Qed.

Lemma rhoZ_pub_strict_mono t r1 r2 : 105 / 100 <= t <= 3 -> 0 <= r1 -> r1 < r2 -> r2 <= 155 ->
  rhoZ C0pub t r1 < rhoZ C0pub t r2.
Proof.
  intros Ht H1 H12 H2.
  assert (Ht0 : t <> 0) by lra.
  destruct (MVT_gen (rhoZ C0pub t) r1 r2 (drhoZ_pub t)) as [c [Hc E]].
  - intros x _. now apply rhoZ_pub_derive.
  - intros x _. apply continuity_pt_filterlim. apply (ex_derive_continuous (rhoZ C0pub t)).
    eexists. now apply rhoZ_pub_derive.
  - rewrite Rmin_left, Rmax_right in Hc by lra.
    assert (0 < drhoZ_pub t c) by (apply drhoZ_pub_pos; lra).
    assert (0 < drhoZ_pub t c * (r2 - r1)) by (apply Rmult_lt_0_compat; lra).
    lra.
Qed.

(* Z -> 1 as the density -> 0 *)
Lemma Zpub_near_1 t r : 105 / 100 <= t <= 3 -> 0 <= r <= 1 -> Rabs (Zeos C0pub t r - 1) <= (12 / 10) * r.
Proof.
  intros Ht Hr.
  replace (Zeos C0pub t r - 1) with
    (r * (C0pub t + C1 t * r + C2 t * r ^ 4 + C3 t * r * exp (- A11 * r ^ 2) + C3 t * A11 * r ^ 3 * exp (- A11 * r ^ 2)))
    by (unfold Zeos; ring).
  rewrite Rabs_mult, (Rabs_pos_eq r) by lra. rewrite Rmult_comm.
  apply Rmult_le_compat_r; [lra|]. unfold_eos.
  interval with (i_bisect t, i_bisect r, i_depth 20).
Qed.

(* ---- quantitative facts for continuity of Z in pressure (C06) ---- *)
Definition Zcode_slope (t r : R) := dZeos_pub t r - delta t.
Definition Zpub_slope (t r : R) := dZeos_pub t r.
Lemma Zcode_slope_derive t r : t <> 0 -> is_derive (Zeos C0code t) r (Zcode_slope t r).
Proof. apply dZeos_code_is_derivative. Qed.
Lemma Zpub_slope_derive t r : t <> 0 -> is_derive (Zeos C0pub t) r (Zpub_slope t r).
Proof. apply dZeos_pub_is_derivative. Qed.

(* the root of the validity rectangle never has reduced density above 3: rho Z(rho) at 3 exceeds
   the largest right-hand side 0.27 * 30 / 1.05 *)
Lemma rhoZ_code_at_3 t : 105 / 100 <= t <= 3 -> 8 < rhoZ C0code t 3.
Proof. intros. unfold rhoZ. unfold_eos. interval with (i_bisect t, i_depth 20). Qed.
Lemma rhoZ_pub_at_3 t : 105 / 100 <= t <= 3 -> 8 < rhoZ C0pub t 3.
Proof. intros. unfold rhoZ. unfold_eos. interval with (i_bisect t, i_depth 20). Qed.

Definition rhoZ_code_slope_lb := 1 / 2.
Definition rhoZ_pub_slope_lb := 7 / 100.
Lemma rhoZ_code_slope_lb_pos : 0 < rhoZ_code_slope_lb.  Proof. unfold rhoZ_code_slope_lb; lra. Qed.
Lemma rhoZ_pub_slope_lb_pos : 0 < rhoZ_pub_slope_lb.  Proof. unfold rhoZ_pub_slope_lb; lra. Qed.
Lemma drhoZ_code_lb t r : 105 / 100 <= t <= 3 -> 0 <= r <= 3 -> rhoZ_code_slope_lb <= drhoZ_code t r.
Proof.
  intros. unfold rhoZ_code_slope_lb, drhoZ_code, dZeos_pub, delta. unfold_eos.
  interval with (i_bisect t, i_bisect r, i_depth 40).
Qed.
Lemma drhoZ_pub_lb t r : 105 / 100 <= t <= 3 -> 0 <= r <= 3 -> rhoZ_pub_slope_lb <= drhoZ_pub t r.
Proof.
  intros. unfold rhoZ_pub_slope_lb, drhoZ_pub, dZeos_pub. unfold_eos.
  interval with (i_bisect t, i_bisect r, i_depth 40).
Qed.
Lemma Zcode_slope_bound t r : 105 / 100 <= t <= 3 -> 0 <= r <= 3 -> Rabs (Zcode_slope t r) <= 22.
Proof.
  intros. unfold Zcode_slope, dZeos_pub, delta. unfold_eos.
  interval with (i_bisect t, i_bisect r, i_depth 40).
Qed.
Lemma Zpub_slope_bound t r : 105 / 100 <= t <= 3 -> 0 <= r <= 3 -> Rabs (Zpub_slope t r) <= 22.
Proof.
  intros. unfold Zpub_slope, dZeos_pub. unfold_eos.
  interval with (i_bisect t, i_bisect r, i_depth 40).
Qed.
