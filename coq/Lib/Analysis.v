(* Analysis: small helpers on top of Coquelicot used by the property proofs. *)
From Coq Require Import Reals Lra.
From Coquelicot Require Import Coquelicot.
From BBLib Require Import PyPrelude.
Open Scope R_scope.

Lemma locally_between (a b x : R) (P : R -> Prop) :
  a < x < b -> (forall y, a < y < b -> P y) -> locally x P.
Proof.
  intros [Ha Hb] H.
  assert (He : 0 < Rmin (x - a) (b - x)) by (apply Rmin_pos; lra).
  exists (mkposreal _ He). intros y Hy. apply H.
  unfold ball in Hy; simpl in Hy. unfold AbsRing_ball, abs, minus, plus, opp in Hy; simpl in Hy.
  apply Rabs_def2 in Hy.
  pose proof (Rmin_l (x - a) (b - x)). pose proof (Rmin_r (x - a) (b - x)). lra.
Qed.

Lemma locally_gt (a x : R) (P : R -> Prop) :
  a < x -> (forall y, a < y -> P y) -> locally x P.
Proof.
  intros Ha H. apply (locally_between a (x + 1)); [lra|]. intros y Hy. apply H. lra.
Qed.

Lemma locally_lt (b x : R) (P : R -> Prop) :
  x < b -> (forall y, y < b -> P y) -> locally x P.
Proof.
  intros Hb H. apply (locally_between (x - 1) b); [lra|]. intros y Hy. apply H. lra.
Qed.

(* products of exponentials are compared through their exponents *)
Lemma exp_mult_eq a b c d : a + b = c + d -> exp a * exp b = exp c * exp d.
Proof. intros H. rewrite <- !exp_plus. now rewrite H. Qed.

Lemma inv_as_exp x : 0 < x -> / x = exp (- ln x).
Proof. intros H. rewrite exp_Ropp, exp_ln; auto. Qed.

Lemma ln_Rpower x y : ln (Rpower x y) = y * ln x.
Proof. unfold Rpower. apply ln_exp. Qed.

(* derivative of q |-> (u q)^a for a positive base, stated with Rpower *)
Lemma is_derive_Rpower_comp (u : R -> R) (a x du : R) :
  0 < u x -> is_derive u x du ->
  is_derive (fun q => Rpower (u q) a) x (a * Rpower (u x) (a - 1) * du).
Proof.
  intros Hu Hd. unfold Rpower.
  evar_last.
  - apply (is_derive_comp (fun t => exp t) (fun q => a * ln (u q))).
    + apply is_derive_exp.
    + apply is_derive_scal. apply (is_derive_comp ln u); [|exact Hd].
      apply is_derive_ln. exact Hu.
  - unfold scal, mult; simpl. unfold mult; simpl.
    rewrite (inv_as_exp (u x) Hu).
    replace ((a - 1) * ln (u x)) with (a * ln (u x) + - ln (u x)) by ring.
    rewrite exp_plus. ring.
Qed.

(* the same through pypow: valid wherever the base is positive *)
Lemma is_derive_pypow_comp (u : R -> R) (a x du : R) :
  0 < u x -> is_derive u x du ->
  is_derive (fun q => pypow (u q) a) x (a * pypow (u x) (a - 1) * du).
Proof.
  intros Hu Hd.
  rewrite (pypow_pos (u x)) by exact Hu.
  assert (Hc : continuous u x) by (apply (ex_derive_continuous u); eexists; exact Hd).
  apply (is_derive_ext_loc (fun q => Rpower (u q) a)).
  - assert (L : locally x (fun q => 0 < u q)).
    { apply (Hc (fun y => 0 < y)). apply (locally_gt 0); [exact Hu|tauto]. }
    revert L. apply filter_imp. intros q Hq. now rewrite pypow_pos.
  - now apply is_derive_Rpower_comp.
Qed.

(* --- mean-value consequences used for Lipschitz statements --- *)
Lemma mvt_upper (f f' : R -> R) (a b D : R) :
  (forall x, a <= x <= b -> is_derive f x (f' x)) ->
  (forall x, a <= x <= b -> Rabs (f' x) <= D) ->
  forall x y, a <= x <= b -> a <= y <= b -> Rabs (f x - f y) <= D * Rabs (x - y).
Proof.
  intros Hd Hb x y Hx Hy.
  destruct (MVT_gen f y x f') as [c [Hc E]].
  - intros z Hz. apply Hd. unfold Rmin, Rmax in Hz. destruct (Rle_dec y x); lra.
  - intros z Hz. apply continuity_pt_filterlim. apply (ex_derive_continuous f).
    eexists. apply Hd. unfold Rmin, Rmax in Hz. destruct (Rle_dec y x); lra.
  - rewrite E, Rabs_mult. apply Rmult_le_compat_r; [apply Rabs_pos|].
    apply Hb. unfold Rmin, Rmax in Hc. destruct (Rle_dec y x); lra.
Qed.

Lemma mvt_lower (f f' : R -> R) (a b c : R) :
  (forall x, a <= x <= b -> is_derive f x (f' x)) ->
  (forall x, a <= x <= b -> c <= f' x) -> 0 <= c ->
  forall x y, a <= x <= b -> a <= y <= b -> c * Rabs (x - y) <= Rabs (f x - f y).
Proof.
  intros Hd Hb Hc0 x y Hx Hy.
  destruct (MVT_gen f y x f') as [z [Hz E]].
  - intros w Hw. apply Hd. unfold Rmin, Rmax in Hw. destruct (Rle_dec y x); lra.
  - intros w Hw. apply continuity_pt_filterlim. apply (ex_derive_continuous f).
    eexists. apply Hd. unfold Rmin, Rmax in Hw. destruct (Rle_dec y x); lra.
  - rewrite E, Rabs_mult. apply Rmult_le_compat_r; [apply Rabs_pos|].
    assert (c <= f' z) by (apply Hb; unfold Rmin, Rmax in Hz; destruct (Rle_dec y x); lra).
    rewrite Rabs_pos_eq; lra.
Qed.

(* --- continuity across a branch point --- *)
Lemma continuity_pt_glue (f g h : R -> R) (c : R) :
  (forall x, x < c -> h x = f x) -> (forall x, c <= x -> h x = g x) ->
  continuity_pt f c -> continuity_pt g c -> f c = g c -> continuity_pt h c.
Proof.
  intros Hf Hg Cf Cg E eps Heps.
  destruct (Cf eps Heps) as [a1 [Ha1 H1]]. destruct (Cg eps Heps) as [a2 [Ha2 H2]].
  exists (Rmin a1 a2). split; [apply Rmin_pos; assumption|].
  intros x [Hx Hd]. simpl in *. unfold R_dist in *.
  rewrite (Hg c (Rle_refl c)).
  destruct (Rlt_le_dec x c) as [Hlt|Hge].
  - rewrite (Hf x Hlt), <- E. apply H1. split; [exact Hx|].
    apply Rlt_le_trans with (Rmin a1 a2); [exact Hd|apply Rmin_l].
  - rewrite (Hg x Hge). apply H2. split; [exact Hx|].
    apply Rlt_le_trans with (Rmin a1 a2); [exact Hd|apply Rmin_r].
Qed.

Lemma ex_derive_Rpower_base (a u : R) : 0 < u -> ex_derive (fun x => Rpower x a) u.
Proof.
  intros Hu. eexists. apply (is_derive_Rpower_comp (fun x => x) a u 1 Hu). apply @is_derive_id.
Qed.
Lemma ex_derive_Rpower_exp (c v : R) : ex_derive (fun x => Rpower c x) v.
Proof. unfold Rpower. auto_derive. exact I. Qed.

Lemma continuity_pt_of_ex_derive (f : R -> R) (x : R) : ex_derive f x -> continuity_pt f x.
Proof. intros H. apply continuity_pt_filterlim. now apply (ex_derive_continuous f). Qed.
