(* Truncation: Taylor-type defect bounds for the two difference quotients of the scheme (C02, consistency).
   Elementary route: a function vanishing at 0 whose derivative is bounded by C s^k is bounded by C s^(k+1)/(k+1)
   (mean value theorem applied to C s^(k+1)/(k+1) -+ g); applied four times to the symmetric second difference and
   twice to the backward difference. *)
From Coq Require Import Reals Lra Lia.
From Coquelicot Require Import Coquelicot.
Open Scope R_scope.

Lemma nondecr_of_deriv_nonneg (phi phi' : R -> R) (a : R) :
  (forall s, 0 <= s <= a -> is_derive phi s (phi' s)) -> (forall s, 0 <= s <= a -> 0 <= phi' s) ->
  forall s, 0 <= s <= a -> phi 0 <= phi s.
Proof.
  intros Hd Hp s Hs. destruct (Req_dec s 0) as [->|Hne]; [lra|].
  destruct (MVT_gen phi 0 s phi') as [c [Hc E]].
  - intros x Hx. apply Hd. unfold Rmin, Rmax in Hx. destruct (Rle_dec 0 s); lra.
  - intros x Hx. apply continuity_pt_filterlim. apply (ex_derive_continuous phi). eexists. apply Hd.
    unfold Rmin, Rmax in Hx. destruct (Rle_dec 0 s); lra.
  - assert (0 <= phi' c) by (apply Hp; unfold Rmin, Rmax in Hc; destruct (Rle_dec 0 s); lra).
    assert (0 <= phi' c * (s - 0)) by (apply Rmult_le_pos; lra). lra.
Qed.

Lemma is_derive_powdiv (C : R) (k : nat) (x : R) :
  is_derive (fun x => C * x ^ (S k) / INR (S k)) x (C * x ^ k).
Proof.
  assert (Hk : INR (S k) <> 0) by (apply not_0_INR; lia).
  auto_derive. exact I.
  change (match k with 0%nat => 1 | S _ => INR k + 1 end) with (INR (S k)).
  field. exact Hk.
Qed.

Lemma integrate_bound (g g' : R -> R) (C a : R) (k : nat) :
  (forall s, 0 <= s <= a -> is_derive g s (g' s)) -> g 0 = 0 ->
  (forall s, 0 <= s <= a -> Rabs (g' s) <= C * s ^ k) ->
  forall s, 0 <= s <= a -> Rabs (g s) <= C * s ^ (S k) / INR (S k).
Proof.
  intros Hd H0 Hb s Hs.
  assert (Z0 : C * 0 ^ S k / INR (S k) = 0) by (simpl; unfold Rdiv; ring).
  apply Rabs_le. split.
  - pose proof (nondecr_of_deriv_nonneg (fun x => C * x ^ (S k) / INR (S k) + g x) (fun x => C * x ^ k + g' x) a) as M.
    assert (M1 : forall x, 0 <= x <= a -> is_derive (fun x => C * x ^ (S k) / INR (S k) + g x) x (C * x ^ k + g' x)).
    { intros x Hx. apply (is_derive_plus (fun x => C * x ^ (S k) / INR (S k)) g); [apply is_derive_powdiv|now apply Hd]. }
    assert (M2 : forall x, 0 <= x <= a -> 0 <= C * x ^ k + g' x).
    { intros x Hx. specialize (Hb x Hx). apply Rabs_le_between in Hb. lra. }
    specialize (M M1 M2 s Hs). cbv beta in M. rewrite H0, Z0 in M. lra.
  - pose proof (nondecr_of_deriv_nonneg (fun x => C * x ^ (S k) / INR (S k) - g x) (fun x => C * x ^ k - g' x) a) as M.
    assert (M1 : forall x, 0 <= x <= a -> is_derive (fun x => C * x ^ (S k) / INR (S k) - g x) x (C * x ^ k - g' x)).
    { intros x Hx. apply (is_derive_minus (fun x => C * x ^ (S k) / INR (S k)) g); [apply is_derive_powdiv|now apply Hd]. }
    assert (M2 : forall x, 0 <= x <= a -> 0 <= C * x ^ k - g' x).
    { intros x Hx. specialize (Hb x Hx). apply Rabs_le_between in Hb. lra. }
    specialize (M M1 M2 s Hs). cbv beta in M. rewrite H0, Z0 in M. lra.
Qed.

(* ---- backward difference in time: |g(t1) - g(t1 - s) - s g'(t1)| <= M2 s^2 / 2 ---- *)
Section Backward.
  Variables (g g1 g2 : R -> R) (t1 dt M2 : R).
  Hypothesis Hdt : 0 <= dt.
  Hypothesis D1 : forall t, t1 - dt <= t <= t1 -> is_derive g t (g1 t).
  Hypothesis D2 : forall t, t1 - dt <= t <= t1 -> is_derive g1 t (g2 t).
  Hypothesis B2 : forall t, t1 - dt <= t <= t1 -> Rabs (g2 t) <= M2.

  Let d (s : R) := g t1 - g (t1 - s) - s * g1 t1.
  Let d1 (s : R) := g1 (t1 - s) - g1 t1.
  Let d2 (s : R) := - g2 (t1 - s).

  Lemma d_derive s : 0 <= s <= dt -> is_derive d s (d1 s).
  Proof.
    intros Hs. unfold d, d1. evar_last.
    - apply (is_derive_minus (fun s => g t1 - g (t1 - s)) (fun s => s * g1 t1)).
      + apply (is_derive_minus (fun _ => g t1) (fun s => g (t1 - s))).
        * apply @is_derive_const.
        * apply (is_derive_comp g (fun s => t1 - s)); [apply D1; lra|]. auto_derive; [exact I|reflexivity].
      + auto_derive; [exact I|reflexivity].
    - unfold zero, minus, plus, opp, scal, mult; simpl. unfold mult; simpl. ring.
  Qed.
  Lemma d1_derive s : 0 <= s <= dt -> is_derive d1 s (d2 s).
  Proof.
    intros Hs. unfold d1, d2. evar_last.
    - apply (is_derive_minus (fun s => g1 (t1 - s)) (fun _ => g1 t1)).
      + apply (is_derive_comp g1 (fun s => t1 - s)); [apply D2; lra|]. auto_derive; [exact I|reflexivity].
      + apply @is_derive_const.
    - unfold zero, minus, plus, opp, scal, mult; simpl. unfold mult; simpl. ring.
  Qed.

  Theorem backward_difference_defect : Rabs (g t1 - g (t1 - dt) - dt * g1 t1) <= M2 * dt ^ 2 / 2.
  Proof.
    assert (E1 : forall s, 0 <= s <= dt -> Rabs (d1 s) <= M2 * s ^ 1 / INR 1).
    { apply (integrate_bound d1 d2 M2 dt 0).
      - exact d1_derive.
      - unfold d1. replace (t1 - 0) with t1 by ring. ring.
      - intros s Hs. unfold d2. rewrite Rabs_Ropp. simpl. rewrite Rmult_1_r. apply B2. lra. }
    assert (E0 : Rabs (d dt) <= M2 * dt ^ 2 / INR 2).
    { apply (integrate_bound d d1 M2 dt 1 d_derive).
      - unfold d. replace (t1 - 0) with t1 by ring. ring.
      - intros s Hs. specialize (E1 s Hs). simpl in E1. simpl. lra.
      - lra. }
    unfold d in E0. simpl INR in E0. replace (1 + 1) with 2 in E0 by ring. exact E0.
  Qed.
End Backward.

(* ---- symmetric second difference: |f(x+h) - 2 f(x) + f(x-h) - h^2 f''(x)| <= M4 h^4 / 12 ---- *)
Section Second.
  Variables (f f1 f2 f3 f4 : R -> R) (x h M4 : R).
  Hypothesis Hh : 0 <= h.
  Hypothesis D1 : forall y, x - h <= y <= x + h -> is_derive f y (f1 y).
  Hypothesis D2 : forall y, x - h <= y <= x + h -> is_derive f1 y (f2 y).
  Hypothesis D3 : forall y, x - h <= y <= x + h -> is_derive f2 y (f3 y).
  Hypothesis D4 : forall y, x - h <= y <= x + h -> is_derive f3 y (f4 y).
  Hypothesis B4 : forall y, x - h <= y <= x + h -> Rabs (f4 y) <= M4.

  Let e0 (s : R) := f (x + s) + f (x - s) - 2 * f x - s ^ 2 * f2 x.
  Let e1 (s : R) := f1 (x + s) - f1 (x - s) - 2 * s * f2 x.
  Let e2 (s : R) := f2 (x + s) + f2 (x - s) - 2 * f2 x.
  Let e3 (s : R) := f3 (x + s) - f3 (x - s).
  Let e4 (s : R) := f4 (x + s) + f4 (x - s).

  Lemma shift_derive (u u' : R -> R) s : 0 <= s <= h ->
    (forall y, x - h <= y <= x + h -> is_derive u y (u' y)) ->
    is_derive (fun s => u (x + s)) s (u' (x + s)) /\ is_derive (fun s => u (x - s)) s (- u' (x - s)).
  Proof.
    intros Hs Hu. split.
    - evar_last. apply (is_derive_comp u (fun s => x + s)); [apply Hu; lra|]. auto_derive; [exact I|reflexivity].
      unfold scal, mult; simpl. unfold mult; simpl. ring.
    - evar_last. apply (is_derive_comp u (fun s => x - s)); [apply Hu; lra|]. auto_derive; [exact I|reflexivity].
      unfold scal, mult; simpl. unfold mult; simpl. ring.
  Qed.

  Lemma e0_derive s : 0 <= s <= h -> is_derive e0 s (e1 s).
  Proof.
    intros Hs. destruct (shift_derive f f1 s Hs D1) as [A B]. unfold e0, e1. evar_last.
    - apply (is_derive_minus (fun s => f (x + s) + f (x - s) - 2 * f x) (fun s => s ^ 2 * f2 x)).
      + apply (is_derive_minus (fun s => f (x + s) + f (x - s)) (fun _ => 2 * f x)).
        * apply (is_derive_plus (fun s => f (x + s)) (fun s => f (x - s))); [exact A|exact B].
        * apply @is_derive_const.
      + auto_derive; [exact I|reflexivity].
    - unfold zero, minus, plus, opp; simpl. ring.
  Qed.
  Lemma e1_derive s : 0 <= s <= h -> is_derive e1 s (e2 s).
  Proof.
    intros Hs. destruct (shift_derive f1 f2 s Hs D2) as [A B]. unfold e1, e2. evar_last.
    - apply (is_derive_minus (fun s => f1 (x + s) - f1 (x - s)) (fun s => 2 * s * f2 x)).
      + apply (is_derive_minus (fun s => f1 (x + s)) (fun s => f1 (x - s))); [exact A|exact B].
      + auto_derive; [exact I|reflexivity].
    - unfold zero, minus, plus, opp; simpl. ring.
  Qed.
  Lemma e2_derive s : 0 <= s <= h -> is_derive e2 s (e3 s).
  Proof.
    intros Hs. destruct (shift_derive f2 f3 s Hs D3) as [A B]. unfold e2, e3. evar_last.
    - apply (is_derive_minus (fun s => f2 (x + s) + f2 (x - s)) (fun _ => 2 * f2 x)).
      + apply (is_derive_plus (fun s => f2 (x + s)) (fun s => f2 (x - s))); [exact A|exact B].
      + apply @is_derive_const.
    - unfold zero, minus, plus, opp; simpl. ring.
  Qed.
  Lemma e3_derive s : 0 <= s <= h -> is_derive e3 s (e4 s).
  Proof.
    intros Hs. destruct (shift_derive f3 f4 s Hs D4) as [A B]. unfold e3, e4. evar_last.
    - apply (is_derive_minus (fun s => f3 (x + s)) (fun s => f3 (x - s))); [exact A|exact B].
    - unfold minus, plus, opp; simpl. ring.
  Qed.

  Theorem second_difference_defect :
    Rabs (f (x + h) - 2 * f x + f (x - h) - h ^ 2 * f2 x) <= M4 * h ^ 4 / 12.
  Proof.
    set (C := 2 * M4).
    assert (Z : forall (u : R -> R), u (x + 0) = u x /\ u (x - 0) = u x) by (intros u; split; f_equal; ring).
    assert (E3 : forall s, 0 <= s <= h -> Rabs (e3 s) <= C * s ^ 1 / INR 1).
    { apply (integrate_bound e3 e4 C h 0 e3_derive).
      - unfold e3. destruct (Z f3) as [-> ->]. ring.
      - intros s Hs. unfold e4, C. simpl. rewrite Rmult_1_r.
        apply Rle_trans with (Rabs (f4 (x + s)) + Rabs (f4 (x - s))); [apply Rabs_triang|].
        pose proof (B4 (x + s) ltac:(lra)). pose proof (B4 (x - s) ltac:(lra)). lra. }
    assert (E2 : forall s, 0 <= s <= h -> Rabs (e2 s) <= C / 2 * s ^ 2).
    { intros s Hs. pose proof (integrate_bound e2 e3 C h 1 e2_derive) as I2.
      assert (I2a : e2 0 = 0) by (unfold e2; destruct (Z f2) as [-> ->]; ring).
      assert (I2b : forall s, 0 <= s <= h -> Rabs (e3 s) <= C * s ^ 1) by (intros r Hr; specialize (E3 r Hr); simpl in E3; simpl; lra).
      specialize (I2 I2a I2b s Hs). simpl INR in I2. simpl in I2. simpl. lra. }
    assert (E1 : forall s, 0 <= s <= h -> Rabs (e1 s) <= C / 6 * s ^ 3).
    { intros s Hs. pose proof (integrate_bound e1 e2 (C / 2) h 2 e1_derive) as I1.
      assert (I1a : e1 0 = 0) by (unfold e1; destruct (Z f1) as [-> ->]; ring).
      specialize (I1 I1a E2 s Hs). simpl INR in I1. simpl in I1. simpl. lra. }
    assert (E0 : Rabs (e0 h) <= C / 24 * h ^ 4).
    { pose proof (integrate_bound e0 e1 (C / 6) h 3 e0_derive) as I0.
      assert (I0a : e0 0 = 0) by (unfold e0; destruct (Z f) as [-> ->]; ring).
      specialize (I0 I0a E1 h ltac:(lra)). simpl INR in I0. simpl in I0. simpl. lra. }
    unfold e0, C in E0.
    replace (f (x + h) - 2 * f x + f (x - h) - h ^ 2 * f2 x) with (f (x + h) + f (x - h) - 2 * f x - h ^ 2 * f2 x) by ring.
    lra.
  Qed.
End Second.
