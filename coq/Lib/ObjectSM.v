(* ObjectSM (C10): the bookkeeping of a reservoir object -- which attributes each public
   method reads and writes -- as a state machine over *uninterpreted* numerics, so that the
   theorems hold for all call histories of any length, whatever simulate / recovery compute. *)
From Coq Require Import List Arith Lia.
Import ListNotations.

Section SM.
  Variables Grid Sched Field Rec Curve : Type.
  Variable sim : Grid -> Field.                 (* simulate(time) with the constructor's p_frac *)
  Variable simS : Grid -> Sched -> Field.       (* simulate(time, pressure_fracface=schedule) *)
  Variable rf rfd : Grid -> Field -> Rec.       (* recovery_factor(), recovery_factor(density=True) *)
  Variable interp : Grid -> Rec -> Curve.       (* recovery_factor_interpolator() *)

  (* SimBad g: a simulate call that raises before completing (frac-face schedule of the wrong length, pressure outside the table) *)
  Inductive op := Sim (g : Grid) | SimS (g : Grid) (s : Sched) | RF | RFd | Interp | SimBad (g : Grid).
  Inductive out := ONone | ORec (r : Rec) | OCurve (c : Curve) | OErr | ORej.

  (* the mutable attributes: time, pseudopressure, cached recovery *)
  Record state := { st_time : option Grid; st_field : option Field; st_rec : option Rec }.
  Definition fresh := {| st_time := None; st_field := None; st_rec := None |}.

  Definition step (s : state) (o : op) : state * out :=
    match o with
    | Sim g => ({| st_time := Some g; st_field := Some (sim g); st_rec := None |}, ONone)
    | SimS g sc => ({| st_time := Some g; st_field := Some (simS g sc); st_rec := None |}, ONone)
    | RF =>
        match st_time s, st_field s with
        | Some t, Some f => let r := rf t f in
                            ({| st_time := Some t; st_field := Some f; st_rec := Some r |}, ORec r)
        | _, _ => (s, OErr)
        end
    | RFd =>
        match st_time s, st_field s with
        | Some t, Some f => let r := rfd t f in
                            ({| st_time := Some t; st_field := Some f; st_rec := Some r |}, ORec r)
        | _, _ => (s, OErr)
        end
    | Interp =>
        match st_time s, st_field s with
        | Some t, Some f =>
            match st_rec s with
            | Some r => (s, OCurve (interp t r))
            | None => let r := rf t f in
                      ({| st_time := Some t; st_field := Some f; st_rec := Some r |}, OCurve (interp t r))
            end
        | _, _ => (s, OErr)
        end
    | SimBad _ => (s, ORej)          (* a call that raised leaves the object as it was *)
    end.

  Fixpoint run (s : state) (ops : list op) : state * list out :=
    match ops with
    | [] => (s, [])
    | o :: rest => let '(s1, y) := step s o in let '(s2, ys) := run s1 rest in (s2, y :: ys)
    end.

  Definition is_sim (o : op) := match o with Sim _ | SimS _ _ => true | _ => false end.

  (* a simulation forgets everything that came before it *)
  Lemma sim_forgets s o : is_sim o = true -> step s o = step fresh o.
  Proof. destruct o; simpl; intros H; try discriminate; reflexivity. Qed.

  Lemma run_app s a b :
    run s (a ++ b) = let '(s1, ya) := run s a in let '(s2, yb) := run s1 b in (s2, ya ++ yb).
  Proof.
    revert s. induction a as [|o a IH]; intros s; simpl.
    - destruct (run s b); reflexivity.
    - destruct (step s o) as [s1 y]. rewrite IH. destruct (run s1 a) as [s2 ya].
      destruct (run s2 b) as [s3 yb]. reflexivity.
  Qed.

  (* C10: after any history, the state and every later output are those of a fresh object on
     which only the latest simulation and the calls after it were executed *)
  Theorem no_stale_state pre o post : is_sim o = true ->
    let '(s_pre, _) := run fresh pre in
    run s_pre (o :: post) = run fresh (o :: post).
  Proof.
    intros H. destruct (run fresh pre) as [s_pre ys]. simpl. now rewrite (sim_forgets s_pre o H).
  Qed.

  Lemma run_length ops : forall s, length (snd (run s ops)) = length ops.
  Proof.
    induction ops as [|o ops IH]; intros s; simpl; [reflexivity|].
    destruct (step s o) as [s1 y]. specialize (IH s1). destruct (run s1 ops) as [s2 ys]. simpl in *. now rewrite IH.
  Qed.

  Corollary history_suffix pre o post : is_sim o = true ->
    fst (run fresh (pre ++ o :: post)) = fst (run fresh (o :: post)) /\
    skipn (length pre) (snd (run fresh (pre ++ o :: post))) = snd (run fresh (o :: post)).
  Proof.
    intros H. pose proof (no_stale_state pre o post H) as E. rewrite run_app.
    destruct (run fresh pre) as [s_pre ya] eqn:Ep. rewrite E.
    destruct (run fresh (o :: post)) as [s2 yb]. simpl. split; [reflexivity|].
    assert (L : length ya = length pre).
    { pose proof (run_length pre fresh) as Lp. rewrite Ep in Lp. exact Lp. }
    rewrite <- L. clear. induction ya; simpl; auto.
  Qed.

  (* repeating a call with the same arguments returns the same result and state *)
  Theorem repeat_same s o :
    let '(s1, y1) := step s o in let '(s2, y2) := step s1 o in y2 = y1 /\ (is_sim o = true -> s2 = s1).
  Proof.
    destruct s as [t f r]. destruct o; simpl.
    - split; [reflexivity|intros _; reflexivity].
    - split; [reflexivity|intros _; reflexivity].
    - destruct t, f; simpl; (split; [reflexivity|discriminate]).
    - destruct t, f; simpl; (split; [reflexivity|discriminate]).
    - destruct t, f; simpl; try (split; [reflexivity|discriminate]).
      destruct r; simpl; (split; [reflexivity|discriminate]).
    - split; [reflexivity|discriminate].
  Qed.

  (* rejected calls are invisible: dropping them from a history changes neither the final state nor any other output *)
  Definition is_bad (o : op) := match o with SimBad _ => true | _ => false end.
  Definition not_rej (y : out) := match y with ORej => false | _ => true end.
  Lemma step_never_rejects s o : is_bad o = false -> not_rej (snd (step s o)) = true.
  Proof.
    destruct o; cbn [is_bad]; intros H; try discriminate; cbn [step]; try reflexivity.
    all: destruct (st_time s); destruct (st_field s); try reflexivity; destruct (st_rec s); reflexivity.
  Qed.
  Theorem rejected_calls_are_invisible ops : forall s,
    fst (run s ops) = fst (run s (filter (fun o => negb (is_bad o)) ops)) /\
    filter not_rej (snd (run s ops)) = snd (run s (filter (fun o => negb (is_bad o)) ops)).
  Proof.
    induction ops as [|o ops IH]; intros s; [split; reflexivity|].
    destruct (is_bad o) eqn:B.
    - destruct o; try discriminate. cbn [filter is_bad negb run step].
      specialize (IH s). destruct (run s ops) as [s2 ys]. cbn [fst snd filter not_rej] in *. exact IH.
    - cbn [filter]. rewrite B. cbn [negb run].
      pose proof (step_never_rejects s o B) as NR.
      destruct (step s o) as [s1 y]. specialize (IH s1).
      destruct (run s1 ops) as [s2 ys]. destruct (run s1 (filter (fun o0 => negb (is_bad o0)) ops)) as [s3 zs].
      cbn [fst snd] in *. destruct IH as [E1 E2]. split; [exact E1|].
      cbn [filter]. rewrite NR. now rewrite E2.
  Qed.
End SM.

(* ---- symbolic instance run by the correspondence check: every abstract value is the list of
   natural numbers that names how it was computed, so the harness can recompute it on fresh
   objects and compare ---- *)
Definition sym_sim (g : nat) : list nat := [g; 0].
Definition sym_simS (g s : nat) : list nat := [g; S s].
Definition sym_rf (t : nat) (f : list nat) : list nat := 0 :: t :: f.
Definition sym_rfd (t : nat) (f : list nat) : list nat := 1 :: t :: f.
Definition sym_interp (t : nat) (r : list nat) : list nat := t :: r.
Definition sym_out (o : out (list nat) (list nat)) : list nat :=
  match o with ONone _ _ => [0] | ORec _ _ r => 1 :: r | OCurve _ _ c => 2 :: c | OErr _ _ => [9] | ORej _ _ => [8] end.
(* operation codes: [0; g] simulate(grid g); [1; g; s] simulate(grid g, schedule s); [2] rf; [3] rfd; [4] interp;
   [5; g] simulate(grid g, a schedule of the wrong length): raises *)
Definition sym_op (c : list nat) : op nat nat :=
  match c with
  | [0; g] => Sim _ _ g
  | [1; g; s] => SimS _ _ g s
  | [2] => RF _ _
  | [3] => RFd _ _
  | [5; g] => SimBad _ _ g
  | _ => Interp _ _
  end.
Definition sym_state (s : state nat (list nat) (list nat)) : list (list nat) :=
  [match st_time _ _ _ s with Some t => [t] | None => [] end;
   match st_field _ _ _ s with Some f => f | None => [] end;
   match st_rec _ _ _ s with Some r => r | None => [] end].
Definition sym_run (h : list (list nat)) : list (list nat) :=
  let '(s, ys) := run nat nat (list nat) (list nat) (list nat) sym_sim sym_simS sym_rf sym_rfd sym_interp
                      (fresh _ _ _) (map sym_op h) in
  map sym_out ys ++ sym_state s.
