(* Consistency (C02): the exact solution of u_t = a u_xx sampled on the grid satisfies an interior row of the implicit
   step up to a defect of size  M_tt dt^2 / 2 + a dt M_xxxx h^2 / 12  (Truncation), and any reference field that
   satisfies the steps up to defects T_k stays within  E_0 + sum_k T_k  of the computed field (max-norm stability,
   ConvThms): consistency + stability => convergence, first order in dt and second order in h away from the boundary
   rows, whose defects enter as hypotheses. *)
From Coq Require Import Reals Lra Lia.
From Coquelicot Require Import Coquelicot.
From BBLib Require Import MinPrinciple ConvThms Truncation.
Open Scope R_scope.

Section InteriorRow.
  Variable u : R -> R -> R.                       (* u x t *)
  Variables ut utt : R -> R.                      (* time derivatives at the node *)
  Variables u1 u2 u3 u4 : R -> R.                 (* space derivatives at the new time level *)
  Variables xj h t1 dt a M2 M4 : R.
  Hypothesis Hh : 0 < h.
  Hypothesis Hdt : 0 <= dt.
  Hypothesis Ha : 0 <= a.
  Hypothesis T1 : forall t, t1 - dt <= t <= t1 -> is_derive (u xj) t (ut t).
  Hypothesis T2 : forall t, t1 - dt <= t <= t1 -> is_derive ut t (utt t).
  Hypothesis TB : forall t, t1 - dt <= t <= t1 -> Rabs (utt t) <= M2.
  Hypothesis X1 : forall y, xj - h <= y <= xj + h -> is_derive (fun y => u y t1) y (u1 y).
  Hypothesis X2 : forall y, xj - h <= y <= xj + h -> is_derive u1 y (u2 y).
  Hypothesis X3 : forall y, xj - h <= y <= xj + h -> is_derive u2 y (u3 y).
  Hypothesis X4 : forall y, xj - h <= y <= xj + h -> is_derive u3 y (u4 y).
  Hypothesis XB : forall y, xj - h <= y <= xj + h -> Rabs (u4 y) <= M4.
  Hypothesis PDE : ut t1 = a * u2 xj.

  Theorem interior_row_defect :
    let K := a * dt / h ^ 2 in
    Rabs ((u xj t1 - K * (u (xj - h) t1 - 2 * u xj t1 + u (xj + h) t1)) - u xj (t1 - dt))
    <= M2 * dt ^ 2 / 2 + a * dt * (M4 * h ^ 2 / 12).
  Proof.
    cbv zeta.
    pose proof (backward_difference_defect (u xj) ut utt t1 dt M2 Hdt T1 T2 TB) as Ht.
    pose proof (second_difference_defect (fun y => u y t1) u1 u2 u3 u4 xj h M4 (Rlt_le _ _ Hh) X1 X2 X3 X4 XB) as Hx.
    cbv beta in Hx.
    set (dT := u xj t1 - u xj (t1 - dt) - dt * ut t1) in *.
    set (dX := u (xj + h) t1 - 2 * u xj t1 + u (xj - h) t1 - h ^ 2 * u2 xj) in *.
    replace (u xj t1 - a * dt / h ^ 2 * (u (xj - h) t1 - 2 * u xj t1 + u (xj + h) t1) - u xj (t1 - dt))
      with (dT - (a * dt / h ^ 2) * dX).
    2:{ unfold dT, dX. rewrite PDE. field. lra. }
    apply Rle_trans with (Rabs dT + Rabs ((a * dt / h ^ 2) * dX)).
    { replace (dT - a * dt / h ^ 2 * dX) with (dT + - (a * dt / h ^ 2 * dX)) by ring.
      eapply Rle_trans; [apply Rabs_triang|]. rewrite Rabs_Ropp. lra. }
    rewrite Rabs_mult.
    assert (HK : 0 <= a * dt / h ^ 2).
    { apply Rmult_le_pos; [apply Rmult_le_pos; assumption|]. left. apply Rinv_0_lt_compat. apply pow_lt. exact Hh. }
    rewrite (Rabs_pos_eq _ HK).
    assert (a * dt / h ^ 2 * Rabs dX <= a * dt / h ^ 2 * (M4 * h ^ 4 / 12)) by (apply Rmult_le_compat_l; assumption).
    replace (a * dt * (M4 * h ^ 2 / 12)) with (a * dt / h ^ 2 * (M4 * h ^ 4 / 12)) by (field; lra).
    lra.
  Qed.
End InteriorRow.

(* ---- accumulation over the run ---- *)
Fixpoint tsum (T : nat -> R) (n : nat) : R := match n with O => 0 | S m => tsum T m + T (S m) end.

Theorem accumulated_error (n : nat) (K : nat -> nat -> R) (U W tau : nat -> nat -> R) (g : nat -> R) (T : nat -> R) E0 :
  (1 <= n)%nat ->
  (forall k j, (1 <= j <= n)%nat -> 0 <= K k j) ->
  (* level k+1 of the computed field solves the step with data level k; the reference does so up to tau *)
  (forall k, Sys n (K (S k)) (U k) (U (S k)) (g (S k))) ->
  (forall k, Sys n (K (S k)) (fun j => W k j + tau (S k) j) (W (S k)) (g (S k))) ->
  (forall k j, (1 <= j <= n)%nat -> Rabs (tau (S k) j) <= T (S k)) ->
  (forall j, (1 <= j <= n)%nat -> Rabs (U 0%nat j - W 0%nat j) <= E0) ->
  forall k j, (1 <= j <= n)%nat -> Rabs (U k j - W k j) <= E0 + tsum T k.
Proof.
  intros Hn HK SU SW HT H0. induction k as [|k IH]; intros j Hj.
  - simpl. rewrite Rplus_0_r. now apply H0.
  - simpl tsum. rewrite <- Rplus_assoc.
    apply (error_propagation n (K (S k)) (U k) (W k) (U (S k)) (W (S k)) (g (S k)) (tau (S k)) (E0 + tsum T k) Hn).
    + intros i Hi. now apply HK.
    + apply SU.
    + apply SW.
    + exact IH.
    + intros i Hi. now apply HT.
    + lia.
Qed.
