(* MinPrinciple: discrete minimum principle for tridiagonal Z-matrix systems with positive
   diagonal excess.  Nodes 0..N; a j, c j >= 0 couple node j to its left/right neighbour; a
   row may be closed at either end by a = 0 / c = 0; s j > 0 is the diagonal excess. *)
From Coq Require Import Reals Lra Lia Arith.
Open Scope R_scope.

Lemma argmin_exists (W : nat -> R) (N : nat) :
  exists j, (j <= N)%nat /\ forall i, (i <= N)%nat -> W j <= W i.
Proof.
  induction N as [|N [j [Hj Hmin]]].
  - exists 0%nat. split; [lia|]. intros i Hi. replace i with 0%nat by lia. lra.
  - destruct (Rle_dec (W j) (W (S N))) as [H|H].
    + exists j. split; [lia|]. intros i Hi.
      destruct (Nat.eq_dec i (S N)) as [->|Hne]; [exact H| apply Hmin; lia].
    + exists (S N). split; [lia|]. intros i Hi.
      destruct (Nat.eq_dec i (S N)) as [->|Hne]; [lra|].
      assert (W j <= W i) by (apply Hmin; lia). lra.
Qed.

Lemma gen_min_principle (N : nat) (s a c W r : nat -> R) :
  (forall j, (j <= N)%nat -> 0 < s j /\ 0 <= a j /\ 0 <= c j) ->
  a 0%nat = 0 -> c N = 0 ->
  (forall j, (j <= N)%nat ->
     W j * (s j + a j + c j) - a j * W (j - 1)%nat - c j * W (j + 1)%nat = r j) ->
  (forall j, (j <= N)%nat -> 0 <= r j) ->
  forall j, (j <= N)%nat -> 0 <= W j.
Proof.
  intros Hac Ha0 HcN Hrow Hr.
  destruct (argmin_exists W N) as [m [Hm Hmin]].
  assert (Hm0 : 0 <= W m).
  { destruct (Rle_dec 0 (W m)) as [H|H]; [exact H|exfalso].
    apply Rnot_le_lt in H.
    pose proof (Hrow m Hm) as E. pose proof (Hr m Hm) as R0.
    destruct (Hac m Hm) as [Hsm [Ham Hcm]].
    assert (L : a m * W (m - 1)%nat >= a m * W m).
    { destruct (Nat.eq_dec m 0) as [->|Hne]; [rewrite Ha0; lra|].
      apply Rle_ge, Rmult_le_compat_l; [exact Ham| apply Hmin; lia]. }
    assert (Rr : c m * W (m + 1)%nat >= c m * W m).
    { destruct (Nat.eq_dec m N) as [->|Hne]; [rewrite HcN; lra|].
      apply Rle_ge, Rmult_le_compat_l; [exact Hcm| apply Hmin; lia]. }
    assert (0 > W m * s m) by nra. nra. }
  intros j Hj. specialize (Hmin j Hj). lra.
Qed.

(* ---- one implicit step in ghost-node form ----
   U 0 is the frac-face (Dirichlet) value g, U 1..U n the unknowns, U (n+1) = U n mirrors
   the no-flow boundary.  Row j:  U j - K j (U (j-1) - 2 U j + U (j+1)) = B j. *)
Section Step.
  Variable n : nat.
  Hypothesis n_pos : (1 <= n)%nat.
  Variables K B U : nat -> R.
  Variable g : R.
  Definition Row j := U j - K j * (U (j-1)%nat - 2 * U j + U (j+1)%nat) = B j.
  Definition Sys := U 0%nat = g /\ U (S n) = U n /\ forall j, (1 <= j <= n)%nat -> Row j.
  Hypothesis HK : forall j, (1 <= j <= n)%nat -> 0 <= K j.
  Hypothesis HS : Sys.

  Lemma step_lower m : m <= g -> (forall j, (1 <= j <= n)%nat -> m <= B j) ->
    forall j, (j <= S n)%nat -> m <= U j.
  Proof.
    intros Hg HB. destruct HS as [H0 [Hn Hrow]].
    set (W := fun j => U j - m).
    set (a := fun j => if Nat.eqb j 0 then 0 else K j).
    set (c := fun j => if Nat.eqb j 0 then 0 else if Nat.eqb j n then 0 else K j).
    set (r := fun j => if Nat.eqb j 0 then g - m else B j - m).
    assert (HW : forall j, (j <= n)%nat -> 0 <= W j).
    { apply (gen_min_principle n (fun _ => 1) a c W r).
      - intros j Hj. unfold a, c. split; [lra|].
        destruct (Nat.eqb_spec j 0); [lra|]. specialize (HK j ltac:(lia)).
        destruct (Nat.eqb j n); lra.
      - reflexivity.
      - unfold c. rewrite Nat.eqb_refl. destruct (Nat.eqb n 0); reflexivity.
      - intros j Hj. unfold W, a, c, r.
        destruct (Nat.eqb_spec j 0) as [->|Hj0]; [rewrite H0; lra|].
        pose proof (Hrow j ltac:(lia)) as E. unfold Row in E.
        destruct (Nat.eqb_spec j n) as [->|Hjn].
        + replace (n+1)%nat with (S n) in E by lia. rewrite Hn in E. lra.
        + lra.
      - intros j Hj. unfold r. destruct (Nat.eqb_spec j 0); [lra|].
        specialize (HB j ltac:(lia)). lra. }
    intros j Hj. destruct (Nat.eq_dec j (S n)) as [->|Hne].
    - rewrite Hn. specialize (HW n ltac:(lia)). unfold W in HW. lra.
    - specialize (HW j ltac:(lia)). unfold W in HW. lra.
  Qed.
End Step.

(* upper bound: apply the lower bound to the negated system *)
Lemma step_upper n K B U g M : (1 <= n)%nat ->
  (forall j, (1 <= j <= n)%nat -> 0 <= K j) -> Sys n K B U g ->
  g <= M -> (forall j, (1 <= j <= n)%nat -> B j <= M) ->
  forall j, (j <= S n)%nat -> U j <= M.
Proof.
  intros Hn HK [H0 [Hm Hrow]] Hg HB j Hj.
  assert (L : - M <= (fun i => - U i) j).
  { apply (step_lower n Hn K (fun i => - B i) (fun i => - U i) (- g)); auto.
    - split; [simpl; lra|]. split; [simpl; lra|].
      intros i Hi. specialize (Hrow i Hi). unfold Row in *. lra.
    - lra.
    - intros i Hi. specialize (HB i Hi). lra. }
  simpl in L. lra.
Qed.

(* uniqueness of the step's solution (hence the relational specification is functional) *)
Lemma step_unique n K B U V g : (1 <= n)%nat ->
  (forall j, (1 <= j <= n)%nat -> 0 <= K j) -> Sys n K B U g -> Sys n K B V g ->
  forall j, (j <= S n)%nat -> U j = V j.
Proof.
  intros Hn HK [U0 [Um Ur]] [V0 [Vm Vr]] j Hj.
  assert (S0 : Sys n K (fun _ => 0) (fun i => U i - V i) 0).
  { split; [lra|]. split; [lra|]. intros i Hi. specialize (Ur i Hi). specialize (Vr i Hi).
    unfold Row in *. lra. }
  pose proof (step_lower n Hn K (fun _ => 0) (fun i => U i - V i) 0 HK S0 0 ltac:(lra) ltac:(intros; lra) j Hj).
  pose proof (step_upper n K (fun _ => 0) (fun i => U i - V i) 0 0 Hn HK S0 ltac:(lra) ltac:(intros; lra) j Hj).
  simpl in *. lra.
Qed.

(* the spatial differences D j = U (j+1) - U j of a step obey a system of the same kind
   (rows j+1 minus j), so monotone data give a monotone profile *)
Lemma step_monotone n K B U g : (1 <= n)%nat ->
  (forall j, (1 <= j <= n)%nat -> 0 <= K j) -> Sys n K B U g ->
  g <= B 1%nat -> (forall j, (1 <= j < n)%nat -> B j <= B (S j)) ->
  forall j, (j <= n)%nat -> U j <= U (S j).
Proof.
  intros Hn HK [H0 [Hm Hrow]] HB1 HBm.
  set (N := (n - 1)%nat).
  set (D := fun j => U (S j) - U j).
  set (s := fun j => if Nat.eqb j N then 1 + K n else 1).
  set (a := fun j => if Nat.eqb j 0 then 0 else K j).
  set (c := fun j => if Nat.eqb j N then 0 else K (S j)).
  set (r := fun j => if Nat.eqb j 0 then B 1%nat - g else B (S j) - B j).
  assert (HKn : 0 <= K n) by (apply HK; lia).
  assert (HD : forall j, (j <= N)%nat -> 0 <= D j).
  { apply (gen_min_principle N s a c D r).
    - intros j Hj. unfold s, a, c, N in *. split; [|split].
      + destruct (Nat.eqb j (n-1)); lra.
      + destruct (Nat.eqb_spec j 0); [lra|]. apply HK; lia.
      + destruct (Nat.eqb_spec j (n-1)); [lra|]. apply HK; lia.
    - reflexivity.
    - unfold c. now rewrite Nat.eqb_refl.
    - intros j Hj. unfold D, s, a, c, r, N in *.
      destruct (Nat.eqb_spec j 0) as [->|Hj0].
      + pose proof (Hrow 1%nat ltac:(lia)) as E. unfold Row in E. simpl in E. rewrite H0 in *.
        destruct (Nat.eqb_spec 0 (n-1)) as [Hn1|Hn1].
        * assert (n = 1)%nat by lia. subst n. simpl. rewrite Hm in *. lra.
        * simpl. lra.
      + pose proof (Hrow j ltac:(lia)) as E1. pose proof (Hrow (S j) ltac:(lia)) as E2.
        unfold Row in E1, E2.
        replace (S j - 1)%nat with j in E2 by lia. replace (S j + 1)%nat with (S (S j)) in E2 by lia.
        replace (j + 1)%nat with (S j) in * by lia.
        replace (S (j - 1)) with j by lia.
        destruct (Nat.eqb_spec j (n-1)) as [Hjn|Hjn].
        * assert (S j = n) by lia. rewrite H in *. rewrite Hm in *. lra.
        * lra.
    - intros j Hj. unfold r, N in *. destruct (Nat.eqb_spec j 0); [lra|].
      specialize (HBm j ltac:(lia)). lra. }
  intros j Hj. destruct (Nat.eq_dec j n) as [->|Hne]; [rewrite Hm; lra|].
  specialize (HD j ltac:(unfold N; lia)). unfold D in HD. lra.
Qed.

(* the constant profile is the fixed point of a step with constant data *)
Lemma step_fixed_point n K g : Sys n K (fun _ => g) (fun _ => g) g.
Proof. split; [reflexivity|]. split; [reflexivity|]. intros j Hj. unfold Row. lra. Qed.

(* ---- monotonicity in time for a constant-coefficient step (ideal reservoir) ----
   If the data Bx (ghost-extended: Bx 0 = g = 0, Bx (n+1) = Bx n) are discretely superharmonic,
   2 Bx j >= Bx (j-1) + Bx (j+1), then the new level lies below the data and is superharmonic again.
   D = Bx - U solves a step system of the same kind with right-hand side r * (2 Bx j - ...) >= 0. *)
Lemma step_time_monotone n r K B Bx U : (1 <= n)%nat -> 0 <= r ->
  (forall j, (1 <= j <= n)%nat -> K j = r) -> Sys n K B U 0 ->
  Bx 0%nat = 0 -> Bx (S n) = Bx n -> (forall j, (1 <= j <= n)%nat -> Bx j = B j) ->
  (forall j, (1 <= j <= n)%nat -> 0 <= 2 * Bx j - Bx (j-1)%nat - Bx (j+1)%nat) ->
  (forall j, (j <= S n)%nat -> U j <= Bx j) /\
  (forall j, (1 <= j <= n)%nat -> 0 <= 2 * U j - U (j-1)%nat - U (j+1)%nat).
Proof.
  intros Hn Hr HK HS B0 Bn BB HL.
  pose proof HS as [U0 [Um Urow]].
  set (D := fun j => Bx j - U j).
  set (Rr := fun j => r * (2 * Bx j - Bx (j-1)%nat - Bx (j+1)%nat)).
  assert (HKn : forall j, (1 <= j <= n)%nat -> 0 <= K j) by (intros j Hj; rewrite HK by exact Hj; exact Hr).
  assert (SD : Sys n K Rr D 0).
  { split; [unfold D; lra|]. split; [unfold D; lra|].
    intros j Hj. pose proof (Urow j Hj) as E. unfold Row in *. unfold D, Rr.
    rewrite (HK j Hj) in *. rewrite <- (BB j Hj) in E. lra. }
  assert (HD : forall j, (j <= S n)%nat -> 0 <= D j).
  { apply (step_lower n Hn K Rr D 0 HKn SD 0 (Rle_refl 0)).
    intros j Hj. unfold Rr. apply Rmult_le_pos; [exact Hr|apply HL; exact Hj]. }
  split.
  - intros j Hj. specialize (HD j Hj). unfold D in HD. lra.
  - intros j Hj. pose proof (Urow j Hj) as E. unfold Row in E. rewrite (HK j Hj), <- (BB j Hj) in E.
    destruct (Rle_lt_or_eq_dec _ _ Hr) as [Hpos|Hz].
    + pose proof (HD j ltac:(lia)) as Dj. unfold D in Dj.
      assert (0 <= r * (2 * U j - U (j-1)%nat - U (j+1)%nat)) by lra.
      destruct (Rle_dec 0 (2 * U j - U (j-1)%nat - U (j+1)%nat)) as [Hok|Hno]; [exact Hok|exfalso].
      apply Rnot_le_lt in Hno.
      assert (0 < r * - (2 * U j - U (j-1)%nat - U (j+1)%nat)) by (apply Rmult_lt_0_compat; lra).
      lra.
    + (* r = 0: the step is the identity *)
      assert (EU : forall i, (i <= S n)%nat -> U i = Bx i).
      { intros i Hi. destruct (Nat.eq_dec i 0) as [->|Hi0]; [lra|].
        destruct (Nat.eq_dec i (S n)) as [->|Hin].
        - rewrite Um, Bn. pose proof (Urow n ltac:(lia)) as En. unfold Row in En.
          rewrite (HK n ltac:(lia)), <- Hz, <- (BB n ltac:(lia)) in En. lra.
        - pose proof (Urow i ltac:(lia)) as Ei. unfold Row in Ei.
          rewrite (HK i ltac:(lia)), <- Hz, <- (BB i ltac:(lia)) in Ei. lra. }
      rewrite (EU j ltac:(lia)), (EU (j-1)%nat ltac:(lia)), (EU (j+1)%nat ltac:(lia)). apply HL; exact Hj.
Qed.

(* ---- relaxation to the frac-face value, whatever the step size ----
   Barrier phi j = j (2n+1-j): phi 0 = 0, phi (n+1) = phi n, second difference -2.  If the data exceed g by
   at most C phi j, the new level exceeds g by at most rho C phi j with
   rho = n(n+1) / (n(n+1) + 2 kappa) < 1, kappa a lower bound of the coefficients (mesh ratio times
   diffusivity); rho -> 0 as the time step grows. *)
Definition phi (n j : nat) : R := INR j * (2 * INR n + 1 - INR j).
Definition phimax (n : nat) : R := INR n * (INR n + 1).
Definition relax_factor (n : nat) (kap : R) : R := phimax n / (phimax n + 2 * kap).

Lemma phi_0 n : phi n 0 = 0.
Proof. unfold phi. simpl. ring. Qed.
Lemma phi_mirror n : phi n (S n) = phi n n.
Proof. unfold phi. rewrite S_INR. ring. Qed.
Lemma phi_second_difference n j : (1 <= j)%nat -> phi n (j-1) - 2 * phi n j + phi n (j+1) = - 2.
Proof.
  intros Hj. unfold phi. rewrite minus_INR by exact Hj. rewrite plus_INR. simpl. ring.
Qed.
Lemma phi_bounds n j : (j <= n)%nat -> 0 <= phi n j <= phimax n.
Proof.
  intros Hj. unfold phi, phimax. pose proof (pos_INR j). apply le_INR in Hj. split; nra.
Qed.
Lemma phimax_pos n : (1 <= n)%nat -> 0 < phimax n.
Proof. intros H. apply le_INR in H. simpl in H. unfold phimax. nra. Qed.
Lemma relax_factor_bounds n kap : (1 <= n)%nat -> 0 <= kap -> 0 < relax_factor n kap <= 1.
Proof.
  intros Hn Hk. pose proof (phimax_pos n Hn). unfold relax_factor. split.
  - apply Rdiv_lt_0_compat; lra.
  - apply Rmult_le_reg_r with (phimax n + 2 * kap); [lra|].
    unfold Rdiv. rewrite Rmult_assoc, Rinv_l by lra. lra.
Qed.
Lemma relax_factor_lt_1 n kap : (1 <= n)%nat -> 0 < kap -> relax_factor n kap < 1.
Proof.
  intros Hn Hk. pose proof (phimax_pos n Hn). unfold relax_factor.
  apply Rmult_lt_reg_r with (phimax n + 2 * kap); [lra|].
  unfold Rdiv. rewrite Rmult_assoc, Rinv_l by lra. lra.
Qed.

Lemma step_relax n K B U g kap C : (1 <= n)%nat ->
  0 <= kap -> (forall j, (1 <= j <= n)%nat -> kap <= K j) -> Sys n K B U g -> 0 <= C ->
  (forall j, (1 <= j <= n)%nat -> B j - g <= C * phi n j) ->
  forall j, (j <= S n)%nat -> U j - g <= relax_factor n kap * C * phi n j.
Proof.
  intros Hn Hk HK HS HC HB.
  pose proof HS as [U0 [Um Urow]].
  set (rho := relax_factor n kap).
  destruct (relax_factor_bounds n kap Hn Hk) as [Hrho0 Hrho1]. fold rho in Hrho0, Hrho1.
  set (W := fun j => rho * C * phi n j - (U j - g)).
  set (Rr := fun j => rho * C * (phi n j + 2 * K j) - (B j - g)).
  assert (HKn : forall j, (1 <= j <= n)%nat -> 0 <= K j) by (intros j Hj; specialize (HK j Hj); lra).
  assert (SW : Sys n K Rr W 0).
  { split; [unfold W; rewrite phi_0, U0; ring|]. split; [unfold W; rewrite phi_mirror, Um; ring|].
    intros j Hj. pose proof (Urow j Hj) as E. unfold Row in *. unfold W, Rr.
    pose proof (phi_second_difference n j ltac:(lia)) as P.
    replace (rho * C * phi n (j - 1) - (U (j - 1)%nat - g) - 2 * (rho * C * phi n j - (U j - g))
             + (rho * C * phi n (j + 1) - (U (j + 1)%nat - g)))
      with (rho * C * (phi n (j-1) - 2 * phi n j + phi n (j+1)) - (U (j-1)%nat - 2 * U j + U (j+1)%nat)) by ring.
    rewrite P. lra. }
  assert (HR : forall j, (1 <= j <= n)%nat -> 0 <= Rr j).
  { intros j Hj. unfold Rr. specialize (HB j Hj). specialize (HK j Hj).
    destruct (phi_bounds n j ltac:(lia)) as [Hp0 Hp1]. pose proof (phimax_pos n Hn) as Hpm.
    assert (Hkey : phi n j <= rho * (phi n j + 2 * K j)).
    { unfold rho, relax_factor.
      apply Rmult_le_reg_r with (phimax n + 2 * kap); [lra|].
      replace (phimax n / (phimax n + 2 * kap) * (phi n j + 2 * K j) * (phimax n + 2 * kap))
        with (phimax n * (phi n j + 2 * K j)) by (field; lra).
      nra. }
    assert (C * phi n j <= C * (rho * (phi n j + 2 * K j))) by (apply Rmult_le_compat_l; assumption).
    lra. }
  intros j Hj.
  pose proof (step_lower n Hn K Rr W 0 HKn SW 0 (Rle_refl 0) HR j Hj) as HW. unfold W in HW. lra.
Qed.
Lemma phi_ge_first n j : (1 <= j <= n)%nat -> 2 * INR n <= phi n j.
Proof.
  intros [H1 H2]. unfold phi. apply le_INR in H1. apply le_INR in H2. simpl in H1. nra.
Qed.
