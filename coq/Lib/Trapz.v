(* Trapz: facts about the cumulative trapezoid rule of PyPrelude (what
   scipy.integrate.cumulative_trapezoid(y, x, initial=0) computes) over the reals. *)
From Coq Require Import Reals List Lra Lia.
From BBLib Require Import PyPrelude.
Import ListNotations.
Open Scope R_scope.

Lemma cumtrapz_from_cons acc y0 y1 yt x0 x1 xt :
  cumtrapz_from acc (y0 :: y1 :: yt) (x0 :: x1 :: xt)
  = (acc + (x1 - x0) * (y0 + y1) / 2) :: cumtrapz_from (acc + (x1 - x0) * (y0 + y1) / 2) (y1 :: yt) (x1 :: xt).
Proof. reflexivity. Qed.

Lemma cumtrapz_from_length : forall y x acc, length x = length y ->
  length (cumtrapz_from acc y x) = (length y - 1)%nat.
Proof.
  induction y as [|y0 yt IH]; intros x acc Hl; [reflexivity|].
  destruct yt as [|y1 yt']; [destruct x; reflexivity|].
  destruct x as [|x0 [|x1 xt]]; try (simpl in Hl; lia).
  rewrite cumtrapz_from_cons. cbn [length]. rewrite IH by (cbn [length] in *; lia). cbn [length]. lia.
Qed.

(* same length as y, first entry 0 *)
Theorem cumtrapz_length y x : length x = length y -> length (cumtrapz y x) = length y.
Proof.
  intros Hl. unfold cumtrapz. destruct y as [|y0 yt]; [reflexivity|].
  cbn [length]. rewrite cumtrapz_from_length by exact Hl. cbn [length]. lia.
Qed.
Theorem cumtrapz_first y x : y <> [] -> nth 0 (cumtrapz y x) 0 = 0.
Proof. intros H. unfold cumtrapz. destruct y; [contradiction|reflexivity]. Qed.

(* linear in the integrand *)
Lemma cumtrapz_from_scal c : forall y x acc,
  cumtrapz_from (c * acc) (smul c y) x = smul c (cumtrapz_from acc y x).
Proof.
  induction y as [|y0 yt IH]; intros x acc; [reflexivity|].
  destruct yt as [|y1 yt']; [destruct x; reflexivity|].
  destruct x as [|x0 [|x1 xt]]; try reflexivity.
  change (smul c (y0 :: y1 :: yt')) with (c * y0 :: c * y1 :: smul c yt').
  rewrite !cumtrapz_from_cons.
  change (c * y1 :: smul c yt') with (smul c (y1 :: yt')).
  replace (c * acc + (x1 - x0) * (c * y0 + c * y1) / 2) with (c * (acc + (x1 - x0) * (y0 + y1) / 2)) by field.
  rewrite IH. reflexivity.
Qed.
Lemma cumtrapz_cons y0 yt x : cumtrapz (y0 :: yt) x = 0 :: cumtrapz_from 0 (y0 :: yt) x.
Proof. reflexivity. Qed.
Theorem cumtrapz_scal c y x : cumtrapz (smul c y) x = smul c (cumtrapz y x).
Proof.
  destruct y as [|y0 yt]; [reflexivity|].
  change (smul c (y0 :: yt)) with (c * y0 :: smul c yt). rewrite !cumtrapz_cons.
  change (c * y0 :: smul c yt) with (smul c (y0 :: yt)).
  pose proof (cumtrapz_from_scal c (y0 :: yt) x 0) as E. rewrite Rmult_0_r in E. rewrite E.
  change (smul c (0 :: cumtrapz_from 0 (y0 :: yt) x)) with (c * 0 :: smul c (cumtrapz_from 0 (y0 :: yt) x)).
  rewrite Rmult_0_r. reflexivity.
Qed.

(* shifting the starting value shifts every entry *)
Lemma cumtrapz_from_shift c : forall y x acc,
  cumtrapz_from (acc + c) y x = map (fun v => v + c) (cumtrapz_from acc y x).
Proof.
  induction y as [|y0 yt IH]; intros x acc; [reflexivity|].
  destruct yt as [|y1 yt']; [destruct x; reflexivity|].
  destruct x as [|x0 [|x1 xt]]; try reflexivity.
  rewrite !cumtrapz_from_cons. cbn [map].
  replace (acc + c + (x1 - x0) * (y0 + y1) / 2) with (acc + (x1 - x0) * (y0 + y1) / 2 + c) by ring.
  rewrite IH. reflexivity.
Qed.

(* positive integrand on increasing abscissae: strictly increasing running integral *)
Fixpoint increasing (l : list R) : Prop :=
  match l with a :: ((b :: _) as t) => a < b /\ increasing t | _ => True end.
Fixpoint chain_lt (a : R) (l : list R) : Prop :=
  match l with [] => True | b :: t => a < b /\ chain_lt b t end.

Lemma cumtrapz_from_increasing : forall y x acc,
  length x = length y -> increasing x -> Forall (fun v => 0 < v) y -> chain_lt acc (cumtrapz_from acc y x).
Proof.
  induction y as [|y0 yt IH]; intros x acc Hl Hx Hy; [exact I|].
  destruct yt as [|y1 yt']; [destruct x; exact I|].
  destruct x as [|x0 [|x1 xt]]; try (simpl in Hl; lia).
  rewrite cumtrapz_from_cons. destruct Hx as [Hx01 Hx'].
  inversion Hy as [|? ? Hy0 Hy']; subst. inversion Hy' as [|? ? Hy1 _]; subst.
  cbn [chain_lt]. split.
  - assert (0 < (x1 - x0) * (y0 + y1) / 2) by (apply Rmult_lt_0_compat; [apply Rmult_lt_0_compat; lra|lra]). lra.
  - apply IH; [simpl in *; lia | exact Hx' | exact Hy'].
Qed.

Theorem cumtrapz_strictly_increasing y x :
  length x = length y -> increasing x -> Forall (fun v => 0 < v) y ->
  match cumtrapz y x with [] => True | a :: t => a = 0 /\ chain_lt a t end.
Proof.
  intros Hl Hx Hy. unfold cumtrapz. destruct y as [|y0 yt]; [exact I|].
  split; [reflexivity|]. now apply cumtrapz_from_increasing.
Qed.

(* additive over adjacent pressure intervals: the table restricted to the rows from i on gives the
   same differences *)
Lemma cumtrapz_from_skip : forall y x acc,
  match y, x with
  | y0 :: ((_ :: _) as yt), x0 :: ((x1 :: _) as xt) =>
      tl (cumtrapz_from acc y x) = cumtrapz_from (hd 0 (cumtrapz_from acc y x)) yt xt
  | _, _ => True
  end.
Proof.
  intros y x acc. destruct y as [|y0 [|y1 yt]]; try exact I.
  destruct x as [|x0 [|x1 xt]]; try exact I.
  rewrite cumtrapz_from_cons. reflexivity.
Qed.

Theorem cumtrapz_suffix y0 y1 yt x0 x1 xt :
  tl (cumtrapz (y0 :: y1 :: yt) (x0 :: x1 :: xt))
  = map (fun v => v + (x1 - x0) * (y0 + y1) / 2) (cumtrapz (y1 :: yt) (x1 :: xt)).
Proof.
  rewrite !cumtrapz_cons. cbn [tl]. rewrite cumtrapz_from_cons. cbn [map].
  f_equal. apply cumtrapz_from_shift.
Qed.

(* elementwise helpers used to identify the two table routes *)
Lemma vdiv_smul c : forall a b, vdiv (smul c a) b = smul c (vdiv a b).
Proof.
  induction a as [|a0 at_ IH]; intros b; [reflexivity|]. destruct b as [|b0 bt]; [reflexivity|].
  unfold vdiv, vmap2, smul in *. simpl. f_equal; [unfold Rdiv; ring|]. apply IH.
Qed.
