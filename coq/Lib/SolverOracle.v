(* SolverOracle (C04): the time loop with the iterative linear solver as an oracle that returns
   a candidate solution and a convergence flag, under scipy's documented contract
   (info = 0 -> residual within the configured tolerance; nothing is promised otherwise), and a
   direct solve used when the flag is non-zero.  The loop stores the iterate only when info = 0 --
   this is what the code does after the fixes, and what the harness confirms behaviourally by
   intercepting the solver and injecting failures. *)
From Coq Require Import Reals List Lia Arith.
From BBLib Require Import NumSig Tridiag Reservoir.
Import ListNotations.
Open Scope R_scope.

Section Oracle.
  Variable solve : list (R * R * R) -> list R -> list R * nat.      (* bicgstab: (x, info) *)
  Variable direct : list (R * R * R) -> list R -> list R.           (* spsolve *)
  Variable within_tol : list (R * R * R) -> list R -> list R -> Prop.
  Hypothesis contract : forall rows b x, solve rows b = (x, 0%nat) -> within_tol rows b x.
  Hypothesis direct_contract : forall rows b, within_tol rows b (direct rows b).
  Variable alpha_s : R -> R.
  Variable m_i dx2 : R.

  Definition step_system (m_f mesh : R) (prev : list R) : list (R * R * R) * list R :=
    let b0 := single_b0 NumR m_i m_f prev in
    (rows_of NumR (single_k NumR alpha_s mesh b0), single_rhs NumR alpha_s m_f mesh b0).

  Definition accept (rows : list (R * R * R)) (b : list R) : list R :=
    match solve rows b with
    | (x, O) => x
    | (_, S _) => direct rows b
    end.

  Fixpoint run_o (times mf : list R) (prev : list R) : list (list R) :=
    match times, mf with
    | t0 :: ((t1 :: _) as tt), f0 :: ft =>
        let '(rows, b) := step_system f0 ((t1 - t0) / dx2) prev in
        let x := accept rows b in x :: run_o tt ft x
    | _, _ => []
    end.

  Lemma run_o_cons t0 t1 tt f0 ft prev :
    run_o (t0 :: t1 :: tt) (f0 :: ft) prev =
    let '(rows, b) := step_system f0 ((t1 - t0) / dx2) prev in
    accept rows b :: run_o (t1 :: tt) ft (accept rows b).
  Proof. reflexivity. Qed.

  (* every stored level solves its step's system to the solver's tolerance *)
  Fixpoint steps_ok (times mf : list R) (prev : list R) (rest : list (list R)) : Prop :=
    match times, mf, rest with
    | t0 :: ((t1 :: _) as tt), f0 :: ft, x :: rs =>
        (let '(rows, b) := step_system f0 ((t1 - t0) / dx2) prev in within_tol rows b x)
        /\ steps_ok tt ft x rs
    | _, _, _ => True
    end.

  Lemma accept_ok rows b : within_tol rows b (accept rows b).
  Proof.
    unfold accept. destruct (solve rows b) as [x [|k]] eqn:E; [now apply contract|apply direct_contract].
  Qed.

  Theorem stored_steps_have_small_residual : forall times mf prev,
    steps_ok times mf prev (run_o times mf prev).
  Proof.
    induction times as [|t0 tt IH]; intros mf prev; [exact I|].
    destruct tt as [|t1 tt']; [destruct mf; exact I|].
    destruct mf as [|f0 ft]; [exact I|].
    rewrite run_o_cons. destruct (step_system f0 ((t1 - t0) / dx2) prev) as [rows b] eqn:Es.
    cbn [steps_ok]. rewrite Es. split; [apply accept_ok|apply IH].
  Qed.

  (* an iterate that the solver flags as not converged is never what gets stored *)
  Theorem nonconverged_iterate_never_stored : forall rows b x k,
    solve rows b = (x, S k) -> accept rows b = direct rows b.
  Proof. intros rows b x k H. unfold accept. now rewrite H. Qed.
End Oracle.
