(* SolverOracle (C04): the time loop with the linear solver as an oracle that returns a
   candidate solution and a convergence flag, under scipy's documented contract
   (info = 0 -> residual within the configured tolerance; nothing is promised otherwise).
   The loop accepts a step only when info = 0 -- this is what the code does after the fix,
   and what the harness confirms behaviourally by intercepting the solver. *)
From Coq Require Import Reals List Lia Arith.
From BBLib Require Import NumSig Tridiag Reservoir.
Import ListNotations.
Open Scope R_scope.

Section Oracle.
  Variable solve : list (R * R * R) -> list R -> list R * nat.
  Variable within_tol : list (R * R * R) -> list R -> list R -> Prop.
  Hypothesis contract : forall rows b x, solve rows b = (x, 0%nat) -> within_tol rows b x.
  Variable alpha_s : R -> R.
  Variable m_i dx2 : R.

  Definition step_system (m_f mesh : R) (prev : list R) : list (R * R * R) * list R :=
    let b0 := single_b0 NumR m_i m_f prev in
    (rows_of NumR (single_k NumR alpha_s mesh b0), single_rhs NumR alpha_s m_f mesh b0).

  (* None = the simulation raises *)
  Fixpoint run_o (times mf : list R) (prev : list R) : option (list (list R)) :=
    match times, mf with
    | t0 :: ((t1 :: _) as tt), f0 :: ft =>
        let '(rows, b) := step_system f0 ((t1 - t0) / dx2) prev in
        match solve rows b with
        | (x, O) => match run_o tt ft x with Some rest => Some (x :: rest) | None => None end
        | (_, S _) => None
        end
    | _, _ => Some []
    end.

  Lemma run_o_cons t0 t1 tt f0 ft prev :
    run_o (t0 :: t1 :: tt) (f0 :: ft) prev =
    let '(rows, b) := step_system f0 ((t1 - t0) / dx2) prev in
    match solve rows b with
    | (x, O) => match run_o (t1 :: tt) ft x with Some rest => Some (x :: rest) | None => None end
    | (_, S _) => None
    end.
  Proof. reflexivity. Qed.

  (* every stored level solves its step's system to the solver's tolerance *)
  Fixpoint steps_ok (times mf : list R) (prev : list R) (rest : list (list R)) : Prop :=
    match times, mf, rest with
    | t0 :: ((t1 :: _) as tt), f0 :: ft, x :: rs =>
        (let '(rows, b) := step_system f0 ((t1 - t0) / dx2) prev in within_tol rows b x)
        /\ steps_ok tt ft x rs
    | _, _, _ => True
    end.

  Theorem accepted_steps_have_small_residual : forall times mf prev field,
    run_o times mf prev = Some field -> steps_ok times mf prev field.
  Proof.
    induction times as [|t0 tt IH]; intros mf prev field H; [exact I|].
    destruct tt as [|t1 tt']; [destruct mf; exact I|].
    destruct mf as [|f0 ft]; [exact I|].
    revert H. rewrite run_o_cons.
    destruct (step_system f0 ((t1 - t0) / dx2) prev) as [rows b] eqn:Es.
    destruct (solve rows b) as [x [|k]] eqn:Ek; [|discriminate].
    destruct (run_o (t1 :: tt') ft x) as [rest|] eqn:Er; [|discriminate].
    intros H. inversion H; subst. cbn [steps_ok]. rewrite Es. split.
    - now apply contract.
    - now apply IH.
  Qed.

  (* a solve that reports non-convergence is never accepted into a result *)
  Theorem nonconverged_never_accepted : forall t0 t1 tt f0 ft prev x k,
    solve (fst (step_system f0 ((t1 - t0) / dx2) prev)) (snd (step_system f0 ((t1 - t0) / dx2) prev)) = (x, S k) ->
    run_o (t0 :: t1 :: tt) (f0 :: ft) prev = None.
  Proof.
    intros. rewrite run_o_cons. destruct (step_system f0 ((t1 - t0) / dx2) prev) as [rows b]. simpl in H.
    now rewrite H.
  Qed.

  (* ... wherever in the run it happens *)
  Theorem nonconverged_anywhere : forall times mf prev field,
    run_o times mf prev = Some field ->
    forall i, (S i < length times)%nat -> (i < length mf)%nat -> (i < length field)%nat.
  Proof.
    induction times as [|t0 tt IH]; intros mf prev field H i Hi Hm; [simpl in Hi; lia|].
    destruct tt as [|t1 tt']; [simpl in Hi; lia|].
    destruct mf as [|f0 ft]; [simpl in Hm; lia|].
    revert H. rewrite run_o_cons.
    destruct (step_system f0 ((t1 - t0) / dx2) prev) as [rows b].
    destruct (solve rows b) as [x [|k]]; [|discriminate].
    destruct (run_o (t1 :: tt') ft x) as [rest|] eqn:Er; [|discriminate].
    intros H. inversion H; subst. destruct i; [simpl; lia|].
    simpl. apply -> Nat.succ_lt_mono. apply (IH ft x rest Er); simpl in *; lia.
  Qed.
End Oracle.
