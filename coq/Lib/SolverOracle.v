(* SolverOracle (C04): the time loop with the iterative linear solver as an oracle that returns
   a candidate solution and a convergence flag.  Nothing is assumed about that oracle: since the
   repairs 15e03b2 / 223c4bf the loop itself tests the TRUE residual of the returned iterate
   ([check], the code's _is_solved) and stores the iterate only when the flag is 0 AND the test
   passes; otherwise the tridiagonal system is solved directly.  The shape of that decision is
   regenerated from the source on every run (Gen_reservoir.single_falls_back / ideal_falls_back,
   is_solved) and tied to [accept] below in Props/C04_acceptance.v; the harness confirms it
   behaviourally by intercepting the solver and injecting failures and drifted iterates. *)
From Coq Require Import Reals List Lia Arith Bool.
From BBLib Require Import NumSig Tridiag Reservoir.
Import ListNotations.
Open Scope R_scope.

Section Oracle.
  Variable solve : list (R * R * R) -> list R -> list R * nat.      (* bicgstab: (x, info) *)
  Variable direct : list (R * R * R) -> list R -> list R.           (* spsolve *)
  Variable check : list (R * R * R) -> list R -> list R -> bool.    (* _is_solved: the true residual test *)
  Variable alpha_s : R -> R.
  Variable m_i dx2 : R.

  Definition step_system (m_f mesh : R) (prev : list R) : list (R * R * R) * list R :=
    let b0 := single_b0 NumR m_i m_f prev in
    (rows_of NumR (single_k NumR alpha_s mesh b0), single_rhs NumR alpha_s m_f mesh b0).

  Definition accept (rows : list (R * R * R)) (b : list R) : list R :=
    match solve rows b with
    | (x, O) => if check rows b x then x else direct rows b
    | (_, S _) => direct rows b
    end.

  Fixpoint run_o (times mf : list R) (prev : list R) : list (list R) :=
    match times, mf with
    | t0 :: ((t1 :: _) as tt), f0 :: ft =>
        let '(rows, b) := step_system f0 ((t1 - t0) / dx2) prev in
        let x := accept rows b in x :: run_o tt ft x
    | _, _ => []
    end.

  Lemma run_o_cons t0 t1 tt f0 ft prev :
    run_o (t0 :: t1 :: tt) (f0 :: ft) prev =
    let '(rows, b) := step_system f0 ((t1 - t0) / dx2) prev in
    accept rows b :: run_o (t1 :: tt) ft (accept rows b).
  Proof. reflexivity. Qed.

  (* every stored level satisfies [ok] for its own step system *)
  Fixpoint steps_ok (ok : list (R * R * R) -> list R -> list R -> Prop)
           (times mf : list R) (prev : list R) (rest : list (list R)) : Prop :=
    match times, mf, rest with
    | t0 :: ((t1 :: _) as tt), f0 :: ft, x :: rs =>
        (let '(rows, b) := step_system f0 ((t1 - t0) / dx2) prev in ok rows b x)
        /\ steps_ok ok tt ft x rs
    | _, _, _ => True
    end.

  (* what is stored passed the code's own residual test, or is the direct solution: no contract of
     the iterative solver is involved *)
  Definition checked_or_direct (rows : list (R * R * R)) (b x : list R) : Prop :=
    check rows b x = true \/ x = direct rows b.

  Lemma accept_checked rows b : checked_or_direct rows b (accept rows b).
  Proof.
    unfold accept, checked_or_direct. destruct (solve rows b) as [x [|k]]; [|now right].
    destruct (check rows b x) eqn:E; [now left|now right].
  Qed.

  Lemma steps_ok_run (ok : list (R * R * R) -> list R -> list R -> Prop) :
    (forall rows b, ok rows b (accept rows b)) ->
    forall times mf prev, steps_ok ok times mf prev (run_o times mf prev).
  Proof.
    intros Hok. induction times as [|t0 tt IH]; intros mf prev; [exact I|].
    destruct tt as [|t1 tt']; [destruct mf; exact I|].
    destruct mf as [|f0 ft]; [exact I|].
    rewrite run_o_cons. destruct (step_system f0 ((t1 - t0) / dx2) prev) as [rows b] eqn:Es.
    cbn [steps_ok]. rewrite Es. split; [apply Hok|apply IH].
  Qed.

  Theorem stored_steps_are_checked_or_direct : forall times mf prev,
    steps_ok checked_or_direct times mf prev (run_o times mf prev).
  Proof. apply steps_ok_run, accept_checked. Qed.

  (* with any tolerance predicate that the residual test implies and the direct solve meets *)
  Theorem stored_steps_have_small_residual (within_tol : list (R * R * R) -> list R -> list R -> Prop) :
    (forall rows b x, check rows b x = true -> within_tol rows b x) ->
    (forall rows b, within_tol rows b (direct rows b)) ->
    forall times mf prev, steps_ok within_tol times mf prev (run_o times mf prev).
  Proof.
    intros Hc Hd. apply steps_ok_run. intros rows b.
    destruct (accept_checked rows b) as [H|H]; [now apply Hc|rewrite H; apply Hd].
  Qed.

  (* an iterate that the solver flags as not converged is never what gets stored ... *)
  Theorem nonconverged_iterate_never_stored : forall rows b x k,
    solve rows b = (x, S k) -> accept rows b = direct rows b.
  Proof. intros rows b x k H. unfold accept. now rewrite H. Qed.

  (* ... and neither is one that is flagged as converged but fails the true residual test *)
  Theorem drifted_iterate_never_stored : forall rows b x,
    solve rows b = (x, O) -> check rows b x = false -> accept rows b = direct rows b.
  Proof. intros rows b x H Hc. unfold accept. now rewrite H, Hc. Qed.

  (* the stored level is the iterate exactly when the flag is 0 and the test passes *)
  Theorem iterate_stored_iff : forall rows b x info,
    solve rows b = (x, info) ->
    accept rows b = (if (Nat.eqb info 0 && check rows b x)%bool then x else direct rows b).
  Proof.
    intros rows b x info H. unfold accept. rewrite H. destruct info as [|k]; cbn [Nat.eqb andb]; reflexivity.
  Qed.
End Oracle.
