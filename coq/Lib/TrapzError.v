(* TrapzError (C08): error of the (cumulative) trapezoid rule against the exact integral.
   One cell: |F(a+h) - F(a) - h (f(a) + f(a+h))/2| <= M h^3 / 12 for F' = f, |f''| <= M  (Truncation.integrate_bound
   applied twice to e(s) = F(a+s) - F(a) - s (f(a) + f(a+s))/2, whose second derivative is -s f''(a+s)/2);
   table: the k-th entry of cumtrapz (map f x) x differs from F(x_k) - F(x_0) by at most the running sum of
   M (x_{i+1} - x_i)^3 / 12. *)
From Coq Require Import Reals List Lra Lia.
From Coquelicot Require Import Coquelicot.
From BBLib Require Import PyPrelude Trapz Truncation.
Import ListNotations.
Open Scope R_scope.

Section Cell.
  Variables (F f f1 f2 : R -> R) (a h M : R).
  Hypothesis Hh : 0 <= h.
  Hypothesis D0 : forall y, a <= y <= a + h -> is_derive F y (f y).
  Hypothesis D1 : forall y, a <= y <= a + h -> is_derive f y (f1 y).
  Hypothesis D2 : forall y, a <= y <= a + h -> is_derive f1 y (f2 y).
  Hypothesis B2 : forall y, a <= y <= a + h -> Rabs (f2 y) <= M.

  Let e (s : R) := F (a + s) - F a - s * (f a + f (a + s)) / 2.
  Let e1 (s : R) := (f (a + s) - f a) / 2 - s * f1 (a + s) / 2.
  Let e2 (s : R) := - (s * f2 (a + s) / 2).

  Lemma sh (u u' : R -> R) s : 0 <= s <= h -> (forall y, a <= y <= a + h -> is_derive u y (u' y)) ->
    is_derive (fun s => u (a + s)) s (u' (a + s)).
  Proof.
    intros Hs Hu. evar_last. apply (is_derive_comp u (fun s => a + s)); [apply Hu; lra|]. auto_derive; [exact I|reflexivity].
    unfold scal, mult; simpl. unfold mult; simpl. ring.
  Qed.

  Lemma e_derive s : 0 <= s <= h -> is_derive e s (e1 s).
  Proof.
    intros Hs. pose proof (sh F f s Hs D0) as A. pose proof (sh f f1 s Hs D1) as B. unfold e, e1.
    evar_last.
    - apply (is_derive_minus (fun s => F (a + s) - F a) (fun s => s * (f a + f (a + s)) / 2)).
      + apply (is_derive_minus (fun s => F (a + s)) (fun _ => F a)); [exact A|apply @is_derive_const].
      + apply (is_derive_ext (fun s => (s * / 2) * (f a + f (a + s)))); [intros t; unfold Rdiv; lra|].
        apply (is_derive_mult (fun s => s * / 2) (fun s => f a + f (a + s))).
        * auto_derive; [exact I|reflexivity].
        * apply (is_derive_plus (fun _ => f a) (fun s => f (a + s))); [apply @is_derive_const|exact B].
        * intros; apply Rmult_comm.
    - unfold zero, minus, plus, opp, mult; simpl. field.
  Qed.
  Lemma e1_derive s : 0 <= s <= h -> is_derive e1 s (e2 s).
  Proof.
    intros Hs. pose proof (sh f f1 s Hs D1) as B. pose proof (sh f1 f2 s Hs D2) as C. unfold e1, e2.
    evar_last.
    - apply (is_derive_minus (fun s => (f (a + s) - f a) / 2) (fun s => s * f1 (a + s) / 2)).
      + apply (is_derive_ext (fun s => / 2 * (f (a + s) - f a))); [intros t; unfold Rdiv; lra|].
        apply is_derive_scal. apply (is_derive_minus (fun s => f (a + s)) (fun _ => f a)); [exact B|apply @is_derive_const].
      + apply (is_derive_ext (fun s => (s * / 2) * f1 (a + s))); [intros t; unfold Rdiv; lra|].
        apply (is_derive_mult (fun s => s * / 2) (fun s => f1 (a + s))).
        * auto_derive; [exact I|reflexivity].
        * exact C.
        * intros; apply Rmult_comm.
    - unfold zero, minus, plus, opp, mult, scal; simpl. unfold mult; simpl. field.
  Qed.

  Theorem trapezoid_cell_error : Rabs (F (a + h) - F a - h * (f a + f (a + h)) / 2) <= M * h ^ 3 / 12.
  Proof.
    assert (E1 : forall s, 0 <= s <= h -> Rabs (e1 s) <= M / 4 * s ^ 2).
    { intros s Hs. pose proof (integrate_bound e1 e2 (M / 2) h 1 e1_derive) as I1.
      assert (I1a : e1 0 = 0) by (unfold e1; replace (a + 0) with a by ring; unfold Rdiv; ring).
      assert (I1b : forall r, 0 <= r <= h -> Rabs (e2 r) <= M / 2 * r ^ 1).
      { intros r Hr. unfold e2. rewrite Rabs_Ropp. unfold Rdiv. rewrite !Rabs_mult.
        rewrite (Rabs_pos_eq r) by lra. rewrite (Rabs_pos_eq (/ 2)) by lra.
        pose proof (B2 (a + r) ltac:(lra)). pose proof (Rabs_pos (f2 (a + r))). simpl. nra. }
      specialize (I1 I1a I1b s Hs). simpl INR in I1. simpl in I1. simpl. lra. }
    pose proof (integrate_bound e e1 (M / 4) h 2 e_derive) as I0.
    assert (I0a : e 0 = 0) by (unfold e; replace (a + 0) with a by ring; unfold Rdiv; ring).
    specialize (I0 I0a E1 h ltac:(lra)). simpl INR in I0. unfold e in I0. simpl in I0. simpl. lra.
  Qed.
End Cell.

(* ---- the table ---- *)
Fixpoint sorted_le (x : list R) : Prop :=
  match x with a :: ((b :: _) as t) => a <= b /\ sorted_le t | _ => True end.

Fixpoint err_within (F : R -> R) (F0 M E : R) (x out : list R) : Prop :=
  match x, out with
  | x0 :: ((x1 :: _) as xt), o :: ot =>
      let E' := E + M * (x1 - x0) ^ 3 / 12 in
      Rabs (o - (F x1 - F0)) <= E' /\ err_within F F0 M E' xt ot
  | _, _ => True
  end.

Section Table.
  Variables (F f f1 f2 : R -> R) (lo hi M : R).
  Hypothesis D0 : forall y, lo <= y <= hi -> is_derive F y (f y).
  Hypothesis D1 : forall y, lo <= y <= hi -> is_derive f y (f1 y).
  Hypothesis D2 : forall y, lo <= y <= hi -> is_derive f1 y (f2 y).
  Hypothesis B2 : forall y, lo <= y <= hi -> Rabs (f2 y) <= M.

  Lemma cumtrapz_from_error : forall x acc F0 E, sorted_le x -> List.Forall (fun v => lo <= v <= hi) x ->
    Rabs (acc - (F (hd 0 x) - F0)) <= E ->
    err_within F F0 M E x (cumtrapz_from acc (map f x) x).
  Proof.
    induction x as [|x0 xt IH]; intros acc F0 E Hs Hr Ha; [exact I|].
    destruct xt as [|x1 xt']; [exact I|].
    cbn [map]. rewrite cumtrapz_from_cons. cbn [err_within]. cbv zeta.
    destruct Hs as [H01 Hs']. inversion Hr as [|? ? R0 Hr']; subst. inversion Hr' as [|? ? R1 _]; subst.
    assert (Hcell : Rabs (F (x0 + (x1 - x0)) - F x0 - (x1 - x0) * (f x0 + f (x0 + (x1 - x0))) / 2) <= M * (x1 - x0) ^ 3 / 12).
    { apply (trapezoid_cell_error F f f1 f2 x0 (x1 - x0) M ltac:(lra)).
      - intros y Hy. apply D0. lra.
      - intros y Hy. apply D1. lra.
      - intros y Hy. apply D2. lra.
      - intros y Hy. apply B2. lra. }
    replace (x0 + (x1 - x0)) with x1 in Hcell by ring.
    assert (Hnew : Rabs (acc + (x1 - x0) * (f x0 + f x1) / 2 - (F x1 - F0)) <= E + M * (x1 - x0) ^ 3 / 12).
    { cbn [hd] in Ha.
      replace (acc + (x1 - x0) * (f x0 + f x1) / 2 - (F x1 - F0))
        with ((acc - (F x0 - F0)) + - (F x1 - F x0 - (x1 - x0) * (f x0 + f x1) / 2)) by ring.
      eapply Rle_trans; [apply Rabs_triang|]. rewrite Rabs_Ropp. lra. }
    split; [exact Hnew|].
    apply (IH (acc + (x1 - x0) * (f x0 + f x1) / 2) F0 (E + M * (x1 - x0) ^ 3 / 12) Hs' Hr'). exact Hnew.
  Qed.

  (* what the table builders compute vs the exact integral from the first tabulated pressure *)
  Theorem cumtrapz_error x : sorted_le x -> List.Forall (fun v => lo <= v <= hi) x ->
    match cumtrapz (map f x) x with
    | [] => True
    | first :: rest => first = 0 /\ err_within F (F (hd 0 x)) M 0 x rest
    end.
  Proof.
    intros Hs Hr. unfold cumtrapz. destruct x as [|x0 xt]; [exact I|]. cbn [map]. split; [reflexivity|].
    apply (cumtrapz_from_error (x0 :: xt) 0 (F x0) 0 Hs Hr). cbn [hd].
    replace (0 - (F x0 - F x0)) with 0 by ring. rewrite Rabs_R0. lra.
  Qed.
End Table.
