(* PyPrelude: the Gallina vocabulary that tools/py2coq.py emits.
   Every Python numeric construct the translator understands is mapped to one
   of these definitions (or to a stdlib Reals operator).  Nothing here is
   specific to bluebonnet. *)
From Coq Require Import Reals List Lra Lia ZArith.
Import ListNotations.
Open Scope R_scope.

(* Python's x ** e for real e: 0.0 ** 0 = 1, 0.0 ** e = 0 (e > 0), otherwise
   exp(e ln x) for x > 0.  A negative base under a non-integer exponent is NaN
   in Python; theorems that use pypow must establish [0 <= x] themselves
   (Coq's Rpower would silently return exp(e * ln x) with ln x = 0). *)
Definition pypow (x e : R) : R :=
  if Req_EM_T x 0 then (if Req_EM_T e 0 then 1 else 0) else Rpower x e.

Lemma pypow_pos x e : 0 < x -> pypow x e = Rpower x e.
Proof. intros H. unfold pypow. destruct (Req_EM_T x 0); [lra|reflexivity]. Qed.

Lemma pypow_pos_exp x e : 0 < x -> pypow x e = exp (e * ln x).
Proof. intros H. rewrite pypow_pos by exact H. reflexivity. Qed.

Lemma pypow_gt0 x e : 0 < x -> 0 < pypow x e.
Proof. intros H. rewrite pypow_pos by exact H. apply exp_pos. Qed.

Lemma pypow_0_pos e : e <> 0 -> pypow 0 e = 0.
Proof. intros H. unfold pypow. destruct (Req_EM_T 0 0); [|lra].
  destruct (Req_EM_T e 0); [lra|reflexivity]. Qed.

Lemma pypow_nonneg x e : 0 <= x -> 0 <= pypow x e.
Proof. intros H. unfold pypow. destruct (Req_EM_T x 0).
  - destruct (Req_EM_T e 0); lra.
  - left. apply exp_pos. Qed.

(* ---- partial functions (a Python function that may raise) ---- *)
Definition obind {A B : Type} (o : option A) (f : A -> option B) : option B :=
  match o with Some a => f a | None => None end.
Notation "'dobind' x <- e ;; r" := (obind e (fun x => r))
  (at level 200, x pattern, e at level 100, r at level 200, right associativity).

Fixpoint all_some (l : list (option R)) : option (list R) :=
  match l with
  | [] => Some []
  | Some x :: t => match all_some t with Some r => Some (x :: r) | None => None end
  | None :: _ => None
  end.

(* ---- static helpers ---- *)
Definition Rmin3 (a b c : R) := Rmin a (Rmin b c).
Definition Rmax3 (a b c : R) := Rmax a (Rmax b c).
Definition pyclip (x lo hi : R) := Rmin (Rmax x lo) hi.   (* np.clip(x, lo, hi) *)

Lemma pyclip_range x lo hi : lo <= hi -> lo <= pyclip x lo hi <= hi.
Proof. intros H. unfold pyclip, Rmin, Rmax.
  destruct (Rle_dec x lo); destruct (Rle_dec _ hi); lra. Qed.
Lemma pyclip_id x lo hi : lo <= x <= hi -> pyclip x lo hi = x.
Proof. intros H. unfold pyclip, Rmin, Rmax.
  destruct (Rle_dec x lo); destruct (Rle_dec _ hi); lra. Qed.

(* ---- dynamic vectors (numpy 1-d float arrays) as lists ---- *)
Definition vmap2 (f : R -> R -> R) (a b : list R) : list R :=
  map (fun p => f (fst p) (snd p)) (combine a b).
Definition vadd := vmap2 Rplus.
Definition vsub := vmap2 Rminus.
Definition vmul := vmap2 Rmult.
Definition vdiv := vmap2 Rdiv.
Definition vneg (a : list R) := map Ropp a.
Definition sadd (s : R) (a : list R) := map (fun x => s + x) a.   (* s + a *)
Definition adds (a : list R) (s : R) := map (fun x => x + s) a.   (* a + s *)
Definition ssub (s : R) (a : list R) := map (fun x => s - x) a.
Definition subs (a : list R) (s : R) := map (fun x => x - s) a.
Definition smul (s : R) (a : list R) := map (fun x => s * x) a.
Definition muls (a : list R) (s : R) := map (fun x => x * s) a.
Definition sdiv (s : R) (a : list R) := map (fun x => s / x) a.
Definition divs (a : list R) (s : R) := map (fun x => x / s) a.
Definition vsum (a : list R) : R := fold_right Rplus 0 a.
Definition vlast (a : list R) : R := last a 0.                  (* a[-1] *)
Definition set_last (a : list R) (v : R) : list R :=            (* a[-1] = v *)
  match a with [] => [] | _ => removelast a ++ [v] end.
Definition set_first (a : list R) (v : R) : list R :=           (* a[0] = v *)
  match a with [] => [] | _ :: t => v :: t end.
Definition vfirst (a : list R) : R := hd 0 a.
Definition full (n : nat) (v : R) : list R := repeat v n.

(* np.arange(a, b, s), s > 0: ceil((b-a)/s) points a, a+s, ... *)
Definition ceilZ (x : R) : Z := (1 - up (- x))%Z.
Definition arange (a b s : R) : list R :=
  map (fun k => a + INR k * s) (seq 0 (Z.to_nat (ceilZ ((b - a) / s)))).

(* scipy.integrate.cumulative_trapezoid(y, x, initial=0): same length as y *)
Fixpoint cumtrapz_from (acc : R) (y x : list R) : list R :=
  match y, x with
  | y0 :: ((y1 :: _) as yt), x0 :: ((x1 :: _) as xt) =>
      let acc' := acc + (x1 - x0) * (y0 + y1) / 2 in
      acc' :: cumtrapz_from acc' yt xt
  | _, _ => []
  end.
Definition cumtrapz (y x : list R) : list R :=
  match y with [] => [] | _ => 0 :: cumtrapz_from 0 y x end.
