(* NumpyDtype: the fragment of numpy's array semantics that the array branches of the oil
   correlations rely on -- dtypes, result_type, the cast applied by a store into an existing
   array, and boolean-mask read / write -- and the theorem (masked_partition) that justifies
   py2coq's elementwise reading of `dest[m] = f(a[m])`.
   Float32 rounding is not modelled (cast to F32 is the identity on the reals): the property
   asks for agreement "to the precision of the floating type involved". *)
From Coq Require Import Reals List Lra Lia Bool ZArith.
Import ListNotations.
Open Scope R_scope.

Inductive dtype := I32 | I64 | F32 | F64.

Definition is_float (d : dtype) : bool := match d with F32 | F64 => true | _ => false end.

(* np.result_type for the two-operand cases that occur: ints promote to float64 with any float *)
Definition result_type (a b : dtype) : dtype :=
  match a, b with
  | F64, _ | _, F64 => F64
  | F32, F32 => F32
  | F32, _ | _, F32 => F64   (* int32/int64 with float32 -> float64 *)
  | I64, _ | _, I64 => I64
  | I32, I32 => I32
  end.

(* truncation toward zero, what a store of a float into an integer array does *)
Definition Rtrunc (x : R) : R :=
  if Rle_dec 0 x then IZR (up x - 1) else - IZR (up (- x) - 1).

Definition cast (d : dtype) (x : R) : R := if is_float d then x else Rtrunc x.

(* np.empty_like: arbitrary content; theorems must show it is never observed *)
Definition uninit : R := 0.

Lemma result_type_F32_is_float d : is_float (result_type d F32) = true.
Proof. destruct d; reflexivity. Qed.

Lemma cast_float d x : is_float d = true -> cast d x = x.
Proof. intros H. unfold cast. now rewrite H. Qed.

Lemma cast_result_F32 d x : cast (result_type d F32) x = x.
Proof. apply cast_float, result_type_F32_is_float. Qed.

(* an integer destination really truncates: the store is NOT the identity *)
Lemma cast_int_truncates : cast I64 (3 / 2) = 1 /\ cast I32 (3 / 2) = 1.
Proof.
  assert (E : Rtrunc (3 / 2) = 1).
  { unfold Rtrunc. destruct (Rle_dec 0 (3 / 2)); [|lra].
    assert (up (3 / 2) = 2%Z).
    { symmetry. apply tech_up; simpl; lra. }
    rewrite H. simpl. lra. }
  split; exact E.
Qed.

(* ---- boolean-mask read and write on lists ---- *)
Section Mask.
  Context {A : Type}.
  Fixpoint take_mask (mask : list bool) (xs : list A) : list A :=
    match mask, xs with
    | m :: ms, x :: xs' => if m then x :: take_mask ms xs' else take_mask ms xs'
    | _, _ => []
    end.
  (* dest[mask] = vals, each stored value converted by [cst] (the destination dtype's cast) *)
  Fixpoint set_mask (cst : A -> A) (dest : list A) (mask : list bool) (vals : list A) : list A :=
    match dest, mask with
    | d :: ds, m :: ms =>
        if m then match vals with
                  | v :: vs => cst v :: set_mask cst ds ms vs
                  | [] => d :: set_mask cst ds ms []
                  end
        else d :: set_mask cst ds ms vals
    | _, _ => dest
    end.

  (* one masked store of a function of the selected elements = an elementwise conditional store *)
  Theorem masked_store_elementwise cst (f : A -> A) : forall (p dest : list A) (c : A -> bool),
    length dest = length p ->
    set_mask cst dest (map c p) (map f (take_mask (map c p) p))
    = map (fun dp => if c (snd dp) then cst (f (snd dp)) else fst dp) (combine dest p).
  Proof.
    induction p as [|x p IH]; intros [|d dest] c Hl; simpl in *; try discriminate; auto.
    injection Hl as Hl. destruct (c x); simpl; rewrite IH by assumption; reflexivity.
  Qed.

  (* two complementary masked stores cover every slot: the destination's previous content
     (np.empty_like garbage) is never observed, for arrays of every length *)
  Theorem masked_partition cst (f_hi f_lo : A -> A) (c : A -> bool) (p dest : list A) :
    length dest = length p ->
    set_mask cst
      (set_mask cst dest (map c p) (map f_hi (take_mask (map c p) p)))
      (map (fun x => negb (c x)) p)
      (map f_lo (take_mask (map (fun x => negb (c x)) p) p))
    = map (fun x => cst (if c x then f_hi x else f_lo x)) p.
  Proof.
    revert dest. induction p as [|x p IH]; intros [|d dest] Hl; simpl in *; try discriminate; auto.
    injection Hl as Hl. destruct (c x); simpl; rewrite IH by assumption; reflexivity.
  Qed.
End Mask.
