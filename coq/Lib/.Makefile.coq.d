PyPrelude.vo PyPrelude.glob PyPrelude.v.beautified PyPrelude.required_vo: PyPrelude.v 
PyPrelude.vio: PyPrelude.v 
PyPrelude.vos PyPrelude.vok PyPrelude.required_vos: PyPrelude.v 
CertTac.vo CertTac.glob CertTac.v.beautified CertTac.required_vo: CertTac.v PyPrelude.vo
CertTac.vio: CertTac.v PyPrelude.vio
CertTac.vos CertTac.vok CertTac.required_vos: CertTac.v PyPrelude.vos
Analysis.vo Analysis.glob Analysis.v.beautified Analysis.required_vo: Analysis.v PyPrelude.vo
Analysis.vio: Analysis.v PyPrelude.vio
Analysis.vos Analysis.vok Analysis.required_vos: Analysis.v PyPrelude.vos
