PyPrelude.vo PyPrelude.glob PyPrelude.v.beautified PyPrelude.required_vo: PyPrelude.v 
PyPrelude.vio: PyPrelude.v 
PyPrelude.vos PyPrelude.vok PyPrelude.required_vos: PyPrelude.v 
CertTac.vo CertTac.glob CertTac.v.beautified CertTac.required_vo: CertTac.v PyPrelude.vo
CertTac.vio: CertTac.v PyPrelude.vio
CertTac.vos CertTac.vok CertTac.required_vos: CertTac.v PyPrelude.vos
Analysis.vo Analysis.glob Analysis.v.beautified Analysis.required_vo: Analysis.v PyPrelude.vo
Analysis.vio: Analysis.v PyPrelude.vio
Analysis.vos Analysis.vok Analysis.required_vos: Analysis.v PyPrelude.vos
MinPrinciple.vo MinPrinciple.glob MinPrinciple.v.beautified MinPrinciple.required_vo: MinPrinciple.v 
MinPrinciple.vio: MinPrinciple.v 
MinPrinciple.vos MinPrinciple.vok MinPrinciple.required_vos: MinPrinciple.v 
NumSig.vo NumSig.glob NumSig.v.beautified NumSig.required_vo: NumSig.v 
NumSig.vio: NumSig.v 
NumSig.vos NumSig.vok NumSig.required_vos: NumSig.v 
Tridiag.vo Tridiag.glob Tridiag.v.beautified Tridiag.required_vo: Tridiag.v NumSig.vo MinPrinciple.vo
Tridiag.vio: Tridiag.v NumSig.vio MinPrinciple.vio
Tridiag.vos Tridiag.vok Tridiag.required_vos: Tridiag.v NumSig.vos MinPrinciple.vos
Interp.vo Interp.glob Interp.v.beautified Interp.required_vo: Interp.v NumSig.vo
Interp.vio: Interp.v NumSig.vio
Interp.vos Interp.vok Interp.required_vos: Interp.v NumSig.vos
Reservoir.vo Reservoir.glob Reservoir.v.beautified Reservoir.required_vo: Reservoir.v NumSig.vo Tridiag.vo Interp.vo
Reservoir.vio: Reservoir.v NumSig.vio Tridiag.vio Interp.vio
Reservoir.vos Reservoir.vok Reservoir.required_vos: Reservoir.v NumSig.vos Tridiag.vos Interp.vos
FloatCmp.vo FloatCmp.glob FloatCmp.v.beautified FloatCmp.required_vo: FloatCmp.v NumSig.vo
FloatCmp.vio: FloatCmp.v NumSig.vio
FloatCmp.vos FloatCmp.vok FloatCmp.required_vos: FloatCmp.v NumSig.vos
ReservoirThms.vo ReservoirThms.glob ReservoirThms.v.beautified ReservoirThms.required_vo: ReservoirThms.v NumSig.vo MinPrinciple.vo Tridiag.vo Interp.vo Reservoir.vo
ReservoirThms.vio: ReservoirThms.v NumSig.vio MinPrinciple.vio Tridiag.vio Interp.vio Reservoir.vio
ReservoirThms.vos ReservoirThms.vok ReservoirThms.required_vos: ReservoirThms.v NumSig.vos MinPrinciple.vos Tridiag.vos Interp.vos Reservoir.vos
InterpThms.vo InterpThms.glob InterpThms.v.beautified InterpThms.required_vo: InterpThms.v NumSig.vo Interp.vo
InterpThms.vio: InterpThms.v NumSig.vio Interp.vio
InterpThms.vos InterpThms.vok InterpThms.required_vos: InterpThms.v NumSig.vos Interp.vos
ShiftThms.vo ShiftThms.glob ShiftThms.v.beautified ShiftThms.required_vo: ShiftThms.v NumSig.vo Tridiag.vo Interp.vo Reservoir.vo InterpThms.vo
ShiftThms.vio: ShiftThms.v NumSig.vio Tridiag.vio Interp.vio Reservoir.vio InterpThms.vio
ShiftThms.vos ShiftThms.vok ShiftThms.required_vos: ShiftThms.v NumSig.vos Tridiag.vos Interp.vos Reservoir.vos InterpThms.vos
FlowPropsThms.vo FlowPropsThms.glob FlowPropsThms.v.beautified FlowPropsThms.required_vo: FlowPropsThms.v NumSig.vo Tridiag.vo Interp.vo Reservoir.vo ReservoirThms.vo InterpThms.vo
FlowPropsThms.vio: FlowPropsThms.v NumSig.vio Tridiag.vio Interp.vio Reservoir.vio ReservoirThms.vio InterpThms.vio
FlowPropsThms.vos FlowPropsThms.vok FlowPropsThms.required_vos: FlowPropsThms.v NumSig.vos Tridiag.vos Interp.vos Reservoir.vos ReservoirThms.vos InterpThms.vos
ObjectSM.vo ObjectSM.glob ObjectSM.v.beautified ObjectSM.required_vo: ObjectSM.v 
ObjectSM.vio: ObjectSM.v 
ObjectSM.vos ObjectSM.vok ObjectSM.required_vos: ObjectSM.v 
SolverOracle.vo SolverOracle.glob SolverOracle.v.beautified SolverOracle.required_vo: SolverOracle.v NumSig.vo Tridiag.vo Reservoir.vo
SolverOracle.vio: SolverOracle.v NumSig.vio Tridiag.vio Reservoir.vio
SolverOracle.vos SolverOracle.vok SolverOracle.required_vos: SolverOracle.v NumSig.vos Tridiag.vos Reservoir.vos
DAK_spec.vo DAK_spec.glob DAK_spec.v.beautified DAK_spec.required_vo: DAK_spec.v 
DAK_spec.vio: DAK_spec.v 
DAK_spec.vos DAK_spec.vok DAK_spec.required_vos: DAK_spec.v 
Trapz.vo Trapz.glob Trapz.v.beautified Trapz.required_vo: Trapz.v PyPrelude.vo
Trapz.vio: Trapz.v PyPrelude.vio
Trapz.vos Trapz.vok Trapz.required_vos: Trapz.v PyPrelude.vos
Multiphase_spec.vo Multiphase_spec.glob Multiphase_spec.v.beautified Multiphase_spec.required_vo: Multiphase_spec.v 
Multiphase_spec.vio: Multiphase_spec.v 
Multiphase_spec.vos Multiphase_spec.vok Multiphase_spec.required_vos: Multiphase_spec.v 
NumpyDtype.vo NumpyDtype.glob NumpyDtype.v.beautified NumpyDtype.required_vo: NumpyDtype.v 
NumpyDtype.vio: NumpyDtype.v 
NumpyDtype.vos NumpyDtype.vok NumpyDtype.required_vos: NumpyDtype.v 
Plot.vo Plot.glob Plot.v.beautified Plot.required_vo: Plot.v NumSig.vo PyPrelude.vo
Plot.vio: Plot.v NumSig.vio PyPrelude.vio
Plot.vos Plot.vok Plot.required_vos: Plot.v NumSig.vos PyPrelude.vos
FitPressure.vo FitPressure.glob FitPressure.v.beautified FitPressure.required_vo: FitPressure.v NumSig.vo Tridiag.vo Interp.vo Reservoir.vo
FitPressure.vio: FitPressure.v NumSig.vio Tridiag.vio Interp.vio Reservoir.vio
FitPressure.vos FitPressure.vok FitPressure.required_vos: FitPressure.v NumSig.vos Tridiag.vos Interp.vos Reservoir.vos
ConvThms.vo ConvThms.glob ConvThms.v.beautified ConvThms.required_vo: ConvThms.v NumSig.vo MinPrinciple.vo Tridiag.vo Interp.vo Reservoir.vo ReservoirThms.vo
ConvThms.vio: ConvThms.v NumSig.vio MinPrinciple.vio Tridiag.vio Interp.vio Reservoir.vio ReservoirThms.vio
ConvThms.vos ConvThms.vok ConvThms.required_vos: ConvThms.v NumSig.vos MinPrinciple.vos Tridiag.vos Interp.vos Reservoir.vos ReservoirThms.vos
