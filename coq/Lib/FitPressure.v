(* FitPressure (C18): the pressure-history fitting objective as the library's own forward model
   (the same fp_init / sp_simulate / sp_recovery definitions the other properties are about), and
   the data preparation of fit_production_pressure (row filter, re-indexed time, cumulative
   production, parameter limits). *)
From Coq Require Import Reals List Lra Lia Arith Bool.
From BBLib Require Import NumSig Tridiag Interp Reservoir.
Import ListNotations.

Section Fit.
  Context {T : Type} (N : Num T).
  Local Notation "a +! b" := (nadd N a b) (at level 50, left associativity).
  Local Notation "a -! b" := (nsub N a b) (at level 50, left associativity).
  Local Notation "a *! b" := (nmul N a b) (at level 40, left associativity).
  Local Notation "a /! b" := (ndiv N a b) (at level 40, left associativity).

  (* _obj_function: M * recovery_factor(library simulation at tau, p_initial, schedule) - production;
     80 nodes, p_initial used for both constructor pressures; None where the library raises *)
  Definition objective (tb : table) (eighty : T) (days production pf : list T) (tau M p_init : T)
    : option (list T) :=
    match fp_init N tb p_init with
    | None => None
    | Some fp =>
        let t := map (fun d => d /! tau) days in
        match sp_simulate N fp 80 eighty t pf with
        | None => None
        | Some field =>
            let rf := sp_recovery N fp eighty false t field in
            Some (map (fun p => M *! fst p -! snd p) (combine rf production))
        end
    end.

  (* rows (gas, pressure) with a missing pressure as None *)
  Definition keep_row (r : T * option T) : bool :=
    match snd r with Some _ => nltb N (n0 N) (fst r) | None => false end.
  Definition filter_rows (rows : list (T * option T)) : list (T * option T) := filter keep_row rows.

  Fixpoint cumsum_from (acc : T) (l : list T) : list T :=
    match l with [] => [] | x :: t => let a := acc +! x in a :: cumsum_from a t end.
  Definition cumsum (l : list T) := cumsum_from (n0 N) l.
End Fit.

Open Scope R_scope.

(* the objective vanishes at the parameters that generated the data *)
Theorem objective_zero_at_truth (tb : table (T := R)) eighty days pf tau M p_init fp field :
  fp_init NumR tb p_init = Some fp ->
  sp_simulate NumR fp 80 eighty (map (fun d => d / tau) days) pf = Some field ->
  let rf := sp_recovery NumR fp eighty false (map (fun d => d / tau) days) field in
  objective NumR tb eighty days (map (fun r => M * r) rf) pf tau M p_init = Some (map (fun _ => 0) rf).
Proof.
  intros Hfp Hsim rf. unfold objective. rewrite Hfp. simpl ndiv. rewrite Hsim. fold rf. f_equal.
  induction rf as [|r t IH]; [reflexivity|]. cbn [map combine]. rewrite IH. f_equal. simpl. ring.
Qed.

(* rows without production or pressure are excluded, all others kept, order preserved *)
Theorem filter_rows_spec (rows : list (R * option R)) r :
  In r (filter_rows NumR rows) <-> In r rows /\ 0 < fst r /\ snd r <> None.
Proof.
  unfold filter_rows. rewrite filter_In. unfold keep_row. destruct r as [g [p|]]; simpl.
  - unfold Rltb. destruct (Rlt_dec 0 g); split; intros [H1 H2]; split; auto; try discriminate; try (split; [lra|discriminate]).
    destruct H2; contradiction.
  - split; intros [H1 H2]; [discriminate|]. destruct H2 as [_ H2]. contradiction.
Qed.

Lemma cumsum_from_length (l : list R) : forall acc, length (cumsum_from NumR acc l) = length l.
Proof. induction l; intros; simpl; [reflexivity|]. now rewrite IHl. Qed.

(* cumulative production is non-decreasing when every kept rate is positive *)
Lemma cumsum_from_increasing (l : list R) : forall acc, (forall x, In x l -> 0 < x) ->
  forall j, (j < length l)%nat -> acc < nth j (cumsum_from NumR acc l) 0.
Proof.
  induction l as [|x t IH]; intros acc Hpos j Hj; [simpl in Hj; lia|].
  assert (0 < x) by (apply Hpos; left; reflexivity).
  destruct j; simpl; [lra|].
  apply Rlt_trans with (acc + x); [lra|]. apply IH; [intros; apply Hpos; right; assumption|simpl in Hj; lia].
Qed.
