(* Plot (C20): what the plotting helpers draw, as pure functions of a simulated object, and the
   square-root axis transform.  Written over the numeric signature where it is executed against
   matplotlib's Line2D data by the correspondence check. *)
From Coq Require Import Reals List Lra Lia Arith Bool.
From BBLib Require Import NumSig PyPrelude.
Import ListNotations.

Section Plot.
  Context {T : Type} (N : Num T).
  Local Notation "a +! b" := (nadd N a b) (at level 50, left associativity).
  Local Notation "a -! b" := (nsub N a b) (at level 50, left associativity).
  Local Notation "a *! b" := (nmul N a b) (at level 40, left associativity).
  Local Notation "a /! b" := (ndiv N a b) (at level 40, left associativity).

  (* `for i, p in enumerate(field): if i % every == 0` *)
  Fixpoint select_from {A} (i every : nat) (l : list A) : list A :=
    match l with
    | [] => []
    | x :: t => if Nat.eqb (i mod every) 0 then x :: select_from (S i) every t else select_from (S i) every t
    end.
  Definition select_every {A} (every : nat) (l : list A) := select_from 0 every l.

  (* (p - p[0]) / (pinit - p[0]) *)
  Definition rescale_profile (pinit : T) (p : list T) : list T :=
    let p0 := hd (n0 N) p in map (fun v => (v -! p0) /! (pinit -! p0)) p.

  (* np.linspace(1/nx, 1, nx): start + j * step, step = (1 - 1/nx)/(nx - 1); last point exactly 1 *)
  Definition node_positions (nxT : T) (idx : list T) : list T :=
    let start := n1 N /! nxT in
    let step := (n1 N -! start) /! (nxT -! n1 N) in
    map (fun j => start +! j *! step) idx.

  (* np.gradient(y, x): second-order accurate in the interior on a non-uniform grid, first-order
     one-sided differences at both ends *)
  (* numpy's own arrangement: a f[i-1] + b f[i] + c f[i+1] with
     a = -dx2/(dx1 (dx1+dx2)), b = (dx2-dx1)/(dx1 dx2), c = dx1/(dx2 (dx1+dx2)) *)
  Definition grad_interior (xm x0 xp ym y0 yp : T) : T :=
    let dx1 := x0 -! xm in let dx2 := xp -! x0 in
    let a := nneg N dx2 /! (dx1 *! (dx1 +! dx2)) in
    let b := (dx2 -! dx1) /! (dx1 *! dx2) in
    let c := dx1 /! (dx2 *! (dx1 +! dx2)) in
    a *! ym +! b *! y0 +! c *! yp.
  Fixpoint grad_tail (xm x0 ym y0 : T) (xs ys : list T) : list T :=
    match xs, ys with
    | xp :: xt, yp :: yt => grad_interior xm x0 xp ym y0 yp :: grad_tail x0 xp y0 yp xt yt
    | _, _ => [(y0 -! ym) /! (x0 -! xm)]
    end.
  Definition gradient (y x : list T) : list T :=
    match x, y with
    | x0 :: x1 :: xt, y0 :: y1 :: yt => (y1 -! y0) /! (x1 -! x0) :: grad_tail x0 x1 y0 y1 xt yt
    | _, _ => []
    end.
End Plot.

(* ------------------------------------------------------------------------------------ *)
Open Scope R_scope.

(* exactly the profiles with index 0, k, 2k, ... (in order) *)
Lemma select_from_is_filter {A} (d : A) every : forall (l : list A) i,
  select_from i every l
  = map (fun j => nth (j - i) l d) (filter (fun j => Nat.eqb (j mod every) 0) (seq i (length l))).
Proof.
  induction l as [|x t IH]; intros i; [reflexivity|].
  cbn [select_from length seq filter]. rewrite IH.
  assert (E : forall js, Forall (fun j => (S i <= j)%nat) js ->
            map (fun j => nth (j - S i) t d) js = map (fun j => nth (j - i) (x :: t) d) js).
  { intros js Hjs. apply map_ext_in. intros j Hj. rewrite Forall_forall in Hjs. specialize (Hjs j Hj).
    replace (j - i)%nat with (S (j - S i)) by lia. reflexivity. }
  rewrite E.
  - destruct (Nat.eqb (i mod every) 0); [cbn [map]; now rewrite Nat.sub_diag|reflexivity].
  - apply Forall_forall. intros j Hj. apply filter_In in Hj. destruct Hj as [Hj _]. apply in_seq in Hj. lia.
Qed.

Theorem select_every_spec {A} (d : A) every (l : list A) :
  select_every every l
  = map (fun j => nth j l d) (filter (fun j => Nat.eqb (j mod every) 0) (seq 0 (length l))).
Proof.
  unfold select_every. rewrite (select_from_is_filter d). apply map_ext. intros j. now rewrite Nat.sub_0_r.
Qed.

Theorem selected_indices_are_the_multiples every n j : (0 < every)%nat ->
  In j (filter (fun j => Nat.eqb (j mod every) 0) (seq 0 n)) <-> (j < n)%nat /\ exists q, j = (q * every)%nat.
Proof.
  intros Hk. rewrite filter_In, in_seq. split.
  - intros [[_ Hj] Hm]. split; [lia|]. apply Nat.eqb_eq in Hm. exists (j / every)%nat.
    pose proof (Nat.div_mod j every ltac:(lia)). lia.
  - intros [Hj [q ->]]. split; [lia|]. apply Nat.eqb_eq. now apply Nat.mod_mul; lia.
Qed.

(* rescaled profile: 0 at the fracture side, 1 wherever the profile still has its initial value *)
Theorem rescale_endpoints pinit (p : list R) : p <> [] -> pinit <> hd 0 p ->
  nth 0 (rescale_profile NumR pinit p) 0 = 0 /\
  forall j, (j < length p)%nat -> nth j p 0 = pinit -> nth j (rescale_profile NumR pinit p) 0 = 1.
Proof.
  intros Hne Hp. unfold rescale_profile. cbv zeta. simpl n0.
  destruct p as [|p0 t]; [contradiction|]. simpl hd in *. split.
  - simpl. unfold Rdiv. ring.
  - intros j Hj Hv. assert (E : forall l k, (k < length l)%nat ->
        nth k (map (fun v => nsub NumR v p0 / nsub NumR pinit p0) l) 0 = (nth k l 0 - p0) / (pinit - p0)).
    { induction l as [|a l IH]; intros k Hk; [simpl in Hk; lia|]. destruct k; [reflexivity|]. simpl. apply IH. simpl in Hk. lia. }
    simpl ndiv. rewrite E by exact Hj. rewrite Hv. field. lra.
Qed.

(* np.gradient's interior stencil is exact for quadratics on any non-uniform grid, the end
   stencils are exact for straight lines *)
Theorem gradient_interior_exact_for_quadratics a b c xm x0 xp : xm < x0 -> x0 < xp ->
  let f := fun x => a * x ^ 2 + b * x + c in
  grad_interior NumR xm x0 xp (f xm) (f x0) (f xp) = 2 * a * x0 + b.
Proof. intros H1 H2 f. unfold grad_interior, f, nneg. simpl. field. repeat split; lra. Qed.

Theorem gradient_ends_exact_for_lines b c x0 x1 : x0 <> x1 ->
  ((b * x1 + c) - (b * x0 + c)) / (x1 - x0) = b.
Proof. intros. field. lra. Qed.

(* ---- square-root axis: the transform is the square root, and it and its inverse are exact
        mutual inverses on non-negative values ---- *)
Lemma pypow_half_is_sqrt a : 0 <= a -> pypow a (5 / 10) = sqrt a.
Proof.
  intros Ha. destruct (Req_EM_T a 0) as [->|Hne].
  - rewrite pypow_0_pos by lra. now rewrite sqrt_0.
  - rewrite pypow_pos by lra. replace (5 / 10) with (/ 2) by lra. now rewrite Rpower_sqrt by lra.
Qed.

Theorem sqrt_axis_inverse_pair a : 0 <= a ->
  (pypow a (5 / 10)) ^ 2 = a /\ pypow (a ^ 2) (5 / 10) = a.
Proof.
  intros Ha. split.
  - rewrite pypow_half_is_sqrt by exact Ha. simpl. rewrite Rmult_1_r. now apply sqrt_sqrt.
  - rewrite pypow_half_is_sqrt by (apply pow2_ge_0). replace (a ^ 2) with (a * a) by ring. now apply sqrt_square.
Qed.
