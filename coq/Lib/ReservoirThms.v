(* ReservoirThms: theorems about the R instance of the reservoir model (C01, C04, C17).
   A step is specified relationally: [new] is a step from [prev] when the matrix built from
   prev applied to new equals the right-hand side built from prev -- exactly the linear system
   the code hands to its solver.  By step_unique the relation is functional. *)
From Coq Require Import Reals List Lra Lia Arith Bool.
From BBLib Require Import NumSig MinPrinciple Tridiag Interp Reservoir.
Import ListNotations.
Open Scope R_scope.

Lemma nth_map_lt {A B} (f : A -> B) (l : list A) j d d' :
  (j < length l)%nat -> nth j (map f l) d' = f (nth j l d).
Proof. intros H. rewrite (nth_indep _ d' (f d)) by (rewrite map_length; exact H). apply map_nth. Qed.

Definition all_ge (lo : R) (l : list R) := forall j, (j < length l)%nat -> lo <= nth j l 0.
Definition all_le (hi : R) (l : list R) := forall j, (j < length l)%nat -> nth j l 0 <= hi.
Definition nondecr (l : list R) := forall j, (S j < length l)%nat -> nth j l 0 <= nth (S j) l 0.

(* discretely superharmonic with the ghost conventions of the ideal step (0 at the frac face, mirror at
   the outer boundary): every node is at least the mean of its neighbours *)
Definition superharm (l : list R) := forall j, (1 <= j <= length l)%nat ->
  0 <= 2 * ghostU 0 l j - ghostU 0 l (j-1)%nat - ghostU 0 l (j+1)%nat.
Definition pointwise_le (a b : list R) := forall j, (j < length a)%nat -> nth j a 0 <= nth j b 0.

(* excess over the frac-face value g bounded by C times the barrier phi (MinPrinciple) *)
Definition excess_le (g C : R) (l : list R) := forall j, (j < length l)%nat ->
  nth j l 0 - g <= C * phi (length l) (S j).

Lemma set_first_length (l : list R) v : length (set_first l v) = length l.
Proof. destruct l; reflexivity. Qed.
Lemma nth_set_first (l : list R) v j : (j < length l)%nat ->
  nth j (set_first l v) 0 = if Nat.eqb j 0 then v else nth j l 0.
Proof. destruct l; simpl; [lia|]. destruct j; reflexivity. Qed.

(* ------------------------------------------------------------------------------------ *)
Section Single.
  Variable alpha_s : R -> R.
  Hypothesis alpha_nonneg : forall v, 0 <= alpha_s v.
  Variable m_i : R.

  Definition SingleStep (m_f mesh : R) (prev new : list R) : Prop :=
    length new = length prev /\
    let b0 := single_b0 NumR m_i m_f prev in
    mv NumR 0 (rows_of NumR (single_k NumR alpha_s mesh b0)) new = single_rhs NumR alpha_s m_f mesh b0.

  Section OneStep.
    Variables m_f mesh : R.
    Variables prev new : list R.
    Hypothesis Hmesh : 0 <= mesh.
    Hypothesis Hn : (1 <= length prev)%nat.
    Hypothesis Hstep : SingleStep m_f mesh prev new.
    Let b0 := single_b0 NumR m_i m_f prev.
    Let k := single_k NumR alpha_s mesh b0.
    Let rhs := single_rhs NumR alpha_s m_f mesh b0.
    Let n := length prev.

    Lemma b0_length : length b0 = n.
    Proof. unfold b0, single_b0. now rewrite set_first_length, map_length. Qed.
    Lemma k_length : length k = n.
    Proof. unfold k, single_k. rewrite map_length. apply b0_length. Qed.
    Lemma rhs_length : length rhs = n.
    Proof. unfold rhs, single_rhs. rewrite set_first_length. apply b0_length. Qed.

    Lemma nth_b0 j : (j < n)%nat ->
      nth j b0 0 = if Nat.eqb j 0 then m_f else Rmin (nth j prev 0) m_i.
    Proof.
      intros Hj. unfold b0, single_b0. rewrite nth_set_first by (rewrite map_length; exact Hj).
      destruct (Nat.eqb j 0); [reflexivity|].
      rewrite (nth_map_lt _ _ _ 0) by exact Hj. apply nmin_R.
    Qed.

    Lemma nth_k j : (j < n)%nat -> nth j k 0 = mesh * alpha_s (nth j b0 0).
    Proof. intros Hj. unfold k, single_k. rewrite (nth_map_lt _ _ _ 0) by (rewrite b0_length; exact Hj). reflexivity. Qed.

    Lemma k_nonneg j : (1 <= j <= n)%nat -> 0 <= ghostK k j.
    Proof. intros Hj. unfold ghostK. rewrite nth_k by lia. apply Rmult_le_pos; auto. Qed.

    Lemma single_sys :
      Sys n (ghostK k) (ghostB m_f k rhs) (ghostU m_f new) m_f.
    Proof.
      destruct Hstep as [Hl Hmv]. fold b0 in Hmv. fold k in Hmv. fold rhs in Hmv.
      pose proof (Sys_of_lists m_f k new rhs) as HS0.
      rewrite k_length in HS0. apply HS0; [exact Hn | exact Hl | exact Hmv].
    Qed.

    (* the ghost right-hand side: m_f in the first row (the code's b[0] minus k0 * m_f),
       min(prev_j, m_i) elsewhere *)
    Lemma ghostB_val j : (1 <= j <= n)%nat ->
      ghostB m_f k rhs j = if Nat.eqb j 1 then m_f else Rmin (nth (j-1) prev 0) m_i.
    Proof.
      intros Hj. unfold ghostB. destruct (Nat.eqb_spec j 1) as [->|Hne].
      - unfold rhs, single_rhs. rewrite nth_set_first by (rewrite b0_length; lia). simpl Nat.eqb. cbv iota.
        rewrite nth_k by lia.
        replace (hd (n0 NumR) b0) with (nth 0 b0 0) by (destruct b0; reflexivity).
        simpl. ring.
      - unfold rhs, single_rhs. rewrite nth_set_first by (rewrite b0_length; lia).
        destruct (Nat.eqb_spec (j-1) 0); [lia|]. rewrite nth_b0 by lia.
        destruct (Nat.eqb_spec (j-1) 0); [lia|]. reflexivity.
    Qed.

    Lemma ghostU_val j : (1 <= j <= n)%nat -> ghostU m_f new j = nth (j-1) new 0.
    Proof.
      intros Hj. destruct Hstep as [Hl _]. unfold ghostU. destruct j; [lia|].
      rewrite Hl. fold n. destruct (Nat.ltb_spec j n); [|lia]. now replace (S j - 1)%nat with j by lia.
    Qed.

    (* C01: one step keeps every node between the lower bound of its data and m_i *)
    Theorem single_step_bounds lo :
      lo <= m_f -> m_f <= m_i -> all_ge lo prev ->
      all_ge lo new /\ all_le m_i new.
    Proof.
      intros Hlo Hhi Hprev. pose proof single_sys as HSys.
      destruct Hstep as [Hl _].
      split; intros j Hj; rewrite Hl in Hj; fold n in Hj.
      - replace j with (S j - 1)%nat by lia. rewrite <- ghostU_val by lia.
        apply (step_lower n Hn (ghostK k) (ghostB m_f k rhs) (ghostU m_f new) m_f k_nonneg HSys lo Hlo); [|lia].
        intros i Hi. rewrite ghostB_val by exact Hi.
        destruct (Nat.eqb i 1); [exact Hlo|].
        apply Rmin_glb; [apply Hprev; fold n; lia | lra].
      - replace j with (S j - 1)%nat by lia. rewrite <- ghostU_val by lia.
        apply (step_upper n (ghostK k) (ghostB m_f k rhs) (ghostU m_f new) m_f m_i Hn k_nonneg HSys Hhi); [|lia].
        intros i Hi. rewrite ghostB_val by exact Hi.
        destruct (Nat.eqb i 1); [exact Hhi|]. apply Rmin_r.
    Qed.

    (* C01: a non-decreasing previous profile (at or above m_f) gives a non-decreasing new one
       that starts at or above the frac-face value *)
    Theorem single_step_monotone :
      m_f <= m_i -> all_ge m_f prev -> nondecr prev ->
      m_f <= nth 0 new 0 /\ nondecr new.
    Proof.
      intros Hhi Hge Hmono. pose proof single_sys as HSys. destruct Hstep as [Hl _].
      assert (M : forall j, (j <= n)%nat -> ghostU m_f new j <= ghostU m_f new (S j)).
      { apply (step_monotone n (ghostK k) (ghostB m_f k rhs) (ghostU m_f new) m_f Hn k_nonneg HSys).
        - rewrite ghostB_val by lia. simpl. lra.
        - intros j Hj. rewrite !ghostB_val by lia.
          destruct (Nat.eqb_spec j 1) as [->|Hj1].
          + simpl Nat.eqb. cbv iota. apply Rmin_glb; [apply Hge; fold n; lia | exact Hhi].
          + destruct (Nat.eqb_spec (S j) 1); [lia|].
            replace (S j - 1)%nat with (S (j - 1)) by lia.
            apply Rle_min_compat_r. apply Hmono. fold n. lia. }
      split.
      - specialize (M 0%nat ltac:(lia)). rewrite (ghostU_val 1) in M by lia. exact M.
      - intros j Hj. rewrite Hl in Hj. fold n in Hj.
        specialize (M (S j) ltac:(lia)). rewrite !ghostU_val in M by lia.
        replace (S j - 1)%nat with j in M by lia. replace (S (S j) - 1)%nat with (S j) in M by lia. exact M.
    Qed.

    (* C01, relaxation: with diffusivity at least amin the excess over the frac-face value shrinks by
       the factor n(n+1)/(n(n+1) + 2 mesh amin) in the barrier norm, whatever the step size *)
    Theorem single_step_relax amin C :
      0 <= amin -> (forall v, amin <= alpha_s v) -> 0 <= C -> excess_le m_f C prev ->
      excess_le m_f (relax_factor n (mesh * amin) * C) new.
    Proof.
      intros Ha Hamin HC Hex. pose proof single_sys as HSys. destruct Hstep as [Hl _].
      intros j Hj. rewrite Hl in *. fold n in Hj |- *.
      replace (nth j new 0) with (ghostU m_f new (S j)) by (rewrite ghostU_val by lia; f_equal; lia).
      apply (step_relax n (ghostK k) (ghostB m_f k rhs) (ghostU m_f new) m_f (mesh * amin) C Hn).
      - apply Rmult_le_pos; assumption.
      - intros i Hi. unfold ghostK. rewrite nth_k by lia. apply Rmult_le_compat_l; [exact Hmesh|apply Hamin].
      - exact HSys.
      - exact HC.
      - intros i Hi. rewrite ghostB_val by exact Hi.
        destruct (phi_bounds n i ltac:(lia)) as [Hp _].
        destruct (Nat.eqb_spec i 1) as [->|Hi1].
        + assert (0 <= C * phi n 1) by (apply Rmult_le_pos; assumption). lra.
        + specialize (Hex (i-1)%nat ltac:(fold n; lia)). fold n in Hex.
          replace (S (i-1)) with i in Hex by lia.
          pose proof (Rmin_l (nth (i-1) prev 0) m_i). lra.
      - lia.
    Qed.
  End OneStep.

  (* C01: the constant profile at the frac-face value is the fixed point of every step,
     whatever the mesh ratio, and it is the only solution of that step *)
  Theorem single_fixed_point m_f mesh (n : nat) :
    (1 <= n)%nat -> 0 <= mesh -> m_f <= m_i ->
    forall new, SingleStep m_f mesh (repeat m_f n) new -> forall j, (j < n)%nat -> nth j new 0 = m_f.
  Proof.
    intros Hn Hmesh Hle new Hstep j Hj.
    assert (Hlen : length (repeat m_f n) = n) by apply repeat_length.
    assert (Hn' : (1 <= length (repeat m_f n))%nat) by (rewrite Hlen; exact Hn).
    pose proof (single_sys m_f mesh (repeat m_f n) new Hn' Hstep) as HSys. rewrite Hlen in HSys.
    set (b0 := single_b0 NumR m_i m_f (repeat m_f n)) in *.
    set (k := single_k NumR alpha_s mesh b0) in *.
    set (rhs := single_rhs NumR alpha_s m_f mesh b0) in *.
    assert (HB : forall i, (1 <= i <= n)%nat -> ghostB m_f k rhs i = m_f).
    { intros i Hi. unfold k, rhs, b0. rewrite ghostB_val by (rewrite ?Hlen; auto).
      destruct (Nat.eqb i 1); [reflexivity|].
      rewrite (nth_indep _ 0 m_f) by (rewrite Hlen; lia). rewrite nth_repeat. now apply Rmin_left. }
    assert (S2 : Sys n (ghostK k) (fun _ => m_f) (ghostU m_f new) m_f).
    { destruct HSys as [A [B C]]. split; [exact A|]. split; [exact B|]. intros i Hi.
      specialize (C i Hi). unfold Row in *. rewrite HB in C by exact Hi. exact C. }
    assert (HK : forall i, (1 <= i <= n)%nat -> 0 <= ghostK k i).
    { intros i Hi. unfold k, b0. apply k_nonneg; rewrite ?Hlen; auto. }
    pose proof (step_unique n (ghostK k) (fun _ => m_f) (ghostU m_f new) (fun _ => m_f) m_f Hn HK S2
                  (step_fixed_point n (ghostK k) m_f) (S j) ltac:(lia)) as E.
    rewrite (ghostU_val m_f mesh (repeat m_f n) new Hn' Hstep) in E by (rewrite Hlen; lia).
    now replace (S j - 1)%nat with j in E by lia.
  Qed.

  (* ---- the whole time loop, relationally ---- *)
  Fixpoint RunSingle (dx2 : R) (times mf : list R) (prev : list R) (rest : list (list R)) : Prop :=
    match times, mf with
    | t0 :: ((t1 :: _) as tt), f0 :: ft =>
        match rest with
        | nxt :: rs => SingleStep f0 ((t1 - t0) / dx2) prev nxt /\ RunSingle dx2 tt ft nxt rs
        | [] => False
        end
    | _, _ => rest = []
    end.

  (* every value of every later profile lies between the lowest frac-face value applied so
     far (running minimum, started at [lo]) and m_i *)
  Fixpoint RunBound (lo : R) (mf : list R) (rest : list (list R)) : Prop :=
    match rest, mf with
    | nxt :: rs, f0 :: ft =>
        (all_ge (Rmin lo f0) nxt /\ all_le m_i nxt) /\ RunBound (Rmin lo f0) ft rs
    | _, _ => True
    end.

  Fixpoint sorted_times (times : list R) : Prop :=
    match times with
    | t0 :: ((t1 :: _) as tt) => t0 <= t1 /\ sorted_times tt
    | _ => True
    end.

  Theorem simulate_single_bounds dx2 : 0 < dx2 ->
    forall times mf prev rest lo,
      sorted_times times -> (forall f, In f mf -> f <= m_i) ->
      (1 <= length prev)%nat -> all_ge lo prev ->
      RunSingle dx2 times mf prev rest -> RunBound lo mf rest.
  Proof.
    intros Hdx times. induction times as [|t0 tt IH]; intros mf prev rest lo Hs Hmf Hn Hlo Hrun.
    - simpl in Hrun. subst rest. destruct mf; exact I.
    - destruct tt as [|t1 tt'].
      + simpl in Hrun. assert (rest = []) by (destruct mf; exact Hrun). subst rest. destruct mf; exact I.
      + destruct mf as [|f0 ft]; [simpl in Hrun; subst rest; exact I|].
        destruct rest as [|nxt rs]; [exact I|].
        simpl in Hrun. destruct Hrun as [Hstep Hrest]. destruct Hs as [Ht Hs'].
        assert (Hmesh : 0 <= (t1 - t0) / dx2).
        { apply Rmult_le_pos; [lra|]. left. now apply Rinv_0_lt_compat. }
        assert (Hf0 : f0 <= m_i) by (apply Hmf; left; reflexivity).
        assert (Hprev' : all_ge (Rmin lo f0) prev).
        { intros j Hj. specialize (Hlo j Hj). pose proof (Rmin_l lo f0). lra. }
        pose proof (single_step_bounds f0 _ prev nxt Hmesh Hn Hstep (Rmin lo f0) (Rmin_r lo f0) Hf0 Hprev') as Hb.
        simpl. split; [exact Hb|].
        apply (IH ft nxt rs (Rmin lo f0)).
        * exact Hs'.
        * intros f Hf. apply Hmf. right. exact Hf.
        * destruct Hstep as [Hl _]. rewrite Hl. exact Hn.
        * exact (proj1 Hb).
        * exact Hrest.
  Qed.
  (* constant drawdown at m_f: every stored level's excess is bounded by the running product of the
     relaxation factors *)
  Fixpoint RunRelax (g C amin dx2 : R) (n : nat) (times : list R) (rest : list (list R)) : Prop :=
    match times, rest with
    | t0 :: ((t1 :: _) as tt), nxt :: rs =>
        let C' := relax_factor n ((t1 - t0) / dx2 * amin) * C in
        excess_le g C' nxt /\ RunRelax g C' amin dx2 n tt rs
    | _, _ => True
    end.

  Theorem simulate_single_relax dx2 amin m_f : 0 < dx2 -> 0 <= amin -> (forall v, amin <= alpha_s v) ->
    forall times mf prev rest C,
      sorted_times times -> (forall f, In f mf -> f = m_f) ->
      (1 <= length prev)%nat -> 0 <= C -> excess_le m_f C prev ->
      RunSingle dx2 times mf prev rest -> RunRelax m_f C amin dx2 (length prev) times rest.
  Proof.
    intros Hdx Ha Hamin times. induction times as [|t0 tt IH]; intros mf prev rest C Hs Hmf Hn HC Hex Hrun.
    - exact I.
    - destruct tt as [|t1 tt']; [exact I|].
      destruct rest as [|nxt rs]; [exact I|].
      destruct mf as [|f0 ft]; [simpl in Hrun; discriminate|].
      simpl in Hrun. destruct Hrun as [Hstep Hrest]. destruct Hs as [Ht Hs'].
      assert (Hmesh : 0 <= (t1 - t0) / dx2).
      { apply Rmult_le_pos; [lra|]. left. now apply Rinv_0_lt_compat. }
      assert (Hf0 : f0 = m_f) by (apply Hmf; left; reflexivity). subst f0.
      pose proof (single_step_relax m_f _ prev nxt Hmesh Hn Hstep amin C Ha Hamin HC Hex) as Hr.
      cbn [RunRelax]. split; [exact Hr|].
      destruct (relax_factor_bounds (length prev) ((t1 - t0) / dx2 * amin) Hn ltac:(apply Rmult_le_pos; assumption)) as [Hr0 _].
      assert (Hlen : length nxt = length prev) by (destruct Hstep as [Hl _]; exact Hl).
      rewrite <- Hlen.
      apply (IH ft nxt rs).
      + exact Hs'.
      + intros f Hf. apply Hmf. right. exact Hf.
      + rewrite Hlen. exact Hn.
      + rewrite Hlen. apply Rmult_le_pos; lra.
      + rewrite Hlen. exact Hr.
      + exact Hrest.
  Qed.
End Single.

(* ------------------------------------------------------------------------------------ *)
(* Ideal reservoir: unit scaled diffusivity, frac-face value 0 folded into the first row *)
Section Ideal.
  Definition IdealStep (mesh : R) (prev new : list R) : Prop :=
    length new = length prev /\
    mv NumR 0 (rows_of NumR (map (fun _ => mesh * 1) prev)) new = prev.

  Section OneStep.
    Variable mesh : R.
    Variables prev new : list R.
    Hypothesis Hmesh : 0 <= mesh.
    Hypothesis Hn : (1 <= length prev)%nat.
    Hypothesis Hstep : IdealStep mesh prev new.
    Let k := map (fun _ : R => mesh * 1) prev.
    Let n := length prev.

    Lemma ik_length : length k = n. Proof. unfold k. apply map_length. Qed.
    Lemma ik_nonneg j : (1 <= j <= n)%nat -> 0 <= ghostK k j.
    Proof. intros Hj. unfold ghostK, k. rewrite (nth_map_lt _ _ _ 0) by (fold n; lia). lra. Qed.
    Lemma ideal_sys : Sys n (ghostK k) (ghostB 0 k prev) (ghostU 0 new) 0.
    Proof.
      destruct Hstep as [Hl Hmv]. fold k in Hmv.
      pose proof (Sys_of_lists 0 k new prev) as HS0. rewrite ik_length in HS0.
      apply HS0; [exact Hn | exact Hl | exact Hmv].
    Qed.
    Lemma ighostB_val j : (1 <= j <= n)%nat -> ghostB 0 k prev j = nth (j-1) prev 0.
    Proof. intros Hj. unfold ghostB. destruct (Nat.eqb_spec j 1) as [->|]; [simpl; ring|reflexivity]. Qed.
    Lemma ighostU_val j : (1 <= j <= n)%nat -> ghostU 0 new j = nth (j-1) new 0.
    Proof.
      intros Hj. destruct Hstep as [Hl _]. unfold ghostU. destruct j; [lia|].
      rewrite Hl. fold n. destruct (Nat.ltb_spec j n); [|lia]. now replace (S j - 1)%nat with j by lia.
    Qed.

    Theorem ideal_step_bounds hi : 0 <= hi -> all_ge 0 prev -> all_le hi prev ->
      all_ge 0 new /\ all_le hi new.
    Proof.
      intros Hhi Hlo Hup. pose proof ideal_sys as HSys. destruct Hstep as [Hl _].
      split; intros j Hj; rewrite Hl in Hj; fold n in Hj;
        replace j with (S j - 1)%nat by lia; rewrite <- ighostU_val by lia.
      - apply (step_lower n Hn (ghostK k) (ghostB 0 k prev) (ghostU 0 new) 0 ik_nonneg HSys 0 (Rle_refl 0)); [|lia].
        intros i Hi. rewrite ighostB_val by exact Hi. apply Hlo. fold n. lia.
      - apply (step_upper n (ghostK k) (ghostB 0 k prev) (ghostU 0 new) 0 hi Hn ik_nonneg HSys Hhi); [|lia].
        intros i Hi. rewrite ighostB_val by exact Hi. apply Hup. fold n. lia.
    Qed.

    Theorem ideal_step_monotone : all_ge 0 prev -> nondecr prev ->
      0 <= nth 0 new 0 /\ nondecr new.
    Proof.
      intros Hge Hmono. pose proof ideal_sys as HSys. destruct Hstep as [Hl _].
      assert (M : forall j, (j <= n)%nat -> ghostU 0 new j <= ghostU 0 new (S j)).
      { apply (step_monotone n (ghostK k) (ghostB 0 k prev) (ghostU 0 new) 0 Hn ik_nonneg HSys).
        - rewrite ighostB_val by lia. apply Hge. fold n. lia.
        - intros j Hj. rewrite !ighostB_val by lia. replace (S j - 1)%nat with (S (j - 1)) by lia.
          apply Hmono. fold n. lia. }
      split.
      - specialize (M 0%nat ltac:(lia)). rewrite (ighostU_val 1) in M by lia. exact M.
      - intros j Hj. rewrite Hl in Hj. fold n in Hj.
        specialize (M (S j) ltac:(lia)). rewrite !ighostU_val in M by lia.
        replace (S j - 1)%nat with j in M by lia. replace (S (S j) - 1)%nat with (S j) in M by lia. exact M.
    Qed.

    Theorem ideal_step_relax C : 0 <= C -> excess_le 0 C prev ->
      excess_le 0 (relax_factor n mesh * C) new.
    Proof.
      intros HC Hex. pose proof ideal_sys as HSys. destruct Hstep as [Hl _].
      intros j Hj. rewrite Hl in *. fold n in Hj |- *.
      replace (nth j new 0) with (ghostU 0 new (S j)) by (rewrite ighostU_val by lia; f_equal; lia).
      apply (step_relax n (ghostK k) (ghostB 0 k prev) (ghostU 0 new) 0 mesh C Hn).
      - exact Hmesh.
      - intros i Hi. unfold ghostK, k. rewrite (nth_map_lt _ _ _ 0) by (fold n; lia). lra.
      - exact HSys.
      - exact HC.
      - intros i Hi. rewrite ighostB_val by exact Hi.
        specialize (Hex (i-1)%nat ltac:(fold n; lia)). fold n in Hex.
        now replace (S (i-1)) with i in Hex by lia.
      - lia.
    Qed.

    (* monotone in time: a discretely superharmonic level is followed by a lower, superharmonic one *)
    Lemma ighostU_prev j : (1 <= j <= n)%nat -> ghostU 0 prev j = nth (j-1) prev 0.
    Proof.
      intros Hj. unfold ghostU. destruct j; [lia|]. fold n.
      destruct (Nat.ltb_spec j n); [|lia]. now replace (S j - 1)%nat with j by lia.
    Qed.

    Theorem ideal_step_time_monotone : superharm prev -> pointwise_le new prev /\ superharm new.
    Proof.
      intros Hsh. pose proof ideal_sys as HSys. destruct Hstep as [Hl _].
      destruct (step_time_monotone n (mesh * 1) (ghostK k) (ghostB 0 k prev) (ghostU 0 prev) (ghostU 0 new) Hn)
        as [Hle Hsh'].
      - lra.
      - intros j Hj. unfold ghostK, k. rewrite (nth_map_lt _ _ _ 0) by (fold n; lia). reflexivity.
      - exact HSys.
      - reflexivity.
      - unfold ghostU. fold n. destruct (Nat.ltb_spec n n); [lia|].
        destruct n as [|i] eqn:En; [lia|]. destruct (Nat.ltb_spec i (S i)); [|lia].
        now replace (S i - 1)%nat with i by lia.
      - intros j Hj. rewrite ighostU_prev, ighostB_val by exact Hj. reflexivity.
      - intros j Hj. apply Hsh. fold n. exact Hj.
      - split.
        + intros j Hj. rewrite Hl in Hj. fold n in Hj.
          specialize (Hle (S j) ltac:(lia)). rewrite ighostU_val, ighostU_prev in Hle by lia.
          now replace (S j - 1)%nat with j in Hle by lia.
        + intros j Hj. rewrite Hl in Hj. fold n in Hj. apply Hsh'. exact Hj.
    Qed.
  End OneStep.

  Fixpoint decreasing_chain (prev : list R) (rest : list (list R)) : Prop :=
    match rest with
    | [] => True
    | x :: rs => pointwise_le x prev /\ decreasing_chain x rs
    end.

  Fixpoint RunIdeal (dx2 : R) (times : list R) (prev : list R) (rest : list (list R)) : Prop :=
    match times with
    | t0 :: ((t1 :: _) as tt) =>
        match rest with
        | nxt :: rs => IdealStep ((t1 - t0) / dx2) prev nxt /\ RunIdeal dx2 tt nxt rs
        | [] => False
        end
    | _ => rest = []
    end.

  Theorem simulate_ideal_bounds dx2 : 0 < dx2 ->
    forall times prev rest, sorted_times times -> (1 <= length prev)%nat ->
      all_ge 0 prev -> all_le 1 prev -> RunIdeal dx2 times prev rest ->
      Forall (fun prof => all_ge 0 prof /\ all_le 1 prof) rest.
  Proof.
    intros Hdx times. induction times as [|t0 tt IH]; intros prev rest Hs Hn Hlo Hhi Hrun.
    - simpl in Hrun. subst rest. constructor.
    - destruct tt as [|t1 tt'].
      + simpl in Hrun. subst rest. constructor.
      + destruct rest as [|nxt rs]; [constructor|].
        simpl in Hrun. destruct Hrun as [Hstep Hrest]. destruct Hs as [Ht Hs'].
        assert (Hmesh : 0 <= (t1 - t0) / dx2).
        { apply Rmult_le_pos; [lra|]. left. now apply Rinv_0_lt_compat. }
        pose proof (ideal_step_bounds _ prev nxt Hmesh Hn Hstep 1 ltac:(lra) Hlo Hhi) as Hb.
        constructor; [exact Hb|].
        apply (IH nxt rs Hs'); [destruct Hstep as [Hl _]; rewrite Hl; exact Hn | apply Hb | apply Hb | exact Hrest].
  Qed.
  Theorem simulate_ideal_time_monotone dx2 : 0 < dx2 ->
    forall times prev rest, sorted_times times -> (1 <= length prev)%nat ->
      superharm prev -> RunIdeal dx2 times prev rest -> decreasing_chain prev rest.
  Proof.
    intros Hdx times. induction times as [|t0 tt IH]; intros prev rest Hs Hn Hsh Hrun.
    - simpl in Hrun. subst rest. exact I.
    - destruct tt as [|t1 tt'].
      + simpl in Hrun. subst rest. exact I.
      + destruct rest as [|nxt rs]; [exact I|].
        simpl in Hrun. destruct Hrun as [Hstep Hrest]. destruct Hs as [Ht Hs'].
        assert (Hmesh : 0 <= (t1 - t0) / dx2).
        { apply Rmult_le_pos; [lra|]. left. now apply Rinv_0_lt_compat. }
        destruct (ideal_step_time_monotone _ prev nxt Hmesh Hn Hstep Hsh) as [Hle Hsh'].
        split; [exact Hle|].
        apply (IH nxt rs Hs'); [destruct Hstep as [Hl _]; rewrite Hl; exact Hn | exact Hsh' | exact Hrest].
  Qed.
  Fixpoint RunRelaxIdeal (C dx2 : R) (n : nat) (times : list R) (rest : list (list R)) : Prop :=
    match times, rest with
    | t0 :: ((t1 :: _) as tt), nxt :: rs =>
        let C' := relax_factor n ((t1 - t0) / dx2) * C in
        excess_le 0 C' nxt /\ RunRelaxIdeal C' dx2 n tt rs
    | _, _ => True
    end.

  Theorem simulate_ideal_relax dx2 : 0 < dx2 ->
    forall times prev rest C, sorted_times times -> (1 <= length prev)%nat -> 0 <= C ->
      excess_le 0 C prev -> RunIdeal dx2 times prev rest -> RunRelaxIdeal C dx2 (length prev) times rest.
  Proof.
    intros Hdx times. induction times as [|t0 tt IH]; intros prev rest C Hs Hn HC Hex Hrun.
    - exact I.
    - destruct tt as [|t1 tt']; [exact I|].
      destruct rest as [|nxt rs]; [exact I|].
      simpl in Hrun. destruct Hrun as [Hstep Hrest]. destruct Hs as [Ht Hs'].
      assert (Hmesh : 0 <= (t1 - t0) / dx2).
      { apply Rmult_le_pos; [lra|]. left. now apply Rinv_0_lt_compat. }
      pose proof (ideal_step_relax _ prev nxt Hmesh Hn Hstep C HC Hex) as Hr.
      cbn [RunRelaxIdeal]. split; [exact Hr|].
      destruct (relax_factor_bounds (length prev) ((t1 - t0) / dx2) Hn Hmesh) as [Hr0 _].
      assert (Hlen : length nxt = length prev) by (destruct Hstep as [Hl _]; exact Hl).
      rewrite <- Hlen.
      apply (IH nxt rs); [exact Hs' | rewrite Hlen; exact Hn | rewrite Hlen; apply Rmult_le_pos; lra | rewrite Hlen; exact Hr | exact Hrest].
  Qed.
End Ideal.

(* ------------------------------------------------------------------------------------ *)
(* The executable model (Thomas solve) satisfies the relational specification, so every
   theorem above is a theorem about what [simulate_single NumR] / [simulate_ideal NumR] return. *)
Section Functional.
  Variable alpha_s : R -> R.
  Hypothesis alpha_nonneg : forall v, 0 <= alpha_s v.
  Variable m_i : R.

  Lemma single_next_is_step m_f mesh prev : 0 <= mesh ->
    SingleStep alpha_s m_i m_f mesh prev (single_next NumR alpha_s m_i m_f mesh prev).
  Proof.
    intros Hmesh. unfold SingleStep, single_next. cbv zeta.
    set (b0 := single_b0 NumR m_i m_f prev).
    assert (Hb0 : length b0 = length prev) by (unfold b0, single_b0; now rewrite set_first_length, map_length).
    assert (Hk : Forall (fun v => 0 <= v) (single_k NumR alpha_s mesh b0)).
    { unfold single_k. apply Forall_forall. intros v Hv. apply in_map_iff in Hv.
      destruct Hv as [w [<- _]]. simpl. apply Rmult_le_pos; auto. }
    assert (Hl : length (single_rhs NumR alpha_s m_f mesh b0) = length (single_k NumR alpha_s mesh b0)).
    { unfold single_rhs, single_k. now rewrite set_first_length, map_length. }
    destruct (thomas_rows_of _ _ Hk Hl) as [E L]. split; [|exact E].
    rewrite L. unfold single_k. now rewrite map_length.
  Qed.

  Lemma run_single_is_run dx2 : 0 < dx2 -> forall times mf prev,
    sorted_times times ->
    (length mf >= length times - 1)%nat ->
    RunSingle alpha_s m_i dx2 times mf prev (run_single NumR alpha_s m_i dx2 times mf prev).
  Proof.
    intros Hdx times. induction times as [|t0 tt IH]; intros mf prev Hs Hlen; [reflexivity|].
    destruct tt as [|t1 tt']; [destruct mf; reflexivity|].
    destruct mf as [|f0 ft]; [simpl in Hlen; lia|].
    destruct Hs as [Ht Hs'].
    change (run_single NumR alpha_s m_i dx2 (t0 :: t1 :: tt') (f0 :: ft) prev)
      with (single_next NumR alpha_s m_i f0 ((t1 - t0) / dx2) prev
            :: run_single NumR alpha_s m_i dx2 (t1 :: tt') ft
                 (single_next NumR alpha_s m_i f0 ((t1 - t0) / dx2) prev)).
    cbn [RunSingle]. split.
    - apply single_next_is_step. apply Rmult_le_pos; [lra|]. left. now apply Rinv_0_lt_compat.
    - apply IH; [exact Hs'|]. simpl in Hlen |- *. lia.
  Qed.

  (* C01, functional form: every value the model's single-phase simulation stores lies between
     the lowest frac-face value applied so far and m_i *)
  Theorem simulate_single_model_bounds dx2 nx times mf : 0 < dx2 -> (1 <= nx)%nat ->
    sorted_times times -> (length mf = length times)%nat -> (forall f, In f mf -> f <= m_i) ->
    match simulate_single NumR alpha_s m_i nx dx2 times mf with
    | [] => True
    | init :: rest => RunBound m_i (Rmin m_i (hd 0 mf)) mf rest
    end.
  Proof.
    intros Hdx Hnx Hs Hlen Hmf. unfold simulate_single.
    destruct times as [|t0 tt]; [exact I|].
    set (init := set_first (repeat m_i nx) (hd (n0 NumR) mf)).
    apply (simulate_single_bounds alpha_s alpha_nonneg m_i dx2 Hdx (t0 :: tt) mf init).
    - exact Hs.
    - exact Hmf.
    - unfold init. rewrite set_first_length, repeat_length. exact Hnx.
    - intros j Hj. unfold init in *. rewrite set_first_length, repeat_length in Hj.
      rewrite nth_set_first by (rewrite repeat_length; exact Hj).
      destruct (Nat.eqb j 0); [apply Rmin_r|].
      rewrite (nth_indep _ 0 m_i) by (rewrite repeat_length; exact Hj). rewrite nth_repeat. apply Rmin_l.
    - apply run_single_is_run; [exact Hdx | exact Hs | rewrite Hlen; simpl; lia].
  Qed.
  (* C01, relaxation, functional form: under constant drawdown at m_f every level the model stores
     exceeds m_f by at most (m_i - m_f)/(2 nx) * phi * (product of the relaxation factors so far) *)
  Theorem simulate_single_model_relax dx2 nx times mf m_f amin : 0 < dx2 -> (1 <= nx)%nat ->
    sorted_times times -> (length mf = length times)%nat -> (forall f, In f mf -> f = m_f) ->
    m_f <= m_i -> 0 <= amin -> (forall v, amin <= alpha_s v) ->
    match simulate_single NumR alpha_s m_i nx dx2 times mf with
    | [] => True
    | init :: rest => RunRelax m_f ((m_i - m_f) / (2 * INR nx)) amin dx2 nx times rest
    end.
  Proof.
    intros Hdx Hnx Hs Hlen Hmf Hle Ha Hamin. unfold simulate_single.
    destruct times as [|t0 tt]; [exact I|].
    set (init := set_first (repeat m_i nx) (hd (n0 NumR) mf)).
    assert (Hli : length init = nx) by (unfold init; now rewrite set_first_length, repeat_length).
    assert (Hnx' : 0 < 2 * INR nx) by (apply le_INR in Hnx; simpl in Hnx; lra).
    assert (HC : 0 <= (m_i - m_f) / (2 * INR nx)) by (apply Rmult_le_pos; [lra|left; now apply Rinv_0_lt_compat]).
    rewrite <- Hli.
    apply (simulate_single_relax alpha_s m_i dx2 amin m_f Hdx Ha Hamin (t0 :: tt) mf init).
    - exact Hs.
    - exact Hmf.
    - rewrite Hli. exact Hnx.
    - rewrite Hli. exact HC.
    - intros j Hj. rewrite Hli in *. unfold init.
      rewrite nth_set_first by (rewrite repeat_length; exact Hj).
      destruct mf as [|f0 ft]; [simpl in Hlen; discriminate|].
      assert (f0 = m_f) by (apply Hmf; left; reflexivity). subst f0. simpl hd.
      pose proof (phi_ge_first nx (S j) ltac:(lia)) as Hphi.
      destruct (Nat.eqb j 0).
      + assert (0 <= (m_i - m_f) / (2 * INR nx) * phi nx (S j)) by (apply Rmult_le_pos; lra). lra.
      + rewrite (nth_indep _ 0 m_i) by (rewrite repeat_length; exact Hj). rewrite nth_repeat.
        apply Rle_trans with ((m_i - m_f) / (2 * INR nx) * (2 * INR nx)); [right; field; lra|].
        apply Rmult_le_compat_l; assumption.
    - apply run_single_is_run; [exact Hdx | exact Hs | rewrite Hlen; simpl; lia].
  Qed.
End Functional.

Lemma ideal_next_is_step mesh prev : 0 <= mesh -> IdealStep mesh prev (ideal_next NumR mesh prev).
Proof.
  intros Hmesh. unfold IdealStep, ideal_next.
  set (k := map (fun _ : R => nmul NumR mesh (n1 NumR)) prev).
  assert (Hk : Forall (fun v => 0 <= v) k).
  { unfold k. apply Forall_forall. intros v Hv. apply in_map_iff in Hv. destruct Hv as [w [<- _]]. simpl. lra. }
  assert (Hl : length prev = length k) by (unfold k; now rewrite map_length).
  destruct (thomas_rows_of k prev Hk Hl) as [E L]. split; [rewrite L; unfold k; now rewrite map_length|exact E].
Qed.

Lemma run_ideal_is_run dx2 : 0 < dx2 -> forall times prev, sorted_times times ->
  RunIdeal dx2 times prev (run_ideal NumR dx2 times prev).
Proof.
  intros Hdx times. induction times as [|t0 tt IH]; intros prev Hs; [reflexivity|].
  destruct tt as [|t1 tt']; [reflexivity|]. destruct Hs as [Ht Hs'].
  change (run_ideal NumR dx2 (t0 :: t1 :: tt') prev)
    with (ideal_next NumR ((t1 - t0) / dx2) prev
          :: run_ideal NumR dx2 (t1 :: tt') (ideal_next NumR ((t1 - t0) / dx2) prev)).
  cbn [RunIdeal]. split.
  - apply ideal_next_is_step. apply Rmult_le_pos; [lra|]. left. now apply Rinv_0_lt_compat.
  - apply IH. exact Hs'.
Qed.

Theorem simulate_ideal_model_bounds dx2 nx times : 0 < dx2 -> (1 <= nx)%nat -> sorted_times times ->
  Forall (fun prof => all_ge 0 prof /\ all_le 1 prof) (simulate_ideal NumR nx dx2 times).
Proof.
  intros Hdx Hnx Hs. unfold simulate_ideal. destruct times as [|t0 tt]; [constructor|].
  assert (Hinit : all_ge 0 (repeat (n1 NumR) nx) /\ all_le 1 (repeat (n1 NumR) nx)).
  { split; intros j Hj; rewrite repeat_length in Hj;
      rewrite (nth_indep _ 0 (n1 NumR)) by (rewrite repeat_length; exact Hj); rewrite nth_repeat; simpl; lra. }
  constructor; [exact Hinit|].
  apply (simulate_ideal_bounds dx2 Hdx (t0 :: tt) (repeat (n1 NumR) nx)); auto.
  - rewrite repeat_length. exact Hnx.
  - apply Hinit.
  - apply Hinit.
  - apply run_ideal_is_run; assumption.
Qed.

Lemma superharm_ones nx : (1 <= nx)%nat -> superharm (repeat (n1 NumR) nx).
Proof.
  intros Hnx j Hj. rewrite repeat_length in Hj.
  assert (G : forall i, (1 <= i)%nat -> ghostU 0 (repeat (n1 NumR) nx) i = 1).
  { intros i Hi. unfold ghostU. destruct i; [lia|]. rewrite repeat_length.
    destruct (Nat.ltb_spec i nx).
    - rewrite (nth_indep _ 0 (n1 NumR)) by (rewrite repeat_length; lia). now rewrite nth_repeat.
    - rewrite (nth_indep _ 0 (n1 NumR)) by (rewrite repeat_length; lia). now rewrite nth_repeat. }
  rewrite (G j) by lia. rewrite (G (j+1)%nat) by lia.
  destruct (Nat.eq_dec j 1) as [->|Hj1]; [simpl; lra|]. rewrite (G (j-1)%nat) by lia. lra.
Qed.

(* C01: under constant drawdown the ideal reservoir's profile never rises in time, at any node, for any
   non-decreasing time grid *)
Theorem simulate_ideal_model_time_monotone dx2 nx times : 0 < dx2 -> (1 <= nx)%nat -> sorted_times times ->
  match simulate_ideal NumR nx dx2 times with
  | [] => True
  | first :: rest => decreasing_chain first rest
  end.
Proof.
  intros Hdx Hnx Hs. unfold simulate_ideal. destruct times as [|t0 tt]; [exact I|].
  apply (simulate_ideal_time_monotone dx2 Hdx (t0 :: tt) (repeat (n1 NumR) nx)); auto.
  - rewrite repeat_length. exact Hnx.
  - now apply superharm_ones.
  - apply run_ideal_is_run; assumption.
Qed.

Theorem simulate_ideal_model_relax dx2 nx times : 0 < dx2 -> (1 <= nx)%nat -> sorted_times times ->
  match simulate_ideal NumR nx dx2 times with
  | [] => True
  | init :: rest => RunRelaxIdeal (1 / (2 * INR nx)) dx2 nx times rest
  end.
Proof.
  intros Hdx Hnx Hs. unfold simulate_ideal. destruct times as [|t0 tt]; [exact I|].
  set (init := repeat (n1 NumR) nx).
  assert (Hli : length init = nx) by apply repeat_length.
  assert (Hnx' : 0 < 2 * INR nx) by (apply le_INR in Hnx; simpl in Hnx; lra).
  assert (HC : 0 <= 1 / (2 * INR nx)) by (apply Rmult_le_pos; [lra|left; now apply Rinv_0_lt_compat]).
  rewrite <- Hli.
  apply (simulate_ideal_relax dx2 Hdx (t0 :: tt) init).
  - exact Hs.
  - rewrite Hli. exact Hnx.
  - rewrite Hli. exact HC.
  - intros j Hj. rewrite Hli in *. unfold init.
    rewrite (nth_indep _ 0 (n1 NumR)) by (rewrite repeat_length; exact Hj). rewrite nth_repeat. simpl.
    pose proof (phi_ge_first nx (S j) ltac:(lia)) as Hphi.
    apply Rle_trans with (1 / (2 * INR nx) * (2 * INR nx)); [right; field; lra|].
    apply Rmult_le_compat_l; assumption.
  - apply run_ideal_is_run; assumption.
Qed.
