(* CertTac: tactics for certified point evaluation (DESIGN.md 3.3, "tie 3").
   The harness evaluates a Python function at a point, and asks Coq to certify that the
   *translated term* evaluates to the same number:  Rabs (f args - v) <= tol. *)
From Coq Require Import Reals Lra.
From Interval Require Import Tactic.
From BBLib Require Import PyPrelude.
Open Scope R_scope.

(* pypow with a provably positive base is Rpower *)
Ltac pypow_norm :=
  repeat match goal with
  | |- context [pypow ?x ?e] => rewrite (pypow_pos x e) by interval with (i_prec 60)
  end.

(* innermost guards first: the operands must not contain a guard themselves *)
Ltac no_dec t :=
  lazymatch t with
  | context [Rle_dec _ _] => fail
  | context [Rlt_dec _ _] => fail
  | _ => idtac
  end.

(* decide every sumbool guard by an interval proof of the strict side *)
Ltac dec_norm :=
  repeat match goal with
  | |- context [Rle_dec ?a ?b] =>
      no_dec a; no_dec b;
      let H := fresh "H" in
      destruct (Rle_dec a b) as [H|H];
      [ try (exfalso; assert (b < a) by (interval with (i_prec 80)); lra)
      | try (exfalso; apply H; interval with (i_prec 80)) ]; cbv iota beta
  | |- context [Rlt_dec ?a ?b] =>
      no_dec a; no_dec b;
      let H := fresh "H" in
      destruct (Rlt_dec a b) as [H|H];
      [ try (exfalso; assert (b <= a) by (interval with (i_prec 80)); lra)
      | try (exfalso; apply H; interval with (i_prec 80)) ]; cbv iota beta
  end.

Ltac cert_close := interval with (i_prec 90).
