(* ShiftThms (C17): only time increments enter the model, so shifting the time origin changes
   nothing; schedule-length and interpolator-fill behaviour of the object wrappers. *)
From Coq Require Import Reals List Lra Lia Arith Bool.
From BBLib Require Import NumSig Tridiag Interp Reservoir InterpThms.
Import ListNotations.
Open Scope R_scope.

Lemma run_single_shift (alpha_s : R -> R) m_i dx2 c : forall times mf prev,
  run_single NumR alpha_s m_i dx2 (map (Rplus c) times) mf prev
  = run_single NumR alpha_s m_i dx2 times mf prev.
Proof.
  induction times as [|t0 tt IH]; intros mf prev; [reflexivity|].
  destruct tt as [|t1 tt']; [reflexivity|].
  destruct mf as [|f0 ft]; [reflexivity|].
  change (map (Rplus c) (t0 :: t1 :: tt')) with ((c + t0) :: map (Rplus c) (t1 :: tt')).
  change (map (Rplus c) (t1 :: tt')) with ((c + t1) :: map (Rplus c) tt') at 1.
  cbn [run_single]. simpl nsub; simpl ndiv.
  replace (c + t1 - (c + t0)) with (t1 - t0) by ring.
  f_equal. change ((c + t1) :: map (Rplus c) tt') with (map (Rplus c) (t1 :: tt')). apply IH.
Qed.

Lemma run_ideal_shift dx2 c : forall times prev,
  run_ideal NumR dx2 (map (Rplus c) times) prev = run_ideal NumR dx2 times prev.
Proof.
  induction times as [|t0 tt IH]; intros prev; [reflexivity|].
  destruct tt as [|t1 tt']; [reflexivity|].
  change (map (Rplus c) (t0 :: t1 :: tt')) with ((c + t0) :: map (Rplus c) (t1 :: tt')).
  change (map (Rplus c) (t1 :: tt')) with ((c + t1) :: map (Rplus c) tt') at 1.
  cbn [run_ideal]. simpl nsub; simpl ndiv.
  replace (c + t1 - (c + t0)) with (t1 - t0) by ring.
  f_equal. change ((c + t1) :: map (Rplus c) tt') with (map (Rplus c) (t1 :: tt')). apply IH.
Qed.

Theorem simulate_single_shift (alpha_s : R -> R) m_i nx dx2 c times mf :
  simulate_single NumR alpha_s m_i nx dx2 (map (Rplus c) times) mf
  = simulate_single NumR alpha_s m_i nx dx2 times mf.
Proof.
  unfold simulate_single. destruct times as [|t0 tt]; [reflexivity|].
  rewrite run_single_shift. reflexivity.
Qed.

Theorem simulate_ideal_shift nx dx2 c times :
  simulate_ideal NumR nx dx2 (map (Rplus c) times) = simulate_ideal NumR nx dx2 times.
Proof.
  unfold simulate_ideal. destruct times as [|t0 tt]; [reflexivity|].
  rewrite run_ideal_shift. reflexivity.
Qed.

Lemma cumtrapz_from_cons acc y0 y1 yt x0 x1 xt :
  cumtrapz_from NumR acc (y0 :: y1 :: yt) (x0 :: x1 :: xt)
  = (acc + (x1 - x0) * (y0 + y1) / 2)
    :: cumtrapz_from NumR (acc + (x1 - x0) * (y0 + y1) / 2) (y1 :: yt) (x1 :: xt).
Proof. reflexivity. Qed.

Lemma cumtrapz_from_shift c : forall y x acc,
  cumtrapz_from NumR acc y (map (Rplus c) x) = cumtrapz_from NumR acc y x.
Proof.
  induction y as [|y0 yt IH]; intros x acc; [reflexivity|].
  destruct yt as [|y1 yt']; [destruct x; reflexivity|].
  destruct x as [|x0 [|x1 xt]]; try reflexivity.
  change (map (Rplus c) (x0 :: x1 :: xt)) with ((c + x0) :: (c + x1) :: map (Rplus c) xt).
  rewrite !cumtrapz_from_cons.
  replace (c + x1 - (c + x0)) with (x1 - x0) by ring.
  f_equal. change ((c + x1) :: map (Rplus c) xt) with (map (Rplus c) (x1 :: xt)). apply IH.
Qed.

Theorem recovery_flux_shift h_inv fvf c times field :
  recovery_flux NumR h_inv fvf (map (Rplus c) times) field = recovery_flux NumR h_inv fvf times field.
Proof.
  unfold recovery_flux, cumtrapz. destruct (map (flux_rate NumR h_inv) field); [reflexivity|].
  now rewrite cumtrapz_from_shift.
Qed.

(* a schedule whose length differs from the time grid is rejected *)
Theorem schedule_length_mismatch_rejected (fp : flowprops) nx nxT times pf :
  length pf <> length times -> sp_simulate NumR fp nx nxT times pf = None.
Proof.
  intros H. unfold sp_simulate. destruct (Nat.eqb_spec (length pf) (length times)); [contradiction|reflexivity].
Qed.

(* a constant schedule is by definition what the scalar setting runs *)
Theorem constant_schedule_is_scalar (fp : flowprops) nx nxT times pf :
  sp_simulate NumR fp nx nxT times (repeat pf (length times))
  = sp_simulate NumR fp nx nxT times (map (fun _ => pf) times).
Proof. f_equal. induction times; simpl; [reflexivity|]. now f_equal. Qed.

(* the recovery interpolator: recovery at the simulated times, 0 before, final value after *)
Theorem rf_interp_at_nodes times rec j :
  incr times -> length rec = length times -> (2 <= length times)%nat -> (j < length times)%nat ->
  rf_interp NumR times rec (nth j times 0) = nth j rec 0.
Proof. intros. unfold rf_interp. now apply interp_fill_at_node. Qed.

Theorem rf_interp_outside times rec t :
  (t < hd 0 times -> rf_interp NumR times rec t = 0) /\
  (hd 0 times <= last times 0 -> last times 0 < t -> rf_interp NumR times rec t = last rec 0).
Proof. unfold rf_interp. apply interp_fill_outside. Qed.
