(* RecoveryThms: the ideal reservoir's flux-based recovery never decreases in time (C03).
   The three-point rate (-u2 + 4 u1 - 3 u0) h_inv / 2 is non-negative on every stored level because each level is
   non-negative, non-decreasing away from the fracture and discretely superharmonic (2 u1 >= u0 + u2); the
   cumulative trapezoid of non-negative rates over non-decreasing times is non-decreasing. *)
From Coq Require Import Reals List Lra Lia.
From BBLib Require Import NumSig MinPrinciple Tridiag Interp Reservoir ReservoirThms.
Import ListNotations.
Open Scope R_scope.

Fixpoint chain_le (a : R) (l : list R) : Prop :=
  match l with [] => True | b :: t => a <= b /\ chain_le b t end.
Definition nondecreasing_list (l : list R) : Prop :=
  match l with [] => True | a :: t => chain_le a t end.

Lemma cumtrapz_from_nondecr : forall y x acc, sorted_times x -> Forall (fun v => 0 <= v) y ->
  chain_le acc (cumtrapz_from NumR acc y x).
Proof.
  induction y as [|y0 yt IH]; intros x acc Hx Hy; [exact I|].
  destruct yt as [|y1 yt']; [destruct x; exact I|].
  destruct x as [|x0 [|x1 xt]]; try exact I.
  change (cumtrapz_from NumR acc (y0 :: y1 :: yt') (x0 :: x1 :: xt))
    with (let acc' := acc + (x1 - x0) * (y0 + y1) / 2 in acc' :: cumtrapz_from NumR acc' (y1 :: yt') (x1 :: xt)).
  cbv zeta. destruct Hx as [Hx01 Hx'].
  inversion Hy as [|? ? Hy0 Hy']; subst. inversion Hy' as [|? ? Hy1 _]; subst.
  cbn [chain_le]. split.
  - assert (0 <= (x1 - x0) * (y0 + y1) / 2) by (apply Rmult_le_pos; [apply Rmult_le_pos; lra|lra]). lra.
  - apply IH; assumption.
Qed.

Lemma chain_le_scale c : 0 <= c -> forall l a, chain_le a l -> chain_le (a * c) (map (fun v => v * c) l).
Proof.
  intros Hc. induction l as [|b t IH]; intros a H; [exact I|]. destruct H as [Hab Ht].
  cbn [map chain_le]. split; [now apply Rmult_le_compat_r|now apply IH].
Qed.

Theorem recovery_flux_nondecreasing h_inv fvf times field :
  0 <= fvf -> sorted_times times -> Forall (fun prof => 0 <= flux_rate NumR h_inv prof) field ->
  nondecreasing_list (recovery_flux NumR h_inv fvf times field).
Proof.
  intros Hf Ht Hr. unfold recovery_flux, cumtrapz.
  assert (Hy : Forall (fun v => 0 <= v) (map (flux_rate NumR h_inv) field)).
  { apply Forall_forall. intros v Hv. apply in_map_iff in Hv. destruct Hv as [prof [<- Hin]].
    rewrite Forall_forall in Hr. now apply Hr. }
  destruct (map (flux_rate NumR h_inv) field) as [|y0 yt] eqn:E; [exact I|].
  cbn [map nondecreasing_list]. simpl (n0 NumR).
  replace (nmul NumR 0 fvf) with (0 * fvf) by reflexivity.
  apply (chain_le_scale fvf Hf). now apply cumtrapz_from_nondecr.
Qed.

(* the rate is non-negative on a non-negative, non-decreasing, superharmonic profile *)
Lemma flux_rate_nonneg h_inv prof : 0 <= h_inv -> (3 <= length prof)%nat ->
  nondecr prof -> superharm prof -> 0 <= flux_rate NumR h_inv prof.
Proof.
  intros Hh Hl Hm Hs. unfold flux_rate. cbv zeta. simpl.
  pose proof (Hm 0%nat ltac:(lia)) as H01.
  pose proof (Hs 2%nat ltac:(lia)) as H2. unfold ghostU in H2. simpl in H2.
  destruct (Nat.ltb_spec 1 (length prof)); [|lia]. destruct (Nat.ltb_spec 0 (length prof)); [|lia].
  destruct (Nat.ltb_spec 2 (length prof)); [|lia].
  set (u0 := nth 0 prof 0) in *. set (u1 := nth 1 prof 0) in *. set (u2 := nth 2 prof 0) in *.
  assert (0 <= - u2 + 4 * u1 - 3 * u0) by lra.
  apply Rmult_le_pos; [apply Rmult_le_pos; [lra|exact Hh]|lra].
Qed.

Definition level_inv (prof : list R) : Prop :=
  (all_ge 0 prof /\ all_le 1 prof) /\ nondecr prof /\ superharm prof.

Lemma run_ideal_levels dx2 : 0 < dx2 -> forall times prev rest, sorted_times times -> (1 <= length prev)%nat ->
  level_inv prev -> RunIdeal dx2 times prev rest ->
  Forall (fun prof => level_inv prof /\ length prof = length prev) rest.
Proof.
  intros Hdx times. induction times as [|t0 tt IH]; intros prev rest Hs Hn Hinv Hrun.
  - simpl in Hrun. subst rest. constructor.
  - destruct tt as [|t1 tt'].
    + simpl in Hrun. subst rest. constructor.
    + destruct rest as [|nxt rs]; [constructor|].
      simpl in Hrun. destruct Hrun as [Hstep Hrest]. destruct Hs as [Ht Hs'].
      assert (Hmesh : 0 <= (t1 - t0) / dx2).
      { apply Rmult_le_pos; [lra|]. left. now apply Rinv_0_lt_compat. }
      destruct Hinv as [[Hge Hle] [Hmono Hsh]].
      pose proof (ideal_step_bounds _ prev nxt Hmesh Hn Hstep 1 ltac:(lra) Hge Hle) as Hb.
      pose proof (ideal_step_monotone _ prev nxt Hmesh Hn Hstep Hge Hmono) as [_ Hm'].
      pose proof (ideal_step_time_monotone _ prev nxt Hmesh Hn Hstep Hsh) as [_ Hs2].
      assert (Hlen : length nxt = length prev) by (destruct Hstep as [Hl _]; exact Hl).
      assert (Hinv' : level_inv nxt) by (split; [exact Hb|split; assumption]).
      constructor; [split; assumption|].
      assert (Hn' : (1 <= length nxt)%nat) by (rewrite Hlen; exact Hn).
      pose proof (IH nxt rs Hs' Hn' Hinv' Hrest) as Hall.
      rewrite Forall_forall in *. intros prof Hin. destruct (Hall prof Hin) as [A B]. split; [exact A|]. now rewrite B.
Qed.

Lemma level_inv_ones nx : (1 <= nx)%nat -> level_inv (repeat (n1 NumR) nx).
Proof.
  intros Hnx. split; [|split].
  - split; intros j Hj; rewrite repeat_length in Hj;
      rewrite (nth_indep _ 0 (n1 NumR)) by (rewrite repeat_length; exact Hj); rewrite nth_repeat; simpl; lra.
  - intros j Hj. rewrite repeat_length in Hj.
    rewrite !(nth_indep _ 0 (n1 NumR)) by (rewrite repeat_length; lia). rewrite !nth_repeat. lra.
  - now apply superharm_ones.
Qed.

(* C03: the ideal reservoir's recovery factor never decreases in time, for every node count >= 3, every
   non-decreasing time grid and every p_frac <= p_initial *)
Theorem ideal_recovery_nondecreasing dx2 nx nxT pf pi times : 0 < dx2 -> (3 <= nx)%nat -> 1 <= nxT ->
  sorted_times times -> 0 <= 1 - pf / pi ->
  nondecreasing_list (id_recovery NumR nxT pf pi times (simulate_ideal NumR nx dx2 times)).
Proof.
  intros Hdx Hnx HnxT Hs Hf. unfold id_recovery.
  apply recovery_flux_nondecreasing; [exact Hf|exact Hs|].
  unfold simulate_ideal. destruct times as [|t0 tt]; [constructor|].
  set (init := repeat (n1 NumR) nx).
  assert (Hli : length init = nx) by apply repeat_length.
  assert (Hinit : level_inv init) by (apply level_inv_ones; lia).
  assert (Hh : 0 <= nsub NumR nxT (n1 NumR)) by (simpl; lra).
  constructor.
  - destruct Hinit as [_ [Hm Hsh]]. apply flux_rate_nonneg; [exact Hh|rewrite Hli; exact Hnx|exact Hm|exact Hsh].
  - pose proof (run_ideal_levels dx2 Hdx (t0 :: tt) init (run_ideal NumR dx2 (t0 :: tt) init) Hs
                  ltac:(rewrite Hli; lia) Hinit (run_ideal_is_run dx2 Hdx (t0 :: tt) init Hs)) as Hall.
    rewrite Forall_forall in *. intros prof Hin. destruct (Hall prof Hin) as [[_ [Hm Hsh]] Hlen].
    apply flux_rate_nonneg; [exact Hh|rewrite Hlen, Hli; exact Hnx|exact Hm|exact Hsh].
Qed.
