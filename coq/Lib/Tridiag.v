(* Tridiag: the tridiagonal system of reservoir._build_matrix, its matrix-vector product and
   a Thomas solve, written once over the numeric signature; and the bridge from the list
   formulation (what the code manipulates) to the ghost-node formulation of MinPrinciple. *)
From Coq Require Import Reals List Lra Lia Arith Bool.
From BBLib Require Import NumSig MinPrinciple.
Import ListNotations.

Section Tri.
  Context {T : Type} (N : Num T).
  Local Notation "a +! b" := (nadd N a b) (at level 50, left associativity).
  Local Notation "a -! b" := (nsub N a b) (at level 50, left associativity).
  Local Notation "a *! b" := (nmul N a b) (at level 40, left associativity).
  Local Notation "a /! b" := (ndiv N a b) (at level 40, left associativity).

  (* rows (sub-diagonal, diagonal, super-diagonal) of the matrix built from kt_h2:
     diagonal 1 + 2k (last: 1 + k), off-diagonals -k; the first row has no sub-diagonal
     entry, the last no super-diagonal entry *)
  Fixpoint rows_from (first : bool) (k : list T) : list (T * T * T) :=
    match k with
    | [] => []
    | kj :: rest =>
        let last := match rest with [] => true | _ => false end in
        ((if first then n0 N else nneg N kj),
         (if last then n1 N +! kj else n1 N +! n2 N *! kj),
         (if last then n0 N else nneg N kj)) :: rows_from false rest
    end.
  Definition rows_of (k : list T) := rows_from true k.

  (* the three diagonals as scipy.sparse.diags receives them *)
  Definition diag_low (rows : list (T * T * T)) := map (fun r => fst (fst r)) (tl rows).
  Definition diag_main (rows : list (T * T * T)) := map (fun r => snd (fst r)) rows.
  Definition diag_up (rows : list (T * T * T)) := map (fun r => snd r) (removelast rows).

  (* y = A x *)
  Fixpoint mv (xm1 : T) (rows : list (T * T * T)) (x : list T) : list T :=
    match rows, x with
    | (a, d, c) :: rs, x0 :: xs =>
        (a *! xm1 +! d *! x0 +! c *! hd (n0 N) xs) :: mv x0 rs xs
    | _, _ => []
    end.

  (* Thomas algorithm *)
  Fixpoint fwd (cp dp : T) (rows : list (T * T * T)) (b : list T) : list (T * T) :=
    match rows, b with
    | (a, d, c) :: rs, bj :: bs =>
        let den := d -! a *! cp in
        let cp' := c /! den in
        let dp' := (bj -! a *! dp) /! den in
        (cp', dp') :: fwd cp' dp' rs bs
    | _, _ => []
    end.
  Fixpoint back (cd : list (T * T)) : list T :=
    match cd with
    | [] => []
    | (cp, dp) :: rest => let xs := back rest in (dp -! cp *! hd (n0 N) xs) :: xs
    end.
  Definition thomas (rows : list (T * T * T)) (b : list T) : list T :=
    back (fwd (n0 N) (n0 N) rows b).

  Definition set_first (l : list T) (v : T) : list T :=
    match l with [] => [] | _ :: t => v :: t end.

  (* max-norm of the residual A x - b *)
  Definition resid_inf (rows : list (T * T * T)) (x b : list T) : T :=
    lmax N (n0 N) (map (fun p => nabs N (fst p -! snd p)) (combine (mv (n0 N) rows x) b)).
End Tri.

(* ------------------------------------------------------------------------------------ *)
(* R instance: characterisation by index *)
Open Scope R_scope.

Lemma rows_from_length (k : list R) first : length (rows_from NumR first k) = length k.
Proof. revert first. induction k as [|kj rest IH]; intros first; simpl; [reflexivity|]. now rewrite IH. Qed.

Lemma nth_rows_from (k : list R) : forall first j, (j < length k)%nat ->
  nth j (rows_from NumR first k) (0, 0, 0) =
  ((if (Nat.eqb j 0 && first)%bool then 0 else - nth j k 0),
   (if Nat.eqb j (length k - 1) then 1 + nth j k 0 else 1 + 2 * nth j k 0),
   (if Nat.eqb j (length k - 1) then 0 else - nth j k 0)).
Proof.
  induction k as [|kj rest IH]; intros first j Hj; simpl in Hj; [lia|].
  destruct j as [|j].
  - simpl. destruct rest as [|r2 rest']; simpl; unfold nneg; simpl;
      destruct first; repeat f_equal; lra.
  - simpl rows_from. simpl nth at 1. rewrite IH by lia. simpl nth.
    destruct rest as [|r2 rest']; [simpl in Hj; lia|].
    replace (length (kj :: r2 :: rest') - 1)%nat with (S (length (r2 :: rest') - 1)) by (simpl; lia).
    rewrite andb_false_r. cbn [Nat.eqb andb]. reflexivity.
Qed.

Lemma mv_length (rows : list (R * R * R)) : forall x xm1,
  length x = length rows -> length (mv NumR xm1 rows x) = length rows.
Proof.
  induction rows as [|[[a d] c] rs IH]; intros x xm1 Hl; [reflexivity|].
  destruct x as [|x0 xs]; [discriminate|]. simpl. f_equal. apply IH. simpl in Hl. lia.
Qed.

Lemma mv_nth (rows : list (R * R * R)) : forall x xm1 j,
  length x = length rows -> (j < length rows)%nat ->
  nth j (mv NumR xm1 rows x) 0 =
  fst (fst (nth j rows (0,0,0))) * (match j with O => xm1 | S i => nth i x 0 end)
  + snd (fst (nth j rows (0,0,0))) * nth j x 0
  + snd (nth j rows (0,0,0)) * nth (S j) x 0.
Proof.
  induction rows as [|[[a d] c] rs IH]; intros x xm1 j Hl Hj; simpl in Hj; [lia|].
  destruct x as [|x0 xs]; [discriminate|]. simpl in Hl.
  destruct j as [|j].
  - simpl. destruct xs; simpl; lra.
  - simpl mv. simpl nth at 1. rewrite IH by lia. simpl nth.
    destruct j; reflexivity.
Qed.

(* ghost-node view of a list profile: U 0 = g, U j = x[j-1], U (n+1) = U n *)
Definition ghostU (g : R) (x : list R) (j : nat) : R :=
  match j with
  | O => g
  | S i => if Nat.ltb i (length x) then nth i x 0 else nth (length x - 1) x 0
  end.
Definition ghostK (k : list R) (j : nat) : R := nth (j - 1) k 0.
(* right-hand side seen by the ghost-node rows: the code folds k0 * g into b[0] *)
Definition ghostB (g : R) (k b : list R) (j : nat) : R :=
  if Nat.eqb j 1 then nth 0 b 0 - nth 0 k 0 * g else nth (j - 1) b 0.

Lemma Sys_of_lists (g : R) (k x b : list R) :
  (1 <= length k)%nat -> length x = length k ->
  mv NumR 0 (rows_of NumR k) x = b ->
  Sys (length k) (ghostK k) (ghostB g k b) (ghostU g x) g.
Proof.
  intros Hn Hx Hmv. set (n := length k) in *.
  split; [reflexivity|]. split.
  - unfold ghostU. rewrite Hx. fold n.
    destruct n as [|m]; [lia|].
    rewrite Nat.ltb_irrefl. destruct (Nat.ltb_spec m (S m)); [|lia].
    replace (S m - 1)%nat with m by lia. reflexivity.
  - intros j [Hj1 Hjn]. unfold Row.
    assert (Hr : length (rows_of NumR k) = n) by apply rows_from_length.
    assert (E : nth (j-1) (mv NumR 0 (rows_of NumR k) x) 0 = nth (j-1) b 0) by now rewrite Hmv.
    rewrite mv_nth in E by (rewrite ?Hr; lia).
    unfold rows_of in E. rewrite nth_rows_from in E by (fold n; lia). fold n in E. simpl fst in E; simpl snd in E.
    unfold ghostU, ghostK, ghostB. rewrite Hx. fold n.
    destruct j as [|j]; [lia|]. replace (S j - 1)%nat with j in * by lia.
    replace (S j + 1)%nat with (S (S j)) by lia.
    destruct (Nat.ltb_spec j n); [|lia].
    destruct j as [|j].
    + (* first row *)
      change (Nat.eqb 0 0 && true)%bool with true in E. cbn [Nat.eqb].
      revert E. destruct (Nat.eqb_spec 0 (n-1)) as [Hl|Hl]; intros E.
      * destruct (Nat.ltb_spec 1 n); [lia|]. replace (n-1)%nat with 0%nat by lia. lra.
      * destruct (Nat.ltb_spec 1 n); [|lia]. lra.
    + change (Nat.eqb (S (S j)) 1) with false.
      change (Nat.eqb (S j) 0 && true)%bool with false in E.
      replace (S (S j) - 1)%nat with (S j) by lia.
      destruct (Nat.ltb_spec j n); [|lia].
      revert E. destruct (Nat.eqb_spec (S j) (n-1)) as [Hl|Hl]; intros E.
      * destruct (Nat.ltb_spec (S (S j)) n); [lia|]. rewrite <- Hl. lra.
      * destruct (Nat.ltb_spec (S (S j)) n); [|lia]. lra.
Qed.

(* ------------------------------------------------------------------------------------ *)
(* The Thomas solve solves the system (R instance), for every matrix built from k >= 0. *)
Fixpoint pivots_ok (cp : R) (rows : list (R * R * R)) : Prop :=
  match rows with
  | [] => True
  | (a, d, c) :: rs => d - a * cp <> 0 /\ pivots_ok (c / (d - a * cp)) rs
  end.

Lemma fwd_length (rows : list (R * R * R)) : forall b cp dp,
  length b = length rows -> length (fwd NumR cp dp rows b) = length rows.
Proof.
  induction rows as [|[[a d] c] rs IH]; intros b cp dp Hl; [reflexivity|].
  destruct b as [|bj bs]; [discriminate|]. simpl. f_equal. apply IH. simpl in Hl. lia.
Qed.
Lemma back_length (cd : list (R * R)) : length (back NumR cd) = length cd.
Proof. induction cd as [|[cp dp] rest IH]; simpl; [reflexivity|]. now rewrite IH. Qed.

Lemma thomas_aux (rows : list (R * R * R)) : forall b cp dp,
  length b = length rows -> pivots_ok cp rows ->
  let xs := back NumR (fwd NumR cp dp rows b) in
  mv NumR (dp - cp * hd 0 xs) rows xs = b.
Proof.
  induction rows as [|[[a d] c] rs IH]; intros b cp dp Hl Hp.
  - destruct b; [reflexivity|discriminate].
  - destruct b as [|bj bs]; [discriminate|]. simpl in Hl. destruct Hp as [Hden Hp'].
    cbn [fwd back mv]. simpl nsub; simpl nmul; simpl ndiv; simpl nadd; simpl n0.
    set (den := d - a * cp) in *.
    set (xs' := back NumR (fwd NumR (c / den) ((bj - a * dp) / den) rs bs)).
    f_equal.
    + cbn [hd]. field_simplify_eq; [|exact Hden]. unfold den. ring.
    + cbn [hd]. apply (IH bs (c / den) ((bj - a * dp) / den)); [lia|exact Hp'].
Qed.

Theorem thomas_solves (rows : list (R * R * R)) (b : list R) :
  length b = length rows -> pivots_ok 0 rows ->
  mv NumR 0 rows (thomas NumR rows b) = b /\ length (thomas NumR rows b) = length rows.
Proof.
  intros Hl Hp. split.
  - pose proof (thomas_aux rows b 0 0 Hl Hp) as E. cbv zeta in E.
    replace (0 - 0 * hd 0 (back NumR (fwd NumR 0 0 rows b))) with 0 in E by ring. exact E.
  - unfold thomas. rewrite back_length. apply fwd_length. exact Hl.
Qed.

Lemma rows_from_cons2 first kj r2 (rest : list R) :
  rows_from NumR first (kj :: r2 :: rest)
  = ((if first then 0 else 0 - kj), 1 + 2 * kj, 0 - kj) :: rows_from NumR false (r2 :: rest).
Proof. reflexivity. Qed.
Lemma rows_from_single first kj :
  rows_from NumR first [kj] = [((if first then 0 else 0 - kj), 1 + kj, 0)].
Proof. reflexivity. Qed.

Lemma pivots_rows_from (k : list R) : forall first cp,
  Forall (fun v => 0 <= v) k -> -1 <= cp <= 0 -> pivots_ok cp (rows_from NumR first k).
Proof.
  induction k as [|kj rest IH]; intros first cp Hk Hcp; [exact I|].
  inversion Hk as [|? ? Hkj Hrest]; subst.
  destruct rest as [|r2 rest'].
  - rewrite rows_from_single. cbn [pivots_ok]. split; [|exact I]. destruct first; nra.
  - rewrite rows_from_cons2. cbn [pivots_ok].
    set (a := if first then 0 else 0 - kj).
    assert (Ha : a = 0 \/ a = 0 - kj) by (unfold a; destruct first; auto).
    assert (Hge : 1 + kj <= 1 + 2 * kj - a * cp) by (destruct Ha as [->| ->]; nra).
    assert (Hpos : 0 < 1 + 2 * kj - a * cp) by lra.
    split; [lra|].
    apply IH; [exact Hrest|].
    split.
    + apply Rmult_le_reg_r with (1 + 2 * kj - a * cp); [exact Hpos|].
      unfold Rdiv. rewrite Rmult_assoc, Rinv_l by lra. lra.
    + apply Rmult_le_reg_r with (1 + 2 * kj - a * cp); [exact Hpos|].
      unfold Rdiv. rewrite Rmult_assoc, Rinv_l by lra. lra.
Qed.

Corollary thomas_rows_of (k b : list R) :
  Forall (fun v => 0 <= v) k -> length b = length k ->
  mv NumR 0 (rows_of NumR k) (thomas NumR (rows_of NumR k) b) = b
  /\ length (thomas NumR (rows_of NumR k) b) = length k.
Proof.
  intros Hk Hl.
  assert (Hr : length (rows_of NumR k) = length k) by apply rows_from_length.
  rewrite <- Hr. apply thomas_solves; [congruence|].
  apply pivots_rows_from; [exact Hk|lra].
Qed.
