(* Reservoir: hand-written model of flow/flowproperties.py (FlowProperties.__init__,
   FlowPropertiesSimple) and flow/reservoir.py (IdealReservoir / SinglePhaseReservoir
   simulate, recovery_factor), written once over the numeric signature.  The float instance is
   executed against the implementation by the correspondence check; the R instance is what the
   theorems in ReservoirThms.v are about. *)
From Coq Require Import Reals List Lra Lia Arith Bool.
From BBLib Require Import NumSig Tridiag Interp.
Import ListNotations.

Section Model.
  Context {T : Type} (N : Num T).
  Local Notation "a +! b" := (nadd N a b) (at level 50, left associativity).
  Local Notation "a -! b" := (nsub N a b) (at level 50, left associativity).
  Local Notation "a *! b" := (nmul N a b) (at level 40, left associativity).
  Local Notation "a /! b" := (ndiv N a b) (at level 40, left associativity).

  Definition map2 (f : T -> T -> T) (a b : list T) := map (fun p => f (fst p) (snd p)) (combine a b).

  (* ---------------- FlowProperties ---------------- *)
  Record table := {
    t_pressure : list T; t_pseudopressure : list T;
    t_compressibility : list T; t_viscosity : list T; t_zfactor : list T;
    t_alpha : option (list T);
    t_density : list T }.

  Record flowprops := {
    fp_pressure : list T; fp_mscaled : list T; fp_alpha : list T;
    fp_m_i : T; fp_alpha_lo : T; fp_alpha_hi : T; fp_density : list T }.

  Fixpoint all_some_opt (l : list (option T)) : option (list T) :=
    match l with
    | [] => Some []
    | Some x :: t => match all_some_opt t with Some r => Some (x :: r) | None => None end
    | None :: _ => None
    end.

  Definition half := n1 N /! n2 N.

  (* 1/2 * c * p * mu * z / p**2, evaluated left to right as numpy does *)
  Definition scaling_row (c p mu z : T) : T := half *! c *! p *! mu *! z /! (p *! p).

  Definition fp_init (tb : table) (p_i : T) : option flowprops :=
    let p := t_pressure tb in
    let pp := t_pseudopressure tb in
    (* scaling factor: with a user-supplied diffusivity the reciprocal of the pseudopressure AT p_i (so that m_i = 1 for every p_i;
       the library used to interpolate the reciprocals, repaired 2026-10), otherwise the column (c p mu z / 2 p^2) looked up at p_i *)
    let '(factor_opt, alpha_col) :=
      match t_alpha tb with
      | Some a => (match interp1d N Strict p pp p_i with Some v => Some (n1 N /! v) | None => None end, a)
      | None =>
          (interp1d N Strict p
             (map (fun r => scaling_row (fst (fst (fst r))) (snd (fst (fst r))) (snd (fst r)) (snd r))
                  (combine (combine (combine (t_compressibility tb) p) (t_viscosity tb)) (t_zfactor tb))) p_i,
           map2 (fun c mu => n1 N /! (c *! mu)) (t_compressibility tb) (t_viscosity tb))
      end in
    match factor_opt with
    | None => None
    | Some factor =>
        let ms := map (fun m => m *! factor) pp in
        match interp1d N Strict p ms p_i with
        | None => None
        | Some mi =>
            Some {| fp_pressure := p; fp_mscaled := ms; fp_alpha := alpha_col; fp_m_i := mi;
                    fp_alpha_lo := lmin N (hd (n0 N) alpha_col) alpha_col;
                    fp_alpha_hi := lmax N (hd (n0 N) alpha_col) alpha_col;
                    fp_density := t_density tb |}
        end
    end.

  (* FlowPropertiesSimple: m-scaled is the pressure itself *)
  Definition fp_init_simple (tb : table) (p_i : T) : option flowprops :=
    let p := t_pressure tb in
    let alpha_col := map2 (fun c mu => n1 N /! (c *! mu)) (t_compressibility tb) (t_viscosity tb) in
    match interp1d N Strict p p p_i with
    | None => None
    | Some mi =>
        Some {| fp_pressure := p; fp_mscaled := p; fp_alpha := alpha_col; fp_m_i := mi;
                fp_alpha_lo := lmin N (hd (n0 N) alpha_col) alpha_col;
                fp_alpha_hi := lmax N (hd (n0 N) alpha_col) alpha_col;
                fp_density := t_density tb |}
    end.

  (* rescale_pseudopressure(df, p_frac, p_i): new pseudopressure column *)
  Definition rescale_pseudopressure (p pp : list T) (p_frac p_i : T) : option (list T) :=
    match interp1d N Strict p pp p_frac, interp1d N Strict p pp p_i with
    | Some mf, Some mi =>
        all_some_opt (map (fun q => match interp1d N Strict p pp q with
                                    | Some mq => Some ((mq -! mf) /! (mi -! mf))
                                    | None => None end) p)
    | _, _ => None
    end.

  Definition m_scaled_func (fp : flowprops) (p : T) : option T :=
    interp1d N Strict (fp_pressure fp) (fp_mscaled fp) p.
  Definition alpha_func (fp : flowprops) (m : T) : T :=
    interp_fill N (fp_alpha_lo fp) (fp_alpha_hi fp) (fp_mscaled fp) (fp_alpha fp) m.
  Definition alpha_scaled (fp : flowprops) (m : T) : T := alpha_func fp m /! alpha_func fp (fp_m_i fp).

  (* ---------------- one implicit step ---------------- *)
  Definition ideal_next (mesh : T) (prev : list T) : list T :=
    thomas N (rows_of N (map (fun _ => mesh *! n1 N) prev)) prev.

  Definition single_b0 (m_i m_f : T) (prev : list T) : list T :=
    set_first (map (fun v => nmin N v m_i) prev) m_f.
  Definition single_k (alpha_s : T -> T) (mesh : T) (b0 : list T) : list T :=
    map (fun v => mesh *! alpha_s v) b0.
  Definition single_rhs (alpha_s : T -> T) (m_f mesh : T) (b0 : list T) : list T :=
    set_first b0 (m_f +! alpha_s (hd (n0 N) b0) *! m_f *! mesh).
  Definition single_next (alpha_s : T -> T) (m_i m_f mesh : T) (prev : list T) : list T :=
    let b0 := single_b0 m_i m_f prev in
    thomas N (rows_of N (single_k alpha_s mesh b0)) (single_rhs alpha_s m_f mesh b0).

  (* ---------------- time loop ---------------- *)
  Fixpoint run_ideal (dx2 : T) (times : list T) (prev : list T) : list (list T) :=
    match times with
    | t0 :: ((t1 :: _) as tt) =>
        let nxt := ideal_next ((t1 -! t0) /! dx2) prev in nxt :: run_ideal dx2 tt nxt
    | _ => []
    end.
  Definition simulate_ideal (nx : nat) (dx2 : T) (times : list T) : list (list T) :=
    match times with
    | [] => []
    | _ => let init := repeat (n1 N) nx in init :: run_ideal dx2 times init
    end.

  Fixpoint run_single (alpha_s : T -> T) (m_i dx2 : T) (times mf : list T) (prev : list T)
    : list (list T) :=
    match times, mf with
    | t0 :: ((t1 :: _) as tt), f0 :: ft =>
        let nxt := single_next alpha_s m_i f0 ((t1 -! t0) /! dx2) prev in
        nxt :: run_single alpha_s m_i dx2 tt ft nxt
    | _, _ => []
    end.
  Definition simulate_single (alpha_s : T -> T) (m_i : T) (nx : nat) (dx2 : T)
             (times mf : list T) : list (list T) :=
    match times with
    | [] => []
    | _ => let init := set_first (repeat m_i nx) (hd (n0 N) mf) in
           init :: run_single alpha_s m_i dx2 times mf init
    end.

  (* ---------------- recovery factor ---------------- *)
  Definition three : T := n1 N +! n2 N.
  Definition four : T := n2 N *! n2 N.
  Definition flux_rate (h_inv : T) (prof : list T) : T :=
    let u0 := nth 0 prof (n0 N) in let u1 := nth 1 prof (n0 N) in let u2 := nth 2 prof (n0 N) in
    (nneg N u2 +! four *! u1 -! three *! u0) *! h_inv *! half.
  Definition recovery_flux (h_inv fvf : T) (times : list T) (field : list (list T)) : list T :=
    map (fun c => c *! fvf) (cumtrapz N (map (flux_rate h_inv) field) times).
  Definition recovery_density (fp : flowprops) (fvf : T) (field : list (list T)) : list T :=
    let mass := map (fun prof =>
                  nsum_l N (map (fun m => interp_lin N (fp_mscaled fp) (fp_density fp) m) prof)) field in
    let m0 := hd (n1 N) mass in
    map (fun m => (n1 N -! m /! m0) *! fvf) mass.

  (* ---------------- whole-object wrappers (what the API exposes) ---------------- *)
  Fixpoint all_some (l : list (option T)) : option (list T) :=
    match l with
    | [] => Some []
    | Some x :: t => match all_some t with Some r => Some (x :: r) | None => None end
    | None :: _ => None
    end.

  (* SinglePhaseReservoir(nx, pf, pi, fluid).simulate(times, pressure_fracface=pf_sched) *)
  Definition sp_simulate (fp : flowprops) (nx : nat) (nxT : T) (times pf_sched : list T)
    : option (list (list T)) :=
    if negb (Nat.eqb (length pf_sched) (length times)) then None else
    match all_some (map (m_scaled_func fp) pf_sched) with
    | None => None
    | Some mf =>
        let dx2 := (n1 N /! nxT) *! (n1 N /! nxT) in
        Some (simulate_single (alpha_scaled fp) (fp_m_i fp) nx dx2 times mf)
    end.
  (* IdealReservoir(nx, pf, pi).simulate(times) *)
  Definition id_simulate (nx : nat) (nxT : T) (times : list T) : list (list T) :=
    let h := n1 N /! (nxT -! n1 N) in
    simulate_ideal nx (h *! h) times.
  Definition sp_recovery (fp : flowprops) (nxT : T) (density : bool) (times : list T)
             (field : list (list T)) : list T :=
    if density then recovery_density fp (n1 N) field
    else recovery_flux (nxT -! n1 N) (n1 N) times field.
  Definition id_recovery (nxT pf pi : T) (times : list T) (field : list (list T)) : list T :=
    recovery_flux (nxT -! n1 N) (n1 N -! pf /! pi) times field.

  (* ---------------- per-step residuals of a given field (C04) ----------------
     For each consecutive pair (prev, new) of a stored field, rebuild the step's matrix and
     right-hand side from prev and report  max|A new - b| / max|b|. *)
  (* relative to max|b|, but never to less than [floor] (a fixed fraction of the run's initial
     pseudopressure): once the whole profile has decayed below the solver's absolute tolerance
     the residual is judged against the scale of the run, not against a vanishing b *)
  Definition rel_resid (floor : T) (rows : list (T * T * T)) (x b : list T) : T :=
    resid_inf N rows x b /! nmax N floor (lmax N (n0 N) (map (nabs N) b)).
  Fixpoint resid_single (floor : T) (alpha_s : T -> T) (m_i dx2 : T) (times mf : list T)
           (field : list (list T)) : list T :=
    match times, mf, field with
    | t0 :: ((t1 :: _) as tt), f0 :: ft, prev :: ((new :: _) as rest) =>
        let mesh := (t1 -! t0) /! dx2 in
        let b0 := single_b0 m_i f0 prev in
        rel_resid floor (rows_of N (single_k alpha_s mesh b0)) new (single_rhs alpha_s f0 mesh b0)
        :: resid_single floor alpha_s m_i dx2 tt ft rest
    | _, _, _ => []
    end.
  Fixpoint resid_ideal (floor dx2 : T) (times : list T) (field : list (list T)) : list T :=
    match times, field with
    | t0 :: ((t1 :: _) as tt), prev :: ((new :: _) as rest) =>
        let mesh := (t1 -! t0) /! dx2 in
        rel_resid floor (rows_of N (map (fun _ => mesh *! n1 N) prev)) new prev
        :: resid_ideal floor dx2 tt rest
    | _, _ => []
    end.
  Definition sp_residuals (frac : T) (fp : flowprops) (nxT : T) (times pf_sched : list T)
             (field : list (list T)) : list T :=
    match all_some (map (m_scaled_func fp) pf_sched) with
    | None => []
    | Some mf => resid_single (frac *! fp_m_i fp) (alpha_scaled fp) (fp_m_i fp) ((n1 N /! nxT) *! (n1 N /! nxT)) times mf field
    end.
  Definition id_residuals (frac nxT : T) (times : list T) (field : list (list T)) : list T :=
    let h := n1 N /! (nxT -! n1 N) in resid_ideal (frac *! n1 N) (h *! h) times field.

  (* interpolator over (time, recovery) with fill (0, last) *)
  Definition rf_interp (times rec : list T) (t : T) : T :=
    interp_fill N (n0 N) (last rec (n0 N)) times rec t.
End Model.
