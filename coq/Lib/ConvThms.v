(* ConvThms (C02, C03): max-norm stability of the implicit step (the Lax-Richtmyer half that a
   theorem can carry), the exact discrete mass balance of the step, the ceiling of in-place
   recovery, exactness of the flux stencil, and the zero start of both recovery modes. *)
From Coq Require Import Reals List Lra Lia Arith.
From BBLib Require Import NumSig MinPrinciple Tridiag Interp Reservoir ReservoirThms.
Import ListNotations.
Open Scope R_scope.

Lemma Rabs_le_inv' x a : Rabs x <= a -> - a <= x <= a.
Proof. unfold Rabs. destruct (Rcase_abs x); intros; lra. Qed.

(* ---- stability: the step is a max-norm contraction in its data ---- *)
Theorem step_stability n K B B' U W g g' eps : (1 <= n)%nat ->
  (forall j, (1 <= j <= n)%nat -> 0 <= K j) ->
  Sys n K B U g -> Sys n K B' W g' ->
  Rabs (g - g') <= eps -> (forall j, (1 <= j <= n)%nat -> Rabs (B j - B' j) <= eps) ->
  forall j, (j <= S n)%nat -> Rabs (U j - W j) <= eps.
Proof.
  intros Hn HK [U0 [Um Ur]] [W0 [Wm Wr]] Hg HB j Hj.
  assert (Heps : 0 <= eps) by (eapply Rle_trans; [apply Rabs_pos|exact Hg]).
  assert (SD : Sys n K (fun i => B i - B' i) (fun i => U i - W i) (g - g')).
  { split; [lra|]. split; [lra|]. intros i Hi. specialize (Ur i Hi). specialize (Wr i Hi). unfold Row in *. lra. }
  apply Rabs_le. split.
  - apply (step_lower n Hn K (fun i => B i - B' i) (fun i => U i - W i) (g - g') HK SD (- eps)); auto.
    + apply Rabs_le_inv' in Hg. lra.
    + intros i Hi. specialize (HB i Hi). apply Rabs_le_inv' in HB. lra.
  - apply (step_upper n K (fun i => B i - B' i) (fun i => U i - W i) (g - g') eps Hn HK SD); auto.
    + apply Rabs_le_inv' in Hg. lra.
    + intros i Hi. specialize (HB i Hi). apply Rabs_le_inv' in HB. lra.
Qed.

(* error propagation: if a reference field satisfies the step up to a defect tau (its truncation
   residual), the distance to it grows by at most |tau| per step *)
Corollary error_propagation n K Bu Bw U W g tau err : (1 <= n)%nat ->
  (forall j, (1 <= j <= n)%nat -> 0 <= K j) ->
  Sys n K Bu U g -> Sys n K (fun j => Bw j + tau j) W g ->
  (forall j, (1 <= j <= n)%nat -> Rabs (Bu j - Bw j) <= err) ->
  forall T, (forall j, (1 <= j <= n)%nat -> Rabs (tau j) <= T) ->
  forall j, (j <= S n)%nat -> Rabs (U j - W j) <= err + T.
Proof.
  intros Hn HK SU SW HB T HT j Hj.
  assert (He : 0 <= err + T).
  { specialize (HB 1%nat ltac:(lia)). specialize (HT 1%nat ltac:(lia)).
    pose proof (Rabs_pos (Bu 1%nat - Bw 1%nat)). pose proof (Rabs_pos (tau 1%nat)). lra. }
  apply (step_stability n K Bu (fun j => Bw j + tau j) U W g g (err + T)); auto.
  - replace (g - g) with 0 by ring. rewrite Rabs_R0. exact He.
  - intros i Hi. specialize (HB i Hi). specialize (HT i Hi).
    replace (Bu i - (Bw i + tau i)) with ((Bu i - Bw i) + - tau i) by ring.
    eapply Rle_trans; [apply Rabs_triang|]. rewrite Rabs_Ropp. lra.
Qed.

(* ---- exact discrete mass balance of one step with constant coefficient ---- *)
Fixpoint nsumf (f : nat -> R) (n : nat) : R := match n with O => 0 | S m => nsumf f m + f (S m) end.

Lemma telescope (U : nat -> R) n :
  nsumf (fun j => U (j - 1)%nat - 2 * U j + U (j + 1)%nat) n = U 0%nat - U 1%nat - U n + U (S n).
Proof.
  induction n as [|m IH]; [simpl; ring|]. cbn [nsumf]. rewrite IH.
  replace (S m - 1)%nat with m by lia. replace (S m + 1)%nat with (S (S m)) by lia. ring.
Qed.

Lemma nsumf_ext f h n : (forall j, (1 <= j <= n)%nat -> f j = h j) -> nsumf f n = nsumf h n.
Proof. induction n as [|m IH]; intros H; [reflexivity|]. cbn [nsumf]. rewrite IH, H by (try lia; intros; apply H; lia). reflexivity. Qed.
Lemma nsumf_plus f h n : nsumf (fun j => f j + h j) n = nsumf f n + nsumf h n.
Proof. induction n as [|m IH]; simpl; [ring|]. rewrite IH. ring. Qed.
Lemma nsumf_scal c f n : nsumf (fun j => c * f j) n = c * nsumf f n.
Proof. induction n as [|m IH]; simpl; [ring|]. rewrite IH. ring. Qed.

(* the change of the stored total over one step is the backward-Euler face flux K (U_1 - g) *)
Theorem discrete_mass_balance n Kc B U g : Sys n (fun _ => Kc) B U g ->
  nsumf U n = nsumf B n - Kc * (U 1%nat - g).
Proof.
  intros [U0 [Um Ur]].
  assert (E : nsumf B n = nsumf (fun j => U j + - Kc * (U (j - 1)%nat - 2 * U j + U (j + 1)%nat)) n).
  { apply nsumf_ext. intros j Hj. specialize (Ur j Hj). unfold Row in Ur. lra. }
  rewrite E, nsumf_plus, nsumf_scal, telescope, Um, U0. ring.
Qed.

(* hence the stored total never increases while the profile stays at or above the frac-face value *)
Corollary stored_total_decreases n Kc B U g : 0 <= Kc -> Sys n (fun _ => Kc) B U g -> g <= U 1%nat ->
  nsumf U n <= nsumf B n.
Proof. intros HK S H. rewrite (discrete_mass_balance n Kc B U g S). nra. Qed.

(* ---- ceiling of in-place recovery ---- *)
Definition lsum (l : list R) : R := fold_right Rplus 0 l.

Lemma lsum_lower (rho : R -> R) lo (l : list R) : (forall v, In v l -> rho lo <= rho v) ->
  INR (length l) * rho lo <= lsum (map rho l).
Proof.
  induction l as [|x t IH]; intros H; [simpl; lra|].
  cbn [length map lsum fold_right]. rewrite S_INR. fold (lsum (map rho t)).
  assert (rho lo <= rho x) by (apply H; left; reflexivity).
  assert (INR (length t) * rho lo <= lsum (map rho t)) by (apply IH; intros; apply H; right; assumption). lra.
Qed.
Lemma lsum_upper (rho : R -> R) hi (l : list R) : (forall v, In v l -> rho v <= rho hi) ->
  lsum (map rho l) <= INR (length l) * rho hi.
Proof.
  induction l as [|x t IH]; intros H; [simpl; lra|].
  cbn [length map lsum fold_right]. rewrite S_INR. fold (lsum (map rho t)).
  assert (rho x <= rho hi) by (apply H; left; reflexivity).
  assert (lsum (map rho t) <= INR (length t) * rho hi) by (apply IH; intros; apply H; right; assumption). lra.
Qed.

(* with a density that does not decrease with scaled pseudopressure, and every stored value
   between lo and m_i (C01), in-place recovery never exceeds 1 - rho(lo)/rho(m_i) *)
Theorem inplace_ceiling (rho : R -> R) lo m_i (init prof : list R) :
  (forall a b, a <= b -> rho a <= rho b) -> 0 < rho lo ->
  length prof = length init -> (1 <= length init)%nat ->
  (forall v, In v init -> v <= m_i) -> (forall v, In v prof -> lo <= v) -> lo <= m_i ->
  0 < lsum (map rho init) ->
  1 - lsum (map rho prof) / lsum (map rho init) <= 1 - rho lo / rho m_i.
Proof.
  intros Hmono Hpos Hlen Hn Hinit Hprof Hlm Hm0.
  set (n := INR (length init)).
  assert (Hn0 : 0 < n) by (unfold n; apply lt_0_INR; lia).
  assert (H1 : n * rho lo <= lsum (map rho prof)).
  { unfold n. rewrite <- Hlen. apply lsum_lower. intros v Hv. apply Hmono. now apply Hprof. }
  assert (H2 : lsum (map rho init) <= n * rho m_i).
  { unfold n. apply lsum_upper. intros v Hv. apply Hmono. now apply Hinit. }
  assert (Hmi : 0 < rho m_i) by (eapply Rlt_le_trans; [exact Hpos|now apply Hmono]).
  apply Rplus_le_compat_l, Ropp_le_contravar.
  apply Rle_trans with ((n * rho lo) / (n * rho m_i)).
  - right. field. split; lra.
  - apply Rle_trans with (lsum (map rho prof) / (n * rho m_i)).
    + apply Rmult_le_compat_r; [left; apply Rinv_0_lt_compat; nra|exact H1].
    + apply Rmult_le_compat_l; [nra|]. apply Rinv_le_contravar; [exact Hm0|exact H2].
Qed.

(* ---- recovery starts at zero in both modes ---- *)
Theorem recovery_flux_starts_at_zero h_inv fvf times (field : list (list R)) : field <> [] ->
  nth 0 (recovery_flux NumR h_inv fvf times field) 1 = 0.
Proof.
  intros Hne. unfold recovery_flux, cumtrapz. destruct field as [|p0 ps]; [contradiction|].
  cbn [map nth]. simpl. ring.
Qed.

Theorem recovery_density_starts_at_zero (fp : flowprops (T := R)) fvf (field : list (list R)) :
  field <> [] ->
  nsum_l NumR (map (fun m => interp_lin NumR (fp_mscaled fp) (fp_density fp) m) (hd [] field)) <> 0 ->
  nth 0 (recovery_density NumR fp fvf field) 1 = 0.
Proof.
  intros Hne Hm. unfold recovery_density. destruct field as [|p0 ps]; [contradiction|].
  cbn [map hd nth] in *. simpl. field. exact Hm.
Qed.

(* ---- the one-sided flux stencil (-u2 + 4 u1 - 3 u0)/(2h) is exact for quadratics ---- *)
Theorem flux_stencil_exact_for_quadratics a b c h : h <> 0 ->
  let u := fun x => a * x ^ 2 + b * x + c in
  (- u (2 * h) + 4 * u h - 3 * u 0) / (2 * h) = b.
Proof. intros Hh u. unfold u. field. exact Hh. Qed.

(* as coded: (-pp[2] + 4 pp[1] - 3 pp[0]) * h_inv * 0.5 with h_inv = 1/h *)
Theorem flux_rate_is_stencil h_inv (prof : list R) :
  flux_rate NumR h_inv prof = (- nth 2 prof 0 + 4 * nth 1 prof 0 - 3 * nth 0 prof 0) * h_inv * (1 / 2).
Proof. unfold flux_rate, four, three, half, nneg. simpl. ring. Qed.
