(* Known finding K1 (C06, C07): gas.py's first DAK density coefficient is A1*A2/T_r where the
   published equation has A1 + A2/T_r.  Exact characterisation: the coded equation of state
   differs from the published one by delta(T_r) * rho and nothing else; compressibility_DAK
   differentiates the published one. *)
From Coq Require Import Reals Lra.
From Coquelicot Require Import Coquelicot.
From Interval Require Import Tactic.
From BBLib Require Import DAK_spec.
Open Scope R_scope.

Theorem K1_coded_eos_is_published_minus_linear_term : forall t r,
  Zeos C0code t r = Zeos C0pub t r - delta t * r.
Proof. exact Zeos_code_vs_pub. Qed.
Print Assumptions K1_coded_eos_is_published_minus_linear_term.

Theorem K1_derivative_of_coded_eos : forall t r : R, t <> 0 ->
  is_derive (Zeos C0code t) r (dZeos_pub t r - delta t).
Proof. exact dZeos_code_is_derivative. Qed.
Print Assumptions K1_derivative_of_coded_eos.

(* the full-strength statement "the coded EOS is the published EOS" is refuted *)
Theorem K1_eos_is_published_refuted : exists t r, 105 / 100 <= t <= 3 /\ Zeos C0code t r <> Zeos C0pub t r.
Proof.
  exists (105 / 100), 1. split; [lra|]. rewrite Zeos_code_vs_pub.
  assert (delta (105 / 100) * 1 <> 0) by (unfold delta, A1, A2; lra). lra.
Qed.
Print Assumptions K1_eos_is_published_refuted.

(* delta vanishes only at T_r = A2 (A1 - 1) / A1 ~ 2.207, which is why both pinned tests pass *)
Theorem K1_delta_zero_only_at : forall t, 0 < t -> (delta t = 0 <-> t = A2 * (A1 - 1) / A1).
Proof.
  intros t Ht.
  assert (E : delta t * t = A1 * t + A2 * (1 - A1)) by (unfold delta; field; lra).
  unfold A1, A2 in *. split; intros H.
  - rewrite H in E. lra.
  - assert (E0 : delta t * t = 0) by (rewrite E; subst t; field).
    destruct (Rmult_integral _ _ E0); [assumption|lra].
Qed.
Print Assumptions K1_delta_zero_only_at.
