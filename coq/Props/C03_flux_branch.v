(* C02 / C03, tie 1 for the flux branch of recovery_factor regenerated from reservoir.py: with the three leading columns of
   the stored field as arguments it is the model's recovery_flux (stencil rate at every stored level, cumulative trapezoid over
   the stored times, times the formation-volume scale), with h_inv = nx - 1. *)
From Coq Require Import Reals List Lra.
From BBLib Require Import PyPrelude NumSig Tridiag Interp Reservoir.
From BBRun Require Import Gen_reservoir.
Import ListNotations.
Open Scope R_scope.

Lemma vmap2_maps {A} (f : R -> R -> R) (g h : A -> R) : forall l,
  vmap2 f (map g l) (map h l) = map (fun x => f (g x) (h x)) l.
Proof. induction l as [|x l IH]; [reflexivity|]. unfold vmap2 in *. cbn [map combine fst snd]. now rewrite IH. Qed.

Lemma cumtrapz_from_same : forall y x acc, PyPrelude.cumtrapz_from acc y x = Interp.cumtrapz_from NumR acc y x.
Proof. intros. reflexivity. Qed.   (* the two fixpoints are convertible at the R instance *)
Lemma cumtrapz_same y x : PyPrelude.cumtrapz y x = Interp.cumtrapz NumR y x.
Proof. destruct y; reflexivity. Qed.

Definition col (k : nat) (field : list (list R)) : list R := map (fun prof => nth k prof 0) field.

Theorem C03_flux_branch_is_model_recovery_flux : forall field time nxT fvf,
  recovery_flux_cols (col 0 field) (col 1 field) (col 2 field) time nxT fvf
  = recovery_flux NumR (nxT - 1) fvf time field.
Proof.
  intros. unfold recovery_flux_cols, recovery_flux; cbv zeta.
  assert (E : muls (muls (vsub (vadd (vneg (col 2 field)) (smul 4 (col 1 field))) (smul 3 (col 0 field))) (nxT - 1)) (5 / 10)
              = map (flux_rate NumR (nxT - 1)) field).
  { unfold col, vneg, smul, vsub, vadd, muls. rewrite !map_map.
    rewrite (vmap2_maps Rplus (fun p => - nth 2 p 0) (fun p => 4 * nth 1 p 0)).
    rewrite (vmap2_maps Rminus (fun p => - nth 2 p 0 + 4 * nth 1 p 0) (fun p => 3 * nth 0 p 0)).
    rewrite !map_map. apply map_ext. intros p. unfold flux_rate, four, three, half, nneg. simpl. field. }
  rewrite E, cumtrapz_same. unfold muls. apply map_ext. intros. reflexivity.
Qed.
Print Assumptions C03_flux_branch_is_model_recovery_flux.
