(* C02 / C04 / C17, tie 1 for the mesh constants regenerated from reservoir.py: what each simulate computes from the node count
   before its loop is the spacing the model's wrappers use - (1/(nx-1))^2 for the ideal reservoir (np.linspace(0, 1, nx)),
   (1/nx)^2 for the single-phase one - a function of the CURRENT node count only (the translation fails closed when anything
   else of the object enters), positive, and shrinking under refinement. *)
From Coq Require Import Reals List Lra Lia.
From BBLib Require Import PyPrelude NumSig Tridiag Interp Reservoir.
From BBRun Require Import Gen_reservoir.
Import ListNotations.
Open Scope R_scope.

Lemma nth_linspace a b n k : (k < n)%nat -> nth k (linspace a b n) 0 = a + INR k * ((b - a) / (INR n - 1)).
Proof.
  intros Hk. unfold linspace.
  set (f := fun k0 : nat => a + INR k0 * ((b - a) / (INR n - 1))).
  rewrite (nth_indep (map f (seq 0 n)) 0 (f 0%nat)) by (rewrite map_length, seq_length; exact Hk).
  rewrite (map_nth f (seq 0 n) 0%nat k). rewrite seq_nth by exact Hk. reflexivity.
Qed.

Theorem C02_ideal_mesh_constant : forall nx, (2 <= nx)%nat ->
  ideal_dx_squared nx = (1 / (INR nx - 1)) * (1 / (INR nx - 1)).
Proof.
  intros nx H. unfold ideal_dx_squared; cbv zeta. rewrite !nth_linspace by lia. simpl INR.
  assert (Hn : INR nx - 1 <> 0). { assert (2 <= INR nx) by (change 2 with (INR 2); now apply le_INR). lra. }
  field. exact Hn.
Qed.
Print Assumptions C02_ideal_mesh_constant.

Theorem C02_single_mesh_constant : forall nx, (1 <= nx)%nat ->
  single_dx_squared nx = (1 / INR nx) * (1 / INR nx).
Proof. intros nx H. unfold single_dx_squared; cbv zeta. simpl. ring. Qed.
Print Assumptions C02_single_mesh_constant.

(* ... which are the spacings of the model's whole-run wrappers *)
Theorem C02_ideal_wrapper_uses_this_constant : forall nx times, (2 <= nx)%nat ->
  id_simulate NumR nx (INR nx) times = simulate_ideal NumR nx (ideal_dx_squared nx) times.
Proof. intros nx times H. unfold id_simulate. rewrite C02_ideal_mesh_constant by exact H. reflexivity. Qed.
Print Assumptions C02_ideal_wrapper_uses_this_constant.

Theorem C02_mesh_constants_positive_and_refining : forall nx, (2 <= nx)%nat ->
  0 < ideal_dx_squared nx /\ 0 < single_dx_squared nx /\
  ideal_dx_squared (S nx) < ideal_dx_squared nx /\ single_dx_squared (S nx) < single_dx_squared nx.
Proof.
  intros nx H.
  assert (Hn : 2 <= INR nx) by (change 2 with (INR 2); now apply le_INR).
  rewrite !C02_ideal_mesh_constant, !C02_single_mesh_constant by lia. rewrite S_INR.
  assert (P1 : 0 < 1 / (INR nx - 1)) by (apply Rdiv_lt_0_compat; lra).
  assert (P2 : 0 < 1 / INR nx) by (apply Rdiv_lt_0_compat; lra).
  assert (P3 : 0 < 1 / (INR nx + 1)) by (apply Rdiv_lt_0_compat; lra).
  assert (L1 : 1 / (INR nx + 1 - 1) < 1 / (INR nx - 1)).
  { unfold Rdiv. rewrite !Rmult_1_l. apply Rinv_lt_contravar; [apply Rmult_lt_0_compat; lra | lra]. }
  assert (L2 : 1 / (INR nx + 1) < 1 / INR nx).
  { unfold Rdiv. rewrite !Rmult_1_l. apply Rinv_lt_contravar; [apply Rmult_lt_0_compat; lra | lra]. }
  assert (P4 : 0 < 1 / (INR nx + 1 - 1)) by (apply Rdiv_lt_0_compat; lra).
  repeat split; try (apply Rmult_lt_0_compat; assumption); apply Rmult_le_0_lt_compat; lra.
Qed.
Print Assumptions C02_mesh_constants_positive_and_refining.

Example C02_mesh_example : ideal_dx_squared 11 = 1 / 100 /\ single_dx_squared 10 = 1 / 100.
Proof. split; [rewrite C02_ideal_mesh_constant by lia | rewrite C02_single_mesh_constant by lia]; simpl; field. Qed.
