(* C13 (oil clauses): hand-coded derivatives in oil.py are the derivatives of the library's
   own parent functions; the all-pressure compressibility is assembled from them. *)
From Coq Require Import Reals Lra.
From Coquelicot Require Import Coquelicot.
From BBLib Require Import PyPrelude Analysis.
From BBRun Require Import Gen_gas Gen_oil.
Open Scope R_scope.

Section Oil.
Variable brentq : (R -> R) -> R -> R -> R.
Variables T api gg Rsi : R.
Let pb := pressure_bubblepoint_Standing T api gg Rsi.

(* ---- dRs/dp ---- *)
Definition cT := pypow 10 ((125 / 10000) * api - (91 / 100000) * T).

Lemma cT_pos : 0 < cT.
Proof. unfold cT. apply pypow_gt0. lra. Qed.

Lemma gor_below_branch p : p < pb ->
  solution_gor_Standing T p api gg Rsi
  = gg * pypow ((p / (182 / 10) + 14 / 10) * cT) (1 / (83 / 100)).
Proof.
  intros Hp. unfold solution_gor_Standing; cbv zeta. fold pb.
  destruct (Rle_dec pb p); [lra|]. reflexivity.
Qed.

Lemma gor_above_branch p : pb <= p -> solution_gor_Standing T p api gg Rsi = Rsi.
Proof.
  intros Hp. unfold solution_gor_Standing; cbv zeta. fold pb.
  destruct (Rle_dec pb p); [reflexivity|lra].
Qed.

Lemma dgor_below_branch p : p < pb ->
  dgor_dpressure_Standing T p api gg Rsi
  = gg / ((83 / 100) * (182 / 10)) * pypow (p / (182 / 10) + 14 / 10) (1 / (83 / 100) - 1)
    * pypow 10 (((125 / 10000) * api - (91 / 100000) * T) / (83 / 100)).
Proof.
  intros Hp. unfold dgor_dpressure_Standing; cbv zeta. fold pb.
  destruct (Rle_dec pb p); [lra|]. reflexivity.
Qed.

Lemma dgor_is_derivative_below p : - (2548 / 100) < p < pb ->
  is_derive (fun q => solution_gor_Standing T q api gg Rsi) p
            (dgor_dpressure_Standing T p api gg Rsi).
Proof.
  intros [Hlo Hhi].
  apply (is_derive_ext_loc
           (fun q => gg * pypow ((q / (182 / 10) + 14 / 10) * cT) (1 / (83 / 100)))).
  { apply (locally_lt pb); [exact Hhi|]. intros q Hq. now rewrite gor_below_branch. }
  rewrite dgor_below_branch by exact Hhi.
  pose proof cT_pos as Hc.
  set (x := p / (182 / 10) + 14 / 10).
  assert (Hx : 0 < x) by (unfold x; lra).
  assert (Hxc : 0 < x * cT) by (apply Rmult_lt_0_compat; assumption).
  evar_last.
  - apply is_derive_scal.
    apply (is_derive_pypow_comp (fun q => (q / (182 / 10) + 14 / 10) * cT)).
    + exact Hxc.
    + auto_derive; [exact I|reflexivity].
  - unfold scal, mult; simpl. unfold mult; simpl. fold x.
    rewrite !pypow_pos by (assumption || lra).
    unfold cT in *. rewrite pypow_pos in * by lra.
    set (e := 125 / 10000 * api - 91 / 100000 * T) in *.
    rewrite <- (Rpower_mult_distr x (Rpower 10 e)) by assumption.
    rewrite Rpower_mult.
    replace (e / (83 / 100)) with (e * (1 / (83 / 100) - 1) + e) by field.
    rewrite Rpower_plus. field.
Qed.

Lemma dgor_zero_above p : pb < p ->
  is_derive (fun q => solution_gor_Standing T q api gg Rsi) p 0
  /\ dgor_dpressure_Standing T p api gg Rsi = 0.
Proof.
  intros Hp. split.
  - apply (is_derive_ext_loc (fun _ => Rsi)).
    + apply (locally_gt pb); [exact Hp|]. intros q Hq. rewrite gor_above_branch; [reflexivity|lra].
    + apply @is_derive_const.
  - unfold dgor_dpressure_Standing; cbv zeta. fold pb. destruct (Rle_dec pb p); [reflexivity|lra].
Qed.

(* at the bubble point itself: the coded derivative is 0 and GOR is constant on [pb, oo),
   i.e. 0 is the right derivative ("at and above") *)
Lemma dgor_zero_at_pb p : pb <= p ->
  dgor_dpressure_Standing T p api gg Rsi = 0
  /\ forall q, pb <= q -> solution_gor_Standing T q api gg Rsi = solution_gor_Standing T p api gg Rsi.
Proof.
  intros Hp. split.
  - unfold dgor_dpressure_Standing; cbv zeta. fold pb. destruct (Rle_dec pb p); [reflexivity|lra].
  - intros q Hq. now rewrite !gor_above_branch.
Qed.

(* ---- dBob/dRs ---- *)
Lemma dBo_dgor_is_derivative r :
  0 < r * sqrt (gg / ((1415 / 10) / ((1315 / 10) + api))) + (125 / 100) * T ->
  is_derive (fun q => b_o_bubblepoint_Standing T api gg q) r (db_o_dgor_Standing T api gg r).
Proof.
  intros Hb. unfold b_o_bubblepoint_Standing, db_o_dgor_Standing; cbv zeta.
  set (s := sqrt (gg / ((1415 / 10) / ((1315 / 10) + api)))) in *.
  evar_last.
  - apply @is_derive_plus; [apply @is_derive_const|].
    apply is_derive_scal.
    apply (is_derive_pypow_comp (fun q => q * s + 125 / 100 * T)).
    + exact Hb.
    + auto_derive; [exact I|reflexivity].
  - unfold scal, mult, plus, zero; simpl. unfold mult; simpl.
    replace (12 / 10 - 1) with (2 / 10) by lra. ring.
Qed.

(* ---- assembly of the all-pressure compressibility ---- *)
Lemma co_above p Tpc Ppc Tstd Pstd : pb <= p ->
  oil_compressibility_Standing brentq T p api gg Rsi Tpc Ppc Tstd Pstd
  = oil_compressibility_undersat_Spivey T p api gg Rsi.
Proof.
  intros Hp. unfold oil_compressibility_Standing; cbv zeta. fold pb.
  destruct (Rle_dec pb p); [reflexivity|lra].
Qed.

Lemma co_below p Tpc Ppc Tstd Pstd : p < pb ->
  oil_compressibility_Standing brentq T p api gg Rsi Tpc Ppc Tstd Pstd
  = (b_factor_DAK brentq T p Tpc Ppc Tstd Pstd
     - db_o_dgor_Standing T api gg (solution_gor_Standing T p api gg Rsi))
    * dgor_dpressure_Standing T p api gg Rsi
    / b_o_bubblepoint_Standing T api gg Rsi.
Proof.
  intros Hp. rewrite dgor_below_branch by exact Hp.
  unfold oil_compressibility_Standing; cbv zeta. fold pb.
  destruct (Rle_dec pb p); [lra|]. unfold Rdiv. f_equal. f_equal. field.
Qed.
End Oil.

Theorem C13_dgor_is_derivative_below : forall T api gg Rsi p,
  - (2548 / 100) < p < pressure_bubblepoint_Standing T api gg Rsi ->
  is_derive (fun q => solution_gor_Standing T q api gg Rsi) p (dgor_dpressure_Standing T p api gg Rsi).
Proof. exact dgor_is_derivative_below. Qed.
Print Assumptions C13_dgor_is_derivative_below.

Theorem C13_dgor_zero_above : forall T api gg Rsi p,
  pressure_bubblepoint_Standing T api gg Rsi < p ->
  is_derive (fun q => solution_gor_Standing T q api gg Rsi) p 0
  /\ dgor_dpressure_Standing T p api gg Rsi = 0.
Proof. exact dgor_zero_above. Qed.
Print Assumptions C13_dgor_zero_above.

Theorem C13_dgor_zero_at_bubblepoint : forall T api gg Rsi p,
  pressure_bubblepoint_Standing T api gg Rsi <= p ->
  dgor_dpressure_Standing T p api gg Rsi = 0
  /\ forall q, pressure_bubblepoint_Standing T api gg Rsi <= q ->
       solution_gor_Standing T q api gg Rsi = solution_gor_Standing T p api gg Rsi.
Proof. exact dgor_zero_at_pb. Qed.
Print Assumptions C13_dgor_zero_at_bubblepoint.

Theorem C13_dBo_dgor_is_derivative : forall T api gg r,
  0 < r * sqrt (gg / ((1415 / 10) / ((1315 / 10) + api))) + (125 / 100) * T ->
  is_derive (fun q => b_o_bubblepoint_Standing T api gg q) r (db_o_dgor_Standing T api gg r).
Proof. exact dBo_dgor_is_derivative. Qed.
Print Assumptions C13_dBo_dgor_is_derivative.

Theorem C13_co_is_Spivey_at_and_above_pb : forall brentq T api gg Rsi p Tpc Ppc Tstd Pstd,
  pressure_bubblepoint_Standing T api gg Rsi <= p ->
  oil_compressibility_Standing brentq T p api gg Rsi Tpc Ppc Tstd Pstd
  = oil_compressibility_undersat_Spivey T p api gg Rsi.
Proof. exact co_above. Qed.
Print Assumptions C13_co_is_Spivey_at_and_above_pb.

Theorem C13_co_defining_combination_below_pb : forall brentq T api gg Rsi p Tpc Ppc Tstd Pstd,
  p < pressure_bubblepoint_Standing T api gg Rsi ->
  oil_compressibility_Standing brentq T p api gg Rsi Tpc Ppc Tstd Pstd
  = (b_factor_DAK brentq T p Tpc Ppc Tstd Pstd
     - db_o_dgor_Standing T api gg (solution_gor_Standing T p api gg Rsi))
    * dgor_dpressure_Standing T p api gg Rsi
    / b_o_bubblepoint_Standing T api gg Rsi.
Proof. exact co_below. Qed.
Print Assumptions C13_co_defining_combination_below_pb.

(* non-vacuity: an oil with p_b well above 50 psia exists and p = 2000 is below it *)
Example C13_hypotheses_inhabited :
  - (2548 / 100) < 2000 /\ 0 < 650 * sqrt ((8 / 10) / ((1415 / 10) / ((1315 / 10) + 35))) + (125 / 100) * 200.
Proof.
  split; [lra|]. apply Rplus_le_lt_0_compat; [|lra].
  apply Rmult_le_pos; [lra|apply sqrt_pos].
Qed.
