(* C19 / C08: positional signatures the hand model and the harness rely on, regenerated from the source on every run (see
   C10_signatures.v for the rationale: a field inserted in front of another, or two fields swapped, silently re-routes every
   positional caller - that is a change of these lists). *)
From Coq Require Import List String.
From BBRun Require Import Gen_fluid.
Import ListNotations.
Open Scope string_scope.

Theorem C19_fluid_signatures :
  Fluid_fields = ["temperature"; "api_gravity"; "gas_specific_gravity"; "solution_gor_initial"; "salinity"; "water_saturation_initial"] /\
  build_pvt_gas_params = ["gas_values"; "gas_dryness"; "maximum_pressure"].
Proof. repeat split; reflexivity. Qed.
Print Assumptions C19_fluid_signatures.

