(* C20: the production-comparison figure.  Gen_fitpressure's cmp_* are emitted from plot_production_comparison's data-path statements
   (matched one for one on every run); here: what the three lines carry. *)
From Coq Require Import Reals List Lra Lia Arith.
From BBLib Require Import PyPrelude NumSig FitPressure.
From BBRun Require Import Gen_fitpressure.
Import ListNotations.
Open Scope R_scope.

Lemma nth_map0 (f : R -> R) (l : list R) j : (j < length l)%nat -> nth j (map f l) 0 = f (nth j l 0).
Proof. intros Hj. rewrite (nth_indep _ 0 (f 0)) by (now rewrite map_length). apply map_nth. Qed.

Lemma fpp_cumsum_from_length : forall l acc, length (fpp_cumsum_from acc l) = length l.
Proof. induction l as [|x t IH]; intros acc; [reflexivity|]. cbn [fpp_cumsum_from length]. now rewrite IH. Qed.

(* running total: entry j of cumsum is the sum of the first j+1 entries *)
Lemma fpp_cumsum_from_nth : forall l acc j, (j < length l)%nat ->
  nth j (fpp_cumsum_from acc l) 0 = acc + fold_right Rplus 0 (firstn (S j) l).
Proof.
  induction l as [|x t IH]; intros acc j Hj; [cbn in Hj; lia|].
  cbn [fpp_cumsum_from]. destruct j as [|j].
  - cbn. lra.
  - cbn [nth]. cbn [length] in Hj. rewrite IH by lia. cbn [firstn fold_right]. lra.
Qed.

(* exactly three lines: simulated recovery, cumulative production over M, frac-face pressure - all three against time over tau *)
Theorem C20_comparison_lines_share_time_over_tau : forall time gas pf rf M tau,
  map fst (cmp_lines time gas pf rf M tau) = [obj_scaled_time time tau; obj_scaled_time time tau; obj_scaled_time time tau]
  /\ cmp_simulated_time time tau = obj_scaled_time time tau.
Proof. intros. split; reflexivity. Qed.
Print Assumptions C20_comparison_lines_share_time_over_tau.

Theorem C20_comparison_time_axis_is_time_over_tau : forall time tau j, (j < length time)%nat ->
  forall xy, In xy (cmp_lines time (@nil R) [] [] 1 tau) -> nth j (fst xy) 0 = nth j time 0 / tau.
Proof.
  intros time tau j Hj xy H. unfold cmp_lines in H. cbn [In] in H.
  destruct H as [E|[E|[E|[]]]]; subst xy; cbn [fst]; now rewrite nth_map0.
Qed.

(* the y-data: recovery as simulated, the running total of produced gas divided by M, the frac-face pressure untouched *)
Theorem C20_comparison_lines_carry_the_data : forall time gas pf rf M tau,
  map snd (cmp_lines time gas pf rf M tau) = [rf; map (fun c => c / M) (fpp_cumulative gas); pf]
  /\ length (map (fun c => c / M) (fpp_cumulative gas)) = length gas
  /\ forall j, (j < length gas)%nat ->
       nth j (map (fun c => c / M) (fpp_cumulative gas)) 0 = fold_right Rplus 0 (firstn (S j) gas) / M.
Proof.
  intros. split; [reflexivity|]. split.
  - unfold fpp_cumulative. now rewrite map_length, fpp_cumsum_from_length.
  - intros j Hj. unfold fpp_cumulative. rewrite nth_map0 by (now rewrite fpp_cumsum_from_length).
    rewrite fpp_cumsum_from_nth by exact Hj. f_equal. lra.
Qed.
Print Assumptions C20_comparison_lines_carry_the_data.

(* the time handed on: the row index when rows are filtered (as in the fit), the Days column otherwise *)
Theorem C20_comparison_time : forall days,
  cmp_time true days = fpp_time (length days) /\ cmp_time false days = days /\
  forall j, (j < length days)%nat -> nth j (cmp_time true days) 0 = INR j.
Proof.
  intros. repeat split. intros j Hj. unfold cmp_time, fpp_time.
  rewrite (nth_indep _ 0 (INR 0)) by (now rewrite map_length, seq_length). rewrite map_nth. now rewrite seq_nth.
Qed.
Print Assumptions C20_comparison_time.

(* same mesh as the objective of the fit *)
Theorem C20_comparison_uses_the_fit_mesh : cmp_nodes = obj_nodes.
Proof. reflexivity. Qed.

Example C20_comparison_non_vacuous :
  map snd (cmp_lines [0; 1; 2] [4; 6; 10] [900; 800; 700] [0; 1/10; 2/10] 20 2)
  = [[0; 1/10; 2/10]; map (fun c => c / 20) [0 + 4; 0 + 4 + 6; 0 + 4 + 6 + 10]; [900; 800; 700]].
Proof. reflexivity. Qed.
