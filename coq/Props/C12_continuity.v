(* C12, continuity clauses, literally: solution GOR, oil FVF, oil density and oil viscosity are
   continuous functions of pressure at the bubble point (continuity_pt), on the input box of the property.
   Each function is glued from its two branches (Analysis.continuity_pt_glue): the branches agree at p_b
   (C12_blackoil) and each is differentiable, hence continuous, there. *)
From Coq Require Import Reals Lra.
From Coquelicot Require Import Coquelicot.
From Interval Require Import Tactic.
From BBLib Require Import PyPrelude Analysis.
From BBRun Require Import Gen_gas Gen_oil.
From BBRun Require C12_blackoil C12_spivey C12_viscosity.
Open Scope R_scope.

Section Box.
  Variables T api gg Rsi : R.
  Hypothesis HT : 80 <= T <= 350.
  Hypothesis Hapi : 12 <= api <= 55.
  Hypothesis Hgg : 56 / 100 <= gg <= 13 / 10.
  Hypothesis HR : 20 <= Rsi <= 2500.
  Let pb := pressure_bubblepoint_Standing T api gg Rsi.
  Hypothesis Hpb : 50 < pb <= 30000.
  Let e := 125 / 10000 * api - 91 / 100000 * T.
  Lemma Hgg0 : 0 < gg. Proof. lra. Qed.
  Lemma HR0 : 0 < Rsi. Proof. lra. Qed.

  (* the below-branch GOR with exp/ln written out; equal to gor_below wherever its base is positive *)
  Definition gorR (p : R) := gg * exp (1 / (83 / 100) * ln ((p / (182 / 10) + 14 / 10) * exp (e * ln 10))).
  Lemma gor_below_R p : - (2548 / 100) < p -> C12_blackoil.gor_below T api gg p = gorR p.
  Proof.
    intros Hp. unfold C12_blackoil.gor_below, gorR. fold e.
    rewrite (pypow_pos_exp 10) by lra.
    rewrite pypow_pos_exp; [reflexivity|]. apply Rmult_lt_0_compat; [lra|apply exp_pos].
  Qed.
  Lemma gorR_ex_derive p : - (2548 / 100) < p -> ex_derive gorR p.
  Proof.
    intros Hp. unfold gorR. auto_derive.
    apply Rmult_lt_0_compat; [lra|apply exp_pos].
  Qed.
  Lemma gorR_pos p : 0 < gorR p.
  Proof. unfold gorR. apply Rmult_lt_0_compat; [exact Hgg0|apply exp_pos]. Qed.

  Lemma gor_below_continuous : continuity_pt (C12_blackoil.gor_below T api gg) pb.
  Proof.
    apply (continuity_pt_ext_loc gorR).
    - apply (locally_gt (- (2548 / 100))); [lra|]. intros y Hy. symmetry. now apply gor_below_R.
    - apply continuity_pt_of_ex_derive. apply gorR_ex_derive. lra.
  Qed.

  Theorem gor_continuous : continuity_pt (fun p => solution_gor_Standing T p api gg Rsi) pb.
  Proof.
    apply (continuity_pt_glue (C12_blackoil.gor_below T api gg) (fun _ => Rsi)).
    - intros x Hx. now apply C12_blackoil.gor_is_below.
    - intros x Hx. now apply C12_blackoil.gor_is_initial.
    - exact gor_below_continuous.
    - apply continuity_pt_of_ex_derive. auto_derive. exact I.
    - cbv beta. apply C12_blackoil.gor_at_bubblepoint; [exact Hgg0|exact HR0].
  Qed.

  (* ---------------- oil formation volume factor ---------------- *)
  Let s := sqrt (gg / (1415 / 10 / (1315 / 10 + api))).
  Definition BoR (p : R) := 9759 / 10000 + 12 / 100000 * exp (12 / 10 * ln (gorR p * s + 125 / 100 * T)).
  Lemma s_nonneg : 0 <= s. Proof. apply sqrt_pos. Qed.
  Lemma Bob_R r : 0 < r -> b_o_bubblepoint_Standing T api gg r = 9759 / 10000 + 12 / 100000 * exp (12 / 10 * ln (r * s + 125 / 100 * T)).
  Proof.
    intros Hr. unfold b_o_bubblepoint_Standing; cbv zeta. fold s.
    rewrite pypow_pos_exp; [reflexivity|]. pose proof s_nonneg. nra.
  Qed.
  Lemma BoR_ex_derive p : - (2548 / 100) < p -> ex_derive BoR p.
  Proof.
    intros Hp. unfold BoR. 
    apply (ex_derive_plus (fun _ => 9759 / 10000) (fun q => 12 / 100000 * exp (12 / 10 * ln (gorR q * s + 125 / 100 * T)))).
    - auto_derive. exact I.
    - apply ex_derive_scal.
      apply (ex_derive_comp (fun t => exp (12 / 10 * ln t)) (fun q => gorR q * s + 125 / 100 * T)).
      + auto_derive. pose proof (gorR_pos p). pose proof s_nonneg. nra.
      + apply (ex_derive_plus (fun q => gorR q * s) (fun _ => 125 / 100 * T)).
        * apply (ex_derive_mult gorR (fun _ => s)); [now apply gorR_ex_derive|auto_derive; exact I].
        * auto_derive. exact I.
  Qed.

  Definition BoAbove (x : R) :=
    b_o_bubblepoint_Standing T api gg Rsi * exp (- (1 / 1000000) * pb * C12_spivey.G (C12_spivey.z0 T api gg Rsi) (x / pb)).
  Lemma Bo_above_form x : pb <= x -> b_o_Standing T x api gg Rsi = BoAbove x.
  Proof.
    intros Hx. unfold b_o_Standing, BoAbove; cbv zeta. fold pb. destruct (Rle_dec pb x); [|lra].
    rewrite (C12_spivey.spivey_form T api gg Rsi Hpb) by lra. fold pb. f_equal. f_equal.
    unfold C12_spivey.G. field. lra.
  Qed.
  Lemma BoAbove_continuous : continuity_pt BoAbove pb.
  Proof.
    apply continuity_pt_of_ex_derive. unfold BoAbove.
    destruct (C12_spivey.G_increasing (C12_spivey.z0 T api gg Rsi) 1
                (C12_spivey.z0_range T api gg Rsi HT Hapi Hgg HR Hpb) ltac:(lra)) as [d [Hd _]].
    apply ex_derive_scal.
    apply (ex_derive_comp exp (fun x => - (1 / 1000000) * pb * C12_spivey.G (C12_spivey.z0 T api gg Rsi) (x / pb))).
    - auto_derive. exact I.
    - apply ex_derive_scal.
      apply (ex_derive_comp (C12_spivey.G (C12_spivey.z0 T api gg Rsi)) (fun x => x / pb)).
      + replace (pb / pb) with 1 by (field; lra). eexists. exact Hd.
      + auto_derive. exact I.
  Qed.

  Theorem Bo_continuous : continuity_pt (fun p => b_o_Standing T p api gg Rsi) pb.
  Proof.
    apply (continuity_pt_glue (fun p => b_o_bubblepoint_Standing T api gg (C12_blackoil.gor_below T api gg p)) BoAbove).
    - intros x Hx. now apply C12_blackoil.Bo_below.
    - intros x Hx. now apply Bo_above_form.
    - apply (continuity_pt_ext_loc BoR).
      + apply (locally_gt (- (2548 / 100))); [lra|]. intros y Hy.
        rewrite gor_below_R by exact Hy. rewrite Bob_R by apply gorR_pos. reflexivity.
      + apply continuity_pt_of_ex_derive. apply BoR_ex_derive. lra.
    - exact BoAbove_continuous.
    - cbv beta. replace (C12_blackoil.gor_below T api gg pb) with Rsi
        by (symmetry; apply C12_blackoil.gor_at_bubblepoint; [exact Hgg0|exact HR0]).
      unfold BoAbove. replace (pb / pb) with 1 by (field; lra).
      unfold C12_spivey.G. replace (1 - 1) with 0 by ring. rewrite Rmult_0_l, Rmult_0_r, exp_0. ring.
  Qed.

  (* ---------------- oil density ---------------- *)
  Theorem density_continuous : continuity_pt (fun p => density_Standing T p api gg Rsi) pb.
  Proof.
    set (num := fun p => 6237 / 100 * (1415 / 10 / (1315 / 10 + api)) + 136 / 10000 * gg * solution_gor_Standing T p api gg Rsi).
    set (den := fun p => b_o_Standing T p api gg Rsi).
    assert (E : forall p, density_Standing T p api gg Rsi = (num / den)%F p) by (intros p; reflexivity).
    apply (continuity_pt_ext (num / den)%F); [intros p; symmetry; apply E|].
    apply continuity_pt_div.
    - unfold num. apply (continuity_pt_plus (fun _ => 6237 / 100 * (1415 / 10 / (1315 / 10 + api)))
                           (fun p => 136 / 10000 * gg * solution_gor_Standing T p api gg Rsi)).
      + apply continuity_pt_const. intros x y. reflexivity.
      + apply (continuity_pt_scal (fun p => solution_gor_Standing T p api gg Rsi) (136 / 10000 * gg)). exact gor_continuous.
    - exact Bo_continuous.
    - unfold den. replace (b_o_Standing T pb api gg Rsi) with (b_o_bubblepoint_Standing T api gg Rsi)
        by (symmetry; apply (proj1 (C12_blackoil.Bo_continuous_at_bubblepoint T api gg Rsi Hgg0 HR0))).
      apply Rgt_not_eq. now apply C12_spivey.Bob_pos.
  Qed.

  (* ---------------- oil viscosity ---------------- *)
  Let D := C12_viscosity.mu_dead T api.
  Lemma D_facts : 0 < D /\ - (147 / 100) <= ln D <= 9.
  Proof. destruct (C12_viscosity.mu_dead_range T api HT Hapi) as [H1 H2]. unfold D. split; [lra|exact H2]. Qed.

  Definition muBelowR (p : R) := exp (C12_viscosity.lnV (ln D) (gorR p)).
  Definition muAboveR (p : R) :=
    _mu_dead_to_live_br D Rsi
    * exp ((26 / 10 * exp (1187 / 1000 * ln p) * exp (- (11513 / 1000) - 898 / 10000000 * p)) * ln (p / pb)).

  Lemma muBelowR_continuous : continuity_pt muBelowR pb.
  Proof.
    apply continuity_pt_of_ex_derive. unfold muBelowR.
    destruct D_facts as [HD HL].
    assert (Hg : gorR pb = Rsi).
    { rewrite <- gor_below_R by lra. apply C12_blackoil.gor_at_bubblepoint; [exact Hgg0|exact HR0]. }
    destruct (C12_viscosity.lnV_derivative_negative (ln D) (gorR pb) HL ltac:(rewrite Hg; lra)) as [d [Hd _]].
    apply (ex_derive_comp exp (fun p => C12_viscosity.lnV (ln D) (gorR p))).
    - auto_derive. exact I.
    - apply (ex_derive_comp (C12_viscosity.lnV (ln D)) gorR).
      + eexists. exact Hd.
      + apply gorR_ex_derive. lra.
  Qed.

  Lemma muAboveR_continuous : continuity_pt muAboveR pb.
  Proof.
    apply continuity_pt_of_ex_derive. unfold muAboveR. auto_derive.
    repeat split; try exact I; try lra. apply Rdiv_lt_0_compat; lra.
  Qed.

  Theorem viscosity_continuous : continuity_pt (fun p => viscosity_beggs_robinson T p api gg Rsi) pb.
  Proof.
    destruct D_facts as [HD HL].
    apply (continuity_pt_glue (fun p => _mu_dead_to_live_br D (C12_blackoil.gor_below T api gg p))
                              (fun p => _mu_dead_to_live_br D Rsi
                                        * pypow (p / pb) (26 / 10 * pypow p (1187 / 1000) * exp (- (11513 / 1000) - 898 / 10000000 * p)))).
    - intros x Hx. rewrite C12_viscosity.visc_below by exact Hx. fold D.
      now rewrite C12_blackoil.gor_is_below by exact Hx.
    - intros x Hx. now rewrite C12_viscosity.visc_above by exact Hx.
    - apply (continuity_pt_ext_loc muBelowR); [|exact muBelowR_continuous].
      apply (locally_gt (- (2548 / 100))); [lra|]. intros y Hy.
      rewrite gor_below_R by exact Hy. unfold muBelowR. symmetry.
      apply C12_viscosity.mu_live_form; [exact HD|]. left. apply gorR_pos.
    - apply (continuity_pt_ext_loc muAboveR); [|exact muAboveR_continuous].
      apply (locally_gt 0); [lra|]. intros y Hy. unfold muAboveR.
      rewrite (pypow_pos_exp y) by exact Hy.
      rewrite pypow_pos_exp by (apply Rdiv_lt_0_compat; lra). reflexivity.
    - cbv beta. replace (C12_blackoil.gor_below T api gg pb) with Rsi
        by (symmetry; apply C12_blackoil.gor_at_bubblepoint; [exact Hgg0|exact HR0]).
      replace (pb / pb) with 1 by (field; lra).
      rewrite (pypow_pos_exp 1) by lra. rewrite ln_1, Rmult_0_r, exp_0. ring.
  Qed.
End Box.

Theorem C12_gor_is_continuous_at_bubblepoint : forall T api gg Rsi,
  80 <= T <= 350 -> 12 <= api <= 55 -> 56 / 100 <= gg <= 13 / 10 -> 20 <= Rsi <= 2500 ->
  50 < pressure_bubblepoint_Standing T api gg Rsi <= 30000 ->
  continuity_pt (fun p => solution_gor_Standing T p api gg Rsi) (pressure_bubblepoint_Standing T api gg Rsi).
Proof. intros. now apply gor_continuous. Qed.
Print Assumptions C12_gor_is_continuous_at_bubblepoint.

Theorem C12_Bo_is_continuous_at_bubblepoint : forall T api gg Rsi,
  80 <= T <= 350 -> 12 <= api <= 55 -> 56 / 100 <= gg <= 13 / 10 -> 20 <= Rsi <= 2500 ->
  50 < pressure_bubblepoint_Standing T api gg Rsi <= 30000 ->
  continuity_pt (fun p => b_o_Standing T p api gg Rsi) (pressure_bubblepoint_Standing T api gg Rsi).
Proof. intros. now apply Bo_continuous. Qed.
Print Assumptions C12_Bo_is_continuous_at_bubblepoint.

Theorem C12_density_is_continuous_at_bubblepoint : forall T api gg Rsi,
  80 <= T <= 350 -> 12 <= api <= 55 -> 56 / 100 <= gg <= 13 / 10 -> 20 <= Rsi <= 2500 ->
  50 < pressure_bubblepoint_Standing T api gg Rsi <= 30000 ->
  continuity_pt (fun p => density_Standing T p api gg Rsi) (pressure_bubblepoint_Standing T api gg Rsi).
Proof. intros. now apply density_continuous. Qed.
Print Assumptions C12_density_is_continuous_at_bubblepoint.

Theorem C12_viscosity_is_continuous_at_bubblepoint : forall T api gg Rsi,
  80 <= T <= 350 -> 12 <= api <= 55 -> 56 / 100 <= gg <= 13 / 10 -> 20 <= Rsi <= 2500 ->
  50 < pressure_bubblepoint_Standing T api gg Rsi <= 30000 ->
  continuity_pt (fun p => viscosity_beggs_robinson T p api gg Rsi) (pressure_bubblepoint_Standing T api gg Rsi).
Proof. intros. now apply viscosity_continuous. Qed.
Print Assumptions C12_viscosity_is_continuous_at_bubblepoint.
