(* C20: what the plotting helpers draw, and the square-root axis.  The two axis transforms are
   regenerated from plotting.py; the helpers' data selection is the hand model Lib/Plot.v, tied to
   matplotlib's Line2D data by the correspondence check. *)
From Coq Require Import Reals List Lra Lia.
From BBLib Require Import PyPrelude NumSig Plot.
From BBRun Require Import Gen_plotting.
Import ListNotations.
Open Scope R_scope.

(* the forward transform is the square root ... *)
Theorem C20_transform_is_square_root : forall a, Forall (fun v => 0 <= v) a ->
  sqrt_transform a = map sqrt a.
Proof.
  intros a Ha. unfold sqrt_transform. apply map_ext_in. intros v Hv.
  rewrite Forall_forall in Ha. now apply pypow_half_is_sqrt, Ha.
Qed.
Print Assumptions C20_transform_is_square_root.

(* ... the inverse is the square, and they are exact mutual inverses on non-negative values *)
Theorem C20_transform_and_inverse_are_mutual_inverses : forall a, Forall (fun v => 0 <= v) a ->
  sqrt_inverse_transform (sqrt_transform a) = a /\ sqrt_transform (sqrt_inverse_transform a) = a.
Proof.
  intros a Ha. rewrite Forall_forall in Ha. unfold sqrt_inverse_transform, sqrt_transform. rewrite !map_map. split.
  - rewrite <- (map_id a) at 2. apply map_ext_in. intros v Hv. now apply sqrt_axis_inverse_pair, Ha.
  - rewrite <- (map_id a) at 2. apply map_ext_in. intros v Hv. now apply sqrt_axis_inverse_pair, Ha.
Qed.
Print Assumptions C20_transform_and_inverse_are_mutual_inverses.

Theorem C20_every_kth_profile_is_drawn : forall (A : Type) (d : A) every (l : list A),
  select_every every l = map (fun j => nth j l d) (filter (fun j => Nat.eqb (j mod every) 0) (seq 0 (length l))).
Proof. intros. apply select_every_spec. Qed.
Print Assumptions C20_every_kth_profile_is_drawn.

Theorem C20_drawn_indices_are_the_multiples_of_k : forall every n j, (0 < every)%nat ->
  In j (filter (fun j => Nat.eqb (j mod every) 0) (seq 0 n)) <-> (j < n)%nat /\ exists q, j = (q * every)%nat.
Proof. exact selected_indices_are_the_multiples. Qed.
Print Assumptions C20_drawn_indices_are_the_multiples_of_k.

Theorem C20_rescaled_profile_runs_from_0_to_1 : forall pinit (p : list R), p <> [] -> pinit <> hd 0 p ->
  nth 0 (rescale_profile NumR pinit p) 0 = 0 /\
  forall j, (j < length p)%nat -> nth j p 0 = pinit -> nth j (rescale_profile NumR pinit p) 0 = 1.
Proof. exact rescale_endpoints. Qed.
Print Assumptions C20_rescaled_profile_runs_from_0_to_1.

Theorem C20_rate_stencil_is_the_time_derivative_of_quadratics : forall a b c xm x0 xp, xm < x0 -> x0 < xp ->
  grad_interior NumR xm x0 xp (a * xm ^ 2 + b * xm + c) (a * x0 ^ 2 + b * x0 + c) (a * xp ^ 2 + b * xp + c) = 2 * a * x0 + b.
Proof. intros. now apply gradient_interior_exact_for_quadratics. Qed.
Print Assumptions C20_rate_stencil_is_the_time_derivative_of_quadratics.
