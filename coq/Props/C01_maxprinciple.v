(* C01: maximum principle, frac-face value, monotone profile, fixed point -- for every table
   (any non-negative scaled diffusivity), every node count, every non-decreasing time grid and
   every frac-face schedule at or below the initial pseudopressure.
   Model: coq/Lib/Reservoir.v (R instance); tie: float instance vs implementation
   (correspondence) and C01_matrix.v (translated _build_matrix). *)
From Coq Require Import Reals List Lra Lia.
From BBLib Require Import NumSig MinPrinciple Tridiag Reservoir ReservoirThms.
Import ListNotations.
Open Scope R_scope.

(* every stored value of the single-phase simulation lies between the lowest frac-face
   pseudopressure applied so far and the initial pseudopressure *)
Theorem C01_single_phase_bounds :
  forall (alpha_s : R -> R), (forall v, 0 <= alpha_s v) ->
  forall m_i dx2 nx times mf, 0 < dx2 -> (1 <= nx)%nat ->
    sorted_times times -> length mf = length times -> (forall f, In f mf -> f <= m_i) ->
    match simulate_single NumR alpha_s m_i nx dx2 times mf with
    | [] => True
    | init :: rest => RunBound m_i (Rmin m_i (hd 0 mf)) mf rest
    end.
Proof. exact simulate_single_model_bounds. Qed.
Print Assumptions C01_single_phase_bounds.

(* ideal reservoir: between 0 and 1 *)
Theorem C01_ideal_bounds : forall dx2 nx times, 0 < dx2 -> (1 <= nx)%nat -> sorted_times times ->
  Forall (fun prof => all_ge 0 prof /\ all_le 1 prof) (simulate_ideal NumR nx dx2 times).
Proof. exact simulate_ideal_model_bounds. Qed.
Print Assumptions C01_ideal_bounds.

(* one step: bounds for any solution of the step's linear system *)
Theorem C01_step_bounds :
  forall (alpha_s : R -> R), (forall v, 0 <= alpha_s v) ->
  forall m_i m_f mesh prev new, 0 <= mesh -> (1 <= length prev)%nat ->
    SingleStep alpha_s m_i m_f mesh prev new ->
    forall lo, lo <= m_f -> m_f <= m_i -> all_ge lo prev -> all_ge lo new /\ all_le m_i new.
Proof. exact single_step_bounds. Qed.
Print Assumptions C01_step_bounds.

(* under constant drawdown the profile is non-decreasing away from the fracture *)
Theorem C01_profile_monotone :
  forall (alpha_s : R -> R), (forall v, 0 <= alpha_s v) ->
  forall m_i m_f mesh prev new, 0 <= mesh -> (1 <= length prev)%nat ->
    SingleStep alpha_s m_i m_f mesh prev new ->
    m_f <= m_i -> all_ge m_f prev -> nondecr prev -> m_f <= nth 0 new 0 /\ nondecr new.
Proof. exact single_step_monotone. Qed.
Print Assumptions C01_profile_monotone.

Theorem C01_profile_monotone_ideal : forall mesh prev new, 0 <= mesh -> (1 <= length prev)%nat ->
  IdealStep mesh prev new -> all_ge 0 prev -> nondecr prev -> 0 <= nth 0 new 0 /\ nondecr new.
Proof. exact ideal_step_monotone. Qed.
Print Assumptions C01_profile_monotone_ideal.

(* the frac-face value is the (unique) fixed point of the step, whatever the step size *)
Theorem C01_fixed_point :
  forall (alpha_s : R -> R), (forall v, 0 <= alpha_s v) ->
  forall m_i m_f mesh n, (1 <= n)%nat -> 0 <= mesh -> m_f <= m_i ->
  forall new, SingleStep alpha_s m_i m_f mesh (repeat m_f n) new ->
  forall j, (j < n)%nat -> nth j new 0 = m_f.
Proof. exact single_fixed_point. Qed.
Print Assumptions C01_fixed_point.

(* the executable model's step is a solution of the step's linear system (Thomas solve) *)
Theorem C01_model_step_solves :
  forall (alpha_s : R -> R), (forall v, 0 <= alpha_s v) ->
  forall m_i m_f mesh prev, 0 <= mesh ->
  SingleStep alpha_s m_i m_f mesh prev (single_next NumR alpha_s m_i m_f mesh prev).
Proof. exact single_next_is_step. Qed.
Print Assumptions C01_model_step_solves.

(* non-vacuity: a concrete 3-node, 2-step run satisfies the hypotheses *)
Example C01_hypotheses_inhabited :
  sorted_times [0; 1/10; 3/10] /\ (forall f, In f [1/4; 1/4; 1/4] -> f <= 1) /\ (0 < 1/9).
Proof. simpl. repeat split; try lra. intros f [<-|[<-|[<-|[]]]]; lra. Qed.
