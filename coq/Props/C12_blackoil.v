(* C12: black-oil correlations at the bubble point, on the model regenerated from oil.py.
   Proved for all inputs: GOR inverts the bubble-point correlation, is continuous and
   non-decreasing, equals the initial GOR at and above p_b; Bo is continuous at p_b and
   increasing below it; viscosity is continuous at p_b. *)
From Coq Require Import Reals Lra.
From Coquelicot Require Import Coquelicot.
From BBLib Require Import PyPrelude Analysis.
From BBRun Require Import Gen_gas Gen_oil.
Open Scope R_scope.

Lemma Rpower_inv_exp x a : 0 < x -> a <> 0 -> Rpower (Rpower x (1 / a)) a = x.
Proof.
  intros Hx Ha. rewrite Rpower_mult. replace (1 / a * a) with 1 by (field; exact Ha).
  now apply Rpower_1.
Qed.
Lemma Rpower_inv_exp' x a : 0 < x -> a <> 0 -> Rpower (Rpower x a) (1 / a) = x.
Proof.
  intros Hx Ha. rewrite Rpower_mult. replace (a * (1 / a)) with 1 by (field; exact Ha).
  now apply Rpower_1.
Qed.
Lemma Rpower_pos x a : 0 < Rpower x a. Proof. apply exp_pos. Qed.

Section Oil.
  Variables T api gg Rsi : R.
  Hypothesis Hgg : 0 < gg.
  Hypothesis HRsi : 0 < Rsi.
  Let pb := pressure_bubblepoint_Standing T api gg Rsi.
  Let e := 125 / 10000 * api - 91 / 100000 * T.
  Definition gor_below (p : R) := gg * pypow ((p / (182 / 10) + 14 / 10) * pypow 10 e) (1 / (83 / 100)).

  Lemma gor_is_below p : p < pb -> solution_gor_Standing T p api gg Rsi = gor_below p.
  Proof.
    intros Hp. unfold solution_gor_Standing, gor_below; cbv zeta. fold pb.
    destruct (Rle_dec pb p); [lra|]. reflexivity.
  Qed.
  Lemma gor_is_initial p : pb <= p -> solution_gor_Standing T p api gg Rsi = Rsi.
  Proof.
    intros Hp. unfold solution_gor_Standing; cbv zeta. fold pb.
    destruct (Rle_dec pb p); [reflexivity|lra].
  Qed.

  Lemma pb_form : pb = 182 / 10 * (Rpower (Rsi / gg) (83 / 100) * Rpower 10 (- e) - 14 / 10).
  Proof.
    unfold pb, pressure_bubblepoint_Standing; cbv zeta.
    rewrite !pypow_pos by (try lra; apply Rdiv_lt_0_compat; assumption).
    unfold e. do 3 f_equal. f_equal. ring.
  Qed.

  (* GOR inverts the bubble-point correlation: the below-branch evaluated at p_b is R_si ... *)
  Theorem gor_at_bubblepoint : gor_below pb = Rsi.
  Proof.
    unfold gor_below. rewrite pb_form.
    assert (Hq : 0 < Rsi / gg) by (apply Rdiv_lt_0_compat; assumption).
    replace (182 / 10 * (Rpower (Rsi / gg) (83 / 100) * Rpower 10 (- e) - 14 / 10) / (182 / 10) + 14 / 10)
      with (Rpower (Rsi / gg) (83 / 100) * Rpower 10 (- e)) by field.
    rewrite (pypow_pos 10) by lra.
    rewrite Rmult_assoc, <- Rpower_plus. replace (- e + e) with 0 by ring.
    rewrite Rpower_O by lra. rewrite Rmult_1_r.
    rewrite pypow_pos by apply Rpower_pos.
    rewrite Rpower_inv_exp' by (try assumption; lra). field. lra.
  Qed.

  (* ... and the bubble point of the GOR found at p is p *)
  Theorem bubblepoint_of_gor p : - (2548 / 100) < p ->
    pressure_bubblepoint_Standing T api gg (gor_below p) = p.
  Proof.
    intros Hp. unfold pressure_bubblepoint_Standing, gor_below; cbv zeta. fold e.
    set (x := p / (182 / 10) + 14 / 10). assert (Hx : 0 < x) by (unfold x; lra).
    rewrite (pypow_pos 10 e) by lra.
    assert (Hb : 0 < x * Rpower 10 e) by (apply Rmult_lt_0_compat; [exact Hx|apply Rpower_pos]).
    rewrite (pypow_pos (x * Rpower 10 e)) by exact Hb.
    replace (gg * Rpower (x * Rpower 10 e) (1 / (83 / 100)) / gg) with (Rpower (x * Rpower 10 e) (1 / (83 / 100))) by (field; lra).
    rewrite pypow_pos by apply Rpower_pos.
    rewrite Rpower_inv_exp by (try assumption; lra).
    rewrite pypow_pos by lra.
    replace (91 / 100000 * T - 125 / 10000 * api) with (- e) by (unfold e; ring).
    rewrite Rmult_assoc, <- Rpower_plus. replace (e + - e) with 0 by ring.
    rewrite Rpower_O by lra. unfold x. field.
  Qed.

  (* continuity at the bubble point: both branches give R_si there *)
  Theorem gor_continuous_at_bubblepoint :
    solution_gor_Standing T pb api gg Rsi = Rsi /\ gor_below pb = Rsi.
  Proof. split; [apply gor_is_initial; lra | apply gor_at_bubblepoint]. Qed.

  Lemma gor_below_increasing p q : - (2548 / 100) < p -> p < q -> gor_below p < gor_below q.
  Proof.
    intros Hp Hpq. unfold gor_below.
    rewrite (pypow_pos 10 e) by lra.
    assert (0 < Rpower 10 e) by apply Rpower_pos.
    assert (H1 : 0 < (p / (182 / 10) + 14 / 10) * Rpower 10 e) by (apply Rmult_lt_0_compat; lra).
    assert (H2 : (p / (182 / 10) + 14 / 10) * Rpower 10 e < (q / (182 / 10) + 14 / 10) * Rpower 10 e)
      by (apply Rmult_lt_compat_r; lra).
    rewrite !pypow_pos by lra.
    apply Rmult_lt_compat_l; [exact Hgg|]. apply Rlt_Rpower_l; lra.
  Qed.

  (* solution GOR is non-decreasing in pressure *)
  Theorem gor_nondecreasing p q : - (2548 / 100) < p -> p <= q ->
    solution_gor_Standing T p api gg Rsi <= solution_gor_Standing T q api gg Rsi.
  Proof.
    intros Hp Hpq.
    destruct (Rlt_le_dec p pb) as [Hp1|Hp1]; destruct (Rlt_le_dec q pb) as [Hq1|Hq1].
    - rewrite !gor_is_below by assumption.
      destruct (Rle_lt_or_eq_dec _ _ Hpq) as [Hlt|Heq]; [left; now apply gor_below_increasing|subst; lra].
    - rewrite gor_is_below by assumption. rewrite gor_is_initial by assumption.
      rewrite <- gor_at_bubblepoint. left. now apply gor_below_increasing.
    - lra.
    - rewrite !gor_is_initial by assumption. lra.
  Qed.

  (* Bo at the bubble point: the two branches meet *)
  Theorem Bo_continuous_at_bubblepoint :
    b_o_Standing T pb api gg Rsi = b_o_bubblepoint_Standing T api gg Rsi
    /\ b_o_bubblepoint_Standing T api gg (gor_below pb) = b_o_bubblepoint_Standing T api gg Rsi.
  Proof.
    split.
    - unfold b_o_Standing; cbv zeta. fold pb. destruct (Rle_dec pb pb); [|lra].
      replace (pb - pb) with 0 by ring. rewrite Rmult_0_r, exp_0. ring.
    - now rewrite gor_at_bubblepoint.
  Qed.

  Lemma Bo_below p : p < pb ->
    b_o_Standing T p api gg Rsi = b_o_bubblepoint_Standing T api gg (gor_below p).
  Proof.
    intros Hp. unfold b_o_Standing; cbv zeta. fold pb. destruct (Rle_dec pb p); [lra|].
    now rewrite gor_is_below.
  Qed.

  (* Bo rises with pressure up to the bubble point *)
  Theorem Bo_increasing_below p q : 0 <= T -> - (1315 / 10) < api ->
    - (2548 / 100) < p -> p < q -> q < pb ->
    b_o_Standing T p api gg Rsi < b_o_Standing T q api gg Rsi.
  Proof.
    intros HT Hapi Hp Hpq Hq. rewrite !Bo_below by lra.
    pose proof (gor_below_increasing p q Hp Hpq) as Hg.
    assert (Hg0 : 0 < gor_below p).
    { unfold gor_below. apply Rmult_lt_0_compat; [exact Hgg|]. apply pypow_gt0.
      apply Rmult_lt_0_compat; [lra|apply pypow_gt0; lra]. }
    unfold b_o_bubblepoint_Standing; cbv zeta.
    set (s := sqrt (gg / (1415 / 10 / (1315 / 10 + api)))).
    assert (Hs : 0 < s).
    { unfold s. apply sqrt_lt_R0. apply Rdiv_lt_0_compat; [exact Hgg|]. apply Rdiv_lt_0_compat; lra. }
    assert (H1 : 0 < gor_below p * s + 125 / 100 * T) by nra.
    assert (H2 : gor_below p * s + 125 / 100 * T < gor_below q * s + 125 / 100 * T) by nra.
    rewrite !pypow_pos by lra.
    apply Rplus_lt_compat_l. apply Rmult_lt_compat_l; [lra|]. apply Rlt_Rpower_l; lra.
  Qed.

  (* viscosity is continuous at the bubble point: the two branches meet *)
  Theorem viscosity_continuous_at_bubblepoint : 0 < pb ->
    viscosity_beggs_robinson T pb api gg Rsi
    = _mu_dead_to_live_br (pypow 10 (pypow 10 (30324 / 10000 - 2023 / 100000 * api) * pypow T (- (1163 / 1000))) - 1)
                          (gor_below pb).
  Proof.
    intros Hpb. rewrite gor_at_bubblepoint.
    unfold viscosity_beggs_robinson; cbv zeta. fold pb. destruct (Rle_dec pb pb); [|lra].
    replace (pb / pb) with 1 by (field; lra).
    rewrite (pypow_pos 1) by lra. unfold Rpower at 1. rewrite ln_1, Rmult_0_r, exp_0. ring.
  Qed.
End Oil.


Theorem C12_gor_inverts_bubblepoint : forall T api gg Rsi, 0 < gg -> 0 < Rsi ->
  gor_below T api gg (pressure_bubblepoint_Standing T api gg Rsi) = Rsi /\
  forall p, - (2548 / 100) < p -> pressure_bubblepoint_Standing T api gg (gor_below T api gg p) = p.
Proof. intros. split; [now apply gor_at_bubblepoint | intros; now apply bubblepoint_of_gor]. Qed.
Print Assumptions C12_gor_inverts_bubblepoint.

Theorem C12_gor_below_is_library_gor : forall T api gg Rsi p,
  p < pressure_bubblepoint_Standing T api gg Rsi -> solution_gor_Standing T p api gg Rsi = gor_below T api gg p.
Proof. exact gor_is_below. Qed.
Print Assumptions C12_gor_below_is_library_gor.

Theorem C12_gor_initial_at_and_above_bubblepoint : forall T api gg Rsi p,
  pressure_bubblepoint_Standing T api gg Rsi <= p -> solution_gor_Standing T p api gg Rsi = Rsi.
Proof. exact gor_is_initial. Qed.
Print Assumptions C12_gor_initial_at_and_above_bubblepoint.

Theorem C12_gor_continuous_at_bubblepoint : forall T api gg Rsi, 0 < gg -> 0 < Rsi ->
  solution_gor_Standing T (pressure_bubblepoint_Standing T api gg Rsi) api gg Rsi = Rsi /\
  gor_below T api gg (pressure_bubblepoint_Standing T api gg Rsi) = Rsi.
Proof. intros. now apply gor_continuous_at_bubblepoint. Qed.
Print Assumptions C12_gor_continuous_at_bubblepoint.

Theorem C12_gor_nondecreasing : forall T api gg Rsi p q, 0 < gg -> 0 < Rsi -> - (2548 / 100) < p -> p <= q ->
  solution_gor_Standing T p api gg Rsi <= solution_gor_Standing T q api gg Rsi.
Proof. intros. now apply gor_nondecreasing. Qed.
Print Assumptions C12_gor_nondecreasing.

Theorem C12_Bo_continuous_at_bubblepoint : forall T api gg Rsi, 0 < gg -> 0 < Rsi ->
  b_o_Standing T (pressure_bubblepoint_Standing T api gg Rsi) api gg Rsi = b_o_bubblepoint_Standing T api gg Rsi /\
  b_o_bubblepoint_Standing T api gg (gor_below T api gg (pressure_bubblepoint_Standing T api gg Rsi))
  = b_o_bubblepoint_Standing T api gg Rsi.
Proof. intros. now apply Bo_continuous_at_bubblepoint. Qed.
Print Assumptions C12_Bo_continuous_at_bubblepoint.

Theorem C12_Bo_increasing_below_bubblepoint : forall T api gg Rsi p q, 0 < gg -> 0 < Rsi ->
  0 <= T -> - (1315 / 10) < api -> - (2548 / 100) < p -> p < q -> q < pressure_bubblepoint_Standing T api gg Rsi ->
  b_o_Standing T p api gg Rsi < b_o_Standing T q api gg Rsi.
Proof. intros. now apply Bo_increasing_below. Qed.
Print Assumptions C12_Bo_increasing_below_bubblepoint.

Theorem C12_viscosity_continuous_at_bubblepoint : forall T api gg Rsi, 0 < gg -> 0 < Rsi ->
  0 < pressure_bubblepoint_Standing T api gg Rsi ->
  viscosity_beggs_robinson T (pressure_bubblepoint_Standing T api gg Rsi) api gg Rsi
  = _mu_dead_to_live_br (pypow 10 (pypow 10 (30324 / 10000 - 2023 / 100000 * api) * pypow T (- (1163 / 1000))) - 1)
                        (gor_below T api gg (pressure_bubblepoint_Standing T api gg Rsi)).
Proof. intros. now apply viscosity_continuous_at_bubblepoint. Qed.
Print Assumptions C12_viscosity_continuous_at_bubblepoint.

Example C12_hypotheses_inhabited : 0 < 8 / 10 /\ 0 < 650 /\ - (2548 / 100) < 2000.
Proof. lra. Qed.
