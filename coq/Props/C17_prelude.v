(* C17 (and C01/C10), tie 1 for what SinglePhaseReservoir.simulate does before its time loop, regenerated from reservoir.py:
   - a frac-face schedule is rejected exactly when its length differs from the time grid's (every length class: 0, 1, n-1, n+1, 2n ...);
   - no schedule means the constant schedule at the object's own frac-face pressure, and a schedule that is constant in time
     gives exactly the same frac-face values and initial profile as the scalar setting;
   - the initial profile is the model's: m_i at every node except the frac-face value at node 0. *)
From Coq Require Import Reals List Lia.
From BBLib Require Import PyPrelude NumSig Tridiag Reservoir.
From BBRun Require Import Gen_reservoir.
Import ListNotations.
Open Scope R_scope.

Theorem C17_schedule_rejected_iff_length_differs : forall time sched nx d m_i (f : R -> R),
  single_prelude_schedule time sched nx d m_i f = None <-> length sched <> length time.
Proof.
  intros. unfold single_prelude_schedule. destruct (Nat.eqb_spec (length sched) (length time)) as [E|NE]; cbn [negb].
  - split; [discriminate|contradiction].
  - split; [intros _; exact NE|reflexivity].
Qed.
Print Assumptions C17_schedule_rejected_iff_length_differs.

Theorem C17_constant_schedule_is_the_scalar_setting : forall time nx pf m_i (f : R -> R),
  single_prelude_schedule time (repeat pf (length time)) nx pf m_i f = single_prelude_scalar time nx pf m_i f.
Proof.
  intros. unfold single_prelude_schedule, single_prelude_scalar. rewrite repeat_length, Nat.eqb_refl. reflexivity.
Qed.
Print Assumptions C17_constant_schedule_is_the_scalar_setting.

Theorem C17_initial_profile_is_the_models : forall time sched nx d m_i (f : R -> R), length sched = length time ->
  single_prelude_schedule time sched nx d m_i f
  = Some (map f sched, Tridiag.set_first (repeat m_i nx) (hd 0 (map f sched))).
Proof.
  intros time sched nx d m_i f E. unfold single_prelude_schedule. rewrite E, Nat.eqb_refl. cbn [negb].
  f_equal. f_equal. destruct (repeat m_i nx); [reflexivity|]. destruct (map f sched); reflexivity.
Qed.
Print Assumptions C17_initial_profile_is_the_models.
