(* C11: array evaluation equals element-wise scalar evaluation, for every dtype.  Model: the
   array branches of oil.py / water.py regenerated in elementwise form (py2coq.El; its reading
   of masked stores is justified by NumpyDtype.masked_partition) with the dtype of every
   allocation and the cast of every store made explicit. *)
From Coq Require Import Reals List Lra.
From BBLib Require Import PyPrelude NumpyDtype.
From BBRun Require Import Gen_water Gen_gas Gen_oil.
Import ListNotations.
Open Scope R_scope.

Section Oil.
  Variable dt : dtype.
  Variables T api gg Rsi : R.

  Theorem spivey_elementwise x :
    oil_compressibility_undersat_Spivey_elem dt T api gg Rsi x = oil_compressibility_undersat_Spivey T x api gg Rsi.
  Proof. reflexivity. Qed.

  Theorem gor_elementwise x :
    solution_gor_Standing_elem dt T api gg Rsi x = solution_gor_Standing T x api gg Rsi.
  Proof.
    unfold solution_gor_Standing_elem, solution_gor_Standing; cbv zeta. rewrite !cast_result_F32.
    set (pb := pressure_bubblepoint_Standing T api gg Rsi).
    destruct (Rlt_dec x pb); destruct (Rle_dec pb x); try lra; reflexivity.
  Qed.

  Theorem Bo_elementwise x :
    b_o_Standing_elem dt T api gg Rsi x = b_o_Standing T x api gg Rsi.
  Proof.
    unfold b_o_Standing_elem, b_o_Standing; cbv zeta. rewrite !cast_result_F32.
    rewrite gor_elementwise, spivey_elementwise.
    set (pb := pressure_bubblepoint_Standing T api gg Rsi).
    destruct (Rlt_dec x pb); destruct (Rle_dec pb x); try lra; reflexivity.
  Qed.
End Oil.

(* arrays of every length (0 included) and every dtype: same shape, floating result, element by
   element the scalar call -- on both sides of the bubble point and exactly at it *)
Theorem C11_Bo_array_is_map_of_scalar : forall dt T api gg Rsi ps,
  b_o_Standing_array dt T api gg Rsi ps = (result_type dt F32, map (fun p => b_o_Standing T p api gg Rsi) ps)
  /\ is_float (result_type dt F32) = true.
Proof.
  intros. split; [|apply result_type_F32_is_float]. unfold b_o_Standing_array, b_o_Standing_dtype.
  f_equal. apply map_ext. intros. apply Bo_elementwise.
Qed.
Print Assumptions C11_Bo_array_is_map_of_scalar.

Theorem C11_gor_array_is_map_of_scalar : forall dt T api gg Rsi ps,
  solution_gor_Standing_array dt T api gg Rsi ps = (result_type dt F32, map (fun p => solution_gor_Standing T p api gg Rsi) ps)
  /\ is_float (result_type dt F32) = true.
Proof.
  intros. split; [|apply result_type_F32_is_float]. unfold solution_gor_Standing_array, solution_gor_Standing_dtype.
  f_equal. apply map_ext. intros. apply gor_elementwise.
Qed.
Print Assumptions C11_gor_array_is_map_of_scalar.

Theorem C11_spivey_array_is_map_of_scalar : forall dt T api gg Rsi ps,
  oil_compressibility_undersat_Spivey_array dt T api gg Rsi ps
  = (result_type dt F32, map (fun p => oil_compressibility_undersat_Spivey T p api gg Rsi) ps).
Proof. reflexivity. Qed.
Print Assumptions C11_spivey_array_is_map_of_scalar.

Theorem C11_water_arrays_are_maps_of_scalar : forall dt T s ps,
  b_water_McCain_array dt T ps = (result_type dt F32, map (b_water_McCain T) ps) /\
  b_water_McCain_dp_array dt T ps = (result_type dt F32, map (b_water_McCain_dp T) ps) /\
  compressibility_water_McCain_array dt T s ps = (result_type dt F32, map (fun p => compressibility_water_McCain T p s) ps) /\
  density_water_McCain_array dt T s ps = (result_type dt F32, map (fun p => density_water_McCain T p s) ps) /\
  viscosity_water_McCain_array dt T s ps = (result_type dt F32, map (fun p => viscosity_water_McCain T p s) ps).
Proof. intros. repeat split; destruct dt; reflexivity. Qed.
Print Assumptions C11_water_arrays_are_maps_of_scalar.

(* the numpy rule behind the elementwise reading, and why an integer destination would be wrong *)
Theorem C11_masked_partition : forall (A : Type) (cst f_hi f_lo : A -> A) (c : A -> bool) (p dest : list A),
  length dest = length p ->
  set_mask cst (set_mask cst dest (map c p) (map f_hi (take_mask (map c p) p)))
           (map (fun x => negb (c x)) p) (map f_lo (take_mask (map (fun x => negb (c x)) p) p))
  = map (fun x => cst (if c x then f_hi x else f_lo x)) p.
Proof. intros. now apply masked_partition. Qed.
Print Assumptions C11_masked_partition.

Theorem C11_integer_destination_would_truncate : cast I64 (3 / 2) = 1 /\ cast I32 (3 / 2) = 1.
Proof. exact cast_int_truncates. Qed.
Print Assumptions C11_integer_destination_would_truncate.
