(* C09, tie 1 for the constructor: FlowProperties.__init__ regenerated from flowproperties.py (three table shapes: which
   columns the caller's table has is static) is the model constructor fp_init of Lib/Reservoir.v - the one the float
   correspondence runs and C01/C02/C03/C09 reason about: same scaling factor, same m-scaled column, same diffusivity column,
   same fill values of the diffusivity lookup; a user-supplied alpha column takes precedence over the full PVT columns; a
   table with neither column set is rejected. *)
From Coq Require Import Reals List Lra.
From BBLib Require Import PyPrelude NumSig Interp Reservoir InterpThms.
From BBRun Require Import Gen_flowprops.
Import ListNotations.
Open Scope R_scope.

Definition view (fp : flowprops (T := R)) : R * list R * list R * (R -> option R) :=
  (fp_m_i fp, fp_mscaled fp, fp_alpha fp,
   interp1d NumR (Fill (fp_alpha_lo fp) (fp_alpha_hi fp)) (fp_mscaled fp) (fp_alpha fp)).

Lemma fold_left_fun_ext (f g : R -> R -> R) : (forall a b, f a b = g a b) -> forall l d, fold_left f l d = fold_left g l d.
Proof. intros E. induction l as [|x l IH]; intros d; [reflexivity|]. simpl. rewrite E. apply IH. Qed.
Lemma lmin_fold d l : lmin NumR d l = fold_right Rmin d l.
Proof.
  unfold lmin. rewrite (fold_left_fun_ext (nmin NumR) Rmin) by (intros; apply nmin_R).
  apply fold_symmetric; [intros; apply Rmin_assoc|intros; apply Rmin_comm].
Qed.
Lemma lmax_fold d l : lmax NumR d l = fold_right Rmax d l.
Proof.
  unfold lmax. rewrite (fold_left_fun_ext (nmax NumR) Rmax) by (intros; apply nmax_R).
  apply fold_symmetric; [intros; apply Rmax_assoc|intros; apply Rmax_comm].
Qed.

Lemma scaling_col C : forall P MU Z,
  vdiv (vmul (vmul (vmul (smul (1 / 2) C) P) MU) Z) (map (fun x_ => x_ ^ 2) P)
  = map (fun r => scaling_row NumR (fst (fst (fst r))) (snd (fst (fst r))) (snd (fst r)) (snd r))
        (combine (combine (combine C P) MU) Z).
Proof.
  induction C as [|c C IH]; intros P MU Z; [reflexivity|].
  destruct P as [|p P]; [reflexivity|]. destruct MU as [|mu MU]; [reflexivity|]. destruct Z as [|z Z]; [reflexivity|].
  specialize (IH P MU Z).
  unfold vdiv, vmul, vmap2, smul in *. cbn [map combine fst snd] in *. f_equal; [|exact IH].
  unfold scaling_row, half. cbn [nmul ndiv n1 n2 NumR]. unfold Rdiv. replace (p ^ 2) with (p * p) by ring. reflexivity || ring.
Qed.
Lemma alpha_col C : forall MU, sdiv 1 (vmul C MU) = map2 (fun c mu => ndiv NumR (n1 NumR) (nmul NumR c mu)) C MU.
Proof.
  induction C as [|c C IH]; intros MU; [reflexivity|]. destruct MU as [|mu MU]; [reflexivity|].
  specialize (IH MU). unfold sdiv, vmul, vmap2, map2 in *. cbn [map combine fst snd] in *. f_equal. exact IH.
Qed.

Theorem C09_constructor_is_model_constructor_full_table : forall P M C MU Z DENS p_i,
  flowproperties_init_long P M C MU Z p_i
  = option_map view (fp_init NumR {| t_pressure := P; t_pseudopressure := M; t_compressibility := C; t_viscosity := MU;
                                     t_zfactor := Z; t_alpha := None; t_density := DENS |} p_i).
Proof.
  intros. unfold flowproperties_init_long, fp_init. cbn [t_pressure t_pseudopressure t_compressibility t_viscosity t_zfactor t_alpha t_density].
  rewrite scaling_col, alpha_col.
  destruct (interp1d NumR Strict P _ p_i) as [factor|]; [|reflexivity]. cbn [obind].
  change (muls M factor) with (map (fun m => nmul NumR m factor) M).
  destruct (interp1d NumR Strict P (map (fun m => nmul NumR m factor) M) p_i) as [mi|]; [|reflexivity]. cbn [obind option_map].
  unfold view. cbn [fp_m_i fp_mscaled fp_alpha fp_alpha_lo fp_alpha_hi]. rewrite lmin_fold, lmax_fold. reflexivity.
Qed.
Print Assumptions C09_constructor_is_model_constructor_full_table.

Theorem C09_constructor_is_model_constructor_user_alpha : forall P M A C MU Z DENS p_i,
  flowproperties_init_short P M A p_i
  = option_map view (fp_init NumR {| t_pressure := P; t_pseudopressure := M; t_compressibility := C; t_viscosity := MU;
                                     t_zfactor := Z; t_alpha := Some A; t_density := DENS |} p_i).
Proof.
  intros. unfold flowproperties_init_short, fp_init. cbn [t_pressure t_pseudopressure t_compressibility t_viscosity t_zfactor t_alpha t_density].
  destruct (interp1d NumR Strict P M p_i) as [mpi|]; [|reflexivity]. cbn [obind].
  change (muls M (1 / mpi)) with (map (fun m => nmul NumR m (ndiv NumR (n1 NumR) mpi)) M).
  destruct (interp1d NumR Strict P (map (fun m => nmul NumR m (ndiv NumR (n1 NumR) mpi)) M) p_i) as [mi|]; [|reflexivity]. cbn [obind option_map].
  unfold view. cbn [fp_m_i fp_mscaled fp_alpha fp_alpha_lo fp_alpha_hi]. rewrite lmin_fold, lmax_fold. reflexivity.
Qed.
Print Assumptions C09_constructor_is_model_constructor_user_alpha.

(* a user-supplied diffusivity column takes precedence when the table also has the full PVT columns *)
Theorem C09_user_alpha_takes_precedence : forall P M C MU Z A p_i,
  flowproperties_init_both P M C MU Z A p_i = flowproperties_init_short P M A p_i.
Proof. reflexivity. Qed.
Print Assumptions C09_user_alpha_takes_precedence.

(* a table with neither column set is rejected, whatever the initial pressure *)
Theorem C09_missing_columns_rejected : forall P M MU p_i, flowproperties_init_missing P M MU p_i = None.
Proof. reflexivity. Qed.
Print Assumptions C09_missing_columns_rejected.

(* the simple-liquid variant *)
Theorem C09_simple_constructor_is_model_constructor : forall P M C MU Z A DENS p_i,
  flowproperties_simple_init_ok P C MU p_i
  = option_map view (fp_init_simple NumR {| t_pressure := P; t_pseudopressure := M; t_compressibility := C; t_viscosity := MU;
                                            t_zfactor := Z; t_alpha := A; t_density := DENS |} p_i).
Proof.
  intros. unfold flowproperties_simple_init_ok, fp_init_simple. cbn [t_pressure t_compressibility t_viscosity t_density].
  rewrite alpha_col.
  destruct (interp1d NumR Strict P P p_i) as [mi|]; [|reflexivity]. cbn [obind option_map].
  unfold view. cbn [fp_m_i fp_mscaled fp_alpha fp_alpha_lo fp_alpha_hi]. rewrite lmin_fold, lmax_fold. reflexivity.
Qed.
Print Assumptions C09_simple_constructor_is_model_constructor.

Theorem C09_simple_missing_columns_rejected : forall P MU p_i, flowproperties_simple_init_missing P MU p_i = None.
Proof. reflexivity. Qed.
Print Assumptions C09_simple_missing_columns_rejected.

(* rescale_pseudopressure regenerated from the source is the model's rescaling (same lookups, same arithmetic; the model
   merely performs the two scalar lookups before the column lookup - as option values the order is immaterial) *)
Lemma all_some_map_some (f : R -> option R) (g : R -> R) : forall l,
  PyPrelude.all_some (map f l) = None \/ exists r, PyPrelude.all_some (map f l) = Some r /\ (forall x, In x l -> exists y, f x = Some y).
Proof.
  induction l as [|x l IH]; [right; exists []; split; [reflexivity|intros ? []]|].
  cbn [map PyPrelude.all_some]. destruct (f x) as [y|] eqn:E; [|left; reflexivity].
  destruct IH as [->|[r [-> H]]]; [left; reflexivity|].
  right. exists (y :: r). split; [reflexivity|]. intros z [<-|Hz]; [exists y; exact E|now apply H].
Qed.

Lemma all_some_opt_is (l : list (option R)) : all_some_opt l = PyPrelude.all_some l.
Proof. induction l as [|[x|] l IH]; [reflexivity| |reflexivity]. cbn. rewrite IH. reflexivity. Qed.

Lemma all_some_map_post (f : R -> option R) (h : R -> R) : forall l,
  PyPrelude.all_some (map (fun q => match f q with Some m => Some (h m) | None => None end) l)
  = match PyPrelude.all_some (map f l) with Some r => Some (map h r) | None => None end.
Proof.
  induction l as [|x l IH]; [reflexivity|]. cbn [map PyPrelude.all_some]. destruct (f x) as [y|]; [|reflexivity].
  rewrite IH. destruct (PyPrelude.all_some (map f l)); reflexivity.
Qed.

Theorem C09_rescale_is_model_rescale : forall P M p_frac p_i,
  rescale_pseudopressure_table P M p_frac p_i
  = match rescale_pseudopressure NumR P M p_frac p_i with Some col => Some (P, col) | None => None end.
Proof.
  intros. unfold rescale_pseudopressure_table, rescale_pseudopressure.
  destruct (interp1d NumR Strict P M p_frac) as [mf|] eqn:Ef; destruct (interp1d NumR Strict P M p_i) as [mi|] eqn:Ei.
  - change (@all_some_opt R) with PyPrelude.all_some.
    rewrite (all_some_map_post (interp1d NumR Strict P M) (fun mq => ndiv NumR (nsub NumR mq mf) (nsub NumR mi mf))).
    destruct (PyPrelude.all_some (map (interp1d NumR Strict P M) P)) as [col|]; [|reflexivity].
    cbn [obind]. unfold divs, subs. rewrite map_map. reflexivity.
  - destruct (PyPrelude.all_some (map (interp1d NumR Strict P M) P)); cbn [obind]; reflexivity.
  - destruct (PyPrelude.all_some (map (interp1d NumR Strict P M) P)); cbn [obind]; reflexivity.
  - destruct (PyPrelude.all_some (map (interp1d NumR Strict P M) P)); cbn [obind]; reflexivity.
Qed.
Print Assumptions C09_rescale_is_model_rescale.

(* a table that went through the wrapper before still carries that object's derived column, scaled for ANOTHER initial pressure:
   derived columns are recomputed from the current initial pressure, never trusted - the stale column does not enter at all *)
Theorem C09_stale_scaled_column_is_ignored : forall P M c mu z a stale p_i,
  flowproperties_init_long_stale P M c mu z stale p_i = flowproperties_init_long P M c mu z p_i /\
  flowproperties_init_short_stale P M a stale p_i = flowproperties_init_short P M a p_i.
Proof. intros. split; reflexivity. Qed.
Print Assumptions C09_stale_scaled_column_is_ignored.
