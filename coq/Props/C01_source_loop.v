(* C01 stated about the loop of the SOURCE: the array left by the regenerated time loop (regenerated header, regenerated step system,
   elimination as the direct solver - C04_end_to_end.v) obeys the maximum principle and, for the ideal reservoir, never rises in time.
   These are the model theorems of C01_maxprinciple.v / C01_relaxation.v transported along C04_regenerated_loops_with_elimination_are_the_model. *)
From Coq Require Import Reals List Lra Lia.
From BBLib Require Import NumSig MinPrinciple Tridiag Reservoir ReservoirThms RecoveryThms.
From BBRun Require Import Gen_reservoir.
From BBRun Require C04_time_loop C04_end_to_end C01_maxprinciple C01_relaxation.
Import ListNotations.
Open Scope R_scope.
Import C04_time_loop C04_end_to_end.

Theorem C01_regenerated_ideal_loop_stays_between_0_and_1 : forall dx2 times nx (field : list (list R)),
  0 < dx2 -> times <> [] -> (1 <= nx)%nat -> sorted_times times -> length field = length times -> nth 0 field [] = repeat 1 nx ->
  Forall (fun prof => all_ge 0 prof /\ all_le 1 prof)
         (array_loop [] (source_ideal_step elimination_solver dx2 times) (ideal_loop_indices (length times)) field).
Proof.
  intros dx2 times nx field Hdx Hne Hnx Hs Hl H0.
  rewrite (proj1 C04_regenerated_loops_with_elimination_are_the_model dx2 times nx field) by (auto; lia).
  now apply C01_maxprinciple.C01_ideal_bounds.
Qed.
Print Assumptions C01_regenerated_ideal_loop_stays_between_0_and_1.

Theorem C01_regenerated_ideal_loop_never_rises_in_time : forall dx2 times nx (field : list (list R)),
  0 < dx2 -> times <> [] -> (1 <= nx)%nat -> sorted_times times -> length field = length times -> nth 0 field [] = repeat 1 nx ->
  match array_loop [] (source_ideal_step elimination_solver dx2 times) (ideal_loop_indices (length times)) field with
  | [] => True
  | first :: rest => decreasing_chain first rest
  end.
Proof.
  intros dx2 times nx field Hdx Hne Hnx Hs Hl H0.
  rewrite (proj1 C04_regenerated_loops_with_elimination_are_the_model dx2 times nx field) by (auto; lia).
  now apply C01_relaxation.C01_ideal_never_rises_in_time.
Qed.
Print Assumptions C01_regenerated_ideal_loop_never_rises_in_time.

Theorem C01_regenerated_single_phase_loop_obeys_the_maximum_principle :
  forall (alpha_s : R -> R), (forall v, 0 <= alpha_s v) ->
  forall nxR m_i times mf nx (field : list (list R)),
    0 < (1 / nxR) ^ 2 -> times <> [] -> (1 <= nx)%nat -> sorted_times times -> length mf = length times ->
    (forall f, In f mf -> f <= m_i) -> length field = length times ->
    nth 0 field [] = Tridiag.set_first (repeat m_i nx) (hd 0 mf) ->
    match array_loop [] (source_single_step elimination_solver alpha_s nxR m_i times mf) (single_loop_indices (length times)) field with
    | [] => True
    | init :: rest => RunBound m_i (Rmin m_i (hd 0 mf)) mf rest
    end.
Proof.
  intros alpha_s Ha nxR m_i times mf nx field Hdx Hne Hnx Hs Hm Hf Hl H0.
  rewrite (proj2 C04_regenerated_loops_with_elimination_are_the_model alpha_s nxR m_i times mf nx field) by (auto; lia).
  now apply C01_maxprinciple.C01_single_phase_bounds.
Qed.
Print Assumptions C01_regenerated_single_phase_loop_obeys_the_maximum_principle.
