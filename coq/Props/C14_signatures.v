(* C14 / C15 / C16: positional signatures the hand model and the harness rely on, regenerated from the source on every run (see
   C10_signatures.v for the rationale: a field inserted in front of another, or two fields swapped, silently re-routes every
   positional caller - that is a change of these lists). *)
From Coq Require Import List String.
From BBRun Require Import Gen_flowprops.
Import ListNotations.
Open Scope string_scope.

Theorem C14_relperm_record_signature :
  RelPermParams_fields = ["n_o"; "n_w"; "n_g"; "S_or"; "S_wc"; "S_gc"; "k_ro_max"; "k_rw_max"; "k_rg_max"] /\
  relative_permeabilities_twophase_params = ["params"; "Sw"] /\
  from_table_params = ["cls"; "pvt_props"; "kr_props"; "reference_densities"; "phi"; "Sw"; "p_i"].
Proof. repeat split; reflexivity. Qed.
Print Assumptions C14_relperm_record_signature.

