(* C17 stated about the loop of the SOURCE: shifting the time origin does not change the array the regenerated loops leave
   (C17_shift.v transported along C04_regenerated_loops_with_elimination_are_the_model). *)
From Coq Require Import Reals List Lra Lia.
From BBLib Require Import NumSig Tridiag Reservoir.
From BBRun Require Import Gen_reservoir.
From BBRun Require C04_time_loop C04_end_to_end C17_shift.
Import ListNotations.
Open Scope R_scope.
Import C04_time_loop C04_end_to_end.

Lemma map_nonempty {A B} (f : A -> B) (l : list A) : l <> [] -> map f l <> [].
Proof. destruct l; [contradiction|discriminate]. Qed.

Theorem C17_regenerated_ideal_loop_is_shift_invariant : forall dx2 c times nx (field : list (list R)),
  times <> [] -> (0 < nx)%nat -> length field = length times -> nth 0 field [] = repeat 1 nx ->
  array_loop [] (source_ideal_step elimination_solver dx2 (map (Rplus c) times)) (ideal_loop_indices (length (map (Rplus c) times))) field
  = array_loop [] (source_ideal_step elimination_solver dx2 times) (ideal_loop_indices (length times)) field.
Proof.
  intros dx2 c times nx field Hne Hnx Hl H0.
  rewrite (proj1 C04_regenerated_loops_with_elimination_are_the_model dx2 (map (Rplus c) times) nx field)
    by (auto using map_nonempty; now rewrite map_length).
  rewrite (proj1 C04_regenerated_loops_with_elimination_are_the_model dx2 times nx field) by auto.
  apply C17_shift.C17_ideal_shift_invariant.
Qed.
Print Assumptions C17_regenerated_ideal_loop_is_shift_invariant.

Theorem C17_regenerated_single_phase_loop_is_shift_invariant :
  forall (alpha_s : R -> R) nxR m_i c times mf nx (field : list (list R)),
  times <> [] -> (0 < nx)%nat -> length mf = length times -> length field = length times ->
  nth 0 field [] = Tridiag.set_first (repeat m_i nx) (hd 0 mf) ->
  array_loop [] (source_single_step elimination_solver alpha_s nxR m_i (map (Rplus c) times) mf)
             (single_loop_indices (length (map (Rplus c) times))) field
  = array_loop [] (source_single_step elimination_solver alpha_s nxR m_i times mf) (single_loop_indices (length times)) field.
Proof.
  intros alpha_s nxR m_i c times mf nx field Hne Hnx Hm Hl H0.
  rewrite (proj2 C04_regenerated_loops_with_elimination_are_the_model alpha_s nxR m_i (map (Rplus c) times) mf nx field)
    by (auto using map_nonempty; now rewrite map_length).
  rewrite (proj2 C04_regenerated_loops_with_elimination_are_the_model alpha_s nxR m_i times mf nx field) by auto.
  apply C17_shift.C17_single_phase_shift_invariant.
Qed.
Print Assumptions C17_regenerated_single_phase_loop_is_shift_invariant.
