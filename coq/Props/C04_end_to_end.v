(* C04 / C01 / C17: the pieces of tie 1 put together.  With the direct solver as an oracle that agrees with Gaussian (Thomas) elimination on
   the model's tridiagonal systems - the one thing about `spsolve` that is trusted, and measured by the per-step residuals - the loop of
   the SOURCE (regenerated header, regenerated body up to the solve, array stores) computes exactly the field the hand model's structural
   recursion defines; every theorem about `run_ideal` / `run_single` (maximum principle, relaxation, balance, shift invariance) is therefore a
   theorem about what the regenerated loop leaves in the array. *)
From Coq Require Import Reals List Lra Lia Arith.
From BBLib Require Import PyPrelude NumSig Tridiag Reservoir.
From BBRun Require Import Gen_reservoir.
From BBRun Require C04_step_system C04_time_loop.
Import ListNotations.
Open Scope R_scope.
Import C04_time_loop.

Lemma chain_ext_inv {A} (P : A -> Prop) (step step' : nat -> A -> A) init :
  P init -> (forall i x, P x -> step i x = step' i x /\ P (step' i x)) ->
  forall k, chain step init k = chain step' init k /\ P (chain step' init k).
Proof.
  intros H0 Hs. induction k as [|k [IHe IHp]]; cbn [chain]; [split; [reflexivity|exact H0]|].
  rewrite IHe. destruct (Hs k _ IHp) as [E Pn]. now rewrite E.
Qed.

Lemma thomas_length_rows_of (k b : list R) : length b = length k -> length (thomas NumR (rows_of NumR k) b) = length k.
Proof.
  intros Hl. unfold thomas. rewrite back_length, fwd_length; unfold rows_of; rewrite rows_from_length; congruence.
Qed.
Lemma set_first_len (l : list R) v : length (Tridiag.set_first l v) = length l.
Proof. destruct l; reflexivity. Qed.
Lemma ideal_next_length mesh prev : length (ideal_next NumR mesh prev) = length prev.
Proof. unfold ideal_next. rewrite thomas_length_rows_of; now rewrite map_length. Qed.
Lemma single_next_length alpha_s m_i m_f mesh prev : length (single_next NumR alpha_s m_i m_f mesh prev) = length prev.
Proof.
  unfold single_next. cbv zeta. rewrite thomas_length_rows_of; unfold single_k, single_rhs, single_b0;
    rewrite ?map_length, ?set_first_len, ?map_length; reflexivity.
Qed.
Lemma nonempty_length {A} (l : list A) : l <> [] <-> (0 < length l)%nat.
Proof. destruct l; cbn; split; intros; try lia; try congruence. Qed.

Section EndToEnd.
  (* spsolve / an accepted bicgstab iterate, idealised: the solution Gaussian elimination gives for the same diagonals *)
  Variable slv : list R * list R * list R -> list R -> list R.
  Hypothesis slv_is_elimination : forall k b,
    slv (diag_low (rows_of NumR k), diag_main (rows_of NumR k), diag_up (rows_of NumR k)) b = thomas NumR (rows_of NumR k) b.

  Definition source_ideal_step dx2 (times : list R) (i : nat) (prev : list R) : list R :=
    let sys := ideal_step_system dx2 (nth i times 0) (nth (S i) times 0) prev in slv (fst sys) (snd sys).
  Definition source_single_step (alpha_s : R -> R) nx m_i (times mf : list R) (i : nat) (prev : list R) : list R :=
    let sys := single_step_system alpha_s nx m_i (nth i mf 0) (nth i times 0) (nth (S i) times 0) prev in slv (fst sys) (snd sys).

  Theorem C04_regenerated_ideal_loop_computes_the_model_field : forall dx2 times nx (field : list (list R)),
    times <> [] -> (0 < nx)%nat -> length field = length times -> nth 0 field [] = repeat 1 nx ->
    array_loop [] (source_ideal_step dx2 times) (ideal_loop_indices (length times)) field = simulate_ideal NumR nx dx2 times.
  Proof.
    intros dx2 times nx field Hne Hnx Hl H0.
    assert (Hpos : (0 < length times)%nat) by (destruct times; [contradiction|cbn; lia]).
    unfold ideal_loop_indices.
    destruct (array_loop_invariant [] (source_ideal_step dx2 times) field (length times - 1)) as [Hlen [Hlow _]]; [lia|].
    replace (simulate_ideal NumR nx dx2 times) with (repeat 1 nx :: run_ideal NumR dx2 times (repeat 1 nx))
      by (destruct times; [contradiction|reflexivity]).
    apply same_rows.
    - rewrite Hlen, Hl. cbn [length]. rewrite run_ideal_length. lia.
    - intros j Hj. rewrite Hlen, Hl in Hj. rewrite Hlow by lia. rewrite H0.
      rewrite run_ideal_is_chain by lia.
      apply (chain_ext_inv (fun x => x <> [])).
      + apply nonempty_length. rewrite repeat_length. exact Hnx.
      + intros i x Hx. split.
        * unfold source_ideal_step. cbv zeta.
          rewrite C04_step_system.C04_ideal_loop_body_builds_the_model_step_system by exact Hx. cbv zeta. cbn [fst snd].
          rewrite slv_is_elimination. reflexivity.
        * apply nonempty_length. rewrite ideal_next_length. now apply nonempty_length.
  Qed.

  Theorem C04_regenerated_single_phase_loop_computes_the_model_field :
    forall (alpha_s : R -> R) nxR m_i times mf nx (field : list (list R)),
    times <> [] -> (0 < nx)%nat -> length mf = length times -> length field = length times ->
    nth 0 field [] = Tridiag.set_first (repeat m_i nx) (hd 0 mf) ->
    array_loop [] (source_single_step alpha_s nxR m_i times mf) (single_loop_indices (length times)) field
    = simulate_single NumR alpha_s m_i nx ((1 / nxR) ^ 2) times mf.
  Proof.
    intros alpha_s nxR m_i times mf nx field Hne Hnx Hm Hl H0.
    assert (Hpos : (0 < length times)%nat) by (destruct times; [contradiction|cbn; lia]).
    unfold single_loop_indices.
    destruct (array_loop_invariant [] (source_single_step alpha_s nxR m_i times mf) field (length times - 1)) as [Hlen [Hlow _]]; [lia|].
    set (init := Tridiag.set_first (repeat m_i nx) (hd 0 mf)) in *.
    replace (simulate_single NumR alpha_s m_i nx ((1 / nxR) ^ 2) times mf)
      with (init :: run_single NumR alpha_s m_i ((1 / nxR) ^ 2) times mf init)
      by (destruct times; [contradiction|reflexivity]).
    apply same_rows.
    - rewrite Hlen, Hl. cbn [length]. rewrite run_single_length by lia. lia.
    - intros j Hj. rewrite Hlen, Hl in Hj. rewrite Hlow by lia. rewrite H0.
      rewrite run_single_is_chain by lia.
      apply (chain_ext_inv (fun x => x <> [])).
      + apply nonempty_length. unfold init. rewrite set_first_len, repeat_length. exact Hnx.
      + intros i x Hx. split.
        * unfold source_single_step. cbv zeta.
          rewrite C04_step_system.C04_single_phase_loop_body_builds_the_model_step_system by exact Hx. cbv zeta. cbn [fst snd].
          rewrite slv_is_elimination. reflexivity.
        * apply nonempty_length. rewrite single_next_length. now apply nonempty_length.
  Qed.
End EndToEnd.
Print Assumptions C04_regenerated_ideal_loop_computes_the_model_field.
Print Assumptions C04_regenerated_single_phase_loop_computes_the_model_field.

(* a concrete instance of the right-hand side: a 2-node ideal run with one step *)
Example C04_end_to_end_non_vacuous :
  simulate_ideal NumR 2 1 [0; 1] = [[1; 1]; ideal_next NumR ((1 - 0) / 1) [1; 1]].
Proof. reflexivity. Qed.

(* the oracle hypothesis is satisfiable: a solver that reads the coefficients back from the main diagonal and eliminates *)
Fixpoint k_of_main (main : list R) : list R :=
  match main with
  | [] => []
  | [d] => [d - 1]
  | d :: rest => (d - 1) / 2 :: k_of_main rest
  end.
Lemma k_of_main_cons2 a b l : k_of_main (a :: b :: l) = (a - 1) / 2 :: k_of_main (b :: l).
Proof. reflexivity. Qed.
Lemma k_of_main_rows_from : forall k first, k_of_main (diag_main (rows_from NumR first k)) = k.
Proof.
  induction k as [|kj rest IH]; intros first; [reflexivity|].
  destruct rest as [|r2 rest'].
  - rewrite rows_from_single. cbn. f_equal. ring.
  - rewrite rows_from_cons2. unfold diag_main in *. cbn [map fst snd].
    specialize (IH false). destruct (map (fun r : R * R * R => snd (fst r)) (rows_from NumR false (r2 :: rest'))) as [|d ds] eqn:E.
    + rewrite rows_from_cons2 in E || destruct rest'; discriminate.
    + rewrite k_of_main_cons2, IH. f_equal. field.
Qed.
Definition elimination_solver (A : list R * list R * list R) (b : list R) : list R :=
  thomas NumR (rows_of NumR (k_of_main (snd (fst A)))) b.
Theorem C04_end_to_end_oracle_is_satisfiable : forall k b,
  elimination_solver (diag_low (rows_of NumR k), diag_main (rows_of NumR k), diag_up (rows_of NumR k)) b = thomas NumR (rows_of NumR k) b.
Proof. intros. unfold elimination_solver. cbn [fst snd]. unfold rows_of at 2. now rewrite k_of_main_rows_from. Qed.

(* ... so, with no hypothesis left: the regenerated loops with that solver ARE the model *)
Corollary C04_regenerated_loops_with_elimination_are_the_model :
  (forall dx2 times nx (field : list (list R)), times <> [] -> (0 < nx)%nat -> length field = length times -> nth 0 field [] = repeat 1 nx ->
     array_loop [] (source_ideal_step elimination_solver dx2 times) (ideal_loop_indices (length times)) field = simulate_ideal NumR nx dx2 times)
  /\ (forall (alpha_s : R -> R) nxR m_i times mf nx (field : list (list R)),
     times <> [] -> (0 < nx)%nat -> length mf = length times -> length field = length times ->
     nth 0 field [] = Tridiag.set_first (repeat m_i nx) (hd 0 mf) ->
     array_loop [] (source_single_step elimination_solver alpha_s nxR m_i times mf) (single_loop_indices (length times)) field
     = simulate_single NumR alpha_s m_i nx ((1 / nxR) ^ 2) times mf).
Proof.
  split; intros.
  - now apply C04_regenerated_ideal_loop_computes_the_model_field; [apply C04_end_to_end_oracle_is_satisfiable|..].
  - now apply C04_regenerated_single_phase_loop_computes_the_model_field; [apply C04_end_to_end_oracle_is_satisfiable|..].
Qed.
Print Assumptions C04_regenerated_loops_with_elimination_are_the_model.
