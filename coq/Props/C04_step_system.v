(* C04 / C01 / C17 tie 1: the body of the two time-stepping loops of reservoir.py (everything up
   to the linear solve), regenerated from the source on every run, builds exactly the step system
   of the hand-written model: matrix = diagonals of rows_of (mesh * alpha), right-hand side =
   single_rhs / the previous level; and only the time INCREMENT enters. *)
From Coq Require Import Reals List Lra Lia.
From BBLib Require Import PyPrelude NumSig Tridiag Reservoir.
From BBRun Require Import Gen_reservoir.
From BBRun Require C01_matrix.
Import ListNotations.
Open Scope R_scope.

Lemma set_first_same (l : list R) v : PyPrelude.set_first l v = Tridiag.set_first l v.
Proof. destruct l; reflexivity. Qed.
Lemma set_first_twice (l : list R) a b : Tridiag.set_first (Tridiag.set_first l a) b = Tridiag.set_first l b.
Proof. destruct l; reflexivity. Qed.
Lemma nth0_map (f : R -> R) (l : list R) : l <> [] -> nth 0 (map f l) 0 = f (hd 0 l).
Proof. destruct l; [contradiction|reflexivity]. Qed.

Section Single.
  Variable alpha_s : R -> R.
  Variables nx m_i m_f t0 t1 : R.
  Variable prev : list R.
  Hypothesis Hne : prev <> [].
  Let mesh := (t1 - t0) / ((1 / nx) ^ 2).
  Let b0 := single_b0 NumR m_i m_f prev.
  Let k := single_k NumR alpha_s mesh b0.

  Lemma b0_nonempty : b0 <> [].
  Proof. unfold b0, single_b0. destruct prev; [contradiction|discriminate]. Qed.

  Theorem single_loop_body_is_model_step_system :
    single_step_system alpha_s nx m_i m_f t0 t1 prev
    = ((diag_low (rows_of NumR k), diag_main (rows_of NumR k), diag_up (rows_of NumR k)),
       single_rhs NumR alpha_s m_f mesh b0).
  Proof.
    unfold single_step_system; cbv zeta. fold mesh.
    assert (Eb : PyPrelude.set_first (map (fun x_ => Rmin x_ m_i) prev) m_f = b0).
    { unfold b0, single_b0. rewrite set_first_same. f_equal. apply map_ext. intros. symmetry. apply nmin_R. }
    rewrite Eb.
    assert (Ek : smul mesh (map alpha_s b0) = k).
    { unfold k, single_k, smul. rewrite map_map. reflexivity. }
    rewrite Ek. f_equal.
    - apply C01_matrix.build_matrix_is_rows_of. unfold k, single_k. pose proof b0_nonempty. destruct b0; [contradiction|discriminate].
    - unfold single_rhs. rewrite set_first_same. f_equal. rewrite nth0_map by apply b0_nonempty. reflexivity.
  Qed.
End Single.

Section Ideal.
  Variables dx2 t0 t1 : R.
  Variable prev : list R.
  Hypothesis Hne : prev <> [].
  Let mesh := (t1 - t0) / dx2.
  Let k := map (fun _ : R => mesh * 1) prev.

  Theorem ideal_loop_body_is_model_step_system :
    ideal_step_system dx2 t0 t1 prev
    = ((diag_low (rows_of NumR k), diag_main (rows_of NumR k), diag_up (rows_of NumR k)), prev).
  Proof.
    unfold ideal_step_system, ideal_alpha_scaled; cbv zeta. fold mesh.
    assert (Ek : smul mesh (map (fun _ : R => 1) prev) = k) by (unfold k, smul; now rewrite map_map).
    rewrite Ek. f_equal. apply C01_matrix.build_matrix_is_rows_of. unfold k. destruct prev; [contradiction|discriminate].
  Qed.
End Ideal.

Theorem C04_single_phase_loop_body_builds_the_model_step_system :
  forall (alpha_s : R -> R) nx m_i m_f t0 t1 prev, prev <> [] ->
    let mesh := (t1 - t0) / ((1 / nx) ^ 2) in
    let b0 := single_b0 NumR m_i m_f prev in
    let k := single_k NumR alpha_s mesh b0 in
    single_step_system alpha_s nx m_i m_f t0 t1 prev
    = ((diag_low (rows_of NumR k), diag_main (rows_of NumR k), diag_up (rows_of NumR k)),
       single_rhs NumR alpha_s m_f mesh b0).
Proof. intros. now apply single_loop_body_is_model_step_system. Qed.
Print Assumptions C04_single_phase_loop_body_builds_the_model_step_system.

Theorem C04_ideal_loop_body_builds_the_model_step_system : forall dx2 t0 t1 prev, prev <> [] ->
  let mesh := (t1 - t0) / dx2 in
  let k := map (fun _ : R => mesh * 1) prev in
  ideal_step_system dx2 t0 t1 prev
  = ((diag_low (rows_of NumR k), diag_main (rows_of NumR k), diag_up (rows_of NumR k)), prev).
Proof. intros. now apply ideal_loop_body_is_model_step_system. Qed.
Print Assumptions C04_ideal_loop_body_builds_the_model_step_system.

(* only the time increment of the step enters the coded step system (C17) *)
Theorem C17_loop_body_depends_on_time_increment_only : forall (alpha_s : R -> R) nx m_i m_f t0 t1 c prev dx2,
  single_step_system alpha_s nx m_i m_f (c + t0) (c + t1) prev = single_step_system alpha_s nx m_i m_f t0 t1 prev
  /\ ideal_step_system dx2 (c + t0) (c + t1) prev = ideal_step_system dx2 t0 t1 prev.
Proof.
  intros. unfold single_step_system, ideal_step_system; cbv zeta.
  replace (c + t1 - (c + t0)) with (t1 - t0) by ring. split; reflexivity.
Qed.
Print Assumptions C17_loop_body_depends_on_time_increment_only.

(* the coded flux stencil of recovery_factor is the model's flux_rate *)
Theorem C02_flux_stencil_is_model_flux_rate : forall u0 u1 u2 rest h_inv,
  flux_rate_row u0 u1 u2 h_inv = flux_rate NumR h_inv (u0 :: u1 :: u2 :: rest).
Proof. intros. unfold flux_rate_row, flux_rate, four, three, half, nneg. simpl. field. Qed.
Print Assumptions C02_flux_stencil_is_model_flux_rate.
