(* C19: the Fluid facade and the gas PVT-table builder reproduce the stand-alone correlations.
   Model: fluid.py / gas.py regenerated on every run; the statements carry the wiring (which
   attribute goes to which argument), so a swapped or dropped argument fails to check. *)
From Coq Require Import Reals List Lra Lia ZArith.
From BBLib Require Import PyPrelude.
From BBRun Require Import Gen_water Gen_gas Gen_oil Gen_fluid.
Import ListNotations.
Open Scope R_scope.

Section Facade.
  Variable brentq : (R -> R) -> R -> R -> R.
  Variables T api gg Rsi sal Swi : R.

  Theorem C19_water_FVF ps : Fluid_water_FVF T api gg Rsi sal Swi ps = map (b_water_McCain T) ps.
  Proof. reflexivity. Qed.
  Theorem C19_water_viscosity ps :
    Fluid_water_viscosity T api gg Rsi sal Swi ps = map (fun p => viscosity_water_McCain T p sal) ps.
  Proof. reflexivity. Qed.
  Theorem C19_gas_FVF ps Tpc Ppc :
    Fluid_gas_FVF brentq T api gg Rsi sal Swi ps Tpc Ppc
    = map (fun p => b_factor_DAK brentq T p Tpc Ppc 60 (147 / 10)) ps.
  Proof. reflexivity. Qed.
  Theorem C19_gas_viscosity ps Tpc Ppc :
    Fluid_gas_viscosity brentq T api gg Rsi sal Swi ps Tpc Ppc
    = map (fun p => viscosity_Sutton brentq T p Tpc Ppc gg) ps.
  Proof. reflexivity. Qed.
  Theorem C19_oil_FVF ps : Fluid_oil_FVF T api gg Rsi sal Swi ps = map (fun p => b_o_Standing T p api gg Rsi) ps.
  Proof. reflexivity. Qed.
  Theorem C19_oil_viscosity ps :
    Fluid_oil_viscosity T api gg Rsi sal Swi ps = map (fun p => viscosity_beggs_robinson T p api gg Rsi) ps.
  Proof. reflexivity. Qed.
  Theorem C19_pressure_bubblepoint :
    Fluid_pressure_bubblepoint T api gg Rsi sal Swi = pressure_bubblepoint_Standing T api gg Rsi.
  Proof. reflexivity. Qed.
End Facade.

(* every row of the table is the stand-alone correlation at that row's pressure with the Sutton
   pseudocritical point of the composition *)
Theorem C19_build_pvt_gas_rows : forall brentq n2 h2s co2 sg T pmax Tpc Ppc,
  pseudocritical_point_Sutton_dry sg n2 h2s co2 = Some (Tpc, Ppc) ->
  let P := arange 10 pmax 10 in
  let z := map (fun p => z_factor_DAK brentq T p Tpc Ppc) P in
  let mu := map (fun p => viscosity_Sutton brentq T p Tpc Ppc sg) P in
  build_pvt_gas_dry brentq n2 h2s co2 sg T pmax
  = Some (map (fun _ => T) P, P, map (fun p => density_DAK brentq T p Tpc Ppc sg) P, z,
          map (fun p => compressibility_DAK brentq T p Tpc Ppc) P, mu,
          smul 2 (cumtrapz (vdiv P (vmul mu z)) P)).
Proof. intros brentq n2 h2s co2 sg T pmax Tpc Ppc H. unfold build_pvt_gas_dry. rewrite H. reflexivity. Qed.
Print Assumptions C19_build_pvt_gas_rows.

Theorem C19_build_pvt_gas_rows_wet : forall brentq n2 h2s co2 sg T pmax Tpc Ppc,
  pseudocritical_point_Sutton_wet sg n2 h2s co2 = Some (Tpc, Ppc) ->
  let P := arange 10 pmax 10 in
  let z := map (fun p => z_factor_DAK brentq T p Tpc Ppc) P in
  let mu := map (fun p => viscosity_Sutton brentq T p Tpc Ppc sg) P in
  build_pvt_gas_wet brentq n2 h2s co2 sg T pmax
  = Some (map (fun _ => T) P, P, map (fun p => density_DAK brentq T p Tpc Ppc sg) P, z,
          map (fun p => compressibility_DAK brentq T p Tpc Ppc) P, mu,
          smul 2 (cumtrapz (vdiv P (vmul mu z)) P)).
Proof. intros brentq n2 h2s co2 sg T pmax Tpc Ppc H. unfold build_pvt_gas_wet. rewrite H. reflexivity. Qed.
Print Assumptions C19_build_pvt_gas_rows_wet.

(* the 10-psi grid starts at 10 and excludes the maximum pressure *)
Lemma ceilZ_spec x : IZR (ceilZ x) - 1 < x <= IZR (ceilZ x).
Proof.
  unfold ceilZ. destruct (archimed (- x)) as [H1 H2]. rewrite minus_IZR. simpl IZR. lra.
Qed.

Theorem C19_grid_from_10_excluding_max : forall pmax x, In x (arange 10 pmax 10) ->
  10 <= x < pmax /\ exists k : nat, x = 10 + INR k * 10.
Proof.
  intros pmax x Hin. unfold arange in Hin. apply in_map_iff in Hin. destruct Hin as [k [<- Hk]].
  apply in_seq in Hk. destruct Hk as [_ Hk]. simpl in Hk.
  split; [|exists k; reflexivity].
  pose proof (pos_INR k). split; [lra|].
  set (c := ceilZ ((pmax - 10) / 10)) in *.
  pose proof (ceilZ_spec ((pmax - 10) / 10)) as [Hc1 Hc2]. fold c in Hc1, Hc2.
  assert (Hkc : INR k <= IZR c - 1).
  { assert (Z.of_nat k < c)%Z by lia. rewrite INR_IZR_INZ.
    replace (IZR c - 1) with (IZR (c - 1)) by (rewrite minus_IZR; reflexivity). apply IZR_le. lia. }
  lra.
Qed.
Print Assumptions C19_grid_from_10_excluding_max.

(* Sutton's pseudocritical point without contaminants is the hydrocarbon-only correlation *)
Theorem C19_sutton_no_contaminants_wet : forall sg, 0 <= sg <= 5 ->
  pseudocritical_point_Sutton_wet sg 0 0 0
  = Some (1643 / 10 + 3577 / 10 * sg - 677 / 10 * sg ^ 2 - 45967 / 100, 744 - 1254 / 10 * sg + 59 / 10 * sg ^ 2).
Proof.
  intros sg Hsg. unfold pseudocritical_point_Sutton_wet; cbv zeta.
  replace (0 + 0) with 0 by ring. rewrite !pypow_0_pos by lra. rewrite sqrt_0.
  f_equal. f_equal; field.
  all: try lra.
  all: try nra.
Qed.
Print Assumptions C19_sutton_no_contaminants_wet.

Theorem C19_sutton_no_contaminants_dry : forall sg, 0 <= sg <= 5 ->
  pseudocritical_point_Sutton_dry sg 0 0 0
  = Some (1201 / 10 + 429 * sg - 629 / 10 * sg ^ 2 - 45967 / 100, 6711 / 10 - 14 * sg - 343 / 10 * sg ^ 2).
Proof.
  intros sg Hsg. unfold pseudocritical_point_Sutton_dry; cbv zeta.
  replace (0 + 0) with 0 by ring. rewrite !pypow_0_pos by lra. rewrite sqrt_0.
  f_equal. f_equal; field.
  all: try lra.
  all: try nra.
Qed.
Print Assumptions C19_sutton_no_contaminants_dry.

(* a zero-fraction extra component does not change the pseudocritical point *)
Theorem C19_zero_fraction_component_neutral : forall sg n2 h2s co2 mw tc pc,
  pseudocritical_point_Sutton_wet_extra sg n2 h2s co2 0 mw tc pc = pseudocritical_point_Sutton_wet sg n2 h2s co2.
Proof.
  intros. unfold pseudocritical_point_Sutton_wet_extra, pseudocritical_point_Sutton_wet; cbv zeta.
  replace (n2 + h2s + co2 + 0) with (n2 + h2s + co2) by ring.
  replace (n2 * (2801 / 100) + h2s * (3408 / 100) + co2 * (4401 / 100) + 0 * mw)
    with (n2 * (2801 / 100) + h2s * (3408 / 100) + co2 * (4401 / 100)) by ring.
  replace (n2 * (22698 / 100) + h2s * (67235 / 100) + co2 * (54754 / 100) + 0 * tc)
    with (n2 * (22698 / 100) + h2s * (67235 / 100) + co2 * (54754 / 100)) by ring.
  replace (n2 * (49226 / 100) + h2s * (129997 / 100) + co2 * (107067 / 100) + 0 * pc)
    with (n2 * (49226 / 100) + h2s * (129997 / 100) + co2 * (107067 / 100)) by ring.
  reflexivity.
Qed.
Print Assumptions C19_zero_fraction_component_neutral.

(* an unknown fluid type is rejected *)
Theorem C19_unknown_fluid_rejected : forall sg n2 h2s co2, pseudocritical_point_Sutton_other sg n2 h2s co2 = None.
Proof. reflexivity. Qed.
Print Assumptions C19_unknown_fluid_rejected.
