(* C07: gas density is positive and strictly increasing in pressure, hence (with
   C07_viscosity_increasing_in_density) so is the Sutton viscosity: on the whole validity rectangle,
   for the equation of state that gas.py codes (this file is compiled against C06_root in the variant
   that checks on the current tree). *)
From Coq Require Import Reals Lra.
From Coquelicot Require Import Coquelicot.
From BBLib Require Import PyPrelude Analysis DAK_spec.
From BBRun Require Import Gen_gas C06_root C07_gas.
Open Scope R_scope.

Section Mono.
  Variable brentq : (R -> R) -> R -> R -> R.
  Hypothesis brentq_spec : forall f a b, a < b -> f a * f b < 0 ->
    (forall x, a <= x <= b -> continuity_pt f x) ->
    a <= brentq f a b <= b /\ f (brentq f a b) = 0.
  Variables T Tpc Ppc sg : R.
  Let Tr := (T + 45967 / 100) / (Tpc + 45967 / 100).
  Hypothesis HTr : 105 / 100 <= Tr <= 3.
  Hypothesis HTpc : 0 < Tpc + 45967 / 100.
  Hypothesis HPpc : 0 < Ppc.
  Hypothesis Hsg : 0 < sg.

  (* the coded density is a positive constant times the reduced density of the root *)
  Lemma density_is_scaled_reduced_density p : 0 < p / Ppc <= 30 ->
    density_DAK brentq T p Tpc Ppc sg
    = (Ppc * (28964 / 1000 * sg) / (27 / 100 * (1073159 / 100000) * (Tpc + 45967 / 100)))
      * (27 / 100 * (p / Ppc) / (z_factor_DAK brentq T p Tpc Ppc * Tr)).
  Proof.
    intros Hp.
    destruct (C06_Z_is_root_of_coded_eos brentq brentq_spec T p Tpc Ppc HTr Hp) as [_ [HZ _]].
    cbv zeta in HZ. unfold density_DAK; cbv zeta. unfold Tr.
    assert (T + 45967 / 100 <> 0).
    { intros E. unfold Tr in HTr. rewrite E in HTr. unfold Rdiv in HTr. rewrite Rmult_0_l in HTr. lra. }
    field. repeat split; lra.
  Qed.

  Theorem density_increasing p1 p2 : 0 < p1 / Ppc <= 30 -> 0 < p2 / Ppc <= 30 -> p1 < p2 ->
    0 < density_DAK brentq T p1 Tpc Ppc sg < density_DAK brentq T p2 Tpc Ppc sg.
  Proof.
    intros H1 H2 H12. rewrite !density_is_scaled_reduced_density by assumption.
    assert (Hq : p1 / Ppc < p2 / Ppc).
    { unfold Rdiv. apply Rmult_lt_compat_r; [apply Rinv_0_lt_compat; exact HPpc|exact H12]. }
    pose proof (reduced_density_increasing brentq brentq_spec T Tpc Ppc p1 p2 HTr H1 H2 Hq) as Hr.
    cbv zeta in Hr. fold Tr in Hr.
    assert (HK : 0 < Ppc * (28964 / 1000 * sg) / (27 / 100 * (1073159 / 100000) * (Tpc + 45967 / 100))).
    { apply Rdiv_lt_0_compat; [|nra]. apply Rmult_lt_0_compat; [exact HPpc|lra]. }
    split; [apply Rmult_lt_0_compat; lra|apply Rmult_lt_compat_l; lra].
  Qed.
End Mono.

Theorem C07_gas_density_positive_and_increasing_in_pressure : forall brentq,
  (forall f a b, a < b -> f a * f b < 0 -> (forall x, a <= x <= b -> continuity_pt f x) ->
     a <= brentq f a b <= b /\ f (brentq f a b) = 0) ->
  forall T Tpc Ppc sg p1 p2,
    105 / 100 <= (T + 45967 / 100) / (Tpc + 45967 / 100) <= 3 -> 0 < Tpc + 45967 / 100 -> 0 < Ppc -> 0 < sg ->
    0 < p1 / Ppc <= 30 -> 0 < p2 / Ppc <= 30 -> p1 < p2 ->
    0 < density_DAK brentq T p1 Tpc Ppc sg < density_DAK brentq T p2 Tpc Ppc sg.
Proof. intros. now apply density_increasing. Qed.
Print Assumptions C07_gas_density_positive_and_increasing_in_pressure.

Theorem C07_viscosity_increasing_in_pressure : forall brentq,
  (forall f a b, a < b -> f a * f b < 0 -> (forall x, a <= x <= b -> continuity_pt f x) ->
     a <= brentq f a b <= b /\ f (brentq f a b) = 0) ->
  forall T Tpc Ppc sg p1 p2,
    105 / 100 <= (T + 45967 / 100) / (Tpc + 45967 / 100) <= 3 -> 0 < Tpc + 45967 / 100 -> 0 < Ppc ->
    55 / 100 <= sg <= 12 / 10 -> 80 <= T <= 400 ->
    0 < p1 / Ppc <= 30 -> 0 < p2 / Ppc <= 30 -> p1 < p2 ->
    viscosity_Sutton brentq T p1 Tpc Ppc sg < viscosity_Sutton brentq T p2 Tpc Ppc sg.
Proof.
  intros brentq Hspec T Tpc Ppc sg p1 p2 HTr HTpc HPpc Hsg HT H1 H2 H12.
  apply C07_viscosity_increasing_in_density; try assumption.
  apply C07_gas_density_positive_and_increasing_in_pressure; try assumption. lra.
Qed.
Print Assumptions C07_viscosity_increasing_in_pressure.
