(* C05: ForecasterOnePhase.fit hands the optimiser a RESCALED problem (data in units of the last observation, M and tau in
   units of the last cumulative / last time; repair ea995a1).  The rescaling does not change what is fitted: the scaled sum of
   squares is the original one divided by m_unit^2, the scaled box is the original box, so a minimiser of the scaled problem,
   scaled back as the code does, is a minimiser of the original problem.  Definitions: regenerated from forecast.py
   (statement-for-statement match of the scaling arithmetic around the curve_fit call; fails closed). *)
From Coq Require Import Reals List Lra Lia.
From BBLib Require Import PyPrelude.
From BBRun Require Import Gen_forecast.
Import ListNotations.
Open Scope R_scope.

(* sum of squared residuals of a model (per time point) against data *)
Fixpoint sse (model : R -> R) (ts ys : list R) : R :=
  match ts, ys with
  | t :: ts', y :: ys' => (model t - y) ^ 2 + sse model ts' ys'
  | _, _ => 0
  end.

Theorem C05_fit_units_are_positive : forall last, 0 < fit_unit last.
Proof.
  intros last. unfold fit_unit. destruct (Req_EM_T (Rabs last) 0) as [E|E]; [lra|].
  pose proof (Rabs_pos last). lra.
Qed.
Print Assumptions C05_fit_units_are_positive.

(* for a history that ends with positive production at a positive time the units are those last values *)
Theorem C05_fit_units_are_the_last_observation : forall last, 0 < last -> fit_unit last = last.
Proof.
  intros last H. unfold fit_unit. rewrite (Rabs_right last) by lra. destruct (Req_EM_T last 0); lra.
Qed.
Print Assumptions C05_fit_units_are_the_last_observation.

Theorem C05_fit_scaling_round_trip : forall mu tu v, mu <> 0 -> tu <> 0 ->
  fit_from_optimizer_free mu tu (fit_to_optimizer_free mu tu v) = v
  /\ fit_to_optimizer_free mu tu (fit_from_optimizer_free mu tu v) = v.
Proof.
  intros mu tu [a b] Hm Ht. unfold fit_from_optimizer_free, fit_to_optimizer_free; cbn [fst snd].
  split; f_equal; field; assumption.
Qed.
Print Assumptions C05_fit_scaling_round_trip.

Lemma map_div_cons y ys mu : fit_cum_scaled (y :: ys) mu = y / mu :: fit_cum_scaled ys mu.
Proof. reflexivity. Qed.

(* the scaled residuals are the original ones divided by m_unit: the objective is the same up to the factor 1/m_unit^2 *)
Theorem C05_scaled_objective_is_the_objective : forall (rf : R -> R) mu tu ts ys M' tau', mu <> 0 ->
  sse (fun t => fit_model_free rf tu t M' tau') ts (fit_cum_scaled ys mu) * mu ^ 2
  = sse (fun t => forecast_cum_onephase rf t (M' * mu) (tau' * tu)) ts ys.
Proof.
  intros rf mu tu ts ys M' tau' Hm. revert ys.
  induction ts as [|t ts IH]; intros ys; [cbn [sse]; ring|].
  destruct ys as [|y ys]; [unfold fit_cum_scaled; cbn [map sse]; ring|].
  rewrite map_div_cons. cbn [sse]. rewrite Rmult_plus_distr_r, IH.
  f_equal. unfold fit_model_free, forecast_cum_onephase; cbv zeta. field. exact Hm.
Qed.
Print Assumptions C05_scaled_objective_is_the_objective.

(* the box handed to the optimiser (each bound divided by its unit) is the caller's box *)
Theorem C05_scaled_box_is_the_box : forall mu tu Mlo Mhi taulo tauhi v', 0 < mu -> 0 < tu ->
  let lo' := fit_to_optimizer_free mu tu (Mlo, taulo) in
  let hi' := fit_to_optimizer_free mu tu (Mhi, tauhi) in
  (fst lo' <= fst v' <= fst hi' /\ snd lo' <= snd v' <= snd hi')
  <-> (Mlo <= fst (fit_from_optimizer_free mu tu v') <= Mhi /\ taulo <= snd (fit_from_optimizer_free mu tu v') <= tauhi).
Proof.
  intros mu tu Mlo Mhi taulo tauhi [a b] Hm Ht. unfold fit_to_optimizer_free, fit_from_optimizer_free; cbn [fst snd].
  assert (Hdiv : forall x u y, 0 < u -> (x / u <= y <-> x <= y * u)).
  { intros x u y Hu. split; intros H.
    - apply (Rmult_le_compat_r u) in H; [|lra]. unfold Rdiv in H. rewrite Rmult_assoc, Rinv_l, Rmult_1_r in H by lra. exact H.
    - apply (Rmult_le_reg_r u); [lra|]. unfold Rdiv. rewrite Rmult_assoc, Rinv_l, Rmult_1_r by lra. exact H. }
  assert (Hdiv2 : forall x u y, 0 < u -> (y <= x / u <-> y * u <= x)).
  { intros x u y Hu. split; intros H.
    - apply (Rmult_le_compat_r u) in H; [|lra]. unfold Rdiv in H. rewrite Rmult_assoc, Rinv_l, Rmult_1_r in H by lra. exact H.
    - apply (Rmult_le_reg_r u); [lra|]. unfold Rdiv. rewrite Rmult_assoc, Rinv_l, Rmult_1_r by lra. exact H. }
  rewrite (Hdiv Mlo mu a Hm), (Hdiv2 Mhi mu a Hm), (Hdiv taulo tu b Ht), (Hdiv2 tauhi tu b Ht). tauto.
Qed.
Print Assumptions C05_scaled_box_is_the_box.

(* hence: what minimises the scaled problem over the scaled box, scaled back as the code does (fit * units), minimises the
   caller's sum of squares over the caller's box *)
Theorem C05_scaled_optimum_is_the_optimum : forall (rf : R -> R) mu tu ts ys Mlo Mhi taulo tauhi p', 0 < mu -> 0 < tu ->
  let inbox (v : R * R) := Mlo <= fst v <= Mhi /\ taulo <= snd v <= tauhi in
  let lo' := fit_to_optimizer_free mu tu (Mlo, taulo) in
  let hi' := fit_to_optimizer_free mu tu (Mhi, tauhi) in
  let inbox' (v' : R * R) := fst lo' <= fst v' <= fst hi' /\ snd lo' <= snd v' <= snd hi' in
  let obj (v : R * R) := sse (fun t => forecast_cum_onephase rf t (fst v) (snd v)) ts ys in
  let obj' (v' : R * R) := sse (fun t => fit_model_free rf tu t (fst v') (snd v')) ts (fit_cum_scaled ys mu) in
  inbox' p' -> (forall q', inbox' q' -> obj' p' <= obj' q') ->
  inbox (fit_from_optimizer_free mu tu p') /\ forall q, inbox q -> obj (fit_from_optimizer_free mu tu p') <= obj q.
Proof.
  intros rf mu tu ts ys Mlo Mhi taulo tauhi p' Hm Ht inbox lo' hi' inbox' obj obj' Hin Hmin.
  split.
  - apply (C05_scaled_box_is_the_box mu tu Mlo Mhi taulo tauhi p' Hm Ht). exact Hin.
  - intros q Hq.
    set (q' := fit_to_optimizer_free mu tu q).
    assert (Eq : fit_from_optimizer_free mu tu q' = q) by (apply C05_fit_scaling_round_trip; lra).
    assert (Hq' : inbox' q').
    { apply (C05_scaled_box_is_the_box mu tu Mlo Mhi taulo tauhi q' Hm Ht). rewrite Eq. exact Hq. }
    specialize (Hmin q' Hq').
    assert (Ep : obj (fit_from_optimizer_free mu tu p') = obj' p' * mu ^ 2).
    { unfold obj, obj', fit_from_optimizer_free; cbn [fst snd]. symmetry. apply C05_scaled_objective_is_the_objective. lra. }
    assert (Eq2 : obj q = obj' q' * mu ^ 2).
    { rewrite <- Eq at 1. unfold obj, obj', fit_from_optimizer_free; cbn [fst snd]. symmetry. apply C05_scaled_objective_is_the_objective. lra. }
    rewrite Ep, Eq2. apply Rmult_le_compat_r; [apply pow2_ge_0|exact Hmin].
Qed.
Print Assumptions C05_scaled_optimum_is_the_optimum.

(* supplied tau: one unit only, the model is unchanged *)
Theorem C05_scaled_objective_is_the_objective_given_tau : forall (rf : R -> R) mu tau ts ys M', mu <> 0 ->
  sse (fun t => fit_model_given rf tau t M') ts (fit_cum_scaled ys mu) * mu ^ 2
  = sse (fun t => forecast_cum_onephase rf t (fit_from_optimizer_given mu M') tau) ts ys.
Proof.
  intros rf mu tau ts ys M' Hm. revert ys.
  induction ts as [|t ts IH]; intros ys; [cbn [sse]; ring|].
  destruct ys as [|y ys]; [unfold fit_cum_scaled; cbn [map sse]; ring|].
  rewrite map_div_cons. cbn [sse]. rewrite Rmult_plus_distr_r, IH.
  f_equal. unfold fit_model_given, fit_from_optimizer_given, forecast_cum_onephase; cbv zeta. field. exact Hm.
Qed.
Print Assumptions C05_scaled_objective_is_the_objective_given_tau.

(* non-vacuity: a history ending at (t, y) = (450, 3e-5) is fitted in units (3e-5, 450); the generating parameters have a zero objective *)
Example units_of_a_small_history : fit_unit (3 / 100000) = 3 / 100000 /\ fit_unit 450 = 450.
Proof. split; apply C05_fit_units_are_the_last_observation; lra. Qed.

(* the optimiser's starting point (before it is moved inside the box) is a function of THIS call's last observation only - no fitted
   state of an earlier call enters (the generator refuses any read of self.M_ / self.tau_ before the optimiser call) - and in the
   optimiser's own units it is the constant point (2, 5) for every positive history, whatever the caller's units *)
Theorem C05_first_guess_in_optimizer_units : forall last_cum last_time, 0 < last_cum -> 0 < last_time ->
  fit_to_optimizer_free (fit_unit last_cum) (fit_unit last_time) (fit_first_guess_free last_cum last_time) = (2, 5)
  /\ fit_to_optimizer_given (fit_unit last_cum) (fit_first_guess_given last_cum) = 2.
Proof.
  intros c t Hc Ht. rewrite !C05_fit_units_are_the_last_observation by assumption.
  unfold fit_to_optimizer_free, fit_first_guess_free, fit_to_optimizer_given, fit_first_guess_given. cbn [fst snd].
  split; [f_equal|]; field; lra.
Qed.
Print Assumptions C05_first_guess_in_optimizer_units.
