(* C02 / C10 (and C14_, C19_, C05_signatures.v for the other modules): the positional signatures the hand model and the harness rely on, regenerated from the source on every
   run.  The model's wrappers take (nx, pressure_fracface, pressure_initial, fluid) in this order, the oil-gas class adds the initial
   water saturation as its FIFTH positional argument and delegates its time stepping unchanged (the translation fails closed
   otherwise), the Brooks-Corey parameter record lists exponents, residuals and end-points in oil / water / gas order, the
   table builder takes (gas_values, gas_dryness, maximum_pressure).  A field inserted in front of another, or two fields swapped,
   silently re-routes every positional caller: that is a change of these lists. *)
From Coq Require Import List String.
From BBRun Require Import Gen_reservoir.
Import ListNotations.
Open Scope string_scope.

Theorem C10_reservoir_constructor_signatures :
  IdealReservoir_fields = ["nx"; "pressure_fracface"; "pressure_initial"; "fluid"] /\
  SinglePhaseReservoir_fields = IdealReservoir_fields /\
  TwoPhaseReservoir_fields = (IdealReservoir_fields ++ ["Sw_init"])%list /\
  MultiPhaseReservoir_fields = (IdealReservoir_fields ++ ["So_init"; "Sw_init"; "Sg_init"])%list.
Proof. repeat split; reflexivity. Qed.
Print Assumptions C10_reservoir_constructor_signatures.

Theorem C10_reservoir_method_signatures :
  IdealReservoir_simulate_params = ["self"; "time"] /\
  SinglePhaseReservoir_simulate_params = ["self"; "time"; "pressure_fracface"] /\
  TwoPhaseReservoir_simulate_params = ["self"; "time"] /\
  IdealReservoir_recovery_factor_params = ["self"; "time"; "density"].
Proof. repeat split; reflexivity. Qed.
Print Assumptions C10_reservoir_method_signatures.


(* a run is stored only once it is complete (nothing is written on the object before or inside the time loop: the translation fails closed
   otherwise), as time, field and a dropped recovery cache, in both classes - the shape of [ObjectSM.step] for a simulate operation *)
Theorem C10_simulate_stores_the_run_after_the_loop :
  IdealReservoir_simulate_stores = ["self.time = time"; "self.pseudopressure = pseudopressure"; "self.__dict__.pop('recovery', None)"] /\
  SinglePhaseReservoir_simulate_stores = IdealReservoir_simulate_stores.
Proof. split; reflexivity. Qed.
Print Assumptions C10_simulate_stores_the_run_after_the_loop.
