(* C05 / C03, tie 1 for recovery_factor_interpolator regenerated from reservoir.py: the lookup object it returns, applied to a
   query time, is the model's clamped lookup over the stored (time, recovery) pairs - zero before the first stored time, the
   last stored recovery after the last one, the stored value at every stored time, and never outside the range of the stored
   recoveries.  This is the function `rf` that the forecast theorems of C05_forecast.v quantify over. *)
From Coq Require Import Reals List Lra Lia.
From BBLib Require Import PyPrelude NumSig Interp InterpThms.
From BBRun Require Import Gen_reservoir.
Import ListNotations.
Open Scope R_scope.

Theorem C05_interpolator_is_model_lookup : forall time recovery q,
  recovery_lookup time recovery q = Some (interp_fill NumR 0 (last recovery 0) time recovery q).
Proof. intros. reflexivity. Qed.
Print Assumptions C05_interpolator_is_model_lookup.

Theorem C05_interpolator_outside_the_stored_times : forall time recovery q,
  (q < hd 0 time -> recovery_lookup time recovery q = Some 0) /\
  (hd 0 time <= last time 0 -> last time 0 < q -> recovery_lookup time recovery q = Some (last recovery 0)).
Proof.
  intros. rewrite C05_interpolator_is_model_lookup.
  destruct (interp_fill_outside 0 (last recovery 0) time recovery q) as [A B]. split; intros; f_equal; auto.
Qed.
Print Assumptions C05_interpolator_outside_the_stored_times.

Theorem C05_interpolator_reproduces_stored_values : forall time recovery j,
  incr time -> length recovery = length time -> (2 <= length time)%nat -> (j < length time)%nat ->
  recovery_lookup time recovery (nth j time 0) = Some (nth j recovery 0).
Proof. intros. rewrite C05_interpolator_is_model_lookup. f_equal. now apply interp_fill_at_node. Qed.
Print Assumptions C05_interpolator_reproduces_stored_values.

Lemma last_in_range lo hi : forall l, l <> [] -> ys_in lo hi l -> lo <= last l 0 <= hi.
Proof.
  induction l as [|a l IH]; intros Hne H; [congruence|]. destruct l as [|b l'].
  - simpl. apply (H 0%nat). simpl; lia.
  - change (last (a :: b :: l') 0) with (last (b :: l') 0). apply IH; [congruence|].
    intros j Hj. apply (H (S j)). simpl in *; lia.
Qed.

(* a recovery history within [0, hi] gives a forecast kernel within [0, hi] at every real time *)
Theorem C05_interpolator_stays_in_range : forall time recovery hi q v,
  incr time -> length recovery = length time -> (2 <= length time)%nat -> ys_in 0 hi recovery ->
  recovery_lookup time recovery q = Some v -> 0 <= v <= hi.
Proof.
  intros time recovery hi q v Hinc Hlen Hn Hys E. rewrite C05_interpolator_is_model_lookup in E. injection E as <-.
  assert (Hl : 0 <= last recovery 0 <= hi).
  { apply last_in_range; [|exact Hys]. destruct recovery; [simpl in Hlen; lia|congruence]. }
  apply interp_fill_range; auto; lra.
Qed.
Print Assumptions C05_interpolator_stays_in_range.

Example C05_interpolator_example :
  recovery_lookup [0; 1; 4] [0; 1/2; 3/4] 1 = Some (1/2) /\ recovery_lookup [0; 1; 4] [0; 1/2; 3/4] 9 = Some (3/4).
Proof.
  split.
  - apply (C05_interpolator_reproduces_stored_values [0; 1; 4] [0; 1/2; 3/4] 1%nat); simpl; try lia.
    simpl. lra.
  - apply (proj2 (C05_interpolator_outside_the_stored_times [0; 1; 4] [0; 1/2; 3/4] 9)); simpl; lra.
Qed.

(* the forecast built on the library's own lookup: bounded by M times the largest stored recovery at every real time, for every
   positive tau - and exactly M times the last stored recovery once time/tau is past the last stored time (the plateau) *)
From BBRun Require Import Gen_forecast.
Definition library_curve (time recovery : list R) (q : R) : R := interp_fill NumR 0 (last recovery 0) time recovery q.

Theorem C05_forecast_on_library_curve_is_bounded : forall time recovery hi t M tau,
  incr time -> length recovery = length time -> (2 <= length time)%nat -> ys_in 0 hi recovery -> 0 <= M ->
  0 <= forecast_cum_onephase (library_curve time recovery) t M tau <= M * hi.
Proof.
  intros time recovery hi t M tau Hinc Hlen Hn Hys HM. unfold forecast_cum_onephase; cbv zeta.
  assert (B : 0 <= library_curve time recovery (t / tau) <= hi).
  { apply (C05_interpolator_stays_in_range time recovery hi (t / tau)); auto; try apply C05_interpolator_is_model_lookup. }
  split; [apply Rmult_le_pos; lra | apply Rmult_le_compat_l; lra].
Qed.
Print Assumptions C05_forecast_on_library_curve_is_bounded.

Theorem C05_forecast_on_library_curve_plateaus : forall time recovery t M tau,
  hd 0 time <= last time 0 -> last time 0 < t / tau ->
  forecast_cum_onephase (library_curve time recovery) t M tau = M * last recovery 0.
Proof.
  intros time recovery t M tau H1 H2. unfold forecast_cum_onephase, library_curve; cbv zeta.
  destruct (interp_fill_outside 0 (last recovery 0) time recovery (t / tau)) as [_ B]. rewrite (B H1 H2). reflexivity.
Qed.
Print Assumptions C05_forecast_on_library_curve_plateaus.
