(* C13 (water clause): the hand-coded pressure derivative of the water formation volume
   factor is the derivative of the library's own b_water_McCain, at every (T, p). *)
From Coq Require Import Reals Lra.
From Coquelicot Require Import Coquelicot.
From BBLib Require Import PyPrelude.
From BBRun Require Import Gen_water.
Open Scope R_scope.

Lemma Bw_dp_is_derivative T p :
  is_derive (fun q => b_water_McCain T q) p (b_water_McCain_dp T p).
Proof.
  unfold b_water_McCain, b_water_McCain_dp. cbv zeta.
  auto_derive; [exact I|]. field.
Qed.

Theorem C13_Bw_dp_is_derivative : forall T p,
  is_derive (fun q => b_water_McCain T q) p (b_water_McCain_dp T p).
Proof. exact Bw_dp_is_derivative. Qed.
Print Assumptions C13_Bw_dp_is_derivative.
